#!/bin/bash
# usage: eval_seed.sh <seeddir containing patch.diff demo_test.go meta.json> <prop> [more props...]
# 1. confirms the seeded change on a scratch copy of /repo's working tree: applies, whole suite passes,
#    demo fails with it and passes without it;  2. runs the named checks on the patched copy.
set -u
sd="$1"; shift
export GOFLAGS=-mod=mod GOPROXY=off GOSUMDB=off GOTOOLCHAIN=local; unset GOWORK
d=$(mktemp -d /tmp/evalseed.XXXXXX)
mkdir -p "$d/repo" "$d/verif"
rsync -a --exclude .git --exclude SEED /repo/ "$d/repo/"
cp /verif/known_findings.json "$d/verif/" 2>/dev/null
res="applies=? suite=? demo_with=? demo_without=?"
cd "$d/repo"
demo=zz_seed_demo_test.go
cp "$sd/demo_test.go" $demo
go test -vet=off -count=1 -run 'TestSeed' . > "$d/without.log" 2>&1; without=$?
if ! patch -p1 --quiet < "$sd/patch.diff" > "$d/patch.log" 2>&1; then echo "RESULT $(basename $(dirname $sd))/$(basename $sd) applies=NO"; cat "$d/patch.log" | head -5; rm -rf "$d"; exit 3; fi
go test -vet=off -count=1 -run 'TestSeed' . > "$d/with.log" 2>&1; with=$?
rm -f $demo
go test -vet=off -count=1 ./... > "$d/suite.log" 2>&1; suite=$?
echo "RESULT $sd applies=yes suite_rc=$suite demo_with_rc=$with demo_without_rc=$without"
for p in "$@"; do
  ${VERIFCHK:-/verif/bin/verifchk} -prop "$p" -repo "$d/repo" -verif "$d/verif" > "$d/chk.log" 2>&1; rc=$?
  echo "  CHECK $p exit=$rc"; grep -A1 '^VIOLATION' "$d/chk.log" | grep -v '^VIOLATION\|^--' | sed "s#$d/##g" | cut -c1-260 | head -${MAXV:-4}
  grep '^CHECKER-ERROR' "$d/chk.log" | head -3
done
cd /; rm -rf "$d"
