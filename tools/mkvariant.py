#!/usr/bin/env python3
"""mkvariant.py out.diff file old new [file old new ...] — builds a unified diff against /repo's working tree."""
import sys, subprocess, tempfile, os, shutil
out=sys.argv[1]; args=sys.argv[2:]
d=tempfile.mkdtemp(prefix='/tmp/mkv.')
diffs=[]
try:
    for i in range(0,len(args),3):
        f,old,new=args[i:i+3]
        src=open('/repo/'+f).read()
        if src.count(old)!=1:
            print("pattern occurs %d times in %s"%(src.count(old),f)); sys.exit(2)
        os.makedirs(os.path.dirname(d+'/b/'+f) or '.',exist_ok=True)
        os.makedirs(os.path.dirname(d+'/a/'+f) or '.',exist_ok=True)
        open(d+'/a/'+f,'w').write(src)
        open(d+'/b/'+f,'w').write(src.replace(old,new))
    r=subprocess.run(['diff','-ruN','a','b'],cwd=d,capture_output=True,text=True)
    open(out,'w').write(r.stdout)
finally:
    shutil.rmtree(d)
