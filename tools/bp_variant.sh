#!/bin/bash
# env: SKIP_SUITE=1 skips the test suite; PROPS="C01 C14" restricts the checks
# usage: bp_variant.sh <patch.diff>  — behaviour-preserving variant: suite must pass, and ALL checks must stay silent (exit 0)
set -u
patch="$1"
d=$(mktemp -d /tmp/variant.XXXXXX)
mkdir -p "$d/repo" "$d/verif"
rsync -a --exclude .git /repo/ "$d/repo/"
cp /verif/known_findings.json "$d/verif/" 2>/dev/null
if ! (cd "$d/repo" && patch -p1 --quiet < "$patch"); then echo "PATCH FAILED"; rm -rf "$d"; exit 3; fi
export GOFLAGS=-mod=mod GOPROXY=off GOSUMDB=off GOTOOLCHAIN=local; unset GOWORK
[ -n "${SKIP_SUITE:-}" ] || (cd "$d/repo" && go test -vet=off -count=1 ./... > "$d/suite.log" 2>&1) || { echo "SUITE FAILS (not behaviour-preserving?)"; tail -5 "$d/suite.log"; }
for p in ${PROPS:-C01 C02 C03 C04 C05 C06 C07 C08 C09 C10 C11 C12 C13 C14 C15 C16 C17 C18 C19 C20}; do
  mkdir -p "$d/verif-$p"; cp "$d/verif/known_findings.json" "$d/verif-$p/" 2>/dev/null
  ( ${VERIFCHK:-/verif/bin/verifchk} -prop "$p" -repo "$d/repo" -verif "$d/verif-$p" > "$d/$p.log" 2>&1; echo $? > "$d/$p.rc" ) &
  while [ $(jobs -r | wc -l) -ge 8 ]; do sleep 0.2; done
done
wait
for p in ${PROPS:-C01 C02 C03 C04 C05 C06 C07 C08 C09 C10 C11 C12 C13 C14 C15 C16 C17 C18 C19 C20}; do
  rc=$(cat "$d/$p.rc")
  if [ "$rc" != 0 ]; then echo "  $p exit=$rc"; grep -A1 '^VIOLATION' "$d/$p.log" | grep -v '^VIOLATION\|^--' | sed "s#$d/##g" | cut -c1-260 | head -3; grep '^CHECKER-ERROR' "$d/$p.log" | head -2 | cut -c1-200; fi
done
rm -rf "$d"
