#!/bin/bash
# keep_seed.sh <seeddir> <name> <prop> "<detected_by or MISSED:reason>"  — confirm via eval_seed and store under /verif/seeded/<name>/
set -u
sd="$1"; name="$2"; prop="$3"; det="$4"
out=$(/verif/tools/eval_seed.sh "$sd" "$prop" 2>&1)
echo "$out"
if ! echo "$out" | grep -q "applies=yes suite_rc=0 demo_with_rc=1 demo_without_rc=0"; then echo "NOT CONFIRMED: $name"; exit 1; fi
dst=/verif/seeded/$name; mkdir -p "$dst"
cp "$sd/patch.diff" "$dst/patch.diff"; cp "$sd/demo_test.go" "$dst/demo_test.go.txt"
chk=$(echo "$out" | grep "CHECK $prop" | sed 's/.*exit=//')
python3 - "$sd/meta.json" "$dst/meta.json" "$prop" "$det" "$chk" "$out" <<'PY'
import json,sys
src,dst,prop,det,chk,out=sys.argv[1:7]
try: m=json.load(open(src))
except Exception: m={}
m['property']=prop
m['confirmed']={"ran":"tools/eval_seed.sh on a scratch copy of /repo HEAD: patch applies, whole suite passes with it, demo fails with it (rc=1) and passes without it (rc=0)"}
m['check_exit_with_seed']=int(chk) if chk.isdigit() else chk
m['detected_by']=det
m['first_violations']=[l.strip() for l in out.splitlines() if l.startswith('  ') and 'CHECK' not in l][:4]
if det=='auto':
    rules=[]
    for l in m['first_violations']:
        k=l.split(' at ')[0]
        rule=':'.join(k.split(':')[:1])
        if rule and rule not in rules: rules.append(rule)
    m['detected_by']=' + '.join(rules) if rules else 'MISSED'
if isinstance(m['check_exit_with_seed'],int) and m['check_exit_with_seed']!=1:
    m['detected_by']='MISSED (check exit %s)'%m['check_exit_with_seed']
json.dump(m,open(dst,'w'),indent=1)
PY
echo "kept $name (check exit $chk)"
