#!/bin/bash
# usage: try_variant.sh <patch.diff> <prop>...   — applies the patch to a scratch copy of /repo's
# working tree, runs the named property checks on it (evidence goes to a scratch dir), removes the copy.
set -u
patch="$1"; shift
d=$(mktemp -d /tmp/variant.XXXXXX)
mkdir -p "$d/repo" "$d/verif"
rsync -a --exclude .git /repo/ "$d/repo/"
cp /verif/known_findings.json "$d/verif/" 2>/dev/null
if ! (cd "$d/repo" && patch -p1 --quiet < "$patch"); then echo "PATCH FAILED"; rm -rf "$d"; exit 3; fi
export GOFLAGS=-mod=mod GOPROXY=off GOSUMDB=off GOTOOLCHAIN=local; unset GOWORK
if [ "${BUILDTEST:-0}" = 1 ]; then (cd "$d/repo" && go test -vet=off -count=1 ./... 2>&1 | tail -3); fi
rc=0
for p in "$@"; do
  /verif/bin/verifchk -prop "$p" -repo "$d/repo" -verif "$d/verif" | grep -v '^property=' | sed "s#$d/##g" | head -${LINES_MAX:-12}
  r=${PIPESTATUS[0]}; echo "[$p exit=$r]"; [ $r -ne 0 ] && rc=$r
done
rm -rf "$d"
exit $rc
