package main

// R1: the attribute-kind table and its restatements.

import (
	"fmt"
	"go/constant"
	"go/types"
	"sort"
	"strings"

	"golang.org/x/tools/go/ssa"
)

type kindRow struct {
	Name  string     // AttrTypeInt8
	Val   int64      // 3
	Go    types.Type // int8
	GoPtr types.Type // *int8
	Str   string     // "int8" (GetAttrTypeString)
}

type kindTable struct {
	rows []kindRow
	p    *Prog
}

// fmtTypeString is what fmt's %T and reflect.Type.String() print for t.
func fmtTypeString(t types.Type) string {
	s := types.TypeString(t, func(p *types.Package) string { return p.Name() })
	s = strings.ReplaceAll(s, "[]byte", "[]uint8")
	return s
}

func structVal(fields map[string]*aval) *aval { return &aval{k: aStruct, fields: fields} }

func intConst(n int64) *aval { return constv(constant.MakeInt64(n), types.Typ[types.Int]) }
func strConst(s string) *aval { return constv(constant.MakeString(s), types.Typ[types.String]) }

// buildKindTable reads the AttrType* constants and evaluates GetZeroValue for
// every (kind, nullable) scenario.
func buildKindTable(p *Prog, r *Report) *kindTable {
	kt := &kindTable{p: p}
	scope := p.Types.Scope()
	for _, name := range scope.Names() {
		c, ok := scope.Lookup(name).(*types.Const)
		if !ok || !strings.HasPrefix(name, "AttrType") || name == "AttrTypeInvalid" {
			continue
		}
		v, ok := constant.Int64Val(c.Val())
		if !ok {
			continue
		}
		kt.rows = append(kt.rows, kindRow{Name: name, Val: v})
	}
	sort.Slice(kt.rows, func(i, j int) bool { return kt.rows[i].Val < kt.rows[j].Val })
	gz := p.Fn("GetZeroValue")
	gs := p.Fn("GetAttrTypeString")
	if gz == nil || gs == nil {
		r.fail("anchors GetZeroValue / GetAttrTypeString not found")
		return kt
	}
	r.fn("GetZeroValue")
	r.fn("GetAttrTypeString")
	for i := range kt.rows {
		row := &kt.rows[i]
		for _, nullable := range []bool{false, true} {
			in := &interp{p: p, f: gz}
			outs := in.run(map[*ssa.Parameter]*aval{gz.Params[0]: intConst(row.Val), gz.Params[1]: boolv(nullable)})
			key := fmt.Sprintf("GetZeroValue:%s:nullable=%v", row.Name, nullable)
			if len(outs) != 1 || outs[0].ret == nil || len(outs[0].results) != 1 || outs[0].results[0].k != aIface {
				r.bad("R1.zero-table", key, p.pos(gz.Pos()), fmt.Sprintf("GetZeroValue does not return one boxed value for this kind (got %v)", summarize(outs, 0)))
				continue
			}
			res := outs[0].results[0]
			if nullable {
				pt, isPtr := res.t.Underlying().(*types.Pointer)
				okNil := res.dyn != nil && res.dyn.k == aNil
				if !isPtr || !okNil {
					r.bad("R1.zero-table", key, p.pos(outs[0].ret.Pos()), "the zero value of a nullable kind must be a nil pointer; got "+typeStr(res.t)+" "+res.String())
					continue
				}
				row.GoPtr = res.t
				if row.Go != nil && !types.Identical(pt.Elem(), row.Go) {
					r.bad("R1.zero-table", key, p.pos(outs[0].ret.Pos()), "nullable zero is "+typeStr(res.t)+" but the non-nullable zero is "+typeStr(row.Go))
					continue
				}
				r.ok("R1.zero-table", key, p.pos(outs[0].ret.Pos()), "nil "+typeStr(res.t))
			} else {
				if _, isPtr := res.t.Underlying().(*types.Pointer); isPtr {
					r.bad("R1.zero-table", key, p.pos(outs[0].ret.Pos()), "the zero value of a non-nullable kind must not be a pointer; got "+typeStr(res.t))
					continue
				}
				zeroOK := false
				switch {
				case res.dyn.k == aConst:
					switch res.dyn.c.Kind() {
					case constant.String:
						zeroOK = constant.StringVal(res.dyn.c) == ""
					case constant.Int:
						zeroOK = constant.Sign(res.dyn.c) == 0
					case constant.Bool:
						zeroOK = !constant.BoolVal(res.dyn.c)
					}
				default:
					// composite zero (time.Time{}, []byte{}): a fresh literal with no stored data
					zeroOK = valKind(outs[0].ret.Results[0]) == "empty"
				}
				row.Go = res.t
				r.decide(zeroOK, "R1.zero-table", key, p.pos(outs[0].ret.Pos()), "zero "+typeStr(res.t), "the value returned for a non-nullable kind is not the zero value of "+typeStr(res.t)+": "+res.String())
			}
		}
		// name string
		in := &interp{p: p, f: gs}
		outs := in.run(map[*ssa.Parameter]*aval{gs.Params[0]: intConst(row.Val), gs.Params[1]: boolv(false)})
		if len(outs) == 1 && len(outs[0].results) == 1 && outs[0].results[0].k == aConst {
			row.Str = constant.StringVal(outs[0].results[0].c)
		}
	}
	// unknown kinds have no zero value
	in := &interp{p: p, f: gz}
	outs := in.run(map[*ssa.Parameter]*aval{gz.Params[0]: intConst(0), gz.Params[1]: boolv(false)})
	r.decide(len(outs) == 1 && len(outs[0].results) == 1 && outs[0].results[0].k == aNil, "R1.zero-table", "GetZeroValue:AttrTypeInvalid", p.pos(gz.Pos()),
		"nil for the invalid kind", fmt.Sprintf("GetZeroValue(AttrTypeInvalid) = %v", summarize(outs, 0)))
	return kt
}

// allTypes returns the 2n Go types of the table.
func (kt *kindTable) allTypes() []types.Type {
	var out []types.Type
	for _, row := range kt.rows {
		if row.Go != nil {
			out = append(out, row.Go)
		}
	}
	for _, row := range kt.rows {
		if row.GoPtr != nil {
			out = append(out, row.GoPtr)
		}
	}
	return out
}

// checkNameTables: GetAttrTypeString and GetAttrType are inverse, and
// GetAttrType maps the %T spelling of each Go type to its (kind, nullable).
func (kt *kindTable) checkNameTables(r *Report) {
	p := kt.p
	gs, ga := p.Fn("GetAttrTypeString"), p.Fn("GetAttrType")
	if gs == nil || ga == nil {
		r.fail("anchors GetAttrTypeString / GetAttrType not found")
		return
	}
	r.fn("GetAttrType")
	names := map[string]string{}
	evalGA := func(s string) (int64, bool, bool) {
		in := &interp{p: p, f: ga}
		outs := in.run(map[*ssa.Parameter]*aval{ga.Params[0]: strConst(s)})
		if len(outs) != 1 || len(outs[0].results) != 2 || outs[0].results[0].k != aConst || outs[0].results[1].k != aConst {
			return 0, false, false
		}
		k, _ := constant.Int64Val(outs[0].results[0].c)
		return k, constant.BoolVal(outs[0].results[1].c), true
	}
	for _, row := range kt.rows {
		for _, nullable := range []bool{false, true} {
			in := &interp{p: p, f: gs}
			outs := in.run(map[*ssa.Parameter]*aval{gs.Params[0]: intConst(row.Val), gs.Params[1]: boolv(nullable)})
			key := fmt.Sprintf("%s:nullable=%v", row.Name, nullable)
			if len(outs) != 1 || len(outs[0].results) != 1 || outs[0].results[0].k != aConst {
				r.bad("R1.name-table", "GetAttrTypeString:"+key, p.pos(gs.Pos()), fmt.Sprintf("no constant name for this kind: %v", summarize(outs, 0)))
				continue
			}
			s := constant.StringVal(outs[0].results[0].c)
			prev, dup := names[s]
			names[s] = key
			good := s != "" && s != "*" && !dup && strings.HasPrefix(s, "*") == nullable
			r.decide(good, "R1.name-table", "GetAttrTypeString:"+key, p.pos(gs.Pos()), fmt.Sprintf("%q", s),
				fmt.Sprintf("name %q is empty, lacks/has the '*' prefix wrongly, or is already used by %s", s, prev))
			k, n, ok := evalGA(s)
			r.decide(ok && k == row.Val && n == nullable, "R1.name-table", "GetAttrType(GetAttrTypeString):"+key, p.pos(ga.Pos()),
				"round trip", fmt.Sprintf("GetAttrType(%q) = (%d,%v), expected (%d,%v)", s, k, n, row.Val, nullable))
			// %T spelling of the Go type
			var gt types.Type = row.Go
			if nullable {
				gt = row.GoPtr
			}
			if gt != nil {
				ts := fmtTypeString(gt)
				k, n, ok := evalGA(ts)
				r.decide(ok && k == row.Val && n == nullable, "R1.name-table", "GetAttrType(%T):"+key, p.pos(ga.Pos()),
					fmt.Sprintf("%q -> (%s,%v)", ts, row.Name, nullable),
					fmt.Sprintf("GetAttrType(%q) = (%d,%v) but a value of Go type %s belongs to (%s,%v): SoftResource.Set / BuildType classify it wrongly", ts, k, n, ts, row.Name, nullable))
			}
		}
	}
	// an unknown name is invalid
	k, _, ok := evalGA("float64")
	r.decide(ok && k == 0, "R1.name-table", "GetAttrType:unknown", p.pos(ga.Pos()), "unknown type names map to AttrTypeInvalid", "an unsupported type name is accepted as an attribute kind")
}

// attrStruct builds the abstract Attr value {Name: sym, Type: k, Nullable: n}.
func attrStruct(k int64, nullable bool) *aval {
	return structVal(map[string]*aval{"Name": symv("a.Name", types.Typ[types.String]), "Type": intConst(k), "Nullable": boolv(nullable)})
}

// unmarshalOutcomes evaluates Attr.UnmarshalToType for one (kind, nullable).
func (kt *kindTable) unmarshalOutcomes(k int64, nullable bool) ([]outcome, *ssa.Function) {
	f := kt.p.Fn("(Attr).UnmarshalToType")
	if f == nil {
		return nil, nil
	}
	in := &interp{p: kt.p, f: f, inline: smallHelper}
	outs := in.run(map[*ssa.Parameter]*aval{f.Params[0]: attrStruct(k, nullable), f.Params[1]: symv("data", f.Params[1].Type())})
	return outs, f
}

// checkUnmarshalTypes: every successful return of UnmarshalToType for kind K
// carries a value of exactly the table's Go type.
func (kt *kindTable) checkUnmarshalTypes(r *Report) {
	p := kt.p
	for _, row := range kt.rows {
		for _, nullable := range []bool{false, true} {
			outs, f := kt.unmarshalOutcomes(row.Val, nullable)
			if f == nil {
				r.fail("anchor (Attr).UnmarshalToType not found")
				return
			}
			r.fn(funcName(f))
			want := row.Go
			if nullable {
				want = row.GoPtr
			}
			key := fmt.Sprintf("UnmarshalToType:%s:nullable=%v", row.Name, nullable)
			nSucc := 0
			bad := ""
			for _, o := range outs {
				if o.ret == nil || len(o.results) != 2 {
					continue
				}
				if o.results[1].k != aNil {
					continue // error return
				}
				nSucc++
				v := o.results[0]
				if v.k != aIface || want == nil || !types.Identical(v.t, want) {
					got := "?"
					if v.k == aIface {
						got = typeStr(v.t)
					} else {
						got = v.String()
					}
					bad = "a successful return carries " + got
				}
			}
			if nSucc == 0 {
				bad = "no successful return for this kind"
			}
			ws := "?"
			if want != nil {
				ws = typeStr(want)
			}
			r.decide(bad == "", "R1.unmarshal-type", key, p.pos(f.Pos()), fmt.Sprintf("%d successful path(s), all yield %s", nSucc, ws),
				"decoding an attribute of this kind must yield a "+ws+": "+bad)
		}
	}
	// unknown kind: no success
	outs, f := kt.unmarshalOutcomes(0, false)
	if f != nil {
		n := 0
		for _, o := range outs {
			if o.ret != nil && len(o.results) == 2 && o.results[1].k == aNil {
				n++
			}
		}
		r.decide(n == 0, "R1.unmarshal-type", "UnmarshalToType:AttrTypeInvalid", p.pos(f.Pos()), "an attribute of invalid kind is never decoded successfully", "an attribute of invalid kind can be decoded successfully")
	}
}

// typeSwitchCases returns the types tested by comma-ok assertions on v
// (the arms of `switch x := v.(type)`), with the assertion instruction.
func typeSwitchCases(f *ssa.Function, v ssa.Value) map[string]*ssa.TypeAssert {
	out := map[string]*ssa.TypeAssert{}
	typeSwitchCasesInto(f, v, out, 0)
	return out
}

// typeSwitchCasesInto also follows the value into an unexported function of
// the package it is handed to unchanged (a switch continued in a helper,
// typically from the default arm).
func typeSwitchCasesInto(f *ssa.Function, v ssa.Value, out map[string]*ssa.TypeAssert, depth int) {
	eachInstr(f, func(ins ssa.Instruction) {
		switch x := ins.(type) {
		case *ssa.TypeAssert:
			if x.CommaOk && x.X == v {
				if _, dup := out[fmtTypeString(x.AssertedType)]; !dup {
					out[fmtTypeString(x.AssertedType)] = x
				}
			}
		case *ssa.Call:
			g := x.Common().StaticCallee()
			if g == nil || g.Blocks == nil || depth >= 2 || g == f || g.Pkg != f.Pkg || g.Name() == "" || g.Name()[0] < 'a' || g.Name()[0] > 'z' || x.Common().IsInvoke() {
				return
			}
			for i, a := range x.Common().Args {
				if a == v && i < len(g.Params) {
					typeSwitchCasesInto(g, g.Params[i], out, depth+1)
				}
			}
		}
	})
}

// checkSwitchCoverage: the type switch on value v in f has an arm for each
// Go type of the table (plus extra, e.g. []string).
func (kt *kindTable) checkSwitchCoverage(r *Report, f *ssa.Function, v ssa.Value, what string, extra []string, consequence string, floor int) map[string]*ssa.TypeAssert {
	cases := typeSwitchCases(f, v)
	r.fn(funcName(f))
	want := []string{}
	for _, t := range kt.allTypes() {
		want = append(want, fmtTypeString(t))
	}
	want = append(want, extra...)
	for _, ts := range want {
		_, ok := cases[ts]
		r.decide(ok, "R1.switch-coverage", what+":case "+ts, kt.p.pos(f.Pos()), "has an arm", "the type switch in "+what+" has no arm for "+ts+": "+consequence)
	}
	r.floor(what+" type-switch arms", len(cases), floor)
	return cases
}
