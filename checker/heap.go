package main

// A small summary-based, flow-insensitive, field-sensitive may-alias / mod
// analysis over access paths (R6 of DESIGN.md).
//
// Locations are named by access paths: a root followed by steps.
//   roots:  P<i>  the object the i-th parameter (receiver = 0) refers to
//           F<k>  the variable captured as k-th free variable of a closure
//           G:<x> a package-level variable
//           S<n>  an allocation site of the function (local var, new, make, literal)
//           R<c>/… an allocation site of a callee, instantiated at call site c
//           U<n>  opaque fresh memory produced by the standard library
//           ?     unknown
//   steps:  .f    field f of a struct stored inline
//           []    element of a slice backing array / map / array
//           *     the object a reference stored at that location refers to
//
// A value of pointer/map/slice/chan/func/interface type is abstracted by the
// set of locations it may refer to; a struct value by the set of locations it
// may have been copied from (its reference-typed fields are read lazily from
// there). Roots P, F, G, U and ? are "lazy": a reference stored at location l
// that the function did not itself create refers to the object named l+"*".
//
// For every function the analysis produces a summary: the locations it may
// write (with the kind of write), the points-to / struct-copy facts it adds to
// caller-visible memory, and the abstract values it returns. Call sites
// instantiate callee summaries by substituting actual arguments for P<i>.

import (
	"fmt"
	"go/token"
	"go/types"
	"os"
	"sort"
	"strings"
	"time"

	"golang.org/x/tools/go/ssa"
)

const maxSteps = 7

type locset map[string]bool

func (s locset) add(l string) bool {
	if l == "" || s[l] {
		return false
	}
	s[l] = true
	return true
}

func (s locset) addAll(o locset) bool {
	ch := false
	for l := range o {
		if s.add(l) {
			ch = true
		}
	}
	return ch
}

func (s locset) sorted() []string {
	out := make([]string, 0, len(s))
	for l := range s {
		out = append(out, l)
	}
	sort.Strings(out)
	return out
}

// splitLoc splits a location name into root and steps.
func splitLoc(l string) (root string, steps []string) {
	l = untag(l)
	// root ends at the first step marker that is not inside an R<c>/ prefix
	i := 0
	for i < len(l) {
		c := l[i]
		if c == '.' || c == '[' || c == '*' || c == '~' {
			break
		}
		i++
	}
	root = l[:i]
	rest := l[i:]
	for len(rest) > 0 {
		switch rest[0] {
		case '*':
			steps = append(steps, "*")
			rest = rest[1:]
		case '~':
			steps = append(steps, "~")
			rest = rest[1:]
		case '[':
			steps = append(steps, "[]")
			rest = rest[2:]
		case '.':
			j := 1
			for j < len(rest) && rest[j] != '.' && rest[j] != '[' && rest[j] != '*' && rest[j] != '~' {
				j++
			}
			steps = append(steps, rest[:j])
			rest = rest[j:]
		default:
			// should not happen
			steps = append(steps, rest)
			rest = ""
		}
	}
	return
}

func rootOf(l string) string {
	r, _ := splitLoc(l)
	return r
}

// step appends one step to a location, collapsing overly long paths.
// untag strips the "%" marker (value obtained through reflect.Interface()).
func untag(l string) string { return strings.TrimPrefix(l, "%") }

func tagged(l string) bool { return strings.HasPrefix(l, "%") }

func step(l, s string) string {
	l = untag(l)
	if strings.HasSuffix(l, "~") {
		return l
	}
	if l != "" && l[0] == 'U' {
		// opaque fresh memory is one blob per allocation site
		return rootOf(l)
	}
	_, steps := splitLoc(l)
	if len(steps) >= maxSteps {
		return rootOf(l) + "~"
	}
	return l + s
}

func lazyRoot(root string) bool {
	if root == "" {
		return false
	}
	switch root[0] {
	case 'P', 'F', 'G', '?':
		return true
	}
	return false
}

// external reports whether a location belongs to memory that exists
// independently of this call (parameter-, capture-, global- or unknown-rooted).
func externalLoc(l string) bool {
	r := rootOf(l)
	if r == "" {
		return false
	}
	switch r[0] {
	case 'P', 'F', 'G', '?':
		return true
	}
	return false
}

type copyEdge struct{ dst, src string }

// A Mod is one possible write to a location.
type Mod struct {
	Loc  string
	Kind string // store | mapupdate | delete | sort | copy | append | unmarshal | reflect.Set
	Pos  token.Pos
	Fn   string // function containing the writing instruction
	Via  string // call chain from the summarised function ("" when direct)
	Desc string
	Typ  string // static type of the written container / location
}

func (m Mod) key() string { return m.Loc + "|" + m.Kind + "|" + m.Fn + "|" + fmt.Sprint(m.Pos) }

type Summary struct {
	fn     *ssa.Function
	mods   map[string]Mod
	pts    map[string]locset
	copies map[copyEdge]bool
	rets   []locset
	// static types of the values whose storing created each points-to edge
	edgeTyp map[string]map[string]bool
	size    int
}

func (s *Summary) measure() int {
	n := len(s.mods) + len(s.copies)
	for _, p := range s.pts {
		n += len(p)
	}
	for _, r := range s.rets {
		n += len(r)
	}
	return n
}

type Heap struct {
	p    *Prog
	sums map[*ssa.Function]*Summary
	// per-function analysis states of the last round (for rule queries)
	states     map[*ssa.Function]*fnState
	Unmodelled map[string]int
	fnIndex    map[*ssa.Function]int
	// summaries of functions analysed under the assumption that some
	// parameters hold values boxed by reflect.Value.Interface() ("%" tagged)
	ctxSums  map[ctxKey]*Summary
	ctxOrder []ctxKey
	newCtx   bool
}

type ctxKey struct {
	fn   *ssa.Function
	mask string // one byte per parameter: 't' tagged, '-' not
}

type fnState struct {
	h      *Heap
	fn     *ssa.Function
	val    map[ssa.Value]locset
	tuple  map[ssa.Value][]locset
	pts    map[string]locset
	copies map[copyEdge]bool
	mods   map[string]Mod
	siteID map[ssa.Value]string
	nsite  int
	chg    bool
	// static types of the values whose storing created a points-to edge
	edgeTyp map[string]map[string]bool // "loc\x00target" -> type strings
}

func isReflectValue(t types.Type) bool {
	nt, ok := t.(*types.Named)
	return ok && nt.Obj().Pkg() != nil && nt.Obj().Pkg().Path() == "reflect" && nt.Obj().Name() == "Value"
}

func refLike(t types.Type) bool {
	if isReflectValue(t) {
		return true
	}
	switch t.Underlying().(type) {
	case *types.Pointer, *types.Map, *types.Slice, *types.Chan, *types.Signature, *types.Interface:
		return true
	case *types.Basic:
		return t.Underlying().(*types.Basic).Kind() == types.UnsafePointer
	}
	return false
}

func aggregate(t types.Type) bool {
	if isReflectValue(t) {
		return false
	}
	switch t.Underlying().(type) {
	case *types.Struct, *types.Array, *types.Tuple:
		return true
	}
	return false
}

// holdsRefs: a value of this type is or contains references.
func holdsRefs(t types.Type) bool {
	seen := map[types.Type]bool{}
	var rec func(t types.Type) bool
	rec = func(t types.Type) bool {
		if seen[t] {
			return false
		}
		seen[t] = true
		if isReflectValue(t) {
			return true
		}
		switch u := t.Underlying().(type) {
		case *types.Struct:
			for i := 0; i < u.NumFields(); i++ {
				if rec(u.Field(i).Type()) {
					return true
				}
			}
			return false
		case *types.Array:
			return rec(u.Elem())
		case *types.Tuple:
			for i := 0; i < u.Len(); i++ {
				if rec(u.At(i).Type()) {
					return true
				}
			}
			return false
		}
		return refLike(t)
	}
	return rec(t)
}

func newHeap(p *Prog) *Heap {
	h := &Heap{p: p, sums: map[*ssa.Function]*Summary{}, states: map[*ssa.Function]*fnState{}, Unmodelled: map[string]int{}, fnIndex: map[*ssa.Function]int{}, ctxSums: map[ctxKey]*Summary{}}
	for i, f := range p.Funcs {
		h.fnIndex[f] = i
		h.sums[f] = &Summary{fn: f, mods: map[string]Mod{}, pts: map[string]locset{}, copies: map[copyEdge]bool{}}
	}
	for round := 0; round < 12; round++ {
		changed := false
		for i := 0; i < len(h.ctxOrder); i++ {
			k := h.ctxOrder[i]
			st := h.analyse(k.fn, k.mask)
			ns := st.summarise()
			if ns.measure() != h.ctxSums[k].measure() {
				changed = true
			}
			h.ctxSums[k] = ns
		}
		for _, f := range p.Funcs {
			t0 := time.Now()
			st := h.analyse(f, "")
			h.states[f] = st
			ns := st.summarise()
			if ns.measure() != h.sums[f].measure() {
				changed = true
			}
			h.sums[f] = ns
			if os.Getenv("HEAPDEBUG") != "" {
				np := 0
				for _, x := range st.pts {
					np += len(x)
				}
				if funcName(f) == os.Getenv("HEAPDEBUG") {
					for l, ts := range st.pts {
						fmt.Fprintf(os.Stderr, "   pts %s -> %v\n", l, ts.sorted())
					}
					for e := range st.copies {
						fmt.Fprintf(os.Stderr, "   copy %s <= %s\n", e.dst, e.src)
					}
				}
				fmt.Fprintf(os.Stderr, "round %d %-40s sum=%d pts=%d copies=%d mods=%d %.2fs\n", round, funcName(f), ns.measure(), np, len(st.copies), len(st.mods), time.Since(t0).Seconds())
			}
		}
		if !changed && !h.newCtx {
			break
		}
		h.newCtx = false
	}
	return h
}

func (h *Heap) analyse(f *ssa.Function, mask string) *fnState {
	st := &fnState{h: h, fn: f, val: map[ssa.Value]locset{}, tuple: map[ssa.Value][]locset{},
		pts: map[string]locset{}, copies: map[copyEdge]bool{}, mods: map[string]Mod{}, siteID: map[ssa.Value]string{}, edgeTyp: map[string]map[string]bool{}}
	for i, prm := range f.Params {
		if holdsRefs(prm.Type()) {
			name := fmt.Sprintf("P%d", i)
			if i < len(mask) && mask[i] == 't' {
				name = "%" + name
			}
			st.val[prm] = locset{name: true}
		}
	}
	for k, fv := range f.FreeVars {
		st.val[fv] = locset{fmt.Sprintf("F%d", k): true}
	}
	for iter := 0; iter < 30; iter++ {
		st.chg = false
		for _, b := range f.Blocks {
			for _, ins := range b.Instrs {
				st.transfer(ins)
			}
		}
		if !st.chg {
			break
		}
	}
	return st
}

func (st *fnState) site(v ssa.Value, prefix string) string {
	if id, ok := st.siteID[v]; ok {
		return id
	}
	st.nsite++
	id := fmt.Sprintf("%s%d_%d", prefix, st.h.fnIndex[st.fn], st.nsite)
	st.siteID[v] = id
	return id
}

func (st *fnState) get(v ssa.Value) locset {
	if v == nil {
		return nil
	}
	switch x := v.(type) {
	case *ssa.Const:
		return nil
	case *ssa.Global:
		return locset{"G:" + x.Name(): true}
	case *ssa.Function:
		return nil
	case *ssa.Builtin:
		return nil
	}
	return st.val[v]
}

func (st *fnState) set(v ssa.Value, s locset) {
	if len(s) == 0 {
		return
	}
	if _, isTuple := v.Type().(*types.Tuple); !isTuple && !holdsRefs(v.Type()) {
		return // strings, numbers, booleans, time.Time: nothing to alias
	}
	cur := st.val[v]
	if cur == nil {
		cur = locset{}
		st.val[v] = cur
	}
	if cur.addAll(s) {
		st.chg = true
	}
}

func (st *fnState) addPts(l string, targets locset) {
	l = untag(l)
	if len(targets) == 0 {
		return
	}
	cur := st.pts[l]
	if cur == nil {
		cur = locset{}
		st.pts[l] = cur
	}
	if cur.addAll(targets) {
		st.chg = true
	}
}

func (st *fnState) addCopy(dst, src string) {
	dst, src = untag(dst), untag(src)
	if dst == src {
		return
	}
	e := copyEdge{dst, src}
	if !st.copies[e] {
		st.copies[e] = true
		st.chg = true
	}
}

func (st *fnState) mod(l, kind string, ins ssa.Instruction, via string, origFn string, origPos token.Pos, desc string, typ string) {
	l = untag(l)
	m := Mod{Loc: l, Kind: kind, Pos: origPos, Fn: origFn, Via: via, Desc: desc, Typ: typ}
	k := m.key()
	if _, ok := st.mods[k]; !ok {
		st.mods[k] = m
		st.chg = true
	}
}

// deref returns the objects a reference stored at location l may refer to.
func (st *fnState) deref(l string) locset {
	out := locset{}
	st.derefInto(l, out, map[string]bool{})
	return out
}

func hasStepPrefix(l, prefix string) (rest string, ok bool) {
	if !strings.HasPrefix(l, prefix) {
		return "", false
	}
	rest = l[len(prefix):]
	if rest == "" {
		return rest, true
	}
	switch rest[0] {
	case '.', '[', '*', '~':
		return rest, true
	}
	return "", false
}

func (st *fnState) derefInto(l string, out locset, seen map[string]bool) {
	l = untag(l)
	if l == "" {
		return
	}
	if seen[l] {
		return
	}
	seen[l] = true
	out.addAll(st.pts[l])
	if strings.HasSuffix(l, "~") || l[0] == 'U' {
		out.add(l)
	} else if lazyRoot(rootOf(l)) {
		out.add(step(l, "*"))
	}
	for e := range st.copies {
		if rest, ok := hasStepPrefix(l, e.dst); ok {
			st.derefInto(concatLoc(e.src, rest), out, seen)
		}
	}
}

// load abstracts reading a value of type t from the locations in addrs.
func (st *fnState) load(addrs locset, t types.Type) locset {
	if !holdsRefs(t) {
		return nil
	}
	out := locset{}
	if aggregate(t) {
		out.addAll(addrs)
		return out
	}
	for a := range addrs {
		out.addAll(st.deref(a))
	}
	return out
}

// store abstracts writing value v (of type t, abstract value vs) to addrs.
func (st *fnState) store(addrs locset, t types.Type, vs locset) {
	if !holdsRefs(t) {
		return
	}
	for a := range addrs {
		if aggregate(t) {
			for s := range vs {
				st.addCopy(a, s)
			}
		} else {
			st.addPts(a, vs)
		}
	}
}

func (st *fnState) recordWrite(addrs locset, kind string, ins ssa.Instruction, typ any) {
	ts := ""
	switch t := typ.(type) {
	case string:
		ts = t
	case types.Type:
		ts = "elem " + typeStr(t)
	}
	for a := range addrs {
		if externalLoc(a) {
			st.mod(a, kind, ins, "", funcName(st.fn), ins.Pos(), st.h.p.describe(ins), ts)
		}
	}
}

func elemOf(objs locset) locset {
	out := locset{}
	for o := range objs {
		out.add(step(o, "[]"))
	}
	return out
}

func (st *fnState) transfer(ins ssa.Instruction) {
	switch x := ins.(type) {
	case *ssa.Alloc:
		st.set(x, locset{st.site(x, "S"): true})
	case *ssa.MakeMap, *ssa.MakeSlice, *ssa.MakeChan:
		v := x.(ssa.Value)
		st.set(v, locset{st.site(v, "S"): true})
	case *ssa.MakeClosure:
		id := st.site(x, "S")
		st.set(x, locset{id: true})
		for k, b := range x.Bindings {
			st.store(locset{fmt.Sprintf("%s.$%d", id, k): true}, b.Type(), st.get(b))
		}
	case *ssa.FieldAddr:
		out := locset{}
		_, name := fieldRef(x.X, x.Field)
		for l := range st.get(x.X) {
			out.add(step(l, "."+name))
		}
		st.set(x, out)
	case *ssa.Field:
		_, name := fieldRef(x.X, x.Field)
		addrs := locset{}
		for l := range st.get(x.X) {
			addrs.add(step(l, "."+name))
		}
		st.set(x, st.load(addrs, x.Type()))
	case *ssa.IndexAddr:
		// X is a slice value (objects) or a pointer to an array (locations)
		st.set(x, elemOf(st.get(x.X)))
	case *ssa.Index:
		st.set(x, st.load(elemOf(st.get(x.X)), x.Type()))
	case *ssa.Lookup:
		if _, isMap := x.X.Type().Underlying().(*types.Map); isMap {
			t := x.Type()
			if x.CommaOk {
				t = x.Type().(*types.Tuple).At(0).Type()
				vs := st.load(elemOf(st.get(x.X)), t)
				st.setTuple(x, 0, vs)
			} else {
				st.set(x, st.load(elemOf(st.get(x.X)), t))
			}
		}
	case *ssa.Slice:
		st.set(x, st.get(x.X))
	case *ssa.UnOp:
		switch x.Op {
		case token.MUL:
			st.set(x, st.load(st.get(x.X), x.Type()))
		case token.ARROW:
			st.set(x, st.load(elemOf(st.get(x.X)), x.Type()))
		}
	case *ssa.Store:
		addrs := st.get(x.Addr)
		st.store(addrs, x.Val.Type(), st.get(x.Val))
		st.noteTypes(addrs, x.Val)
		st.recordWrite(addrs, "store", x, storeType(x.Addr))
	case *ssa.MapUpdate:
		el := elemOf(st.get(x.Map))
		st.store(el, x.Value.Type(), st.get(x.Value))
		st.noteTypes(el, x.Value)
		st.recordWrite(el, "mapupdate", x, x.Map.Type())
	case *ssa.Send:
		el := elemOf(st.get(x.Chan))
		st.store(el, x.X.Type(), st.get(x.X))
	case *ssa.Phi:
		for _, e := range x.Edges {
			st.set(x, st.get(e))
		}
	case *ssa.ChangeType:
		st.set(x, st.get(x.X))
	case *ssa.ChangeInterface:
		st.set(x, st.get(x.X))
	case *ssa.MakeInterface:
		st.set(x, st.get(x.X))
	case *ssa.SliceToArrayPointer:
		st.set(x, st.get(x.X))
	case *ssa.Convert:
		// string <-> []byte/[]rune conversions allocate
		if _, ok := x.Type().Underlying().(*types.Slice); ok {
			st.set(x, locset{st.site(x, "S"): true})
		} else if holdsRefs(x.Type()) {
			st.set(x, st.get(x.X))
		}
	case *ssa.TypeAssert:
		if !holdsRefs(x.AssertedType) {
			break
		}
		if x.CommaOk {
			st.setTuple(x, 0, st.get(x.X))
		} else {
			st.set(x, st.get(x.X))
		}
	case *ssa.Extract:
		if tp, ok := st.tuple[x.Tuple]; ok && x.Index < len(tp) {
			st.set(x, tp[x.Index])
		}
	case *ssa.Range:
		st.set(x, st.get(x.X))
	case *ssa.Next:
		if !x.IsString {
			if rg, ok := x.Iter.(*ssa.Range); ok {
				if mt, ok := rg.X.Type().Underlying().(*types.Map); ok {
					el := elemOf(st.get(rg))
					st.setTuple(x, 1, st.load(el, mt.Key()))
					st.setTuple(x, 2, st.load(el, mt.Elem()))
				}
			}
		}
	case *ssa.Select:
		// not used by the target package
	case *ssa.Call:
		st.call(x, x)
	case *ssa.Defer:
		st.call(x, nil)
	case *ssa.Go:
		st.call(x, nil)
	case *ssa.Return, *ssa.If, *ssa.Jump, *ssa.Panic, *ssa.RunDefers, *ssa.DebugRef, *ssa.BinOp:
	}
}

func (st *fnState) setTuple(v ssa.Value, i int, s locset) {
	tp := st.tuple[v]
	for len(tp) <= i {
		tp = append(tp, nil)
	}
	if tp[i] == nil {
		tp[i] = locset{}
	}
	if tp[i].addAll(s) {
		st.chg = true
	}
	st.tuple[v] = tp
}

func (st *fnState) setResult(res ssa.Value, i int, n int, s locset) {
	if res == nil {
		return
	}
	if n <= 1 {
		st.set(res, s)
	} else {
		st.setTuple(res, i, s)
	}
}

// call handles builtins, summarised target-package callees, and the
// standard-library contract table.
func (st *fnState) call(c ssa.CallInstruction, res ssa.Value) {
	cc := c.Common()
	nres := 0
	if res != nil {
		if tp, ok := res.Type().(*types.Tuple); ok {
			nres = tp.Len()
		} else {
			nres = 1
		}
	}
	if b, ok := cc.Value.(*ssa.Builtin); ok {
		st.builtin(b.Name(), c, res)
		return
	}
	var args []ssa.Value
	if cc.IsInvoke() {
		args = append(args, cc.Value)
		args = append(args, cc.Args...)
	} else {
		args = cc.Args
	}
	// in-target callees
	for _, g := range st.h.p.cg.Callees(c) {
		actuals := st.actualsFor(c, g, args)
		if actuals["skip"] != nil {
			continue
		}
		sum := st.h.summaryFor(g, actuals)
		if sum == nil {
			continue
		}
		st.instantiate(c, g, sum, actuals, res, nres)
	}
	for _, g := range st.h.p.cg.Externals(c) {
		st.external(c, g, args, res, nres)
	}
	if len(st.h.p.cg.Callees(c)) == 0 && len(st.h.p.cg.Externals(c)) == 0 {
		// unresolved dynamic or interface call: results are unknown
		if cc.IsInvoke() {
			st.invokeExternal(c, args, res, nres)
		} else {
			for i := 0; i < nres; i++ {
				st.setResult(res, i, nres, locset{"?": true})
			}
		}
	}
}

// actualsFor maps the callee's parameters (and free variables) to abstract
// values in the caller.
func (st *fnState) actualsFor(c ssa.CallInstruction, g *ssa.Function, args []ssa.Value) map[string]locset {
	cc := c.Common()
	act := map[string]locset{}
	sc := cc.StaticCallee()
	direct := sc != nil && unwrapSynthetic(sc) == g && !cc.IsInvoke()
	switch {
	case direct && sc == g:
		for i, a := range args {
			act[fmt.Sprintf("P%d", i)] = st.get(a)
		}
	case direct:
		// a bound-method closure or thunk called directly: receiver unknown here
		for i := range g.Params {
			act[fmt.Sprintf("P%d", i)] = locset{"?": true}
		}
	case cc.IsInvoke():
		for i, a := range args {
			vs := st.get(a)
			if i == 0 {
				// a value boxed by reflect.Value.Interface() inside the Wrapper
				// is a plain struct or a basic value (assumption A3): methods
				// with a pointer receiver of a library type are not in its
				// method set
				if _, ptr := g.Signature.Recv().Type().(*types.Pointer); ptr {
					f := locset{}
					for l := range vs {
						if !tagged(l) {
							f.add(l)
						}
					}
					vs = f
				}
			}
			act[fmt.Sprintf("P%d", i)] = vs
		}
		if len(act["P0"]) == 0 {
			act["skip"] = locset{"skip": true}
		}
	case sc != nil:
		// callback from a standard-library function: bind by type
		st.bindCallback(g, args, act)
	default:
		// dynamic call of a func value
		fobjs := st.get(cc.Value)
		if g.Signature.Recv() != nil {
			// bound method value: receiver is the closure's binding
			recv := locset{}
			for o := range fobjs {
				recv.addAll(st.deref(step(o, ".$0")))
			}
			act["P0"] = recv
			for i, a := range args {
				act[fmt.Sprintf("P%d", i+1)] = st.get(a)
			}
		} else {
			for i, a := range args {
				act[fmt.Sprintf("P%d", i)] = st.get(a)
			}
			for k := range g.FreeVars {
				fv := locset{}
				for o := range fobjs {
					fv.addAll(st.deref(step(o, fmt.Sprintf(".$%d", k))))
				}
				act[fmt.Sprintf("F%d", k)] = fv
			}
		}
	}
	return act
}

// bindCallback binds the parameters of a function that the standard library
// calls back (sort.Interface methods, less closures, MarshalJSON, …).
func (st *fnState) bindCallback(g *ssa.Function, args []ssa.Value, act map[string]locset) {
	// closures: free variables from the MakeClosure argument
	for _, a := range args {
		if mc, ok := a.(*ssa.MakeClosure); ok && mc.Fn == g {
			for k := range g.FreeVars {
				act[fmt.Sprintf("F%d", k)] = st.deref(step(st.site(mc, "S"), fmt.Sprintf(".$%d", k)))
			}
			return
		}
	}
	// methods: the receiver is found by walking the static type of each
	// argument down to the receiver's type.
	if g.Signature.Recv() == nil {
		return
	}
	recvT := deref(g.Signature.Recv().Type())
	recv := locset{}
	for _, a := range args {
		if !holdsRefs(a.Type()) {
			continue
		}
		t := a.Type()
		if mi, ok := a.(*ssa.MakeInterface); ok {
			t = mi.X.Type()
		}
		st.findRecv(st.get(a), t, recvT, 0, recv, map[types.Type]bool{})
	}
	act["P0"] = recv
}

// findRecv collects the locations of values of named type want reachable
// through the static type t from the abstract value vs.
func (st *fnState) findRecv(vs locset, t types.Type, want types.Type, depth int, out locset, seen map[types.Type]bool) {
	if depth > 5 || len(vs) == 0 {
		return
	}
	if types.Identical(deref(t), want) {
		out.addAll(vs)
		return
	}
	if seen[t] {
		return
	}
	seen[t] = true
	defer delete(seen, t)
	sub := func(locs locset, et types.Type) locset {
		if aggregate(et) {
			return locs
		}
		o := locset{}
		for l := range locs {
			o.addAll(st.deref(l))
		}
		return o
	}
	switch u := t.Underlying().(type) {
	case *types.Pointer:
		st.findRecv(vs, u.Elem(), want, depth+1, out, seen)
	case *types.Slice:
		st.findRecv(sub(elemOf(vs), u.Elem()), u.Elem(), want, depth+1, out, seen)
	case *types.Array:
		st.findRecv(sub(elemOf(vs), u.Elem()), u.Elem(), want, depth+1, out, seen)
	case *types.Map:
		st.findRecv(sub(elemOf(vs), u.Elem()), u.Elem(), want, depth+1, out, seen)
	case *types.Struct:
		for i := 0; i < u.NumFields(); i++ {
			ft := u.Field(i).Type()
			if !holdsRefs(ft) {
				continue
			}
			fl := locset{}
			for l := range vs {
				fl.add(step(l, "."+u.Field(i).Name()))
			}
			st.findRecv(sub(fl, ft), ft, want, depth+1, out, seen)
		}
	case *types.Interface:
		// dynamic type unknown: the boxed value itself may be the receiver,
		// or it may be nested anywhere below an external object
		for l := range vs {
			out.add(l)
			if externalLoc(l) {
				out.add(rootOf(l) + "~")
			}
		}
	}
}

// rename maps a callee location into caller locations.
func (st *fnState) rename(c ssa.CallInstruction, l string, act map[string]locset, callID string) locset {
	root, steps := splitLoc(l)
	cur := locset{}
	switch {
	case root == "":
		return cur
	case root[0] == 'P' || root[0] == 'F':
		if tagged(l) && len(steps) == 0 {
			// the (still boxed) parameter itself: keep the actuals' tags
			cur.addAll(act[root])
		} else {
			for a := range act[root] {
				cur.add(untag(a))
			}
		}
	case root[0] == 'S':
		cur.add("R" + callID + ":" + root)
	case root[0] == 'R':
		// a callee's callee site: keep the original site, re-key by this call
		cur.add("R" + callID + ":" + root[strings.Index(root, ":")+1:])
	case root[0] == 'U':
		cur.add(root)
	default:
		cur.add(root)
	}
	for _, s := range steps {
		next := locset{}
		for x := range cur {
			switch s {
			case "*":
				next.addAll(st.deref(x))
			case "~":
				next.add(rootOf(x) + "~")
			default:
				next.add(step(x, s))
			}
		}
		cur = next
	}
	return cur
}

func (st *fnState) callID(c ssa.CallInstruction) string {
	v, _ := c.(ssa.Value)
	if v != nil {
		return st.site(v, "c")
	}
	// defer/go: key by position
	return fmt.Sprintf("d%d", c.Pos())
}

func (st *fnState) instantiate(c ssa.CallInstruction, g *ssa.Function, sum *Summary, act map[string]locset, res ssa.Value, nres int) {
	id := st.callID(c)
	for _, m := range sum.mods {
		for l := range st.rename(c, m.Loc, act, id) {
			if externalLoc(l) {
				via := funcName(g)
				if m.Via != "" {
					via += " -> " + m.Via
				}
				st.mod(l, m.Kind, c, via, m.Fn, m.Pos, m.Desc, m.Typ)
			}
		}
	}
	for l, ts := range sum.pts {
		targets := locset{}
		for t := range ts {
			rt := st.rename(c, t, act, id)
			targets.addAll(rt)
			if m, ok := sum.edgeTyp[l+"\x00"+t]; ok {
				for l2 := range st.rename(c, l, act, id) {
					for t2 := range rt {
						k := untag(l2) + "\x00" + untag(t2)
						mm := st.edgeTyp[k]
						if mm == nil {
							mm = map[string]bool{}
							st.edgeTyp[k] = mm
						}
						for x := range m {
							mm[x] = true
						}
					}
				}
			}
		}
		for l2 := range st.rename(c, l, act, id) {
			st.addPts(l2, targets)
		}
	}
	for e := range sum.copies {
		for d := range st.rename(c, e.dst, act, id) {
			for s := range st.rename(c, e.src, act, id) {
				st.addCopy(d, s)
			}
		}
	}
	for i, r := range sum.rets {
		if i >= nres {
			break
		}
		out := locset{}
		for l := range r {
			out.addAll(st.rename(c, l, act, id))
		}
		st.setResult(res, i, nres, out)
	}
}

func (st *fnState) builtin(name string, c ssa.CallInstruction, res ssa.Value) {
	args := c.Common().Args
	switch name {
	case "append":
		// result shares the first argument's array or is a fresh one
		out := locset{}
		out.addAll(st.get(args[0]))
		fresh := st.site(res, "S")
		out.add(fresh)
		st.set(res, out)
		if len(args) > 1 {
			if sl, ok := args[1].Type().Underlying().(*types.Slice); ok && holdsRefs(sl.Elem()) {
				src := elemOf(st.get(args[1]))
				for d := range elemOf(out) {
					if aggregate(sl.Elem()) {
						for s := range src {
							st.addCopy(d, s)
						}
					} else {
						vs := locset{}
						for s := range src {
							vs.addAll(st.deref(s))
						}
						st.addPts(d, vs)
					}
				}
			}
		}
		st.recordWrite(elemOf(st.get(args[0])), "append", c, args[0].Type())
	case "copy":
		dst := elemOf(st.get(args[0]))
		if sl, ok := args[0].Type().Underlying().(*types.Slice); ok && holdsRefs(sl.Elem()) {
			for d := range dst {
				for s := range elemOf(st.get(args[1])) {
					if aggregate(sl.Elem()) {
						st.addCopy(d, s)
					} else {
						st.addPts(d, st.deref(s))
					}
				}
			}
		}
		st.recordWrite(dst, "copy", c, args[0].Type())
	case "delete":
		st.recordWrite(elemOf(st.get(args[0])), "delete", c, args[0].Type())
	case "clear":
		st.recordWrite(elemOf(st.get(args[0])), "delete", c, args[0].Type())
	}
}

// summarise exports what callers can observe.
func (st *fnState) summarise() *Summary {
	s := &Summary{fn: st.fn, mods: map[string]Mod{}, pts: map[string]locset{}, copies: map[copyEdge]bool{}}
	for k, m := range st.mods {
		s.mods[k] = m
	}
	// return values
	var nres int
	if st.fn.Signature.Results() != nil {
		nres = st.fn.Signature.Results().Len()
	}
	s.rets = make([]locset, nres)
	for i := range s.rets {
		s.rets[i] = locset{}
	}
	eachInstr(st.fn, func(ins ssa.Instruction) {
		if ret, ok := ins.(*ssa.Return); ok {
			for i, r := range ret.Results {
				if i < nres {
					s.rets[i].addAll(st.get(r))
				}
			}
		}
	})
	// reachable heap fragment: from returned values and external locations
	reach := map[string]bool{} // roots
	var work []string
	push := func(l string) {
		r := rootOf(l)
		if r != "" && !reach[r] {
			reach[r] = true
			work = append(work, r)
		}
	}
	for _, r := range s.rets {
		for l := range r {
			push(l)
		}
	}
	for l := range st.pts {
		if externalLoc(l) {
			push(l)
		}
	}
	for e := range st.copies {
		if externalLoc(e.dst) {
			push(e.dst)
		}
	}
	for len(work) > 0 {
		r := work[len(work)-1]
		work = work[:len(work)-1]
		for l, ts := range st.pts {
			if rootOf(l) == r {
				for t := range ts {
					push(t)
				}
			}
		}
		for e := range st.copies {
			if rootOf(e.dst) == r {
				push(e.src)
			}
		}
	}
	s.edgeTyp = map[string]map[string]bool{}
	for l, ts := range st.pts {
		if reach[rootOf(l)] {
			c := locset{}
			c.addAll(ts)
			s.pts[l] = c
			for t := range ts {
				if m, ok := st.edgeTyp[l+"\x00"+t]; ok {
					s.edgeTyp[l+"\x00"+t] = m
				}
			}
		}
	}
	for e := range st.copies {
		if reach[rootOf(e.dst)] {
			s.copies[e] = true
		}
	}
	return s
}

// ---------------------------------------------------------------------------
// queries

// ModsOf returns the summarised writes of f sorted by location.
func (h *Heap) ModsOf(f *ssa.Function) []Mod {
	s := h.sums[f]
	if s == nil {
		return nil
	}
	out := make([]Mod, 0, len(s.mods))
	for _, m := range s.mods {
		out = append(out, m)
	}
	sort.Slice(out, func(i, j int) bool { return out[i].key() < out[j].key() })
	return out
}

// paramIndex returns the index of the (first) parameter of f with the given
// type string (e.g. "*Schema"), or -1.
func paramIndex(f *ssa.Function, typ string) int {
	for i, p := range f.Params {
		if typeStr(p.Type()) == typ || typeStr(p.Type()) == "jsonapi."+strings.TrimPrefix(typ, "*") && !strings.HasPrefix(typ, "*") || typeStr(p.Type()) == "*jsonapi."+strings.TrimPrefix(typ, "*") && strings.HasPrefix(typ, "*") {
			return i
		}
	}
	return -1
}

// concatLoc appends the steps in rest to l, collapsing overly long paths.
func concatLoc(l, rest string) string {
	if rest == "" {
		return l
	}
	_, steps := splitLoc("X" + rest)
	for _, s := range steps {
		if s == "~" {
			return rootOf(l) + "~"
		}
		l = step(l, s)
	}
	return l
}

// summaryFor selects the summary of g for the tagging pattern of the actuals.
func (h *Heap) summaryFor(g *ssa.Function, act map[string]locset) *Summary {
	mask := make([]byte, len(g.Params))
	any := false
	for i := range g.Params {
		mask[i] = '-'
		vs := act[fmt.Sprintf("P%d", i)]
		if len(vs) == 0 {
			continue
		}
		all := true
		for l := range vs {
			if !tagged(l) {
				all = false
				break
			}
		}
		if all {
			mask[i] = 't'
			any = true
		}
	}
	if !any {
		return h.sums[g]
	}
	k := ctxKey{g, string(mask)}
	if s, ok := h.ctxSums[k]; ok {
		return s
	}
	h.ctxSums[k] = &Summary{fn: g, mods: map[string]Mod{}, pts: map[string]locset{}, copies: map[copyEdge]bool{}}
	h.ctxOrder = append(h.ctxOrder, k)
	h.newCtx = true
	return h.ctxSums[k]
}

// storeType describes the location written by a Store: "T.f" for a field of a
// named struct, "elem []T" for a slice element, otherwise the pointee type.
func storeType(addr ssa.Value) string {
	switch a := addr.(type) {
	case *ssa.FieldAddr:
		o, f := fieldRef(a.X, a.Field)
		return "field " + o + "." + f + " " + typeStr(deref(a.Type()))
	case *ssa.IndexAddr:
		return "elem " + typeStr(a.X.Type())
	}
	return "*" + typeStr(deref(addr.Type()))
}

// staticTypesOf: the static types a value may have been boxed from.
func staticTypesOf(v ssa.Value) []string {
	set := map[string]bool{}
	seen := map[ssa.Value]bool{}
	var walk func(v ssa.Value)
	walk = func(v ssa.Value) {
		if v == nil || seen[v] {
			return
		}
		seen[v] = true
		switch x := v.(type) {
		case *ssa.MakeInterface:
			walk(x.X)
		case *ssa.ChangeInterface:
			walk(x.X)
		case *ssa.Phi:
			for _, e := range x.Edges {
				walk(e)
			}
		case *ssa.Const:
			if x.Value == nil {
				return // nil has no referent
			}
			set[fmtTypeString(v.Type())] = true
		default:
			set[fmtTypeString(v.Type())] = true
		}
	}
	walk(v)
	var out []string
	for t := range set {
		out = append(out, t)
	}
	sort.Strings(out)
	return out
}

func (st *fnState) noteTypes(addrs locset, v ssa.Value) {
	if !holdsRefs(v.Type()) || aggregate(v.Type()) {
		return
	}
	ts := staticTypesOf(v)
	targets := st.get(v)
	for a := range addrs {
		a = untag(a)
		for t := range targets {
			k := a + "\x00" + untag(t)
			m := st.edgeTyp[k]
			if m == nil {
				m = map[string]bool{}
				st.edgeTyp[k] = m
			}
			for _, x := range ts {
				m[x] = true
			}
		}
	}
}

// EdgeTypes returns the static types recorded for the edge loc -> target in
// the summary of f ("" when the edge came from a struct copy or a callee).
func (s *Summary) EdgeTypes(loc, target string) []string {
	m := s.edgeTyp[loc+"\x00"+target]
	var out []string
	for t := range m {
		out = append(out, t)
	}
	sort.Strings(out)
	return out
}
