package main

import (
	"fmt"
	"go/token"
	"go/types"
	"regexp"
	"strconv"
	"strings"

	"golang.org/x/tools/go/ssa"
)

func init() { register("C15", checkC15) }

type relKind struct {
	name        string
	missing     bool // target type not in the schema
	twoWay      bool // ToName != ""
	fromTypeOK  bool
	reciprocate bool
}

func (k relKind) offending() bool {
	return k.missing || (k.twoWay && (!k.fromTypeOK || !k.reciprocate))
}

var relKinds = []relKind{
	{"one-way-ok", false, false, true, false},
	{"one-way-missing-target", true, false, true, false},
	{"two-way-ok", false, true, true, true},
	{"two-way-wrong-FromType", false, true, false, true},
	{"two-way-unreciprocated", false, true, true, false},
	{"two-way-missing-target", true, true, true, false},
}

var relIdxRe = regexp.MustCompile(`@(\d+)r(\d+)#2`)

func checkC15(p *Prog, r *Report) {
	r.rule("C15.type-lookup: Schema.GetType / HasType find a type by one exact equality test between a type's Name and the requested name and call nothing else (the comparison AddType uses to keep names unique)")
	checkTypeLookup(p, r, "C15")
	r.rule(r3RuleText)
	r.rule("C15.read-only (mod analysis): Check and GetType write nothing reachable from the schema")
	r.rule("C15.full-traversal: every edge that leaves one of Check's loops is the loop's own completion; there is no return or break inside them, so one fault cannot hide another relationship")
	r.rule("C15.fault-table (scenario evaluation of Check): for every sequence of up to two relationships drawn from {one-way ok, one-way to a missing type, two-way ok, two-way with a foreign FromType, two-way unreciprocated, two-way to a missing type}, with the facts about each relationship (target exists, ToName empty, FromType equals the owning type, some relationship of the target names it back) decided by the scenario and every other comparison explored both ways, each complete path reports at least as many errors as offending relationships were visited and none when no visited relationship is offending")
	r.rule("C15.result: Check returns its error accumulator, which starts as a non-nil empty list")
	r.assume("GetType returns the zero Type for unknown names (decided by C14/C12's rules on GetType)")
	r.notCovered("equivalence of Check's three conditions with the property's notion of coherence for all schemas (e.g. an inverse that points to a third type is not examined by the code)")

	chk := p.Fn("(*Schema).Check")
	gt := p.Fn("(*Schema).GetType")
	if chk == nil || gt == nil {
		r.fail("anchors (*Schema).Check / GetType not found")
		return
	}
	runR3(p, r, r3opts{entries: []string{"(*Schema).Check"}, floorSites: 8, floorFns: 2})

	// read-only
	h := newHeap(p)
	for _, f := range []*ssa.Function{chk, gt} {
		bad := 0
		for _, m := range h.ModsOf(f) {
			if rootOf(m.Loc) == "P0" || strings.HasPrefix(rootOf(m.Loc), "G:") || rootOf(m.Loc) == "?" {
				bad++
				r.bad("C15.read-only", fmt.Sprintf("%s:%s:%s", funcName(f), m.Kind, m.Loc), p.pos(m.Pos), funcName(f)+" writes "+m.Loc+" ("+m.Kind+" in "+m.Fn+"): "+m.Desc)
			}
		}
		if bad == 0 {
			r.ok("C15.read-only", funcName(f), p.pos(f.Pos()), "no write rooted at the schema in the interprocedural write summary")
		}
	}

	// full traversal
	nLoops := 0
	for _, b := range chk.Blocks {
		inLoop := naturalLoop(b)
		if inLoop == nil {
			continue
		}
		// only loops that report (contain an error construction) must run to completion;
		// a search loop may stop at its first hit
		reports := false
		for x := range inLoop {
			for _, ins := range x.Instrs {
				if c, isCall := ins.(*ssa.Call); isCall {
					if sc := c.Common().StaticCallee(); sc != nil && (fullName(sc) == "fmt.Errorf" || fullName(sc) == "errors.New") {
						reports = true
					} else if sc != nil && smallHelper(sc) && constructsError(sc, 0) {
						reports = true // the per-relationship checks live in a helper
					}
				}
			}
		}
		if !reports {
			continue
		}
		nLoops++
		ok := true
		for x := range inLoop {
			for _, s := range x.Succs {
				if !inLoop[s] && x != b {
					ok = false
					r.note(fmt.Sprintf("loop %d left from block %d to block %d", b.Index, x.Index, s.Index))
				}
			}
			if _, isRet := x.Instrs[len(x.Instrs)-1].(*ssa.Return); isRet {
				ok = false
			}
		}
		r.decide(ok, "C15.full-traversal", fmt.Sprintf("Check:loop-header-block-%d", b.Index), p.pos(chk.Pos()),
			"the loop is only left through its own completion", "a loop of Check can be left early (return or break): relationships after the first fault are not examined")
	}
	r.floor("reporting loops in Check", nLoops, 2)

	// result
	eachInstr(chk, func(ins ssa.Instruction) {
		ret, ok := ins.(*ssa.Return)
		if !ok || len(ret.Results) != 1 {
			return
		}
		good := true
		for _, o := range origins(ret.Results[0]) {
			switch x := o.(type) {
			case *ssa.Slice: // empty literal
			case *ssa.Call:
				if b, ok := x.Call.Value.(*ssa.Builtin); ok && b.Name() == "append" {
					break
				}
				// a helper that threads the accumulator: every return of it is its
				// []error parameter, possibly extended by appends
				if g := x.Call.StaticCallee(); g == nil || !smallHelper(g) || !threadsAccumulator(g) {
					good = false
				}
			case *ssa.Const:
				good = false // nil
			default:
				good = false
			}
		}
		r.decide(good, "C15.result", "Check:"+p.describe(ret), p.pos(ret.Pos()), "returns the accumulator (empty literal extended by appends)", "Check may return nil or something other than the list it accumulated")
	})

	// fault table
	nScen := 0
	for _, k1 := range relKinds {
		for _, k2 := range relKinds {
			nScen++
			script := []relKind{k1, k2}
			bad := evalCheck(p, chk, gt, script)
			r.decide(bad == "", "C15.fault-table", "Check:["+k1.name+", "+k2.name+"]", p.pos(chk.Pos()),
				"every complete path reports each offending relationship it visited and nothing otherwise", "Check mis-reports this sequence of relationships: "+bad)
		}
	}
	r.floor("Check scenarios", nScen, 36)
	if deep {
		// thorough tier: sequences of three relationships
		n3 := 0
		for _, k1 := range relKinds {
			for _, k2 := range relKinds {
				for _, k3 := range relKinds {
					n3++
					bad := evalCheck(p, chk, gt, []relKind{k1, k2, k3})
					r.decide(bad == "", "C15.fault-table", "Check:["+k1.name+", "+k2.name+", "+k3.name+"]", p.pos(chk.Pos()),
						"every complete path reports each offending relationship it visited and nothing otherwise", "Check mis-reports this sequence of relationships: "+bad)
				}
			}
		}
		r.count("Check scenarios of length 3", n3)
	}
}

func evalCheck(p *Prog, chk, gt *ssa.Function, script []relKind) string {
	in := &interp{p: p, f: chk, maxPaths: 20000, maxVisit: len(script) + 1, inline: smallHelper}
	if deep {
		in.maxPaths = 200000
	}
	relIdx := func(s string) int {
		m := relIdxRe.FindStringSubmatch(s)
		if m == nil {
			return -1
		}
		n, _ := strconv.Atoi(m[1])
		return n - 1
	}
	kindOf := func(s string) (relKind, bool) {
		k := relIdx(s)
		if k < 0 || k >= len(script) {
			return relKind{}, false
		}
		return script[k], true
	}
	note := func(st *istate, s string) {
		for _, n := range st.notes {
			if n == s {
				return
			}
		}
		st.notes = append(st.notes, s)
	}
	in.callHook = func(st *istate, c *ssa.Call, args []*aval) *aval {
		sc := c.Common().StaticCallee()
		if sc == gt && len(args) == 2 {
			k, ok := kindOf(args[1].String())
			if !ok {
				return nil
			}
			note(st, fmt.Sprintf("visit%d", relIdx(args[1].String())))
			name := "T"
			if k.missing {
				name = ""
			}
			return structVal(map[string]*aval{"Name": strConst(name), "Rels": symv("target.Rels", nil), "Attrs": symv("target.Attrs", nil)})
		}
		if sc != nil && fullName(sc) == "fmt.Errorf" {
			st.notes = append(st.notes, "error")
		}
		return nil
	}
	in.binopHook = func(st *istate, x *ssa.BinOp, a, b *aval) *aval {
		if x.Op != token.EQL && x.Op != token.NEQ {
			return nil
		}
		as, bs := a.String(), b.String()
		eq := func(v bool) *aval { return boolv(v == (x.Op == token.EQL)) }
		// rel.ToName == ""
		for _, pr := range [][2]*aval{{a, b}, {b, a}} {
			if pr[1].k == aConst && pr[1].c.ExactString() == `""` && strings.HasSuffix(pr[0].String(), ".ToName") {
				if k, ok := kindOf(pr[0].String()); ok {
					note(st, fmt.Sprintf("visit%d", relIdx(pr[0].String())))
					return eq(!k.twoWay)
				}
			}
		}
		// rel.FromType ? typ.Name
		for _, pr := range [][2]string{{as, bs}, {bs, as}} {
			if strings.HasSuffix(pr[0], ".FromType") && strings.HasSuffix(pr[1], ".Name") {
				if k, ok := kindOf(pr[0]); ok {
					return eq(k.fromTypeOK)
				}
			}
		}
		// the reciprocal test: rel.FromName ? inv.ToName and rel.ToName ? inv.FromName,
		// where rel and inv are elements of two different ranges
		for _, pr := range [][2]string{{as, bs}, {bs, as}} {
			l, rr := pr[0], pr[1]
			if (strings.HasSuffix(l, ".FromName") && strings.HasSuffix(rr, ".ToName")) || (strings.HasSuffix(l, ".ToName") && strings.HasSuffix(rr, ".FromName")) {
				li, ri := relIdxRe.FindStringSubmatch(l), relIdxRe.FindStringSubmatch(rr)
				if li == nil || ri == nil || strings.Split(l, "@")[0] == strings.Split(rr, "@")[0] {
					continue
				}
				// which one is the outer relationship? the one whose range element name appears in the visit notes' range (outer range variable is read with .ToName == "" earlier)
				outer := l
				if !isOuterRel(st, l) {
					outer = rr
				}
				if k, ok := kindOf(outer); ok {
					// the first relationship of the target is the matching one when the scenario says reciprocated
					inner := rr
					if outer == rr {
						inner = l
					}
					m := relIdxRe.FindStringSubmatch(inner)
					first := m != nil && m[2] == "1"
					return eq(k.reciprocate && first)
				}
			}
		}
		return nil
	}
	in.nextHook = func(st *istate, nx *ssa.Next, op *aval, k int) *aval {
		// the relationships of the target type: when the scenario says the
		// current relationship is reciprocated, the target has at least one
		if op == nil || op.String() != "target.Rels" {
			return nil
		}
		cur := -1
		for _, n := range st.notes {
			if strings.HasPrefix(n, "visit") {
				cur, _ = strconv.Atoi(strings.TrimPrefix(n, "visit"))
			}
		}
		if cur < 0 || cur >= len(script) {
			return nil
		}
		if script[cur].reciprocate && k == 1 {
			return boolv(true)
		}
		if script[cur].missing {
			return boolv(false) // the zero Type has no relationships
		}
		return nil
	}
	// every relationship the outer loop yields counts as visited, examined or not
	in.elemHook = func(st *istate, nx *ssa.Next, op *aval, k int) {
		if op == nil || op.String() == "target.Rels" || !strings.HasSuffix(op.String(), ".Rels") {
			return
		}
		// same numbering as the element names: header visits across all types
		if abs := st.count[nx.Block()] - 1; abs >= 0 && abs < len(script) {
			note(st, fmt.Sprintf("visit%d", abs))
		}
	}
	outs := in.run(map[*ssa.Parameter]*aval{chk.Params[0]: symv("s", chk.Params[0].Type())})
	nReal := 0
	for _, o := range outs {
		if o.loop || o.panics || o.ret == nil {
			continue
		}
		nReal++
		errs, offending, visited := 0, 0, 0
		for _, n := range o.notes {
			switch {
			case n == "error":
				errs++
			case strings.HasPrefix(n, "visit"):
				k, _ := strconv.Atoi(strings.TrimPrefix(n, "visit"))
				if k >= 0 && k < len(script) {
					visited++
					if script[k].offending() {
						offending++
					}
				}
			}
		}
		if offending > 0 && errs < offending {
			return fmt.Sprintf("a path that visits %d relationship(s), %d of them offending, reports %d error(s)", visited, offending, errs)
		}
		if offending == 0 && errs > 0 {
			return fmt.Sprintf("a path that visits only sound relationships reports %d error(s)", errs)
		}
	}
	if nReal < 3 {
		return "too few complete paths explored"
	}
	return ""
}

// isOuterRel: the range element named by s was asked "ToName == \"\"" or passed
// to GetType on this path (it is the relationship being checked, not a
// candidate inverse).
func isOuterRel(st *istate, s string) bool {
	m := relIdxRe.FindStringSubmatch(s)
	if m == nil {
		return false
	}
	base := strings.Split(s, "@")[0]
	for _, n := range st.notes {
		if n == "outer="+base {
			return true
		}
	}
	// remember the first range whose element was visited as the outer one
	for _, n := range st.notes {
		if strings.HasPrefix(n, "outer=") {
			return false
		}
	}
	st.notes = append(st.notes, "outer="+base)
	return true
}

var _ = types.Typ

// constructsError: g (or a small helper it calls) builds an error value.
func constructsError(g *ssa.Function, depth int) bool {
	found := false
	eachInstr(g, func(ins ssa.Instruction) {
		c, ok := ins.(*ssa.Call)
		if !ok {
			return
		}
		sc := c.Common().StaticCallee()
		if sc == nil {
			return
		}
		if fullName(sc) == "fmt.Errorf" || fullName(sc) == "errors.New" {
			found = true
		} else if depth < 2 && smallHelper(sc) && constructsError(sc, depth+1) {
			found = true
		}
	})
	return found
}

// threadsAccumulator: every return of g is g's []error parameter or the result
// of appends to it.
func threadsAccumulator(g *ssa.Function) bool {
	n := 0
	ok := true
	eachInstr(g, func(ins ssa.Instruction) {
		ret, isRet := ins.(*ssa.Return)
		if !isRet || len(ret.Results) != 1 {
			return
		}
		n++
		for _, o := range origins(ret.Results[0]) {
			switch x := o.(type) {
			case *ssa.Parameter:
				if sl, isSl := x.Type().Underlying().(*types.Slice); !isSl || !isErrorType(sl.Elem()) {
					ok = false
				}
			case *ssa.Call:
				if b, isB := x.Call.Value.(*ssa.Builtin); !isB || b.Name() != "append" {
					ok = false
				}
			default:
				ok = false
			}
		}
	})
	return ok && n > 0
}
