package main

import (
	"go/constant"
	"fmt"
	"go/token"
	"go/types"
	"sort"
	"strings"

	"golang.org/x/tools/go/ssa"
)

func init() { register("C16", checkC16) }

// fieldOfParam: if v is a load of field f of the struct reached from base
// (pointer parameter, a load of it, or a by-value copy), return f.
func fieldLoad(v ssa.Value) (base ssa.Value, field string, ok bool) {
	switch x := v.(type) {
	case *ssa.UnOp:
		if x.Op != token.MUL {
			return nil, "", false
		}
		if fa, ok := x.X.(*ssa.FieldAddr); ok {
			_, name := fieldRef(fa.X, fa.Field)
			return fa.X, name, true
		}
	case *ssa.Field:
		_, name := fieldRef(x.X, x.Field)
		return x.X, name, true
	}
	return nil, "", false
}

// walkToReturn follows the CFG from the entry, deciding each If with oracle
// (1 true, 0 false, -1 undecidable). On an undecidable branch both successors
// are explored. It returns every Return that can be reached and a note about
// the undecidable conditions met.
func walkToReturns(f *ssa.Function, oracle func(cond ssa.Value) int) ([]*ssa.Return, string) {
	var rets []*ssa.Return
	note := ""
	seen := map[*ssa.BasicBlock]bool{}
	// the walk is path-sensitive for boolean phis (&& / || chains kept in a
	// variable): a phi stands for the value of the edge the walk came in by
	choice := map[*ssa.Phi]ssa.Value{}
	var eval func(cond ssa.Value, depth int) int
	eval = func(cond ssa.Value, depth int) int {
		if depth > 8 {
			return -1
		}
		switch x := cond.(type) {
		case *ssa.Const:
			if x.Value != nil && x.Value.Kind() == constant.Bool {
				if constant.BoolVal(x.Value) {
					return 1
				}
				return 0
			}
		case *ssa.UnOp:
			if x.Op == token.NOT {
				switch eval(x.X, depth+1) {
				case 1:
					return 0
				case 0:
					return 1
				}
				return -1
			}
		case *ssa.Phi:
			if v, ok := choice[x]; ok {
				return eval(v, depth+1)
			}
			return -1
		}
		return oracle(cond)
	}
	var walk func(b, from *ssa.BasicBlock, depth int)
	walk = func(b, from *ssa.BasicBlock, depth int) {
		if depth > 200 || seen[b] {
			return
		}
		seen[b] = true
		defer func() { seen[b] = false }()
		if from != nil {
			for k, pb := range b.Preds {
				if pb != from {
					continue
				}
				for _, ins := range b.Instrs {
					phi, ok := ins.(*ssa.Phi)
					if !ok {
						break
					}
					old, had := choice[phi]
					choice[phi] = phi.Edges[k]
					defer func() {
						if had {
							choice[phi] = old
						} else {
							delete(choice, phi)
						}
					}()
				}
				break
			}
		}
		last := b.Instrs[len(b.Instrs)-1]
		switch t := last.(type) {
		case *ssa.Return:
			for _, r := range rets {
				if r == t {
					return
				}
			}
			rets = append(rets, t)
		case *ssa.Jump:
			walk(b.Succs[0], b, depth+1)
		case *ssa.If:
			switch eval(t.Cond, 0) {
			case 1:
				walk(b.Succs[0], b, depth+1)
			case 0:
				walk(b.Succs[1], b, depth+1)
			default:
				note = fmt.Sprintf("branch condition %s cannot be evaluated from the order of the two ends", t.Cond.String())
				walk(b.Succs[0], b, depth+1)
				walk(b.Succs[1], b, depth+1)
			}
		}
	}
	walk(f.Blocks[0], nil, 0)
	return rets, note
}

// concatParts flattens a tree of string + into its leaves.
func concatParts(v ssa.Value) []ssa.Value {
	if b, ok := v.(*ssa.BinOp); ok && b.Op == token.ADD {
		if bt, ok := b.Type().Underlying().(*types.Basic); ok && bt.Info()&types.IsString != 0 {
			return append(concatParts(b.X), concatParts(b.Y)...)
		}
	}
	if c, ok := v.(*ssa.Call); ok && calleeIs(c, "strings", "Join") && len(c.Common().Args) == 2 {
		// strings.Join(parts, sep): the parts that were appended to the list
		var out []ssa.Value
		seen := map[ssa.Value]bool{}
		var elems func(l ssa.Value, depth int)
		elems = func(l ssa.Value, depth int) {
			if depth > 12 || seen[l] {
				return
			}
			seen[l] = true
			switch x := l.(type) {
			case *ssa.Phi:
				for _, e := range x.Edges {
					elems(e, depth+1)
				}
			case *ssa.Call:
				if builtinName(x.Common()) != "append" || len(x.Common().Args) != 2 {
					return
				}
				elems(x.Common().Args[0], depth+1)
				if sl, ok := x.Common().Args[1].(*ssa.Slice); ok {
					if al, ok := sl.X.(*ssa.Alloc); ok {
						for _, ref := range referrers(al) {
							if ia, ok := ref.(*ssa.IndexAddr); ok {
								for _, r2 := range referrers(ia) {
									if st, ok := r2.(*ssa.Store); ok {
										out = append(out, concatParts(st.Val)...)
									}
								}
							}
						}
					}
				}
			case *ssa.Slice:
				// a slice literal []string{a, b}
				if al, ok := x.X.(*ssa.Alloc); ok {
					for _, ref := range referrers(al) {
						if ia, ok := ref.(*ssa.IndexAddr); ok {
							for _, r2 := range referrers(ia) {
								if st, ok := r2.(*ssa.Store); ok {
									out = append(out, concatParts(st.Val)...)
								}
							}
						}
					}
				}
			}
		}
		elems(c.Common().Args[0], 0)
		if len(out) > 0 {
			return append(out, c.Common().Args[1])
		}
	}
	if p, ok := v.(*ssa.Phi); ok {
		// a string built incrementally (id += …): report all leaves
		var out []ssa.Value
		for _, e := range p.Edges {
			out = append(out, concatParts(e)...)
		}
		return out
	}
	return []ssa.Value{v}
}

// nonInjectiveConcat reports whether v is a concatenation with two adjacent
// non-constant parts, or whose separators are ordinary characters that the
// (unconstrained) parts may contain — i.e. not an injective encoding.
func nonInjectiveConcat(v ssa.Value) (bool, string) {
	b, ok := v.(*ssa.BinOp)
	if !ok || b.Op != token.ADD {
		return false, ""
	}
	parts := concatParts(v)
	dyn := 0
	var desc []string
	for _, p := range parts {
		if s, ok := constString(p); ok {
			desc = append(desc, fmt.Sprintf("%q", s))
		} else {
			dyn++
			if _, f, ok := fieldLoad(p); ok {
				desc = append(desc, f)
			} else {
				desc = append(desc, "<dyn>")
			}
		}
	}
	if dyn >= 2 {
		return true, strings.Join(desc, "+")
	}
	return false, ""
}

func checkC16(p *Prog, r *Report) {
	relT := p.namedType("Rel")
	if relT == nil {
		r.fail("type Rel not found")
		return
	}
	st := relT.Underlying().(*types.Struct)
	r.rule("C16.1 involution table: Invert assigns every field of Rel from a field of the receiver and the induced permutation σ satisfies σ∘σ = id with type-compatible swaps (decides 'inverting twice gives the relationship back' completely)")
	r.rule("C16.2 Normalize returns only the receiver or its inverse, and the receiver whenever the inverse name is empty")
	r.rule("C16.3 direction choice evaluated abstractly over the 3x3 orderings of (FromType?ToType, FromName?ToName): a relationship and its inverse must take opposite branches unless both ends are identical; comparisons of concatenated keys are not injective and cannot be evaluated (R8)")
	r.rule("C16.4 String builds its text only from the normalised value")
	r.rule("C16.listing-fresh: Schema.Rels and the functions it calls read no field of the schema other than Types, so the listing depends on the current types only, not on the history of edits")
	r.rule("C16.5 Schema.Rels: values collected from a map are sorted before being returned (R7) by a comparator over an injective key (R8); the set is keyed injectively")
	r.notCovered("idempotence of Normalize and the listing laws of Schema.Rels as value-level statements beyond what clauses 1-5 imply")
	r.notCovered("relationships that are their own inverse (outside the property's domain)")

	// ---- 1. Invert
	inv := p.Fn("(*Rel).Invert")
	if inv == nil {
		r.fail("anchor (*Rel).Invert not found")
		return
	}
	r.fn(funcName(inv))
	sigma := invertTable(inv, st)
	nAssigned := 0
	for i := 0; i < st.NumFields(); i++ {
		name := st.Field(i).Name()
		src, ok := sigma[name]
		key := "Invert:field:" + name
		if !ok {
			r.bad("C16.involution", key, p.pos(inv.Pos()), "field "+name+" of Rel is not assigned from a field of the receiver in Invert (or the function's shape is not a straight-line field permutation)")
			continue
		}
		nAssigned++
		back, ok2 := sigma[src]
		okT := false
		for j := 0; j < st.NumFields(); j++ {
			if st.Field(j).Name() == src {
				okT = types.Identical(st.Field(j).Type(), st.Field(i).Type())
			}
		}
		r.decide(ok2 && back == name && okT && src != name, "C16.involution", key, p.pos(inv.Pos()),
			fmt.Sprintf("%s <- %s and %s <- %s", name, src, src, back),
			fmt.Sprintf("σ(%s)=%s and σ(%s)=%s: Invert must exchange each field with its counterpart at the other end (a type-compatible swap that is its own inverse); otherwise Invert is not the inverse relationship or inverting twice does not give the relationship back", name, src, src, back))
	}
	r.floor("Rel fields in involution table", nAssigned, 1)
	r.count("rel_fields", st.NumFields())

	// ---- 2/3. Normalize
	norm := p.Fn("(*Rel).Normalize")
	if norm == nil {
		r.fail("anchor (*Rel).Normalize not found")
		return
	}
	r.fn(funcName(norm))
	recv := norm.Params[0]
	classify := func(ret *ssa.Return) string {
		if len(ret.Results) != 1 {
			return "?"
		}
		v := ret.Results[0]
		if u, ok := v.(*ssa.UnOp); ok && u.Op == token.MUL && u.X == recv {
			return "self"
		}
		if c, ok := v.(*ssa.Call); ok {
			if sc := c.Common().StaticCallee(); sc == inv && len(c.Common().Args) == 1 && c.Common().Args[0] == recv {
				return "inverse"
			}
		}
		return "?"
	}
	nret := 0
	eachInstr(norm, func(ins ssa.Instruction) {
		if ret, ok := ins.(*ssa.Return); ok {
			nret++
			kind := classify(ret)
			r.decide(kind != "?", "C16.normalize-shape", "Normalize:return:"+p.describe(ret), p.pos(ret.Pos()),
				"returns "+kind, "Normalize returns something other than the receiver or receiver.Invert()")
		}
	})
	r.floor("Normalize returns", nret, 2)

	// R8 on every comparison in Normalize
	eachInstr(norm, func(ins ssa.Instruction) {
		b, ok := ins.(*ssa.BinOp)
		if !ok {
			return
		}
		switch b.Op {
		case token.LSS, token.GTR, token.LEQ, token.GEQ, token.EQL, token.NEQ:
		default:
			return
		}
		for _, side := range []ssa.Value{b.X, b.Y} {
			if bad, desc := nonInjectiveConcat(side); bad {
				r.bad("R8.concat-key", "Normalize:compare:"+desc, p.pos(b.Pos()),
					"direction is chosen by comparing the concatenation "+desc+" which is not injective: ends such as type 'ab'+name 'c' and type 'a'+name 'bc' coincide, so a relationship and its inverse can both be kept as they are")
			}
		}
	})

	// abstract evaluation over orderings
	type scen struct{ t, n int } // -1 <, 0 =, 1 >  for (FromType?ToType), (FromName?ToName)
	pairOf := func(a, b string) (which string, flip bool, ok bool) {
		switch {
		case a == "FromType" && b == "ToType":
			return "t", false, true
		case a == "ToType" && b == "FromType":
			return "t", true, true
		case a == "FromName" && b == "ToName":
			return "n", false, true
		case a == "ToName" && b == "FromName":
			return "n", true, true
		}
		return "", false, false
	}
	evalCmp := func(op token.Token, c int) int {
		var v bool
		switch op {
		case token.LSS:
			v = c < 0
		case token.LEQ:
			v = c <= 0
		case token.GTR:
			v = c > 0
		case token.GEQ:
			v = c >= 0
		case token.EQL:
			v = c == 0
		case token.NEQ:
			v = c != 0
		default:
			return -1
		}
		if v {
			return 1
		}
		return 0
	}
	mkOracle := func(s scen, toNameEmpty bool) func(ssa.Value) int {
		var oracle func(cond ssa.Value) int
		oracle = func(cond ssa.Value) int {
			switch c := cond.(type) {
			case *ssa.UnOp:
				if c.Op == token.NOT {
					switch oracle(c.X) {
					case 1:
						return 0
					case 0:
						return 1
					}
				}
				return -1
			case *ssa.BinOp:
				// field == "" tests
				for _, pr := range [][2]ssa.Value{{c.X, c.Y}, {c.Y, c.X}} {
					if s, ok := constString(pr[1]); ok && s == "" {
						if base, f, ok := fieldLoad(pr[0]); ok && (base == recv || isLoadOf(base, recv)) && f == "ToName" {
							cmp := 1
							if toNameEmpty {
								cmp = 0
							}
							if c.Op == token.EQL || c.Op == token.NEQ {
								return evalCmp(c.Op, cmp)
							}
						}
					}
				}
				bx, fx, ok1 := fieldLoad(c.X)
				by, fy, ok2 := fieldLoad(c.Y)
				if !ok1 || !ok2 || !(bx == recv || isLoadOf(bx, recv)) || !(by == recv || isLoadOf(by, recv)) {
					return -1
				}
				which, flip, ok := pairOf(fx, fy)
				if !ok {
					return -1
				}
				v := s.t
				if which == "n" {
					v = s.n
				}
				if flip {
					v = -v
				}
				return evalCmp(c.Op, v)
			}
			return -1
		}
		return oracle
	}
	classes := func(rets []*ssa.Return) string {
		set := map[string]bool{}
		for _, rt := range rets {
			set[classify(rt)] = true
		}
		var ks []string
		for k := range set {
			ks = append(ks, k)
		}
		sort.Strings(ks)
		return strings.Join(ks, "|")
	}
	// one-way relationships are untouched
	{
		ok := true
		why := ""
		for _, t := range []int{-1, 0, 1} {
			for _, n := range []int{0, 1} { // FromName ? "" is = or >
				rets, _ := walkToReturns(norm, mkOracle(scen{t, n}, true))
				if c := classes(rets); c != "self" {
					ok, why = false, "with an empty inverse name a path returns "+c
				}
			}
		}
		r.decide(ok, "C16.normalize-oneway", "Normalize:ToName-empty", p.pos(norm.Pos()),
			"every path with an empty inverse name returns the receiver", "one-way relationship not left untouched: "+why)
	}
	// antisymmetry of the direction choice
	nScen := 0
	for _, t := range []int{-1, 0, 1} {
		for _, n := range []int{-1, 0, 1} {
			if t == 0 && n == 0 {
				continue // identical ends: outside the domain
			}
			nScen++
			key := fmt.Sprintf("Normalize:order(type%s,name%s)", ordSym(t), ordSym(n))
			rets1, msg1 := walkToReturns(norm, mkOracle(scen{t, n}, false))
			rets2, msg2 := walkToReturns(norm, mkOracle(scen{-t, -n}, false))
			k1, k2 := classes(rets1), classes(rets2)
			good := (k1 == "self" && k2 == "inverse") || (k1 == "inverse" && k2 == "self")
			msg := ""
			if msg1+msg2 != "" {
				msg = " (" + msg1 + " " + msg2 + ")"
			}
			r.decide(good, "C16.direction", key, p.pos(norm.Pos()),
				fmt.Sprintf("r -> %s, r.Invert() -> %s", k1, k2),
				fmt.Sprintf("a relationship with this order of ends returns %s and its inverse returns %s: they do not normalise to one representative%s", k1, k2, msg))
		}
	}
	r.count("order_scenarios", nScen)

	// ---- 4. String
	str := p.Fn("(Rel).String")
	if str == nil {
		r.fail("anchor (Rel).String not found")
		return
	}
	r.fn(funcName(str))
	checkStringUsesNormalized(p, r, str, norm)

	// ---- 5. Rels
	rels := p.Fn("(*Schema).Rels")
	if rels == nil {
		r.fail("anchor (*Schema).Rels not found")
		return
	}
	for _, f := range p.cg.Reachable(rels) {
		r.fn(funcName(f))
	}
	checkRelsSorted(p, r, rels)
	r.rule("C16.listing-complete: the loop of Schema.Rels (or its helper) that stores Normalize() of each relationship into the set does so on every iteration (only a membership test on the set itself may skip it)")
	checkRelsComplete(p, r, rels)
}

func ordSym(c int) string {
	switch {
	case c < 0:
		return "<"
	case c > 0:
		return ">"
	}
	return "="
}

func isLoadOf(v, ptr ssa.Value) bool {
	u, ok := v.(*ssa.UnOp)
	return ok && u.Op == token.MUL && u.X == ptr
}

// invertTable extracts dest-field <- source-field from a function that builds
// a struct from fields of its receiver in straight-line code.
func invertTable(f *ssa.Function, st *types.Struct) map[string]string {
	sigma := map[string]string{}
	if len(f.Blocks) != 1 || len(f.Params) != 1 {
		return sigma
	}
	recv := f.Params[0]
	var ret *ssa.Return
	for _, ins := range f.Blocks[0].Instrs {
		if x, ok := ins.(*ssa.Return); ok {
			ret = x
		}
	}
	if ret == nil || len(ret.Results) != 1 {
		return sigma
	}
	ld, ok := ret.Results[0].(*ssa.UnOp)
	if !ok || ld.Op != token.MUL {
		return sigma
	}
	alloc, ok := ld.X.(*ssa.Alloc)
	if !ok {
		return sigma
	}
	for _, ins := range f.Blocks[0].Instrs {
		s, ok := ins.(*ssa.Store)
		if !ok {
			continue
		}
		if s.Addr == alloc {
			// whole-struct copy of the receiver: identity on all fields
			if isLoadOf(s.Val, recv) {
				for i := 0; i < st.NumFields(); i++ {
					sigma[st.Field(i).Name()] = st.Field(i).Name()
				}
			}
			continue
		}
		fa, ok := s.Addr.(*ssa.FieldAddr)
		if !ok || fa.X != alloc {
			continue
		}
		_, dst := fieldRef(fa.X, fa.Field)
		base, src, ok := fieldLoad(s.Val)
		if ok && (base == recv || isLoadOf(base, recv)) {
			sigma[dst] = src
		} else {
			delete(sigma, dst)
		}
	}
	return sigma
}

// checkStringUsesNormalized: every field read that flows into the returned
// string reads the value returned by Normalize on the receiver.
func checkStringUsesNormalized(p *Prog, r *Report, str, norm *ssa.Function) {
	// find the Normalize call
	var call *ssa.Call
	eachInstr(str, func(ins ssa.Instruction) {
		if c, ok := ins.(*ssa.Call); ok && c.Common().StaticCallee() == norm {
			call = c
		}
	})
	if !r.decide(call != nil, "C16.string-normalized", "String:calls-Normalize", p.pos(str.Pos()),
		"String calls Normalize", "String does not call Normalize: a relationship and its inverse get different names") {
		return
	}
	// every field load feeding the result must be dominated by a store of the
	// Normalize result to the loaded location, with no other store after it.
	n, bad := 0, 0
	eachInstr(str, func(ins ssa.Instruction) {
		ret, ok := ins.(*ssa.Return)
		if !ok {
			return
		}
		for _, leaf := range concatParts(ret.Results[0]) {
			if _, ok := constString(leaf); ok {
				continue
			}
			n++
			base, f, ok := fieldLoad(leaf)
			okFlow := false
			if ok {
				switch b := base.(type) {
				case *ssa.Alloc:
					// the last store to the alloc that reaches the load must be the Normalize result
					okFlow = lastStoreIs(b, leaf.(ssa.Instruction), call)
				case *ssa.Call:
					okFlow = b == call
				}
			}
			if !okFlow {
				bad++
			}
			r.decide(okFlow, "C16.string-normalized", "String:part:"+f, p.pos(leaf.Pos()),
				"part "+f+" is read from the normalised value", "a part of the name is not read from the value returned by Normalize")
		}
	})
	r.floor("String parts", n, 2)
	// R8: the name is not an injective encoding
	eachInstr(str, func(ins ssa.Instruction) {
		if ret, ok := ins.(*ssa.Return); ok {
			parts := concatParts(ret.Results[0])
			dyn := 0
			for _, pt := range parts {
				if _, ok := constString(pt); !ok {
					dyn++
				}
			}
			r.count("string_dynamic_parts", dyn)
		}
	})
}

// lastStoreIs: in straight-line order, the most recent whole-value store to
// alloc before `at` stores the result of call, and no field store intervenes.
func lastStoreIs(alloc *ssa.Alloc, at ssa.Instruction, call *ssa.Call) bool {
	var last *ssa.Store
	for _, ref := range referrers(alloc) {
		s, ok := ref.(*ssa.Store)
		if !ok || s.Addr != alloc {
			continue
		}
		if s.Block().Dominates(at.Block()) && (s.Block() != at.Block() || instrPos(s).i < instrPos(at).i) {
			if last == nil || (last.Block().Dominates(s.Block()) && (last.Block() != s.Block() || instrPos(last).i < instrPos(s).i)) {
				last = s
			}
		}
	}
	if last == nil || last.Val != ssa.Value(call) {
		return false
	}
	// no store through a field address of the alloc at all
	for _, ref := range referrers(alloc) {
		if fa, ok := ref.(*ssa.FieldAddr); ok {
			for _, r2 := range referrers(fa) {
				if st, ok := r2.(*ssa.Store); ok && st.Addr == fa {
					return false
				}
			}
		}
	}
	return true
}

// checkRelsSorted: in Schema.Rels, the slice filled from a map range is
// passed to a sort before it is returned; the comparator key is injective; the
// map key used to build the set is injective.
// checkRelsFresh: the listing is a function of the schema's types alone: Rels
// and what it calls read no Schema field other than Types (no memoised list
// that could outlive a later edit).
func checkRelsFresh(p *Prog, r *Report, rels *ssa.Function) {
	n := 0
	for _, g := range p.cg.Reachable(rels) {
		if len(g.Params) == 0 || !strings.HasSuffix(typeStr(g.Params[0].Type()), "*jsonapi.Schema") && typeStr(g.Params[0].Type()) != "*Schema" {
			continue
		}
		recv := g.Params[0]
		eachInstr(g, func(ins ssa.Instruction) {
			fa, ok := ins.(*ssa.FieldAddr)
			if !ok || fa.X != ssa.Value(recv) {
				return
			}
			n++
			_, fl := fieldRef(fa.X, fa.Field)
			r.decide(fl == "Types", "C16.listing-fresh", funcName(g)+":reads:"+fl, p.pos(fa.Pos()), "reads the schema's types only", funcName(g)+" reads Schema."+fl+": the listing is not computed from the current types alone and can be stale after an edit that does not refresh it")
		})
	}
	r.floor("schema field reads under Rels", n, 1)
}

func checkRelsSorted(p *Prog, r *Report, rels *ssa.Function) {
	checkRelsFresh(p, r, rels)
	fns := p.cg.Reachable(rels)
	mapRanges := 0
	for _, f := range fns {
		eachInstr(f, func(ins ssa.Instruction) {
			rg, ok := ins.(*ssa.Range)
			if !ok {
				return
			}
			if _, isMap := rg.X.Type().Underlying().(*types.Map); !isMap {
				return
			}
			mapRanges++
		})
	}
	r.count("map_ranges_under_Rels", mapRanges)

	// (a) returned slice is sorted after the last append
	var ret *ssa.Return
	eachInstr(rels, func(ins ssa.Instruction) {
		if x, ok := ins.(*ssa.Return); ok {
			ret = x
		}
	})
	sorted := false
	var sortCall *ssa.Call
	if ret != nil && len(ret.Results) == 1 {
		if ld, ok := ret.Results[0].(*ssa.UnOp); ok {
			if al, ok := ld.X.(*ssa.Alloc); ok {
				// a sort.* call on a load of the same alloc dominates the return and no store to alloc lies between
				eachInstr(rels, func(ins ssa.Instruction) {
					c, ok := ins.(*ssa.Call)
					if !ok {
						return
					}
					sc := c.Common().StaticCallee()
					if sc == nil || sc.Pkg == nil || sc.Pkg.Pkg.Path() != "sort" {
						return
					}
					if len(c.Common().Args) == 0 {
						return
					}
					a := stripValue(c.Common().Args[0])
					if l2, ok := a.(*ssa.UnOp); ok && l2.X == ssa.Value(al) && c.Block().Dominates(ret.Block()) {
						clean := true
						for _, ref := range referrers(al) {
							if s, ok := ref.(*ssa.Store); ok && s.Addr == ssa.Value(al) {
								if reachableAvoiding(c, s, nil) && reachableAvoiding(s, ret, nil) {
									clean = false
								}
							}
						}
						if clean {
							sorted = true
							sortCall = c
						}
					}
				})
			}
		}
	}
	var lessFn *ssa.Function
	if !sorted && ret != nil && len(ret.Results) == 1 {
		// the list is a plain local: a sort.* call on the very value that is returned
		eachInstr(rels, func(ins ssa.Instruction) {
			c, ok := ins.(*ssa.Call)
			if !ok || len(c.Common().Args) == 0 {
				return
			}
			sc := c.Common().StaticCallee()
			if sc == nil || sc.Pkg == nil || sc.Pkg.Pkg.Path() != "sort" {
				return
			}
			if stripValue(c.Common().Args[0]) == ret.Results[0] && c.Block().Dominates(ret.Block()) {
				sorted = true
				sortCall = c
			}
		})
	}
	if sortCall != nil && (fullName(sortCall.Common().StaticCallee()) == "sort.Sort" || fullName(sortCall.Common().StaticCallee()) == "sort.Stable") {
		// sort.Sort(T(list)): the comparator is T's Less method
		if mi, ok := sortCall.Common().Args[0].(*ssa.MakeInterface); ok {
			for _, g := range p.Funcs {
				if g.Name() == "Less" && g.Signature.Recv() != nil && types.Identical(g.Signature.Recv().Type(), mi.X.Type()) {
					lessFn = g
				}
			}
		}
	}
	r.decide(sorted, "R7.map-order", "Rels:return-sorted", p.pos(rels.Pos()),
		"the slice filled from the map is sorted before it is returned", "Schema.Rels returns relationships in map-iteration order (no sort between the last append and the return)")

	// (b) comparator key
	if sortCall != nil {
		var cmps []*ssa.Function
		for _, a := range sortCall.Common().Args {
			if mc, ok := a.(*ssa.MakeClosure); ok {
				cmps = append(cmps, mc.Fn.(*ssa.Function))
			}
		}
		if lessFn != nil {
			cmps = append(cmps, lessFn)
		}
		for _, cmp := range cmps {
			r.fn(funcName(cmp))
			found := false
			eachInstr(cmp, func(ins ssa.Instruction) {
				b, ok := ins.(*ssa.BinOp)
				if !ok || (b.Op != token.LSS && b.Op != token.GTR) {
					return
				}
				for _, side := range []ssa.Value{b.X, b.Y} {
					if bad, desc := nonInjectiveConcat(side); bad && !found {
						found = true
						r.bad("R8.concat-key", "Rels:comparator:"+desc, p.pos(b.Pos()),
							"the sort key "+desc+" is a concatenation without separator: distinct relationships can tie, and with an unstable sort over map-ordered input the listing order then depends on map iteration order")
					}
				}
			})
			if !found {
				r.ok("R8.concat-key", "Rels:comparator", p.pos(cmp.Pos()), "comparator does not compare concatenated keys")
			}
			checkComparatorTotal(p, r, cmp)
		}
	}

	// (c) the set key in buildRels
	nSetKeys := 0
	for _, f := range fns {
		eachInstr(f, func(ins ssa.Instruction) {
			mu, ok := ins.(*ssa.MapUpdate)
			if !ok {
				return
			}
			mt, ok := mu.Map.Type().Underlying().(*types.Map)
			if !ok {
				return
			}
			involvesRel := func(t types.Type) bool {
				nt, ok := t.(*types.Named)
				return ok && nt.Obj().Name() == "Rel"
			}
			if !involvesRel(mt.Elem()) && !involvesRel(mt.Key()) {
				return
			}
			nSetKeys++
			desc := typeStr(mt.Key())
			inj := true
			if bt, isBasic := mt.Key().Underlying().(*types.Basic); isBasic && bt.Info()&types.IsString != 0 {
				// a string key must be an injective encoding of the relationship
				inj = false
				switch k := mu.Key.(type) {
				case *ssa.Call:
					if sc := k.Common().StaticCallee(); sc != nil {
						desc = funcName(sc)
					}
				case *ssa.BinOp:
					_, desc = nonInjectiveConcat(k)
				}
			}
			r.decide(inj, "R8.concat-key", funcName(f)+":set-key:"+desc, p.pos(mu.Pos()),
				"set keyed by a value compared field by field ("+desc+")",
				"the set of relationships is keyed by "+desc+", which joins unconstrained names with '_': distinct relationships (type 'a_b' name 'c' / type 'a' name 'b_c') collide and one of them is dropped from Schema.Rels")
		})
	}
	r.floor("relationship-set keys", nSetKeys, 1)
	_ = sort.Strings
}

// elemField: v reads field f of element <param> of the sorted slice
// (rels[i].FromType): returns the index parameter and the field name.
func elemField(v ssa.Value, cmp *ssa.Function) (int, string, bool) {
	base, f, ok := fieldLoad(v)
	if !ok {
		return 0, "", false
	}
	// through a copy of the element (a := rels[i])
	if al, isAl := base.(*ssa.Alloc); isAl {
		if sv := singleStore(al); sv != nil {
			base = sv
		}
	}
	if ld, isLd := base.(*ssa.UnOp); isLd && ld.Op == token.MUL {
		base = ld.X
	}
	// a comparison helper taking the two elements by value: its parameters
	// play the roles of element i and element j
	if prm, isP := base.(*ssa.Parameter); isP && prm.Parent() == cmp {
		for k, q := range cmp.Params {
			if q == prm {
				return k, f, true
			}
		}
	}
	ia, ok := base.(*ssa.IndexAddr)
	if !ok {
		return 0, "", false
	}
	off := 0
	if cmp.Signature.Recv() != nil {
		off = 1 // a Less(i, j) method: the receiver comes first
	}
	for k, prm := range cmp.Params {
		if ia.Index == ssa.Value(prm) && k >= off {
			return k - off, f, true
		}
	}
	return 0, "", false
}

// checkComparatorTotal: the less function of Schema.Rels orders any two
// relationships that differ in one of the four name fields (the set is keyed by
// the whole relationship, so a comparator that ignores a field leaves ties
// whose order follows map iteration). Decided by evaluating the comparator's
// branches for every scenario "all name fields equal except F".
func checkComparatorTotal(p *Prog, r *Report, cmp *ssa.Function) {
	// the closure may only delegate to a named helper less(a, b) applied to
	// elements i and j, in that order: analyse the helper then
	{
		var rets []*ssa.Return
		for _, b := range cmp.Blocks {
			if ret, ok := b.Instrs[len(b.Instrs)-1].(*ssa.Return); ok {
				rets = append(rets, ret)
			}
		}
		if len(rets) == 1 && len(rets[0].Results) == 1 {
			if c, ok := rets[0].Results[0].(*ssa.Call); ok {
				if g := c.Common().StaticCallee(); g != nil && p.inTarget(g) && g.Blocks != nil && len(c.Common().Args) == 2 && len(cmp.Params) == 2 {
					k0, _, ok0 := elemOfSorted(c.Common().Args[0], cmp)
					k1, _, ok1 := elemOfSorted(c.Common().Args[1], cmp)
					if ok0 && ok1 && k0 == 0 && k1 == 1 {
						r.fn(funcName(g))
						cmp = g
					}
				}
			}
		}
	}
	fields := []string{"FromType", "FromName", "ToType", "ToName"}
	eval := func(diff string, sign int) (string, string) {
		// sign: order of element i relative to element j on field diff
		var oracle func(cond ssa.Value) int
		cmpOf := func(v ssa.Value) int {
			bo, ok := v.(*ssa.BinOp)
			if !ok {
				return -1
			}
			ki, fi, ok1 := elemField(bo.X, cmp)
			kj, fj, ok2 := elemField(bo.Y, cmp)
			if !ok1 || !ok2 || fi != fj || ki == kj {
				return -1
			}
			c := 0
			if fi == diff {
				c = sign
				if ki == 1 {
					c = -sign
				}
			}
			var res bool
			switch bo.Op {
			case token.LSS:
				res = c < 0
			case token.LEQ:
				res = c <= 0
			case token.GTR:
				res = c > 0
			case token.GEQ:
				res = c >= 0
			case token.EQL:
				res = c == 0
			case token.NEQ:
				res = c != 0
			default:
				return -1
			}
			if res {
				return 1
			}
			return 0
		}
		oracle = func(cond ssa.Value) int {
			if u, ok := cond.(*ssa.UnOp); ok && u.Op == token.NOT {
				switch oracle(u.X) {
				case 1:
					return 0
				case 0:
					return 1
				}
				return -1
			}
			return cmpOf(cond)
		}
		rets, note := walkToReturns(cmp, oracle)
		set := map[string]bool{}
		for _, rt := range rets {
			if len(rt.Results) != 1 {
				set["?"] = true
				continue
			}
			if cb, ok := constBool(rt.Results[0]); ok {
				set[fmt.Sprint(cb)] = true
				continue
			}
			switch oracle(rt.Results[0]) {
			case 1:
				set["true"] = true
			case 0:
				set["false"] = true
			default:
				// a phi of comparison results: resolve each edge
				if phi, ok := rt.Results[0].(*ssa.Phi); ok {
					for _, e := range phi.Edges {
						if cb, ok := constBool(e); ok {
							set[fmt.Sprint(cb)] = true
						} else {
							switch oracle(e) {
							case 1:
								set["true"] = true
							case 0:
								set["false"] = true
							default:
								set["?"] = true
							}
						}
					}
				} else {
					set["?"] = true
				}
			}
		}
		var ks []string
		for k := range set {
			ks = append(ks, k)
		}
		sort.Strings(ks)
		return strings.Join(ks, "|"), note
	}
	for _, f := range fields {
		lt, _ := eval(f, -1)
		gt, _ := eval(f, 1)
		r.decide(lt == "true" && gt == "false", "C16.total-order", "Rels:comparator:differ-in-"+f, p.pos(cmp.Pos()),
			"less(i,j) is true and less(j,i) false when only "+f+" differs",
			"two relationships that differ only in "+f+" are not ordered by the comparator (less(i,j)="+lt+", less(j,i)="+gt+"): their relative order in Schema.Rels follows map iteration order")
	}
	eq, _ := eval("", 0)
	r.decide(eq == "false", "C16.total-order", "Rels:comparator:equal", p.pos(cmp.Pos()), "irreflexive on equal names", "the comparator is not irreflexive (less on equal elements = "+eq+")")
}

// elemOfSorted: v is the element <param k> of the sorted slice, loaded whole
// (rels[i] passed by value).
func elemOfSorted(v ssa.Value, cmp *ssa.Function) (int, string, bool) {
	ld, ok := v.(*ssa.UnOp)
	if !ok || ld.Op != token.MUL {
		return 0, "", false
	}
	ia, ok := ld.X.(*ssa.IndexAddr)
	if !ok {
		return 0, "", false
	}
	for k, prm := range cmp.Params {
		if ia.Index == ssa.Value(prm) {
			return k, "", true
		}
	}
	return 0, "", false
}

// checkRelsComplete: the listing visits every relationship of every type: in
// the loop that feeds the normalised relationships into the set (or list) the
// store happens on every trip round the loop - no path from the top of the
// body back to the loop head avoids it, except under a membership test on the
// set itself.
func checkRelsComplete(p *Prog, r *Report, rels *ssa.Function) {
	n := 0
	for _, f := range p.cg.Reachable(rels) {
		if f.Pkg != rels.Pkg {
			continue
		}
		eachInstr(f, func(ins ssa.Instruction) {
			var stored ssa.Value
			var set ssa.Value
			switch x := ins.(type) {
			case *ssa.MapUpdate:
				stored, set = x.Key, x.Map
			default:
				return
			}
			fromNormalize := false
			for _, o := range originsDeep(stored) {
				v := o
				if ld, ok := v.(*ssa.UnOp); ok && ld.Op == token.MUL {
					if al, ok := ld.X.(*ssa.Alloc); ok {
						if sv := singleStore(al); sv != nil {
							v = sv
						}
					}
				}
				if c, _ := callOf(v); c != nil && c.Common().StaticCallee() != nil && c.Common().StaticCallee().Name() == "Normalize" {
					fromNormalize = true
				}
			}
			if !fromNormalize {
				return
			}
			// innermost loop around the store
			var loop map[*ssa.BasicBlock]bool
			var head *ssa.BasicBlock
			for _, h := range f.Blocks {
				if l := naturalLoop(h); l != nil && l[ins.Block()] && (loop == nil || len(l) < len(loop)) {
					loop, head = l, h
				}
			}
			if loop == nil {
				return
			}
			n++
			seen := map[*ssa.BasicBlock]bool{}
			var skip bool
			var walk func(b *ssa.BasicBlock)
			walk = func(b *ssa.BasicBlock) {
				if skip || seen[b] || !loop[b] {
					return
				}
				if b == head {
					skip = true
					return
				}
				if b == ins.Block() {
					return
				}
				seen[b] = true
				if ifi, ok := b.Instrs[len(b.Instrs)-1].(*ssa.If); ok {
					// a membership test on the set itself may skip the store
					for _, o := range originsDeep(ifi.Cond) {
						if ex, ok := o.(*ssa.Extract); ok {
							if lk, ok := ex.Tuple.(*ssa.Lookup); ok && lk.X == set {
								return
							}
						}
					}
				}
				for _, s := range b.Succs {
					walk(s)
				}
			}
			for _, s := range head.Succs {
				if loop[s] {
					walk(s)
				}
			}
			r.decide(!skip, "C16.listing-complete", funcName(f)+":"+p.describe(ins), p.pos(ins.Pos()), "every relationship visited is put into the set",
				"a trip round the loop that collects the normalised relationships can skip the store: some relationships (both ends of a pair inside one type, say) are listed from neither end")
		})
	}
	r.floor("collection loops of Schema.Rels", n, 1)
}
