package main

import (
	"go/constant"
	"fmt"
	"go/token"
	"go/types"
	"regexp"
	"sort"
	"strings"

	"golang.org/x/tools/go/ssa"
)

func init() { register("C20", checkC20) }

var e20 = []string{"Check", "BuildType", "MustBuildType", "Wrap", "IDAndType",
	"(*Wrapper).Get", "(*Wrapper).Set", "(*Wrapper).Copy", "(*Wrapper).New", "(*Wrapper).GetID", "(*Wrapper).SetID",
	"(*Wrapper).GetType", "(*Wrapper).Attrs", "(*Wrapper).Rels", "(*Wrapper).Attr", "(*Wrapper).Rel", "(*Wrapper).IDAndType",
	"(*Wrapper).Meta", "(*Wrapper).SetMeta"}

// structFieldTerm helpers --------------------------------------------------

// tagGetOf: v is <StructField>.Tag.Get("<key>"); returns the key.
func tagGetOf(v ssa.Value) (string, bool) {
	c, _ := callOf(v)
	if c == nil {
		return "", false
	}
	sc := c.Common().StaticCallee()
	if sc == nil || fullName(sc) != "reflect.(StructTag).Get" {
		return "", false
	}
	k, ok := constString(c.Common().Args[1])
	return k, ok
}

// splitOfTag: v is strings.Split(<tag Get(key)>, ","); returns key.
func splitOfTag(v ssa.Value) (string, bool) {
	c, _ := callOf(v)
	if c == nil {
		return "", false
	}
	sc := c.Common().StaticCallee()
	if sc == nil || fullName(sc) != "strings.Split" {
		return "", false
	}
	if sep, ok := constString(c.Common().Args[1]); !ok || sep != "," {
		return "", false
	}
	return tagGetOf(c.Common().Args[0])
}

// splitElem: v reads element k of a strings.Split(tag(key), ","); returns key, k.
func splitElem(v ssa.Value) (string, int64, bool) {
	ld, ok := v.(*ssa.UnOp)
	if !ok || ld.Op != token.MUL {
		return "", 0, false
	}
	ia, ok := ld.X.(*ssa.IndexAddr)
	if !ok {
		return "", 0, false
	}
	k, ok := constInt(ia.Index)
	if !ok {
		return "", 0, false
	}
	key, ok := splitOfTag(ia.X)
	return key, k, ok
}

func checkC20(p *Prog, r *Report) {
	r.rule("C20.inspectors-pure: BuildType, Wrap, Check, IDAndType and what they call in the package use no package-level variable that is modified at run time (no cache keyed by type or name): what they report for a struct depends on that struct alone")
	checkInspectorsPure(p, r, "C20")
	r.rule("C20.id-field: Wrapper.SetID stores through FieldByName(\"ID\") of the wrapped value (the field Check validates by its Go name) and GetID reads the ID from the wrapped value on every call; the Wrapper keeps no ID of its own")
	checkWrapperID(p, r, "C20")
	r.rule("C20.get-api-only: where Wrapper.getField (or its search helper) matches the key against a json tag it also tests the field's api tag, so Get only reads fields that belong to the resource")
	checkGetFieldAPIOnly(p, r, "C20")
	r.rule(r3RuleText)
	r.rule("C20.split-arity (precondition coverage): every constant index k into strings.Split(tag(\"api\"), \",\") in Wrap / BuildType is taken under the selector parts[0] == \"rel\", and Check, for fields selected by that very predicate, returns an error when the tag has fewer than k+1 parts; Check runs before the indexing on every path")
	r.rule("C20.reflect-set: every reflect.Value.Set(x) is justified by a dominating test that x's type is the field's type, or x is the zero value of the receiver's own type, or x is the same-index field of a value of the same struct type; SetString is only applied to the field named ID, whose string kind Check enforces")
	r.rule("C20.names: Check returns an error for a tagged field whose json tag is empty, is \"id\" or repeats; getField/setField's lookups by json tag therefore find the declared fields")
	r.rule("C20.type-list: the Go types Check accepts for attributes are exactly the 28 types of the kind table (as reflect.Type.String() prints them), and GetAttrType classifies each of them")
	r.rule("C20.sibling-agreement (labelled path comparison, two loop iterations): for the same answers about each struct field (is attribute, is relationship, has inverse, is []string), BuildType and Wrap store the same Attr and Rel values under the same keys")
	r.rule("C20.field-loops: every loop bounded by NumField() in Check, Wrap, BuildType and the Wrapper's methods runs its index from 0 in steps of 1")
	r.rule("C20.id-extraction: IDAndType hands out a struct's ID and type name under Kind() == reflect.String on the field named ID (the test Check applies) and reads it with String(); C20.check-pure: Check and its callees read no package-level variable")
	r.rule("C20.refusal: BuildType returns Check's error and Wrap panics on it, before any tag-dependent work; the Wrapper's explicit panics are only reachable with keys that are not declared fields or values of another type (API misuse outside the property's domain)")
	r.assume("A2: distinct supported Go field types have distinct reflect.Type.String(); struct fields are exported and settable for values passed by pointer (Wrap copies non-pointer values field by field)")
	r.notCovered("reflect semantics on exotic struct shapes (embedded structs, unexported fields); that marshaling a wrapped struct yields the right JSON (C01/C04)")

	pc := runR3(p, r, r3opts{entries: e20, explicit: map[string]string{
		"Wrap":                "documented refusal: the value is not a (pointer to a) struct, or Check rejected it",
		"MustBuildType":       "documented: panics when BuildType returns an error",
		"(*Wrapper).getField": "only reachable with a key that is empty or not a declared field; Check rejects structs whose declared fields lack a json tag (C20.names), callers inside the library pass declared names",
		"(*Wrapper).setField": "only reachable with an undeclared key or a value of another type than the field's (outside the property's domain: 'a value of the field's type'); C20.names covers declared keys",
	}, assumeGet: true, floorSites: 60, floorFns: 20})

	chk := p.Fn("Check")
	if chk == nil {
		r.fail("anchor Check not found")
		return
	}
	checkFieldLoopsFull(p, r, "C20")
	r.rule("C20.not-found-panic: every explicit panic of Wrapper.getField / setField is reached only with an empty key, with a value whose reflect type was found to differ from the field's, or after the scan over all NumField() fields was exhausted (directly, or through a search helper whose not-found answer - a negative index tested as negative, or found == false - is given only after its own exhaustive scan)")
	checkNotFoundPanics(p, r, "C20")
	r.rule("C20.first-match: a field search of getField / setField that remembers the match in a loop-carried index stops at the first match (the index is part of the loop condition, or the assignment leaves the loop)")
	checkFirstMatch(p, r, "C20")
	checkC20IDAndPurity(p, r)
	r.rule("C20.rel-types: Check compares a relationship field's reflect.Type.String() with exactly \"string\" and \"[]string\"")
	checkRelFieldTypes(p, r, chk)

	// ---- split-arity: discharge/flag the relTag[k] sites that R3 cannot prove
	// (re-decide them here with the precondition rule; R3's generic verdict for
	// these constructs is replaced)
	n := 0
	for _, name := range []string{"Wrap", "BuildType"} {
		f := p.Fn(name)
		if f == nil {
			r.fail("anchor %s not found", name)
			continue
		}
		eachInstrOf(append([]*ssa.Function{f}, stringHelpers(f)...), func(ins ssa.Instruction) {
			ia, ok := ins.(*ssa.IndexAddr)
			if !ok {
				return
			}
			k, ok := constInt(ia.Index)
			if !ok || k == 0 {
				return
			}
			key, ok := splitOfTag(ia.X)
			if !ok {
				return
			}
			n++
			okSite, why := splitArityCovered(p, f, ia, key, k, chk)
			r.decide(okSite, "C20.split-arity", name+":"+p.describe(ia), p.pos(ia.Pos()), why, why)
		})
	}
	r.floor("indexed tag parts in Wrap/BuildType", n, 2)
	// the R3 verdicts for those same sites are superseded
	for i := range r.obs {
		o := &r.obs[i]
		if o.Rule == "R3.bounds" && o.Status == "violated" && (strings.Contains(o.Key, "relTag[") || strings.Contains(o.Key, "strings.Split")) {
			o.Status = "discharged"
			o.Detail = "bound established by Check's validation of the same tag (see C20.split-arity): " + o.Detail
		}
	}
	_ = pc

	checkReflectSets(p, r)
	checkNames(p, r, chk)
	checkTypeList(p, r, chk)
	checkBuildWrapAgreement(p, r)
	checkRefusal(p, r, chk)
}

// splitArityCovered: the site parts[k] is guarded by parts[0]=="rel", Check was
// called before it, and Check rejects short tags under the same selector.
func splitArityCovered(p *Prog, f *ssa.Function, ia *ssa.IndexAddr, key string, k int64, chk *ssa.Function) (bool, string) {
	// (1) site guard
	guarded := false
	for _, ef := range expandFacts(factsAt(ia.Block())) {
		bo, ok := ef.Cond.(*ssa.BinOp)
		if !ok || bo.Op != token.EQL || !ef.Truth {
			continue
		}
		for _, pr := range [][2]ssa.Value{{bo.X, bo.Y}, {bo.Y, bo.X}} {
			if s, ok := constString(pr[1]); ok && s == "rel" {
				if k2, idx, ok := splitElem(pr[0]); ok && k2 == key && idx == 0 {
					guarded = true
				}
			}
		}
	}
	// a locally proved length also counts
	localLen := false
	for _, ef := range expandFacts(factsAt(ia.Block())) {
		bo, ok := ef.Cond.(*ssa.BinOp)
		if !ok {
			continue
		}
		if c, ok := bo.X.(*ssa.Call); ok && builtinName(c.Common()) == "len" && c.Call.Args[0] == ia.X {
			if n, ok := constInt(bo.Y); ok {
				op := bo.Op
				if !ef.Truth {
					op = negateCmp(op)
				}
				if (op == token.GTR && n >= k) || (op == token.GEQ && n >= k+1) || (op == token.EQL && n >= k+1) {
					localLen = true
				}
			}
		}
	}
	if localLen {
		return true, fmt.Sprintf("index %d is behind a local length test", k)
	}
	if !guarded {
		return false, fmt.Sprintf("parts[%d] of the api tag is read without the selector parts[0] == \"rel\" (and without a length test)", k)
	}
	// (2) Check is called before, on every path
	isCheckCall := func(ins ssa.Instruction) bool {
		c, ok := ins.(*ssa.Call)
		return ok && c.Common().StaticCallee() == chk
	}
	called := false
	if ia.Parent() == f {
		called = mustPassInstr(f, ia, isCheckCall)
	} else {
		// the site is in a helper of f: Check ran before every call of the helper in f
		called = true
		nc := 0
		eachInstr(f, func(ins ssa.Instruction) {
			if c, ok := ins.(*ssa.Call); ok && c.Common().StaticCallee() == ia.Parent() {
				nc++
				if !mustPassInstr(f, c, isCheckCall) {
					called = false
				}
			}
		})
		if nc == 0 {
			called = false
		}
	}
	if !called {
		return false, "Check is not called on every path before the tag is indexed"
	}
	// (3) Check's validating branch under the same selector
	covered := false
	eachInstrOf(checkPhases(chk), func(ins ssa.Instruction) {
		ifi, ok := ins.(*ssa.If)
		if !ok {
			return
		}
		// a length test on Split(tag(key)) that leads to an error return
		var lenOf ssa.Value
		var need int64 = -1
		var walk func(v ssa.Value)
		walk = func(v ssa.Value) {
			switch x := v.(type) {
			case *ssa.BinOp:
				if c, ok := x.X.(*ssa.Call); ok && builtinName(c.Common()) == "len" {
					if k2, ok := splitOfTag(c.Call.Args[0]); ok && k2 == key {
						if n, ok := constInt(x.Y); ok && x.Op == token.LSS {
							lenOf, need = c.Call.Args[0], n
						}
					}
				}
			}
		}
		walk(ifi.Cond)
		viaHelper := false
		if lenOf == nil {
			// the shape test may live in a small boolean helper: the branch that
			// does not return an error must imply len(parts) >= k+1
			cond, neg := ifi.Cond, false
			for {
				if u, ok := cond.(*ssa.UnOp); ok && u.Op == token.NOT {
					cond, neg = u.X, !neg
					continue
				}
				break
			}
			if hc, ok := cond.(*ssa.Call); ok {
				if g := hc.Common().StaticCallee(); g != nil && smallHelper(g) {
					errOnTrue := leadsToErrorReturn(ifi.Block().Succs[0])
					errOnFalse := leadsToErrorReturn(ifi.Block().Succs[1])
					if errOnTrue != errOnFalse {
						// value of the call on the edge that goes on
						safe := errOnFalse
						if neg {
							safe = !safe
						}
						for _, ef := range impliedByResult(g, safe) {
							bo, ok := ef.Cond.(*ssa.BinOp)
							if !ok {
								continue
							}
							lc, ok := bo.X.(*ssa.Call)
							if !ok || builtinName(lc.Common()) != "len" {
								continue
							}
							prm, ok := lc.Call.Args[0].(*ssa.Parameter)
							if !ok {
								continue
							}
							n, ok := constInt(bo.Y)
							if !ok {
								continue
							}
							op := bo.Op
							if !ef.Truth {
								op = negateCmp(op)
							}
							if !((op == token.GEQ && n >= k+1) || (op == token.GTR && n >= k)) {
								continue
							}
							for i, q := range g.Params {
								if q == prm && i < len(hc.Common().Args) {
									if k2, ok := splitOfTag(hc.Common().Args[i]); ok && k2 == key {
										viaHelper = true
									}
								}
							}
						}
					}
				}
			}
			if !viaHelper {
				return
			}
		} else {
			if need < k+1 {
				return
			}
			// true edge returns an error
			tb := ifi.Block().Succs[0]
			if !leadsToErrorReturn(tb) {
				return
			}
		}
		// selected by parts[0] == "rel" on the same split
		for _, ef := range expandFacts(factsAt(ifi.Block())) {
			bo, ok := ef.Cond.(*ssa.BinOp)
			if !ok || bo.Op != token.EQL || !ef.Truth {
				continue
			}
			for _, pr := range [][2]ssa.Value{{bo.X, bo.Y}, {bo.Y, bo.X}} {
				if s, ok := constString(pr[1]); ok && s == "rel" {
					if k2, idx, ok := splitElem(pr[0]); ok && k2 == key && idx == 0 {
						covered = true
					}
				}
			}
		}
	})
	if !covered {
		return false, fmt.Sprintf("Check has no branch that, for fields selected by parts[0] == \"rel\", rejects an api tag with fewer than %d parts: a struct it accepts makes this index go out of range", k+1)
	}
	return true, fmt.Sprintf("parts[%d] is read under parts[0] == \"rel\" after Check, which rejects such tags with fewer than %d parts under the same selector", k, k+1)
}

// leadsToErrorReturn: from b every path reaches a return of a non-nil error
// without passing another branch back into normal flow (b itself returns, or jumps to a returning block).
func leadsToErrorReturn(b *ssa.BasicBlock) bool {
	for i := 0; i < 4; i++ {
		last := b.Instrs[len(b.Instrs)-1]
		switch t := last.(type) {
		case *ssa.Return:
			n := len(t.Results)
			return n > 0 && !isNilConst(t.Results[n-1])
		case *ssa.Jump:
			b = b.Succs[0]
		default:
			return false
		}
	}
	return false
}

// checkReflectSets implements C20.reflect-set.
func checkReflectSets(p *Prog, r *Report) {
	n := 0
	for _, f := range p.cg.Reachable(fnList(p, e20)...) {
		eachInstr(f, func(ins ssa.Instruction) {
			c, ok := ins.(*ssa.Call)
			if !ok {
				return
			}
			sc := c.Common().StaticCallee()
			if sc == nil || pkgOf(sc) != "reflect" || sc.Signature.Recv() == nil {
				return
			}
			switch sc.Name() {
			case "Set":
				n++
				recv, arg := c.Common().Args[0], c.Common().Args[1]
				ok, why := reflectSetJustified(c, recv, arg)
				r.decide(ok, "C20.reflect-set", funcName(f)+":"+p.describe(c), p.pos(c.Pos()), why, "reflect.Value.Set panics when the value is not assignable to the field: "+why)
			case "SetString":
				n++
				// receiver is FieldByName("ID")
				good := false
				if fc, _ := callOf(c.Common().Args[0]); fc != nil {
					if g := fc.Common().StaticCallee(); g != nil && fullName(g) == "reflect.(Value).FieldByName" {
						if s, ok := constString(fc.Common().Args[1]); ok && s == "ID" {
							good = true
						}
					}
				}
				r.decide(good, "C20.reflect-set", funcName(f)+":"+p.describe(c), p.pos(c.Pos()), "SetString on the ID field, whose string kind Check enforces",
					"SetString is applied to a field other than ID: Check does not establish that it is of string kind")
			case "SetInt", "SetUint", "SetBool", "SetFloat", "SetBytes":
				n++
				r.bad("C20.reflect-set", funcName(f)+":"+p.describe(c), p.pos(c.Pos()), "a kind-specific reflect setter is used without a kind test established by Check")
			}
		})
	}
	r.floor("reflect setters", n, 2)
}

func fnList(p *Prog, names []string) []*ssa.Function {
	var out []*ssa.Function
	for _, n := range names {
		if f := p.Fn(n); f != nil {
			out = append(out, f)
		}
	}
	return out
}

func reflectTypeOf(v ssa.Value) ssa.Value {
	c, _ := callOf(v)
	if c == nil {
		return nil
	}
	if g := c.Common().StaticCallee(); g != nil && fullName(g) == "reflect.(Value).Type" {
		return c.Common().Args[0]
	}
	return nil
}

func reflectSetJustified(c *ssa.Call, recv, arg ssa.Value) (bool, string) {
	if ok, why := reflectSetJustifiedAt(factsAt(c.Block()), recv, arg); ok {
		return ok, why
	}
	if phi, ok := arg.(*ssa.Phi); ok && len(phi.Edges) > 0 {
		// one Set after the branches that compute the value: each incoming
		// value is justified under the outcomes that hold on its edge
		for k, e := range phi.Edges {
			pred := phi.Block().Preds[k]
			facts := factsAt(pred)
			if ifi, ok := pred.Instrs[len(pred.Instrs)-1].(*ssa.If); ok && pred.Succs[0] != pred.Succs[1] {
				facts = append(facts, edgeFact{Cond: ifi.Cond, Truth: pred.Succs[0] == phi.Block(), From: pred})
			}
			if _, again := e.(*ssa.Phi); again {
				return false, "no test relates the type of the value to the type of the field it is stored into"
			}
			if ok, why := reflectSetJustifiedAt(facts, recv, e); !ok {
				return false, why
			}
		}
		return true, "every value merged into the argument is justified on its own branch"
	}
	return reflectSetJustifiedAt(factsAt(c.Block()), recv, arg)
}

func reflectSetJustifiedAt(facts []edgeFact, recv, arg ssa.Value) (bool, string) {
	// (i) dominating val.Type() == field.Type()
	for _, ef := range expandFacts(facts) {
		bo, ok := ef.Cond.(*ssa.BinOp)
		if !ok || bo.Op != token.EQL || !ef.Truth {
			continue
		}
		a, b := reflectTypeOf(stripValue(bo.X)), reflectTypeOf(stripValue(bo.Y))
		if a != nil && b != nil && ((a == recv && b == arg) || (a == arg && b == recv)) {
			return true, "behind a test that the value's type is the field's type"
		}
		// the same test spelt with reflect.TypeOf(v) / reflect.ValueOf(v)
		ka, kb := reflectTypeKey(stripValue(bo.X)), reflectTypeKey(stripValue(bo.Y))
		kr, kv := reflectValueKey(recv), reflectValueKey(arg)
		if ka != "" && kb != "" && ((ka == kr && kb == kv) || (ka == kv && kb == kr)) {
			return true, "behind a test that the value's type is the field's type"
		}
	}
	// (ii') reflect.Zero(recv.Type())
	if zc, _ := callOf(arg); zc != nil {
		if g := zc.Common().StaticCallee(); g != nil && fullName(g) == "reflect.Zero" && reflectTypeOf(zc.Common().Args[0]) == recv {
			return true, "the zero value of the field's own type"
		}
	}
	// (ii) zero value of the receiver's type: reflect.New(recv.Type()).Elem()
	if ec, _ := callOf(arg); ec != nil {
		if g := ec.Common().StaticCallee(); g != nil && fullName(g) == "reflect.(Value).Elem" {
			if nc, _ := callOf(ec.Common().Args[0]); nc != nil {
				if g2 := nc.Common().StaticCallee(); g2 != nil && fullName(g2) == "reflect.New" {
					if reflectTypeOf(nc.Common().Args[0]) == recv {
						return true, "the zero value of the field's own type"
					}
				}
			}
		}
	}
	// (iii) same-index field of a value of the same struct type
	rf, _ := callOf(recv)
	af, _ := callOf(arg)
	if rf != nil && af != nil {
		g1, g2 := rf.Common().StaticCallee(), af.Common().StaticCallee()
		if g1 != nil && g2 != nil && fullName(g1) == "reflect.(Value).Field" && fullName(g2) == "reflect.(Value).Field" && rf.Common().Args[1] == af.Common().Args[1] {
			// receiver struct = reflect.New(other.Type()).Elem()
			if ec, _ := callOf(rf.Common().Args[0]); ec != nil {
				if nc, _ := callOf(ec.Common().Args[0]); nc != nil {
					if g3 := nc.Common().StaticCallee(); g3 != nil && fullName(g3) == "reflect.New" && reflectTypeOf(nc.Common().Args[0]) == af.Common().Args[0] {
						return true, "the same field of a value of the same struct type"
					}
				}
			}
		}
	}
	return false, "no test relates the type of the value to the type of the field it is stored into"
}

// checkNames implements C20.names.
func checkNames(p *Prog, r *Report, chk *ssa.Function) {
	// Check has an error return behind `json tag == ""`, behind `== "id"` and behind a seen-set lookup
	emptyOK, idOK, dupOK := false, false, false
	eachInstrOf(checkPhases(chk), func(ins ssa.Instruction) {
		ifi, ok := ins.(*ssa.If)
		if !ok {
			return
		}
		var walk func(v ssa.Value, truth bool)
		hit := func(kind string) {
			switch kind {
			case "empty":
				emptyOK = true
			case "id":
				idOK = true
			case "dup":
				dupOK = true
			}
		}
		kinds := []string{}
		walk = func(v ssa.Value, truth bool) {
			switch x := v.(type) {
			case *ssa.BinOp:
				if x.Op == token.EQL {
					for _, pr := range [][2]ssa.Value{{x.X, x.Y}, {x.Y, x.X}} {
						if key, ok := tagGetOf(pr[0]); ok && key == "json" {
							if s, ok := constString(pr[1]); ok {
								if s == "" {
									kinds = append(kinds, "empty")
								}
								if s == "id" {
									kinds = append(kinds, "id")
								}
							}
						}
					}
				}
			case *ssa.Lookup:
				if key, ok := tagGetOf(x.Index); ok && key == "json" {
					// the set that is consulted must be filled with the very same key
					// (the json tag), in the same function
					filled := false
					eachInstr(x.Parent(), func(i2 ssa.Instruction) {
						if mu, ok := i2.(*ssa.MapUpdate); ok && mu.Map == x.X {
							if k2, ok := tagGetOf(mu.Key); ok && k2 == "json" && (mu.Key == x.Index || sameTagRead(mu.Key, x.Index)) {
								filled = true
							}
						}
					})
					if filled {
						kinds = append(kinds, "dup")
					}
				}
			case *ssa.Extract:
				walk(x.Tuple, truth)
			case *ssa.Phi:
				for _, e := range x.Edges {
					walk(e, truth)
				}
			}
		}
		walk(ifi.Cond, true)
		if len(kinds) == 0 {
			return
		}
		// the true edge (possibly through || chains) must end in an error return
		if leadsToErrorReturn(ifi.Block().Succs[0]) || orChainToError(ifi.Block()) {
			for _, k := range kinds {
				hit(k)
			}
		}
	})
	r.decide(emptyOK, "C20.names", "Check:json-tag-empty", p.pos(chk.Pos()), "rejects a tagged field without a json tag", "Check accepts a tagged field whose json tag is empty: Get/Set/Copy later panic with \"key is empty\"")
	r.decide(idOK, "C20.names", "Check:json-tag-id", p.pos(chk.Pos()), "rejects a field named \"id\"", "Check accepts an attribute or relationship named \"id\", which Get and Set shadow with the ID")
	r.decide(dupOK, "C20.names", "Check:json-tag-duplicate", p.pos(chk.Pos()), "rejects a repeated json tag", "Check accepts two fields with the same json tag: they collapse into one map entry and one of them is unreachable")
	// getField / setField look fields up by json tag equality with the key
	for _, name := range []string{"(*Wrapper).getField", "(*Wrapper).setField"} {
		f := p.Fn(name)
		if f == nil {
			r.fail("anchor %s not found", name)
			continue
		}
		good := locatesByJSONTag(f, f.Params[1], 0)
		r.decide(good, "C20.names", name+":lookup-by-json-tag", p.pos(f.Pos()), "finds the field whose json tag equals the key", name+" does not locate the field by comparing the key with the json tag")
	}
}

// orChainToError: b belongs to an `a || b || c` chain whose common true target returns an error.
func orChainToError(b *ssa.BasicBlock) bool {
	t := b.Succs[0]
	return leadsToErrorReturn(t)
}

// checkTypeList implements C20.type-list.
func checkTypeList(p *Prog, r *Report, chk *ssa.Function) {
	kt := buildKindTable(p, newReport("scratch", "quick"))
	want := map[string]bool{}
	for _, t := range kt.allTypes() {
		want[fmtTypeString(t)] = true
	}
	got := map[string]bool{}
	eachInstrOf(checkPhases(chk), func(ins ssa.Instruction) {
		bo, ok := ins.(*ssa.BinOp)
		if !ok || bo.Op != token.EQL {
			return
		}
		for _, pr := range [][2]ssa.Value{{bo.X, bo.Y}, {bo.Y, bo.X}} {
			s, ok := constString(pr[1])
			if !ok {
				continue
			}
			if c, _ := callOf(pr[0]); c != nil && c.Common().IsInvoke() && c.Common().Method.Name() == "String" {
				// only the attribute switch: constants other than "string"/"[]string" of the relationship test are included too; filter below
				got[s] = true
			}
		}
	})
	// or a lookup of the type's String() in a package-level set of constants
	eachInstrOf(checkPhases(chk), func(ins ssa.Instruction) {
		lk, ok := ins.(*ssa.Lookup)
		if !ok {
			return
		}
		c, _ := callOf(lk.Index)
		star := false
		if c != nil && calleeIs(c, "strings", "TrimPrefix") && len(c.Common().Args) == 2 {
			// one leading asterisk stripped: T and *T are looked up as T
			if pre, ok := constString(c.Common().Args[1]); ok && pre == "*" {
				star = true
				c, _ = callOf(c.Common().Args[0])
			}
		}
		if c == nil || !c.Common().IsInvoke() || c.Common().Method.Name() != "String" {
			return
		}
		if ld, ok := lk.X.(*ssa.UnOp); ok && ld.Op == token.MUL {
			if gl, ok := ld.X.(*ssa.Global); ok {
				if set, ok := constStringSet(p, gl); ok {
					for k := range set {
						got[k] = true
						if star && !strings.HasPrefix(k, "*") {
							got["*"+k] = true
						}
					}
				}
			}
		}
	})
	for ts := range want {
		r.decide(got[ts], "C20.type-list", "Check:accepts "+ts, p.pos(chk.Pos()), "listed", "Check does not accept attribute fields of type "+ts+" although the kind table supports it")
	}
	var extra []string
	for ts := range got {
		if !want[ts] && ts != "[]string" {
			extra = append(extra, ts)
		}
	}
	sort.Strings(extra)
	r.decide(len(extra) == 0, "C20.type-list", "Check:accepts-only-table-types", p.pos(chk.Pos()), "no type outside the kind table is accepted",
		fmt.Sprintf("Check accepts attribute types outside the kind table: %v (GetAttrType classifies them as invalid: the built type carries an invalid kind)", extra))
	r.floor("types accepted by Check", len(got), 28)
}

// ---- BuildType ~ Wrap --------------------------------------------------

var isAttrRe = regexp.MustCompile(`^\(?TAG\(FIELD\([^()]*\),api\) == "attr"\)?$`)
var fieldIdxRe = regexp.MustCompile(`FIELD\((\d+)\)`)

func reflectQuestion(cond string, st *istate, ifi *ssa.If) string {
	it := ""
	if m := fieldIdxRe.FindStringSubmatch(cond); m != nil {
		it = "#" + m[1]
	}
	switch {
	case isAttrRe.MatchString(cond):
		// the whole tag, as Check tests it; a predicate on a part of the tag is a different question
		return "is-attr" + it
	case strings.Contains(cond, `,api),`) && strings.Contains(cond, `== "rel"`):
		return "is-rel" + it
	case strings.Contains(cond, `,api),`) && strings.Contains(cond, `!= "rel"`):
		return "!is-rel" + it // the negated question: the answer is inverted when read
	case strings.Contains(cond, "len(") && strings.Contains(cond, ",api)") && strings.Contains(cond, "== 3"):
		return "has-inverse" + it
	case strings.Contains(cond, "TYPESTR(") && strings.Contains(cond, `"[]string"`):
		return "is-to-many" + it
	case strings.Contains(cond, "NUMFIELD"):
		return fmt.Sprintf("more-fields@%p#%d", ifi.Block(), st.count[ifi.Block()])
	}
	return "other:" + cond
}

type buildPath struct {
	answer  map[string]string
	effects []string
	ok      bool
}

func exploreBuild(p *Prog, f *ssa.Function) []buildPath {
	in := &interp{p: p, f: f, maxPaths: 60000, maxVisit: 3, structuralNames: true, inline: smallHelper}
	in.callHook = func(st *istate, c *ssa.Call, args []*aval) *aval {
		cc := c.Common()
		if cc.IsInvoke() {
			switch cc.Method.Name() {
			case "Field":
				if len(args) == 1 {
					return structVal(map[string]*aval{"Tag": symv("TAGOF(FIELD("+args[0].String()+"))", nil), "Type": symv("TYPEOF(FIELD("+args[0].String()+"))", nil), "Name": symv("NAMEOF(FIELD("+args[0].String()+"))", nil)})
				}
			case "String":
				recv := in.get(st, cc.Value).String()
				if strings.HasPrefix(recv, "TYPEOF(") {
					return symv("TYPESTR("+strings.TrimSuffix(strings.TrimPrefix(recv, "TYPEOF("), ")")+")", types.Typ[types.String])
				}
			}
			return nil
		}
		sc := cc.StaticCallee()
		if sc == nil {
			return nil
		}
		switch fullName(sc) {
		case "reflect.(StructTag).Get":
			if len(args) == 2 {
				t := strings.TrimSuffix(strings.TrimPrefix(args[0].String(), "TAGOF("), ")")
				key := strings.Trim(args[1].String(), `"`)
				return symv("TAG("+t+","+key+")", types.Typ[types.String])
			}
		case "reflect.(Value).NumField":
			return symv("NUMFIELD", types.Typ[types.Int])
		case "reflect.(Value).Type":
			return symv("STRUCTTYPE", nil)
		case "reflect.(Value).Kind":
			return symv("KIND("+args[0].String()+")", nil)
		}
		switch funcName(sc) {
		case "Check":
			return &aval{k: aNil}
		case "IDAndType":
			return structVal(map[string]*aval{"0": symv("ID", nil), "1": symv("TYPENAME", types.Typ[types.String])})
		case "GetAttrType":
			return structVal(map[string]*aval{"0": symv("KINDOF("+args[0].String()+")", nil), "1": symv("NULLABLEOF("+args[0].String()+")", nil)})
		}
		return nil
	}
	in.forkHook = func(st *istate, cond *aval, ifi *ssa.If) string {
		return reflectQuestion(cond.String(), st, ifi)
	}
	in.mapUpdateHook = func(st *istate, mu *ssa.MapUpdate, m, k, v *aval) {
		mt, ok := mu.Map.Type().Underlying().(*types.Map)
		if !ok {
			return
		}
		which := structName(mt.Elem())
		if which != "Attr" && which != "Rel" {
			return
		}
		st.notes = append(st.notes, "effect:"+which+"["+k.String()+"]="+v.String())
	}
	params := map[*ssa.Parameter]*aval{}
	for _, prm := range f.Params {
		params[prm] = symv(prm.Name(), prm.Type())
	}
	var out []buildPath
	for _, o := range in.run(params) {
		if o.loop || o.panics || o.ret == nil {
			continue
		}
		bp := buildPath{answer: map[string]string{}, ok: true}
		for _, n := range o.notes {
			switch {
			case strings.HasPrefix(n, "effect:"):
				bp.effects = append(bp.effects, strings.TrimPrefix(n, "effect:"))
			case strings.Contains(n, "="):
				i := strings.LastIndex(n, "=")
				q := n[:i]
				if strings.HasPrefix(q, "other:") || strings.HasPrefix(q, "more-fields") {
					continue
				}
				v := n[i+1:]
				if strings.HasPrefix(q, "!") {
					q = q[1:]
					if v == "true" {
						v = "false"
					} else if v == "false" {
						v = "true"
					}
				}
				bp.answer[q] = v
			}
		}
		// an error return is not a build
		if len(o.results) > 0 {
			last := o.results[len(o.results)-1]
			if isErrorType(f.Signature.Results().At(f.Signature.Results().Len()-1).Type()) && last.k != aNil {
				bp.ok = false
			}
		}
		if bp.ok {
			out = append(out, bp)
		}
	}
	return out
}

func checkBuildWrapAgreement(p *Prog, r *Report) {
	bt, wr := p.Fn("BuildType"), p.Fn("Wrap")
	if bt == nil || wr == nil {
		r.fail("anchors BuildType / Wrap not found")
		return
	}
	bp, wp := exploreBuild(p, bt), exploreBuild(p, wr)
	r.floor("complete successful paths of BuildType", len(bp), 10)
	r.floor("complete successful paths of Wrap", len(wp), 10)
	sameQ := func(a, b buildPath) bool {
		if len(a.answer) != len(b.answer) {
			return false
		}
		for q, v := range a.answer {
			if w, ok := b.answer[q]; !ok || w != v {
				return false
			}
		}
		return true
	}
	nCmp := 0
	bad := ""
	matchedA, matchedB := map[int]bool{}, map[int]bool{}
	for ia, a := range bp {
		for ib, b := range wp {
			if !sameQ(a, b) {
				continue
			}
			matchedA[ia], matchedB[ib] = true, true
			nCmp++
			ea, eb := append([]string{}, a.effects...), append([]string{}, b.effects...)
			sort.Strings(ea)
			sort.Strings(eb)
			if strings.Join(ea, ";") != strings.Join(eb, ";") && bad == "" {
				bad = fmt.Sprintf("with the same answers %v BuildType stores %v but Wrap stores %v", a.answer, ea, eb)
			}
		}
	}
	// the two siblings ask the same questions: a path of one whose answers no
	// path of the other shares means one of them selects fields by a different
	// predicate (e.g. a part of the api tag instead of the whole tag)
	// (only the selecting questions - is it an attribute, is it a relationship -
	// are compared here: cardinality or the inverse may be computed as a value
	// by one sibling and by a branch in the other)
	// "the api tag is attr" and "its first part is rel" exclude each other:
	// a sibling that asks only one of them on some path (a switch) has
	// answered the other; a path that answers both with yes is infeasible
	selectors := func(b buildPath) (string, bool) {
		m := map[string]string{}
		for q, v := range b.answer {
			if strings.HasPrefix(q, "is-attr") || strings.HasPrefix(q, "is-rel") {
				m[q] = v
			}
		}
		for q, v := range b.answer {
			if v != "true" {
				continue
			}
			other := ""
			switch {
			case strings.HasPrefix(q, "is-attr"):
				other = "is-rel" + strings.TrimPrefix(q, "is-attr")
			case strings.HasPrefix(q, "is-rel"):
				other = "is-attr" + strings.TrimPrefix(q, "is-rel")
			default:
				continue
			}
			if m[other] == "true" {
				return "", false
			}
			m[other] = "false"
		}
		var ks []string
		for q, v := range m {
			ks = append(ks, q+"="+v)
		}
		sort.Strings(ks)
		return strings.Join(ks, " "), true
	}
	selA, selB := map[string]bool{}, map[string]bool{}
	for _, a := range bp {
		if k, ok := selectors(a); ok {
			selA[k] = true
		}
	}
	for _, b := range wp {
		if k, ok := selectors(b); ok {
			selB[k] = true
		}
	}
	_, _ = matchedA, matchedB
	lonely := ""
	for k := range selA {
		if !selB[k] && (lonely == "" || k < lonely) {
			lonely = k
		}
	}
	if lonely != "" {
		lonely = "BuildType decides on [" + lonely + "], which no path of Wrap does"
	} else {
		for k := range selB {
			if !selA[k] && (lonely == "" || k < lonely) {
				lonely = k
			}
		}
		if lonely != "" {
			lonely = "Wrap decides on [" + lonely + "], which no path of BuildType does"
		}
	}
	r.decide(lonely == "", "C20.sibling-agreement", "BuildType~Wrap:same-questions", p.pos(wr.Pos()), "every path of either function has a partner with the same answers about the struct's fields",
		"BuildType and Wrap do not select fields by the same predicates: "+lonely+"; the built type and the wrapper then disagree on structs that Check accepts")
	r.count("build_wrap_path_pairs_compared", nCmp)
	r.floor("BuildType/Wrap path pairs with identical answers", nCmp, 10)
	r.decide(bad == "", "C20.sibling-agreement", "BuildType~Wrap", p.pos(bt.Pos()), fmt.Sprintf("%d path pairs with identical answers store identical attributes and relationships", nCmp),
		"the type BuildType builds differs from what the wrapper reports for the same struct: "+bad)
}

// checkRefusal implements C20.refusal.
func checkRefusal(p *Prog, r *Report, chk *ssa.Function) {
	bt, wr := p.Fn("BuildType"), p.Fn("Wrap")
	if bt == nil || wr == nil {
		return
	}
	// BuildType: the error of Check is tested and a non-nil error returned on that edge
	for _, f := range []*ssa.Function{bt, wr} {
		var call *ssa.Call
		eachInstr(f, func(ins ssa.Instruction) {
			if c, ok := ins.(*ssa.Call); ok && c.Common().StaticCallee() == chk {
				call = c
			}
		})
		if call == nil {
			r.bad("C20.refusal", funcName(f)+":calls-Check", p.pos(f.Pos()), funcName(f)+" does not call Check")
			continue
		}
		refuses := false
		for _, ref := range referrers(call) {
			bo, ok := ref.(*ssa.BinOp)
			if !ok || bo.Op != token.NEQ {
				continue
			}
			for _, r2 := range referrers(bo) {
				ifi, ok := r2.(*ssa.If)
				if !ok {
					continue
				}
				tb := ifi.Block().Succs[0]
				if f == bt && leadsToErrorReturn(tb) {
					refuses = true
				}
				if f == wr {
					if _, isPanic := tb.Instrs[len(tb.Instrs)-1].(*ssa.Panic); isPanic {
						refuses = true
					}
				}
			}
		}
		r.decide(refuses, "C20.refusal", funcName(f)+":refuses-on-Check-error", p.pos(call.Pos()), "a struct that Check rejects is refused",
			funcName(f)+" does not refuse a struct that Check rejects")
		// every map update of attributes/relationships comes after the Check call
		okOrder := true
		eachInstr(f, func(ins ssa.Instruction) {
			if mu, ok := ins.(*ssa.MapUpdate); ok {
				if !mustPassInstr(f, mu, func(i2 ssa.Instruction) bool { return i2 == ssa.Instruction(call) }) {
					okOrder = false
				}
			}
		})
		r.decide(okOrder, "C20.refusal", funcName(f)+":Check-first", p.pos(call.Pos()), "Check runs before any tag-derived attribute or relationship is recorded",
			funcName(f)+" derives attributes or relationships from the tags before Check has validated the struct")
	}
}

// checkFieldLoopsFull: every loop over the fields of a struct (bound
// <x>.NumField()) in the functions that inspect user structs runs its index
// from 0 in steps of 1, so no field is passed over (shared by C17 and C20).
func checkFieldLoopsFull(p *Prog, r *Report, prefix string) {
	n := 0
	for _, f := range p.Funcs {
		name := funcName(f)
		if !(name == "Check" || name == "Wrap" || name == "BuildType" || strings.HasPrefix(name, "(*Wrapper).") || phaseOfStructInspector(p, f)) {
			continue
		}
		for _, b := range f.Blocks {
			loop := naturalLoop(b)
			if loop == nil {
				continue
			}
			ifi, ok := b.Instrs[len(b.Instrs)-1].(*ssa.If)
			if !ok {
				continue
			}
			bo, ok := ifi.Cond.(*ssa.BinOp)
			if !ok || bo.Op != token.LSS {
				continue
			}
			c, _ := callOf(bo.Y)
			if c == nil {
				continue
			}
			if c.Common().IsInvoke() {
				// reflect.Type.NumField()
				if c.Common().Method.Name() != "NumField" {
					continue
				}
			} else if sc := c.Common().StaticCallee(); sc == nil || !strings.HasSuffix(fullName(sc), ".NumField") {
				continue
			}
			n++
			start, step := inductionOf(bo.X, loop)
			r.decide(start == 0 && step == 1, prefix+".field-loops", name+":"+p.describe(ifi), p.pos(loopPos(&loopDesc{blocks: loop, header: b})), "visits fields 0 … NumField()-1",
				fmt.Sprintf("a loop over the struct's fields in %s does not visit every field (index starts at %d, step %d): a declared attribute or relationship is missing from what the wrapper reports", name, start, step))
		}
	}
	r.floor("loops over struct fields", n, 8)
}

// checkC20IDAndPurity: IDAndType extracts the ID under the very test Check
// applies to the ID field (string kind, so defined string types too), and
// Check's verdict depends on its argument alone (no package-level state).
func checkC20IDAndPurity(p *Prog, r *Report) {
	idt := p.Fn("IDAndType")
	if idt == nil {
		r.fail("anchor IDAndType not found")
	} else {
		r.fn(funcName(idt))
		// the return that hands out the api tag: guarded by Kind() == reflect.String on the field named ID
		n := 0
		for _, b := range idt.Blocks {
			ret, ok := b.Instrs[len(b.Instrs)-1].(*ssa.Return)
			if !ok || len(ret.Results) != 2 {
				continue
			}
			c, _ := callOf(ret.Results[1])
			if c == nil || c.Common().StaticCallee() == nil || !strings.HasSuffix(fullName(c.Common().StaticCallee()), "StructTag).Get") {
				continue
			}
			n++
			kindTest := false
			for _, ef := range expandFacts(factsAt(b)) {
				bo, ok := ef.Cond.(*ssa.BinOp)
				if !ok || bo.Op != token.EQL || !ef.Truth {
					continue
				}
				if k, ok := constInt(bo.Y); ok && k == 24 { // reflect.String
					if kc, _ := callOf(bo.X); kc != nil && kc.Common().StaticCallee() != nil && strings.HasSuffix(fullName(kc.Common().StaticCallee()), "Value).Kind") {
						kindTest = true
					}
				}
			}
			good := kindTest
			why := "the ID is recognised by something other than Kind() == reflect.String"
			if good {
				sc, _ := callOf(ret.Results[0])
				if sc == nil || sc.Common().StaticCallee() == nil || !strings.HasSuffix(fullName(sc.Common().StaticCallee()), "Value).String") {
					good, why = false, "the ID is not read with reflect.Value.String()"
				}
			}
			r.decide(good, "C20.id-extraction", "IDAndType:struct-id", p.pos(ret.Pos()), "ID read with String() under Kind() == reflect.String, the test Check applies", "IDAndType does not recognise every ID field Check accepts ("+why+"): for such a struct BuildType and Wrap get an empty type name and ID")
		}
		r.floor("tag-returning returns of IDAndType", n, 1)
	}
	// no package-level state in Check and what it calls inside the package
	chk := p.Fn("Check")
	if chk == nil {
		return
	}
	nG := 0
	for _, g := range p.cg.Reachable(chk) {
		eachInstr(g, func(ins ssa.Instruction) {
			for _, op := range ins.Operands(nil) {
				if *op == nil {
					continue
				}
				if gl, ok := (*op).(*ssa.Global); ok && gl.Pkg != nil && gl.Pkg.Pkg.Path() == targetPkgPath {
					if _, isSet := constStringSet(p, gl); isSet {
						continue // a set of constants filled at package initialisation and only looked up afterwards
					}
					nG++
					r.bad("C20.check-pure", funcName(g)+":global:"+gl.Name(), p.pos(ins.Pos()), "Check consults the package-level variable "+gl.Name()+": its verdict for a struct type can depend on which other types were checked before")
				}
			}
		})
	}
	if nG == 0 {
		r.ok("C20.check-pure", "Check:no-package-state", p.pos(chk.Pos()), "Check and its callees in the package read no package-level variable")
	}
}

// impliedByResult: the branch outcomes that hold whenever the boolean function
// g returns the given value (intersection over the returns that can yield it).
func impliedByResult(g *ssa.Function, value bool) []edgeFact {
	type key struct {
		c ssa.Value
		t bool
	}
	var common map[key]edgeFact
	for _, b := range g.Blocks {
		ret, ok := b.Instrs[len(b.Instrs)-1].(*ssa.Return)
		if !ok || len(ret.Results) != 1 {
			continue
		}
		facts := factsAt(b)
		if cb, isC := constBool(ret.Results[0]); isC {
			if cb != value {
				continue
			}
		} else {
			facts = append(facts, edgeFact{Cond: ret.Results[0], Truth: value})
		}
		cur := map[key]edgeFact{}
		for _, ef := range expandFacts(facts) {
			cur[key{ef.Cond, ef.Truth}] = ef
		}
		if common == nil {
			common = cur
			continue
		}
		for k := range common {
			if _, ok := cur[k]; !ok {
				delete(common, k)
			}
		}
	}
	var out []edgeFact
	for _, ef := range common {
		out = append(out, ef)
	}
	return out
}

// checkRelFieldTypes: Check accepts a relationship field only when its Go type
// prints exactly as "string" or "[]string" - the two types Wrap, BuildType and
// the Wrapper assert when they read such a field.
func checkRelFieldTypes(p *Prog, r *Report, chk *ssa.Function) {
	seen := map[string]bool{}
	// only comparisons made for fields selected as relationships count: the
	// block is reached under <x> == "rel", or the comparison sits in a small
	// helper called from such a block
	underRel := func(b *ssa.BasicBlock) bool {
		for _, ef := range expandFacts(factsAt(b)) {
			if bo, ok := ef.Cond.(*ssa.BinOp); ok && bo.Op == token.EQL && ef.Truth {
				if s, ok := constString(bo.Y); ok && s == "rel" {
					return true
				}
				if s, ok := constString(bo.X); ok && s == "rel" {
					return true
				}
			}
		}
		return false
	}
	inScope := map[*ssa.Function]bool{}
	anyRel := false
	phases := checkPhases(chk)
	isPhase := map[*ssa.Function]bool{}
	var phaseBlocks []*ssa.BasicBlock
	for _, g := range phases {
		isPhase[g] = true
		phaseBlocks = append(phaseBlocks, g.Blocks...)
	}
	for _, b := range phaseBlocks {
		if !underRel(b) {
			continue
		}
		anyRel = true
		for _, ins := range b.Instrs {
			if c, ok := ins.(*ssa.Call); ok {
				if g := c.Common().StaticCallee(); g != nil && g.Blocks != nil && smallHelper(g) {
					inScope[g] = true
				}
			}
		}
	}
	var fns []*ssa.Function
	fns = append(fns, phases...)
	for g := range inScope {
		if !isPhase[g] {
			fns = append(fns, g)
		}
	}
	eachInstrOf(fns, func(ins ssa.Instruction) {
		bo, ok := ins.(*ssa.BinOp)
		if !ok || (bo.Op != token.NEQ && bo.Op != token.EQL) {
			return
		}
		if anyRel && isPhase[ins.Parent()] && !underRel(ins.Block()) {
			return
		}
		for _, pr := range [][2]ssa.Value{{bo.X, bo.Y}, {bo.Y, bo.X}} {
			s, ok := constString(pr[1])
			if !ok || (s != "string" && s != "[]string") {
				continue
			}
			c, _ := callOf(pr[0])
			if c == nil || !c.Common().IsInvoke() || c.Common().Method.Name() != "String" {
				continue
			}
			// leads to an error return on mismatch
			seen[s] = true
		}
	})
	r.decide(seen["string"] && seen["[]string"], "C20.rel-types", "Check:relationship-field-types", p.pos(chk.Pos()), "a relationship field must be exactly string or []string", "Check does not compare a relationship field's type with exactly \"string\" and \"[]string\": it accepts fields (e.g. of a defined string type) on which Wrap, Copy and MarshalResource's .(string) / .([]string) assertions panic")
}

// locatesByJSONTag: f (or a small lookup helper it hands the key to) compares
// the key with a field's json tag.
func locatesByJSONTag(f *ssa.Function, key ssa.Value, depth int) bool {
	good := false
	eachInstr(f, func(ins ssa.Instruction) {
		switch x := ins.(type) {
		case *ssa.BinOp:
			if x.Op == token.EQL || x.Op == token.NEQ {
				for _, pr := range [][2]ssa.Value{{x.X, x.Y}, {x.Y, x.X}} {
					if k, ok := tagGetOf(pr[1]); ok && k == "json" && pr[0] == key {
						good = true
					}
				}
			}
		case *ssa.Call:
			g := x.Common().StaticCallee()
			if g == nil || depth > 1 || !smallHelper(g) {
				return
			}
			for i, a := range x.Common().Args {
				if a == key && i < len(g.Params) && locatesByJSONTag(g, g.Params[i], depth+1) {
					good = true
				}
			}
		}
	})
	return good
}

// constStringSet: gl is a package-level map[string]bool that the package
// initialiser fills with constant keys (value true) and that every other
// function only looks up (m[k], len(m)): effectively a constant set. The
// keys are returned.
func constStringSet(p *Prog, gl *ssa.Global) (map[string]bool, bool) {
	mt, ok := deref(gl.Type()).Underlying().(*types.Map)
	if !ok {
		return nil, false
	}
	if kb, ok := mt.Key().Underlying().(*types.Basic); !ok || kb.Info()&types.IsString == 0 {
		return nil, false
	}
	if vb, ok := mt.Elem().Underlying().(*types.Basic); !ok || vb.Kind() != types.Bool {
		return nil, false
	}
	var mk *ssa.MakeMap
	good := true
	for _, f := range p.Funcs {
		isInit := f.Name() == "init" && f.Signature.Recv() == nil && f.Parent() == nil
		eachInstr(f, func(ins ssa.Instruction) {
			uses := false
			for _, op := range ins.Operands(nil) {
				if *op == ssa.Value(gl) {
					uses = true
				}
			}
			if !uses {
				return
			}
			switch x := ins.(type) {
			case *ssa.Store:
				m, isMk := x.Val.(*ssa.MakeMap)
				if !isInit || x.Addr != ssa.Value(gl) || !isMk || mk != nil {
					good = false
					return
				}
				mk = m
			case *ssa.UnOp:
				if x.Op != token.MUL {
					good = false
					return
				}
				for _, ref := range referrers(x) {
					switch y := ref.(type) {
					case *ssa.Lookup:
						if y.X != ssa.Value(x) {
							good = false
						}
					case *ssa.Call:
						if builtinName(y.Common()) != "len" {
							good = false
						}
					case *ssa.DebugRef:
					default:
						good = false
					}
				}
			default:
				good = false
			}
		})
	}
	if !good || mk == nil {
		return nil, false
	}
	set := map[string]bool{}
	for _, ref := range referrers(mk) {
		switch y := ref.(type) {
		case *ssa.MapUpdate:
			k, ok := constString(y.Key)
			c, isC := y.Value.(*ssa.Const)
			if !ok || !isC || c.Value == nil || c.Value.Kind() != constant.Bool || !constant.BoolVal(c.Value) || y.Map != ssa.Value(mk) {
				return nil, false
			}
			set[k] = true
		case *ssa.Store:
		case *ssa.DebugRef:
		default:
			return nil, false
		}
	}
	return set, len(set) > 0
}

// checkNotFoundPanics implements C20.not-found-panic: each explicit panic of
// Wrapper.getField / setField is reached only (a) with an empty key, (b) with
// a value whose type was found to differ from the field's, or (c) after the
// scan over all NumField() fields was exhausted - directly, or through a
// search helper whose "not found" answer (a negative index tested as such, or
// found == false) is only given after its own scan was exhausted. The
// justification "only reachable with an undeclared key" rests on (c).
func checkNotFoundPanics(p *Prog, r *Report, prefix string) {
	isNumFieldBound := func(cond ssa.Value, truth bool) bool {
		bo, ok := cond.(*ssa.BinOp)
		if !ok || truth {
			return false
		}
		if bo.Op != token.LSS {
			return false
		}
		c, _ := callOf(bo.Y)
		return c != nil && c.Common().StaticCallee() != nil && fullName(c.Common().StaticCallee()) == "reflect.(Value).NumField"
	}
	// helperSaysNotFound: (cond, truth) states that the search helper g, called
	// in the condition, reported "not found"; g must be exhaustive
	var exhaustive func(g *ssa.Function) bool
	exhaustive = func(g *ssa.Function) bool {
		if g == nil || g.Blocks == nil || !smallHelper(g) {
			return false
		}
		n := 0
		for _, b := range g.Blocks {
			ret, ok := b.Instrs[len(b.Instrs)-1].(*ssa.Return)
			if !ok || len(ret.Results) == 0 {
				continue
			}
			notFound := false
			switch len(ret.Results) {
			case 1:
				if cv, ok := constInt(ret.Results[0]); ok && cv < 0 {
					notFound = true
				}
			case 2:
				if c, ok := ret.Results[1].(*ssa.Const); ok && c.Value != nil && c.Value.Kind() == constant.Bool && !constant.BoolVal(c.Value) {
					notFound = true
				}
			}
			if !notFound {
				continue
			}
			n++
			if !mustPassEdge(g, b, isNumFieldBound) {
				return false
			}
		}
		return n > 0
	}
	notFoundTest := func(cond ssa.Value, truth bool) bool {
		switch x := cond.(type) {
		case *ssa.BinOp:
			c, _ := callOf(x.X)
			k, isC := constInt(x.Y)
			if c == nil || !isC || c.Common().StaticCallee() == nil || c.Common().StaticCallee().Signature.Results().Len() != 1 {
				return false
			}
			neg := false // does (cond == truth) hold exactly for the negative results?
			switch {
			case x.Op == token.LSS && k == 0, x.Op == token.LEQ && k == -1, x.Op == token.EQL && k == -1:
				neg = truth
			case x.Op == token.GEQ && k == 0, x.Op == token.GTR && k == -1, x.Op == token.NEQ && k == -1:
				neg = !truth
			default:
				return false
			}
			return neg && exhaustive(c.Common().StaticCallee())
		case *ssa.Extract:
			c, ok := x.Tuple.(*ssa.Call)
			if !ok || x.Index != 1 || truth {
				return false
			}
			return exhaustive(c.Common().StaticCallee())
		}
		return false
	}
	n := 0
	for _, name := range []string{"(*Wrapper).getField", "(*Wrapper).setField"} {
		f := p.Fn(name)
		if f == nil {
			r.fail("anchor %s not found", name)
			continue
		}
		eachInstr(f, func(ins ssa.Instruction) {
			pn, ok := ins.(*ssa.Panic)
			if !ok {
				return
			}
			n++
			why := ""
			for _, ef := range expandFacts(factsAt(pn.Block())) {
				bo, ok := ef.Cond.(*ssa.BinOp)
				if !ok {
					continue
				}
				if bo.Op == token.EQL && ef.Truth {
					for _, pr := range [][2]ssa.Value{{bo.X, bo.Y}, {bo.Y, bo.X}} {
						if s, ok := constString(pr[1]); ok && s == "" && pr[0] == ssa.Value(f.Params[1]) {
							why = "the key is empty"
						}
					}
				}
				if (bo.Op == token.NEQ && ef.Truth) || (bo.Op == token.EQL && !ef.Truth) {
					if reflectTypeKey(stripValue(bo.X)) != "" && reflectTypeKey(stripValue(bo.Y)) != "" {
						why = "the value's type differs from the field's"
					}
				}
			}
			if why == "" && mustPassEdge(f, pn.Block(), func(cond ssa.Value, truth bool) bool {
				return isNumFieldBound(cond, truth) || notFoundTest(cond, truth)
			}) {
				why = "the scan over all fields found none with that json tag"
			}
			r.decide(why != "", prefix+".not-found-panic", name+":"+p.describe(pn), p.pos(pn.Pos()), "reached only when "+why,
				name+" can panic although a declared field has the requested name: the panic is not confined to an empty key, a value of another type, or an exhausted scan of the struct's fields (e.g. the first field is treated as not found)")
		})
	}
	r.floor("explicit panics in getField/setField", n, 4)
}

// checkPhases: Check and the small helpers it calls that return an error (its
// validation phases; Check hands their error on).
func checkPhases(chk *ssa.Function) []*ssa.Function {
	out := []*ssa.Function{chk}
	seen := map[*ssa.Function]bool{chk: true}
	eachInstr(chk, func(ins ssa.Instruction) {
		c, ok := ins.(*ssa.Call)
		if !ok {
			return
		}
		g := c.Common().StaticCallee()
		if g == nil || g.Blocks == nil || seen[g] || g.Pkg != chk.Pkg || g.Name() == "" || g.Name()[0] < 'a' || g.Name()[0] > 'z' {
			return
		}
		seen[g] = true
		res := g.Signature.Results()
		if res != nil && res.Len() >= 1 && isErrorType(res.At(res.Len()-1).Type()) {
			out = append(out, g)
		}
	})
	return out
}

// phaseOfStructInspector: f is a small helper called only by Check, Wrap,
// BuildType or a Wrapper method (a phase extracted from one of them).
func phaseOfStructInspector(p *Prog, f *ssa.Function) bool {
	if !smallHelper(f) || f.Parent() != nil {
		return false
	}
	calls := p.cg.callers[f]
	if len(calls) == 0 {
		return false
	}
	for _, c := range calls {
		g := c.Parent()
		if g == nil {
			return false
		}
		n := funcName(g)
		if !(n == "Check" || n == "Wrap" || n == "BuildType" || strings.HasPrefix(n, "(*Wrapper).")) {
			return false
		}
	}
	return true
}

// sameTagRead: two values are both Tag.Get(<same constant key>) of the same
// struct field value.
func sameTagRead(a, b ssa.Value) bool {
	ca, _ := callOf(a)
	cb, _ := callOf(b)
	if ca == nil || cb == nil || len(ca.Common().Args) != 2 || len(cb.Common().Args) != 2 {
		return false
	}
	ka, ok1 := constString(ca.Common().Args[1])
	kb, ok2 := constString(cb.Common().Args[1])
	if !ok1 || !ok2 || ka != kb {
		return false
	}
	return pathOf(ca.Common().Args[0], 0) == pathOf(cb.Common().Args[0], 0)
}

// reflectValueKey names the type a reflect.Value expression carries:
// reflect.ValueOf(y) carries the dynamic type of y, anything else its own.
func reflectValueKey(v ssa.Value) string {
	if c, _ := callOf(v); c != nil {
		if g := c.Common().StaticCallee(); g != nil && fullName(g) == "reflect.ValueOf" && len(c.Common().Args) == 1 {
			return fmt.Sprintf("dyn:%p", c.Common().Args[0])
		}
	}
	return fmt.Sprintf("val:%p", v)
}

// reflectTypeKey: v is X.Type() or reflect.TypeOf(y); the key of the type it
// denotes ("" when v is neither).
func reflectTypeKey(v ssa.Value) string {
	c, _ := callOf(v)
	if c == nil || c.Common().StaticCallee() == nil {
		return ""
	}
	switch fullName(c.Common().StaticCallee()) {
	case "reflect.(Value).Type":
		return reflectValueKey(c.Common().Args[0])
	case "reflect.TypeOf":
		return fmt.Sprintf("dyn:%p", c.Common().Args[0])
	}
	return ""
}

// checkFirstMatch implements C20.first-match: where Wrapper.getField / setField
// (or a search helper of theirs) remember the index of the matching field in
// a loop-carried variable instead of acting inside the loop, the search stops
// at the first match - the variable is part of the loop condition, or the
// assignment is followed by leaving the loop. Otherwise the last field with
// that json tag is taken, and Get and Set can disagree on structs with a
// shadowed name.
func checkFirstMatch(p *Prog, r *Report, prefix string) {
	for _, name := range []string{"(*Wrapper).getField", "(*Wrapper).setField"} {
		f := p.Fn(name)
		if f == nil {
			continue
		}
		n := 0
		for _, g := range append([]*ssa.Function{f}, stringHelpers(f)...) {
			for _, hd := range g.Blocks {
				loop := naturalLoop(hd)
				if loop == nil {
					continue
				}
				// a loop bounded by NumField()
				bounded := false
				var condVals []ssa.Value
				var collect func(b *ssa.BasicBlock, depth int)
				collect = func(b *ssa.BasicBlock, depth int) {
					if depth > 3 || !loop[b] {
						return
					}
					ifi, ok := b.Instrs[len(b.Instrs)-1].(*ssa.If)
					if !ok {
						return
					}
					exits := !loop[b.Succs[0]] || !loop[b.Succs[1]]
					if !exits {
						return
					}
					condVals = append(condVals, ifi.Cond)
					if bo, ok := ifi.Cond.(*ssa.BinOp); ok {
						if c, _ := callOf(bo.Y); c != nil && ((c.Common().StaticCallee() != nil && strings.HasSuffix(fullName(c.Common().StaticCallee()), ".NumField")) || (c.Common().IsInvoke() && c.Common().Method.Name() == "NumField")) {
							bounded = true
						}
					}
					for _, s := range b.Succs {
						if loop[s] && s != hd {
							collect(s, depth+1)
						}
					}
				}
				collect(hd, 0)
				if !bounded {
					continue
				}
				for _, ins := range hd.Instrs {
					phi, ok := ins.(*ssa.Phi)
					if !ok {
						break
					}
					bt, isB := phi.Type().Underlying().(*types.Basic)
					if !isB || bt.Info()&types.IsInteger == 0 {
						continue
					}
					// assigned the loop counter inside the loop?
					var assignedIn *ssa.BasicBlock
					var find func(v ssa.Value, depth int)
					seen := map[ssa.Value]bool{}
					find = func(v ssa.Value, depth int) {
						if depth > 6 || seen[v] {
							return
						}
						seen[v] = true
						if q, ok := v.(*ssa.Phi); ok && q != phi {
							for k, e := range q.Edges {
								if e != ssa.Value(phi) {
									if st, sp := inductionOf(e, loop); st == 0 && sp == 1 {
										assignedIn = q.Block().Preds[k]
									}
									find(e, depth+1)
								}
							}
						}
					}
					isCounter := false
					if st, sp := inductionOf(phi, loop); st == 0 && sp == 1 {
						isCounter = true
					}
					if isCounter {
						continue
					}
					for k, e := range phi.Edges {
						if !loop[hd.Preds[k]] {
							continue
						}
						if st, sp := inductionOf(e, loop); st == 0 && sp == 1 {
							assignedIn = hd.Preds[k]
						}
						find(e, 0)
					}
					if assignedIn == nil {
						continue
					}
					n++
					// (a) the variable takes part in the loop's exit condition
					inCond := false
					for _, cv := range condVals {
						if bo, ok := cv.(*ssa.BinOp); ok && (bo.X == ssa.Value(phi) || bo.Y == ssa.Value(phi)) {
							inCond = true
						}
					}
					// (b) the assigning block leaves the loop at once
					leaves := false
					for _, s := range assignedIn.Succs {
						if !loop[s] {
							leaves = true
						}
					}
					r.decide(inCond || leaves, prefix+".first-match", name+":"+funcName(g)+":"+phi.Comment, p.pos(hd.Instrs[len(hd.Instrs)-1].Pos()), "the search stops at the first field with that json tag",
						"the field search in "+funcName(g)+" keeps running after a match and overwrites the remembered index: the LAST field with the requested json tag is used, while the sibling accessor uses the first, so Get and Set disagree when a name is shadowed")
				}
			}
		}
		_ = n
	}
}

// globalMutatedAtRuntime: some function other than the package initialiser
// stores to the package-level variable, updates the map it holds, or hands
// its address to a call (sync.Map methods, for instance).
func globalMutatedAtRuntime(p *Prog, gl *ssa.Global) bool {
	mut := false
	for _, f := range p.Funcs {
		if f.Name() == "init" && f.Signature.Recv() == nil && f.Parent() == nil {
			continue
		}
		eachInstr(f, func(ins ssa.Instruction) {
			switch x := ins.(type) {
			case *ssa.Store:
				if x.Addr == ssa.Value(gl) {
					mut = true
				}
			case *ssa.MapUpdate:
				if ld, ok := x.Map.(*ssa.UnOp); ok && ld.X == ssa.Value(gl) {
					mut = true
				}
			case ssa.CallInstruction:
				for _, a := range x.Common().Args {
					if a == ssa.Value(gl) {
						mut = true
					}
				}
				if x.Common().IsInvoke() && x.Common().Value == ssa.Value(gl) {
					mut = true
				}
			case *ssa.FieldAddr:
				if x.X == ssa.Value(gl) {
					for _, ref := range referrers(x) {
						if st, ok := ref.(*ssa.Store); ok && st.Addr == ssa.Value(x) {
							mut = true
						}
						if _, ok := ref.(ssa.CallInstruction); ok {
							mut = true
						}
					}
				}
			}
		})
	}
	return mut
}

// checkInspectorsPure: what BuildType, Wrap, Check and IDAndType report about
// a struct depends on that struct alone: neither they nor what they call in
// the package touch a package-level variable that is modified at run time (a
// cache keyed by type or by name, say).
func checkInspectorsPure(p *Prog, r *Report, prefix string) {
	var roots []*ssa.Function
	for _, n := range []string{"BuildType", "Wrap", "Check", "IDAndType"} {
		if f := p.Fn(n); f != nil {
			roots = append(roots, f)
		}
	}
	if len(roots) == 0 {
		r.fail("anchors BuildType / Wrap / Check / IDAndType not found")
		return
	}
	nBad, nFn := 0, 0
	for _, g := range p.cg.Reachable(roots...) {
		if g.Pkg != roots[0].Pkg {
			continue
		}
		nFn++
		eachInstr(g, func(ins ssa.Instruction) {
			for _, op := range ins.Operands(nil) {
				if *op == nil {
					continue
				}
				gl, ok := (*op).(*ssa.Global)
				if !ok || gl.Pkg == nil || gl.Pkg.Pkg.Path() != targetPkgPath || !globalMutatedAtRuntime(p, gl) {
					continue
				}
				nBad++
				r.bad(prefix+".inspectors-pure", funcName(g)+":global:"+gl.Name(), p.pos(ins.Pos()), funcName(g)+" (reached from BuildType / Wrap / Check) uses the package-level variable "+gl.Name()+", which is modified at run time: what is reported for a struct can depend on which other structs were seen before (two structs sharing a type name, say)")
			}
		})
	}
	if nBad == 0 {
		r.ok(prefix+".inspectors-pure", "BuildType/Wrap/Check:no-mutable-package-state", p.pos(roots[0].Pos()), fmt.Sprintf("%d functions reached use no package-level variable that is modified at run time", nFn))
	}
}
