package main

import (
	"fmt"
	"os"
	"strings"

	"golang.org/x/tools/go/ssa"
)

func doDump(p *Prog, what string) {
	switch {
	case strings.HasPrefix(what, "mods:"):
		h := newHeap(p)
		for _, name := range strings.Split(strings.TrimPrefix(what, "mods:"), ",") {
			f := p.Fn(name)
			if f == nil {
				fmt.Println("no such function", name)
				continue
			}
			fmt.Printf("== %s\n", name)
			for _, m := range h.ModsOf(f) {
				fmt.Printf("  %-40s %-12s in %s at %s via [%s] %s\n", m.Loc, m.Kind, m.Fn, p.pos(m.Pos), m.Via, m.Desc)
			}
			for i, r := range h.sums[f].rets {
				fmt.Printf("  ret%d = %v\n", i, r.sorted())
			}
			for l, ts := range h.sums[f].pts {
				fmt.Printf("  pts %s -> %v\n", l, ts.sorted())
			}
			for e := range h.sums[f].copies {
				fmt.Printf("  copy %s <= %s\n", e.dst, e.src)
			}
		}
		fmt.Println("unmodelled:", h.Unmodelled)
	case strings.HasPrefix(what, "panics:"):
		pc := newPanicChecker(p)
		pc.assumeGetTyped = true
		pc.assumeFilterTyped = true
		var roots []*ssa.Function
		for _, n := range strings.Split(strings.TrimPrefix(what, "panics:"), ",") {
			if n == "ALL" {
				roots = append(roots, p.Funcs...)
				continue
			}
			if f := p.Fn(n); f != nil {
				roots = append(roots, f)
			} else {
				fmt.Println("no such function", n)
			}
		}
		nok, nbad := 0, 0
		for _, f := range p.cg.Reachable(roots...) {
			for _, s := range pc.sites(f) {
				if s.OK {
					nok++
					if os.Getenv("SHOWOK") != "" {
						fmt.Printf("ok   %-8s %s  %s\n", s.Class, s.Key, s.Detail)
					}
				} else {
					nbad++
					fmt.Printf("BAD  %-8s %s at %s: %s\n", s.Class, s.Key, p.pos(s.Ins.Pos()), s.Detail)
				}
			}
		}
		fmt.Printf("ok=%d bad=%d\n", nok, nbad)
	case strings.HasPrefix(what, "paths:"):
		dumpPaths(p, strings.TrimPrefix(what, "paths:"))
	case what == "decode":
		dumpDecode(p)
	case what == "externals":
		dumpExternals(p)
	case what == "funcs":
		for _, f := range p.Funcs {
			fmt.Printf("%-50s %s blocks=%d\n", funcName(f), p.pos(f.Pos()), len(f.Blocks))
		}
		fmt.Printf("%d functions; %d value funcs:\n", len(p.Funcs), len(p.cg.valueFuncs))
		for _, f := range p.cg.valueFuncs {
			fmt.Printf("  value: %s\n", funcName(f))
		}
	case strings.HasPrefix(what, "reach:"):
		f := p.Fn(strings.TrimPrefix(what, "reach:"))
		if f == nil {
			fmt.Println("no such function")
			return
		}
		for _, g := range p.cg.Reachable(f) {
			fmt.Println(funcName(g))
		}
	case strings.HasPrefix(what, "ssa:"):
		f := p.Fn(strings.TrimPrefix(what, "ssa:"))
		if f == nil {
			fmt.Println("no such function")
			return
		}
		f.WriteTo(os.Stdout)
		for _, an := range f.AnonFuncs {
			an.WriteTo(os.Stdout)
		}
	case strings.HasPrefix(what, "who:"):
		dumpWho(p, strings.TrimPrefix(what, "who:"))
	case strings.HasPrefix(what, "calls:"):
		f := p.Fn(strings.TrimPrefix(what, "calls:"))
		if f == nil {
			fmt.Println("no such function")
			return
		}
		eachInstr(f, func(ins ssa.Instruction) {
			if c, ok := ins.(ssa.CallInstruction); ok {
				var in, ext []string
				for _, g := range p.cg.Callees(c) {
					in = append(in, funcName(g))
				}
				for _, g := range p.cg.Externals(c) {
					ext = append(ext, fullName(g))
				}
				fmt.Printf("%s  %s  in=%v ext=%v\n", p.pos(ins.Pos()), p.describe(ins), in, ext)
			}
		})
	}
}

func init() {
	dumpWho = func(p *Prog, target string) {
		for _, f := range p.Funcs {
			eachInstr(f, func(ins ssa.Instruction) {
				if c, ok := ins.(ssa.CallInstruction); ok {
					for _, g := range p.cg.Callees(c) {
						if funcName(g) == target {
							fmt.Printf("%s calls it at %s: %s\n", funcName(f), p.pos(ins.Pos()), p.describe(ins))
						}
					}
				}
			})
		}
	}
}

var dumpWho func(p *Prog, target string)

func dumpExternals(p *Prog) {
	cnt := map[string]int{}
	for _, f := range p.Funcs {
		eachInstr(f, func(ins ssa.Instruction) {
			if c, ok := ins.(ssa.CallInstruction); ok {
				for _, g := range p.cg.Externals(c) {
					cnt[fullName(g)+" :: "+g.Signature.String()]++
				}
				if c.Common().IsInvoke() && len(p.cg.Callees(c)) == 0 {
					cnt["invoke "+c.Common().Value.Type().String()+"."+c.Common().Method.Name()]++
				}
			}
		})
	}
	for k, v := range cnt {
		fmt.Printf("%3d %s\n", v, k)
	}
}

func dumpPaths(p *Prog, name string) {
	f := p.Fn(name)
	for _, lp := range explorePaths(p, f) {
		fmt.Println(lp.outcome, lp.decisions, lp.effects)
	}
}

func dumpDecode(p *Prog) {
	kt := buildKindTable(p, newReport("x", "quick"))
	for _, row := range kt.rows {
		for _, n := range []bool{false, true} {
			outs, _ := kt.unmarshalOutcomes(row.Val, n)
			for _, o := range outs {
				if o.ret == nil || len(o.results) != 2 || o.results[1].k != aNil {
					continue
				}
				v := o.results[0]
				s := v.String()
				if v.k == aIface && v.dyn != nil && v.dyn.pt != nil {
					s += " -> " + v.dyn.pt.String()
				}
				fmt.Printf("%s nullable=%v: %s   calls=%v notes=%v\n", row.Name, n, s, o.calls, o.notes)
			}
		}
	}
}
