package main

import (
	"fmt"
	"os"
	"strings"

	"golang.org/x/tools/go/ssa"
)

func doDump(p *Prog, what string) {
	switch {
	case what == "funcs":
		for _, f := range p.Funcs {
			fmt.Printf("%-50s %s blocks=%d\n", funcName(f), p.pos(f.Pos()), len(f.Blocks))
		}
		fmt.Printf("%d functions; %d value funcs:\n", len(p.Funcs), len(p.cg.valueFuncs))
		for _, f := range p.cg.valueFuncs {
			fmt.Printf("  value: %s\n", funcName(f))
		}
	case strings.HasPrefix(what, "reach:"):
		f := p.Fn(strings.TrimPrefix(what, "reach:"))
		if f == nil {
			fmt.Println("no such function")
			return
		}
		for _, g := range p.cg.Reachable(f) {
			fmt.Println(funcName(g))
		}
	case strings.HasPrefix(what, "ssa:"):
		f := p.Fn(strings.TrimPrefix(what, "ssa:"))
		if f == nil {
			fmt.Println("no such function")
			return
		}
		f.WriteTo(os.Stdout)
		for _, an := range f.AnonFuncs {
			an.WriteTo(os.Stdout)
		}
	case strings.HasPrefix(what, "who:"):
		dumpWho(p, strings.TrimPrefix(what, "who:"))
	case strings.HasPrefix(what, "calls:"):
		f := p.Fn(strings.TrimPrefix(what, "calls:"))
		if f == nil {
			fmt.Println("no such function")
			return
		}
		eachInstr(f, func(ins ssa.Instruction) {
			if c, ok := ins.(ssa.CallInstruction); ok {
				var in, ext []string
				for _, g := range p.cg.Callees(c) {
					in = append(in, funcName(g))
				}
				for _, g := range p.cg.Externals(c) {
					ext = append(ext, fullName(g))
				}
				fmt.Printf("%s  %s  in=%v ext=%v\n", p.pos(ins.Pos()), p.describe(ins), in, ext)
			}
		})
	}
}

func init() {
	dumpWho = func(p *Prog, target string) {
		for _, f := range p.Funcs {
			eachInstr(f, func(ins ssa.Instruction) {
				if c, ok := ins.(ssa.CallInstruction); ok {
					for _, g := range p.cg.Callees(c) {
						if funcName(g) == target {
							fmt.Printf("%s calls it at %s: %s\n", funcName(f), p.pos(ins.Pos()), p.describe(ins))
						}
					}
				}
			})
		}
	}
}

var dumpWho func(p *Prog, target string)
