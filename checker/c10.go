package main

import (
	"fmt"
	"go/constant"
	"go/token"
	"go/types"
	"sort"
	"strings"

	"golang.org/x/tools/go/ssa"
)

func init() { register("C10", checkC10) }

var filterOps = []string{"=", "!=", "<", "<=", ">", ">=", "zz-unknown"}

// expectedVerdict: the truth of `a op b` when a ? b is ord (-1, 0, 1);
// unordered kinds only know equality.
func expectedVerdict(op string, ord int, ordered bool) bool {
	switch op {
	case "=":
		return ord == 0
	case "!=":
		return ord != 0
	}
	if !ordered {
		return false
	}
	switch op {
	case "<":
		return ord < 0
	case "<=":
		return ord <= 0
	case ">":
		return ord > 0
	case ">=":
		return ord >= 0
	}
	return false
}

type helperCall struct {
	fn   *ssa.Function
	args []*aval
}

func checkC10(p *Prog, r *Report) {
	r.rule("C10.check-complete: SoftResource.check, which Get runs before a soft resource's values are read, cannot return before its loops that zero-fill missing and drop stale fields (shared with C17)")
	checkSoftCheckComplete(p, r, "C10")
	r.rule("R1 switch coverage: checkVal has an arm for each of the 28 Go types of the kind table and for []string")
	r.rule("C10.dispatch (scenario evaluation of checkVal, one scenario per type): a value of type T reaches exactly one call of a comparison helper whose parameter type is T's family (string, int64 for signed, uint64 for unsigned, bool, time.Time, []byte, []string), with the resource value first and the filter value second, through value-preserving conversions only; pointers are dereferenced on both sides")
	r.rule("C10.nil (scenario evaluation, 14 pointer types x 3 nil patterns x 4 operators): a nil on either side gives '=' iff both are nil, '!=' iff exactly one is, and false for every other operator")
	r.rule("C10.op-table (scenario evaluation of every helper reached, 7 operators x {a<b, a=b, a>b}): with comparisons of the two operands decided by the scenario (Go's <,==,> on string/int64/uint64; time.Time Before/After/Equal; bytes.Compare/Equal), the helper returns exactly the operator's truth; unknown operators and ordering of booleans/sets give false. A helper whose verdict cannot be folded to a constant under a scenario (loops over elements, foreign calls) is reported as undecided")
	r.rule("C10.and-or (scenario evaluation of IsAllowed with scripted child verdicts): 'and' returns the conjunction of the children evaluated on the path (true for none), 'or' the disjunction (false for none)")
	r.rule("C10.in-has: 'in' calls the membership helper with (resource value, filter list), 'has' with (filter value, resource list); the membership helper returns the disjunction of id == ids[i] over the elements visited and never consults anything else")
	r.rule("C10.impl-agreement: the verdict must not depend on the Resource implementation: both implementations of Get must use the same nil convention (a typed nil pointer)")
	r.assume("well-typed filters (the property's domain): the filter value has the Go type of the field; 'and'/'or' hold []*Filter")
	r.assume("Go's comparison operators on string, int64 and uint64 and time.Time's Before/After/Equal are the natural total orders (language / standard-library contract)")
	r.rule("C10.set-equality: the two ID lists checkSlice compares element by element are both values canonicalised by a dominating sort.Strings")
	r.notCovered("set equality of to-many relationships beyond the operator structure of the helper and the canonicalisation of both compared lists (the compare loop itself is not folded)")
	checkSliceCanon(p, r)
	r.notCovered("fetching the field value (Resource.Get) — C17")

	ia := p.Fn("(*Filter).IsAllowed")
	if ia == nil {
		r.fail("anchor (*Filter).IsAllowed not found")
		return
	}
	r.fn(funcName(ia))
	// checkVal = callee of IsAllowed with signature func(string, any, any) bool
	var cv *ssa.Function
	var member *ssa.Function
	eachInstr(ia, func(ins ssa.Instruction) {
		c, ok := ins.(*ssa.Call)
		if !ok {
			return
		}
		g := c.Common().StaticCallee()
		if g == nil || !p.inTarget(g) || g == ia {
			return
		}
		ps := g.Signature.Params()
		if ps.Len() == 3 && isStringT(ps.At(0).Type()) && isEmptyIface(ps.At(1).Type()) && isEmptyIface(ps.At(2).Type()) {
			cv = g
		}
		if ps.Len() == 2 && isStringT(ps.At(0).Type()) && fmtTypeString(ps.At(1).Type()) == "[]string" {
			member = g
		}
	})
	if cv == nil || member == nil {
		r.fail("could not find the value-comparison dispatcher (func(string, any, any) bool) or the membership helper (func(string, []string) bool) among IsAllowed's callees")
		return
	}
	r.fn(funcName(cv))
	r.fn(funcName(member))

	kt := buildKindTable(p, newReport("scratch", "quick"))
	kt.checkSwitchCoverage(r, cv, cv.Params[1], funcName(cv), []string{"[]string"}, "a value of that type is never allowed by any filter", 29)

	helpers := map[*ssa.Function]types.Type{}
	allTypes := kt.allTypes()
	if st := p.namedType("Type"); st != nil {
		_ = st
	}
	strSlice := types.NewSlice(types.Typ[types.String])
	allTypes = append(allTypes, strSlice)

	runCV := func(op *aval, rv, cvv *aval) ([]outcome, map[string]helperCall) {
		recs := map[string]helperCall{}
		// a sub-dispatcher (op, any, any) continues the switch: evaluated in place
		subDispatch := func(g *ssa.Function) bool {
			ps := g.Signature.Params()
			return g != cv && g.Blocks != nil && ps.Len() == 3 && isStringT(ps.At(0).Type()) && isEmptyIface(ps.At(1).Type()) && isEmptyIface(ps.At(2).Type())
		}
		in := &interp{p: p, f: cv, inline: subDispatch}
		in.callHook = func(st *istate, c *ssa.Call, args []*aval) *aval {
			g := c.Common().StaticCallee()
			if g == nil || !p.inTarget(g) || subDispatch(g) {
				return nil
			}
			id := fmt.Sprintf("CALL#%d", len(recs))
			recs[id] = helperCall{fn: g, args: args}
			return symv(id, c.Type())
		}
		outs := in.run(map[*ssa.Parameter]*aval{cv.Params[0]: op, cv.Params[1]: rv, cv.Params[2]: cvv})
		return outs, recs
	}
	box := func(name string, t types.Type, isNil bool) *aval {
		if isNil {
			return &aval{k: aIface, t: t, dyn: &aval{k: aNil, t: t}}
		}
		d := symv(name, t)
		d.nonnil = true
		return &aval{k: aIface, t: t, dyn: d}
	}

	// ---- dispatch
	for _, t := range allTypes {
		ts := fmtTypeString(t)
		outs, recs := runCV(symv("op", types.Typ[types.String]), box("rval", t, false), box("cval", t, false))
		key := funcName(cv) + ":dispatch:" + ts
		var real []outcome
		for _, o := range outs {
			if !o.panics && !o.loop {
				real = append(real, o)
			}
		}
		if len(real) != 1 || len(real[0].results) != 1 {
			r.bad("C10.dispatch", key, p.pos(cv.Pos()), fmt.Sprintf("a non-nil %s pair does not lead to exactly one verdict: %v", ts, summarize(outs, 0)))
			continue
		}
		rec, ok := recs[real[0].results[0].String()]
		if !ok || len(rec.args) != 3 {
			r.bad("C10.dispatch", key, p.pos(cv.Pos()), "the verdict for "+ts+" is not the result of a comparison helper called with (op, resource value, filter value): "+real[0].results[0].String())
			continue
		}
		elem := t
		ptr := false
		if pt, ok := t.Underlying().(*types.Pointer); ok {
			elem, ptr = pt.Elem(), true
		}
		ps := rec.fn.Signature.Params()
		if ps.Len() != 3 {
			r.bad("C10.dispatch", key, p.pos(cv.Pos()), "helper "+funcName(rec.fn)+" does not take (op, a, b)")
			continue
		}
		pt1, pt2 := ps.At(1).Type(), ps.At(2).Type()
		why := dispatchArgOK(rec.args[1], "rval", ptr, elem, pt1)
		if why == "" {
			why = dispatchArgOK(rec.args[2], "cval", ptr, elem, pt2)
		}
		if why == "" && rec.args[0].String() != "op" {
			why = "the operator passed on is not the one given"
		}
		if why == "" && !types.Identical(pt1, pt2) {
			why = "helper compares two different types"
		}
		r.decide(why == "", "C10.dispatch", key, p.pos(cv.Pos()), fmt.Sprintf("%s(op, %s, %s)", funcName(rec.fn), rec.args[1], rec.args[2]),
			fmt.Sprintf("values of type %s are compared by %s(%s, %s, %s): %s", ts, funcName(rec.fn), rec.args[0], rec.args[1], rec.args[2], why))
		if why == "" {
			helpers[rec.fn] = pt1
		}
	}

	// ---- nil semantics
	nNil := 0
	for _, t := range allTypes {
		if _, ok := t.Underlying().(*types.Pointer); !ok {
			continue
		}
		ts := fmtTypeString(t)
		for _, pat := range [][2]bool{{true, true}, {true, false}, {false, true}} {
			for _, op := range []string{"=", "!=", "<", "zz-unknown"} {
				nNil++
				outs, _ := runCV(strConst(op), box("rval", t, pat[0]), box("cval", t, pat[1]))
				want := false
				switch op {
				case "=":
					want = pat[0] && pat[1]
				case "!=":
					want = pat[0] != pat[1]
				}
				got := summarize(outs, 0)
				good := len(got) == 1 && got[0] == fmt.Sprint(want)
				r.decide(good, "C10.nil", fmt.Sprintf("%s:%s:rnil=%v,cnil=%v:op %s", funcName(cv), ts, pat[0], pat[1], op), p.pos(cv.Pos()),
					fmt.Sprint(want), fmt.Sprintf("with resource value nil=%v and filter value nil=%v, operator %q on %s yields %v, expected %v (a nil equals only nil and is never ordered)", pat[0], pat[1], op, ts, got, want))
			}
		}
	}
	r.floor("nil scenarios", nNil, 14*3*4)

	// ---- operator tables of the helpers
	var hs []*ssa.Function
	for h := range helpers {
		hs = append(hs, h)
	}
	sort.Slice(hs, func(i, j int) bool { return funcName(hs[i]) < funcName(hs[j]) })
	r.floor("comparison helpers reached from checkVal", len(hs), 7)
	for _, h := range hs {
		r.fn(funcName(h))
		pt := helpers[h]
		ordered := true
		isSet := false
		switch fmtTypeString(pt) {
		case "bool":
			ordered = false
		case "[]string":
			ordered, isSet = false, true
		}
		for _, op := range filterOps {
			for _, ord := range []int{-1, 0, 1} {
				if !ordered && ord == 1 {
					continue // "different" is one scenario for unordered kinds
				}
				key := fmt.Sprintf("%s:op %s:%s", funcName(h), op, ordName(ord, ordered))
				if isSet && (op == "=" || op == "!=") {
					continue // decided structurally below
				}
				got, undecided := evalHelper(p, h, op, ord, isSet)
				want := expectedVerdict(op, ord, ordered)
				if undecided != "" {
					r.bad("C10.op-table", key, p.pos(h.Pos()), "the verdict of "+funcName(h)+" cannot be folded for this scenario ("+undecided+"): the comparison is not expressed through the order of the two operands")
					continue
				}
				good := len(got) == 1 && got[0] == fmt.Sprint(want)
				r.decide(good, "C10.op-table", key, p.pos(h.Pos()), fmt.Sprint(want),
					fmt.Sprintf("%s returns %v for operator %q when %s; the operator's meaning is %v", funcName(h), got, op, ordName(ord, ordered), want))
			}
		}
		if isSet {
			checkSetHelper(p, r, h)
		}
	}

	// ---- and / or
	checkAndOr(p, r, ia)
	// ---- in / has
	checkInHas(p, r, ia, member)
	checkMembership(p, r, member)

	// ---- implementation agreement
	impl := implReturningNilIface(p)
	r.decide(impl == "", "C10.impl-agreement", "Resource.Get:nil-convention", p.pos(ia.Pos()),
		"no shipped implementation of Get returns the untyped nil interface",
		impl+" returns the untyped nil interface for a nil pointer field while SoftResource returns a typed nil pointer: the value falls into the default arm of the comparison and a filter '= nil' is false on a wrapped struct but true on a soft resource")
}

func ordName(ord int, ordered bool) string {
	if !ordered {
		if ord == 0 {
			return "a equals b"
		}
		return "a differs from b"
	}
	switch {
	case ord < 0:
		return "a < b"
	case ord > 0:
		return "a > b"
	}
	return "a = b"
}

func isStringT(t types.Type) bool {
	bt, ok := t.Underlying().(*types.Basic)
	return ok && bt.Info()&types.IsString != 0
}

func isEmptyIface(t types.Type) bool {
	it, ok := t.Underlying().(*types.Interface)
	return ok && it.NumMethods() == 0
}

// dispatchArgOK: arg is name (dereferenced iff ptr), optionally converted to
// the helper's parameter type by a value-preserving conversion.
func dispatchArgOK(arg *aval, name string, ptr bool, elem, param types.Type) string {
	s := arg.String()
	inner := name
	if ptr {
		inner = "*" + name
	}
	pts := fmtTypeString(param)
	if s == inner {
		if !types.Identical(elem, param) && fmtTypeString(elem) != pts {
			return "passes a " + fmtTypeString(elem) + " where the helper takes " + pts
		}
		return ""
	}
	if s == typeStr(param)+"("+inner+")" {
		eb, ok := elem.Underlying().(*types.Basic)
		pb, ok2 := param.Underlying().(*types.Basic)
		if !ok || !ok2 || eb.Info()&types.IsInteger == 0 || pb.Info()&types.IsInteger == 0 {
			return "converts a non-integer value"
		}
		eu, pu := eb.Info()&types.IsUnsigned != 0, pb.Info()&types.IsUnsigned != 0
		if eu != pu {
			return "converts " + eb.Name() + " to " + pb.Name() + ": the conversion changes signedness, so large values compare wrongly"
		}
		if pb.Kind() != types.Int64 && pb.Kind() != types.Uint64 {
			return "converts to " + pb.Name() + ", which is narrower than some values"
		}
		return ""
	}
	return "the helper does not receive " + inner + " (got " + s + ")"
}

// evalHelper evaluates helper h for one operator under one ordering scenario.
func evalHelper(p *Prog, h *ssa.Function, op string, ord int, ignoreLoops bool) ([]string, string) {
	// a comparison helper may delegate to a sibling (checkBytes -> checkInt on
	// the result of bytes.Compare): siblings are evaluated in place
	in := &interp{p: p, f: h, maxPaths: 200, inline: func(g *ssa.Function) bool {
		return g != h && g.Blocks != nil && len(g.Blocks) <= 40 && strings.HasPrefix(g.Name(), "check") && len(g.Params) == 3
	}}
	a, b := symv("a", h.Params[1].Type()), symv("b", h.Params[2].Type())
	side := func(v *aval) int {
		switch v.String() {
		case "a":
			return 1
		case "b":
			return 2
		}
		return 0
	}
	in.binopHook = func(st *istate, x *ssa.BinOp, l, rr *aval) *aval {
		sl, sr := side(l), side(rr)
		if sl == 0 || sr == 0 || sl == sr {
			return nil
		}
		if isTimeType(x.X.Type()) {
			return nil // == on time.Time compares representation (zone, monotonic clock), not the instant
		}
		c := ord
		if sl == 2 {
			c = -ord
		}
		var res bool
		switch x.Op {
		case token.LSS:
			res = c < 0
		case token.LEQ:
			res = c <= 0
		case token.GTR:
			res = c > 0
		case token.GEQ:
			res = c >= 0
		case token.EQL:
			res = c == 0
		case token.NEQ:
			res = c != 0
		default:
			return nil
		}
		return boolv(res)
	}
	in.callHook = func(st *istate, c *ssa.Call, args []*aval) *aval {
		sc := c.Common().StaticCallee()
		if sc == nil || len(args) != 2 {
			return nil
		}
		sl, sr := side(args[0]), side(args[1])
		if sl == 0 || sr == 0 || sl == sr {
			return nil
		}
		cc := ord
		if sl == 2 {
			cc = -ord
		}
		switch fullName(sc) {
		case "time.(Time).Before":
			return boolv(cc < 0)
		case "time.(Time).After":
			return boolv(cc > 0)
		case "time.(Time).Equal":
			return boolv(cc == 0)
		case "time.(Time).Compare", "bytes.Compare", "strings.Compare":
			return constv(constant.MakeInt64(int64(cc)), types.Typ[types.Int])
		case "bytes.Equal":
			return boolv(cc == 0)
		}
		return nil
	}
	outs := in.run(map[*ssa.Parameter]*aval{h.Params[0]: strConst(op), h.Params[1]: a, h.Params[2]: b})
	set := map[string]bool{}
	for _, o := range outs {
		switch {
		case o.loop && ignoreLoops:
			continue
		case o.loop:
			return nil, "a loop over the operands' elements"
		case o.panics:
			return nil, "a panic"
		case len(o.results) != 1 || o.results[0].k != aConst:
			s := "?"
			if len(o.results) == 1 {
				s = o.results[0].String()
			}
			return nil, "symbolic verdict " + shorten(s)
		default:
			set[o.results[0].String()] = true
		}
	}
	var out []string
	for s := range set {
		out = append(out, s)
	}
	sort.Strings(out)
	return out, ""
}

// checkSetHelper: the []string helper returns a flag for "=" and its negation
// for "!=".
func checkSetHelper(p *Prog, r *Report, h *ssa.Function) {
	var eqRet, neRet ssa.Value
	eachInstr(h, func(ins ssa.Instruction) {
		ret, ok := ins.(*ssa.Return)
		if !ok || len(ret.Results) != 1 {
			return
		}
		for _, ef := range expandFacts(factsAt(ret.Block())) {
			bo, ok := ef.Cond.(*ssa.BinOp)
			if !ok || bo.Op != token.EQL || !ef.Truth {
				continue
			}
			for _, pr := range [][2]ssa.Value{{bo.X, bo.Y}, {bo.Y, bo.X}} {
				if pr[0] != ssa.Value(h.Params[0]) {
					continue
				}
				if s, ok := constString(pr[1]); ok {
					switch s {
					case "=":
						eqRet = ret.Results[0]
					case "!=":
						neRet = ret.Results[0]
					}
				}
			}
		}
	})
	good := false
	if eqRet != nil && neRet != nil {
		if u, ok := neRet.(*ssa.UnOp); ok && u.Op == token.NOT && u.X == eqRet {
			good = true
		}
	}
	if !good {
		// or: every exit returns op == "=" or op == "!=" (the verdict at an
		// exit for "=" is then by construction the negation of the one for "!=",
		// and every other operator gets false)
		all, n := true, 0
		eachInstr(h, func(ins ssa.Instruction) {
			ret, ok := ins.(*ssa.Return)
			if !ok || len(ret.Results) != 1 {
				return
			}
			n++
			bo, ok := ret.Results[0].(*ssa.BinOp)
			if !ok || bo.Op != token.EQL {
				all = false
				return
			}
			// an exit taken because something differed answers "!=", the others "="
			differs := false
			for _, ef := range expandFacts(factsAt(ret.Block())) {
				if b2, ok := ef.Cond.(*ssa.BinOp); ok && ((b2.Op == token.NEQ && ef.Truth) || (b2.Op == token.EQL && !ef.Truth)) {
					if b2.X != ssa.Value(h.Params[0]) && b2.Y != ssa.Value(h.Params[0]) {
						differs = true
					}
				}
			}
			okSide := false
			for _, pr := range [][2]ssa.Value{{bo.X, bo.Y}, {bo.Y, bo.X}} {
				if pr[0] == ssa.Value(h.Params[0]) {
					if s, ok := constString(pr[1]); ok && ((s == "!=" && differs) || (s == "=" && !differs)) {
						okSide = true
					}
				}
			}
			if !okSide {
				all = false
			}
		})
		good = all && n >= 2
	}
	r.decide(good, "C10.op-table", funcName(h)+":=/!= complementary", p.pos(h.Pos()), "'!=' returns the negation of the value '=' returns",
		"for to-many sets '=' and '!=' are not complementary (the value returned for '!=' is not the negation of the one returned for '=')")
}

// filterStruct builds the abstract *Filter {Field, Op, Val, Col}.
func filterPtr(op string, val *aval) *aval {
	f := structVal(map[string]*aval{
		"Field": symv("f.Field", types.Typ[types.String]),
		"Op":    strConst(op),
		"Val":   val,
		"Col":   symv("f.Col", types.Typ[types.String]),
	})
	ptr := symv("f", nil)
	ptr.nonnil = true
	ptr.pt = f
	return ptr
}

func checkAndOr(p *Prog, r *Report, ia *ssa.Function) {
	filtersT := types.NewSlice(types.NewPointer(p.namedType("Filter")))
	for _, op := range []string{"and", "or"} {
		for _, script := range [][]bool{{true, true}, {false, false}, {true, false}, {false, true}} {
			in := &interp{p: p, f: ia, maxPaths: 3000, inline: smallHelper}
			in.callHook = func(st *istate, c *ssa.Call, args []*aval) *aval {
				if c.Common().StaticCallee() == ia {
					n := 0
					for _, nt := range st.notes {
						if strings.HasPrefix(nt, "child=") {
							n++
						}
					}
					if n >= len(script) {
						return nil
					}
					st.notes = append(st.notes, fmt.Sprintf("child=%v", script[n]))
					return boolv(script[n])
				}
				return nil
			}
			val := &aval{k: aIface, t: filtersT, dyn: symv("children", filtersT)}
			outs := in.run(map[*ssa.Parameter]*aval{ia.Params[0]: filterPtr(op, val), ia.Params[1]: symv("res", ia.Params[1].Type())})
			bad := ""
			nReal := 0
			sawEmpty := false
			for _, o := range outs {
				if o.loop || o.panics {
					continue
				}
				if len(o.results) != 1 || o.results[0].k != aConst {
					bad = "non-constant verdict " + shorten(o.results[0].String())
					break
				}
				nReal++
				want := op == "and"
				n := 0
				for _, nt := range o.notes {
					if strings.HasPrefix(nt, "child=") {
						n++
						v := nt == "child=true"
						if op == "and" {
							want = want && v
						} else {
							want = want || v
						}
					}
				}
				if n == 0 {
					sawEmpty = true
				}
				if got := constant.BoolVal(o.results[0].c); got != want {
					bad = fmt.Sprintf("after children %v the node returns %v, expected %v", o.notes, got, want)
					break
				}
			}
			if bad == "" && (nReal < 2 || !sawEmpty) {
				bad = "no path for an empty list of children / too few paths explored"
			}
			r.decide(bad == "", "C10.and-or", fmt.Sprintf("IsAllowed:%s:children%v", op, script), p.pos(ia.Pos()),
				fmt.Sprintf("%d paths, each returns the %s of the children evaluated", nReal, map[string]string{"and": "conjunction", "or": "disjunction"}[op]),
				"'"+op+"' node: "+bad)
		}
	}
}

func checkInHas(p *Prog, r *Report, ia, member *ssa.Function) {
	strT := types.Typ[types.String]
	listT := types.NewSlice(strT)
	for _, op := range []string{"in", "has"} {
		resT, filT := types.Type(strT), types.Type(listT)
		if op == "has" {
			resT, filT = listT, strT
		}
		var rec *helperCall
		in := &interp{p: p, f: ia, maxPaths: 3000, inline: smallHelper}
		in.callHook = func(st *istate, c *ssa.Call, args []*aval) *aval {
			cc := c.Common()
			if cc.IsInvoke() && cc.Method.Name() == "Get" {
				return &aval{k: aIface, t: resT, dyn: symv("resval", resT)}
			}
			if cc.StaticCallee() == member {
				rec = &helperCall{fn: member, args: args}
				return symv("MEMBER", c.Type())
			}
			return nil
		}
		val := &aval{k: aIface, t: filT, dyn: symv("fval", filT)}
		outs := in.run(map[*ssa.Parameter]*aval{ia.Params[0]: filterPtr(op, val), ia.Params[1]: symv("res", ia.Params[1].Type())})
		okAll := true
		n := 0
		for _, o := range outs {
			if o.loop || o.panics {
				continue
			}
			n++
			if len(o.results) != 1 || o.results[0].String() != "MEMBER" {
				okAll = false
			}
		}
		want := [2]string{"resval", "fval"}
		if op == "has" {
			want = [2]string{"fval", "resval"}
		}
		good := okAll && n > 0 && rec != nil && len(rec.args) == 2 && rec.args[0].String() == want[0] && rec.args[1].String() == want[1]
		got := "?"
		if rec != nil && len(rec.args) == 2 {
			got = rec.args[0].String() + ", " + rec.args[1].String()
		}
		r.decide(good, "C10.in-has", "IsAllowed:"+op, p.pos(ia.Pos()), funcName(member)+"("+want[0]+", "+want[1]+")",
			"operator '"+op+"' does not return the membership test of ("+want[0]+" in "+want[1]+"); it calls the helper with ("+got+")")
	}
}

// checkMembership: the helper returns OR over id == ids[i].
func checkMembership(p *Prog, r *Report, m *ssa.Function) {
	for _, script := range [][]bool{{false, false}, {true, true}, {false, true}, {true, false}} {
		in := &interp{p: p, f: m, maxPaths: 500}
		in.binopHook = func(st *istate, x *ssa.BinOp, a, b *aval) *aval {
			if x.Op != token.EQL && x.Op != token.NEQ {
				return nil
			}
			if a.String() != "id" && b.String() != "id" {
				return nil
			}
			n := 0
			for _, nt := range st.notes {
				if strings.HasPrefix(nt, "eq=") {
					n++
				}
			}
			if n >= len(script) {
				return nil
			}
			st.notes = append(st.notes, fmt.Sprintf("eq=%v", script[n]))
			return boolv(script[n] == (x.Op == token.EQL))
		}
		outs := in.run(map[*ssa.Parameter]*aval{m.Params[0]: symv("id", m.Params[0].Type()), m.Params[1]: symv("ids", m.Params[1].Type())})
		bad := ""
		nReal := 0
		for _, o := range outs {
			if o.loop || o.panics {
				continue
			}
			if len(o.results) != 1 || o.results[0].k != aConst {
				bad = "the verdict is not decided by comparing id with the elements: " + shorten(o.results[0].String())
				break
			}
			nReal++
			want := false
			for _, nt := range o.notes {
				if nt == "eq=true" {
					want = true
				}
			}
			if constant.BoolVal(o.results[0].c) != want {
				bad = fmt.Sprintf("after comparisons %v it returns %v", o.notes, !want)
				break
			}
		}
		if bad == "" && nReal < 2 {
			bad = "too few paths"
		}
		r.decide(bad == "", "C10.in-has", fmt.Sprintf("%s:script%v", funcName(m), script), p.pos(m.Pos()), "returns whether some visited element equals id", bad)
	}
	// full traversal: the compared element is ids[i] for the induction variable of a loop from 0 to len(ids)
	full := false
	eachInstr(m, func(ins ssa.Instruction) {
		ia, ok := ins.(*ssa.IndexAddr)
		if !ok || ia.X != ssa.Value(m.Params[1]) {
			return
		}
		// index = phi + 1 with phi = [-1, …] (range) or phi = [0, phi+1]
		if bo, ok := ia.Index.(*ssa.BinOp); ok && bo.Op == token.ADD {
			if phi, ok := bo.X.(*ssa.Phi); ok {
				if c, ok := constInt(phi.Edges[0]); ok && c == -1 {
					full = true
				}
			}
		}
		if phi, ok := ia.Index.(*ssa.Phi); ok {
			if c, ok := constInt(phi.Edges[0]); ok && c == 0 {
				full = true
			}
		}
	})
	r.decide(full, "C10.in-has", funcName(m)+":full-traversal", p.pos(m.Pos()), "every element from index 0 is compared", "the membership scan does not start at the first element of the list")
}

func isTimeType(t types.Type) bool {
	nt, ok := t.(*types.Named)
	return ok && nt.Obj().Pkg() != nil && nt.Obj().Pkg().Path() == "time" && nt.Obj().Name() == "Time"
}

// checkSliceCanon: checkSlice decides equality of two ID lists as sets: the two
// lists it compares element by element are both values that a dominating
// sort.Strings canonicalised (the same value, or the same variable).
func checkSliceCanon(p *Prog, r *Report) {
	f := p.Fn("checkSlice")
	if f == nil {
		r.fail("anchor checkSlice not found")
		return
	}
	r.fn(funcName(f))
	oa := &orderAnalysis{p: p, r: r, tainted: map[*ssa.Function]bool{}}
	n := 0
	var all []ssa.Instruction
	for _, g := range append([]*ssa.Function{f}, stringHelpers(f)...) {
		eachInstr(g, func(ins ssa.Instruction) { all = append(all, ins) })
	}
	for _, ins := range all {
		bo, ok := ins.(*ssa.BinOp)
		if !ok || (bo.Op != token.EQL && bo.Op != token.NEQ) {
			continue
		}
		elem := func(v ssa.Value) (ssa.Value, ssa.Value, bool) {
			ld, ok := v.(*ssa.UnOp)
			if !ok || ld.Op != token.MUL {
				return nil, nil, false
			}
			ia, ok := ld.X.(*ssa.IndexAddr)
			if !ok {
				return nil, nil, false
			}
			return ia.X, ia.Index, true
		}
		a, ia, ok1 := elem(bo.X)
		b, ib, ok2 := elem(bo.Y)
		if !ok1 || !ok2 || ia != ib {
			continue
		}
		n++
		for _, side := range []ssa.Value{a, b} {
			sorted := oa.sortedBefore(side, bo.Block(), bo)
			// a comparison helper's parameter: the lists every call in
			// checkSlice hands it were sorted before the call
			if prm, isPrm := side.(*ssa.Parameter); isPrm && !sorted && prm.Parent() != f {
				g := prm.Parent()
				idx := -1
				for i, q := range g.Params {
					if q == prm {
						idx = i
					}
				}
				nCalls, allSorted := 0, true
				eachInstr(f, func(i2 ssa.Instruction) {
					c, ok := i2.(*ssa.Call)
					if !ok || c.Common().StaticCallee() != g || idx < 0 || idx >= len(c.Common().Args) {
						return
					}
					nCalls++
					if !oa.sortedBefore(c.Common().Args[idx], c.Block(), c) {
						allSorted = false
					}
				})
				sorted = nCalls > 0 && allSorted
			}
			r.decide(sorted, "C10.set-equality", "checkSlice:compared-list:"+shorten(pathOf(side, 0)), p.pos(bo.Pos()), "compared after being sorted", "checkSlice compares a list element by element that was not sorted before (the other one was, or a sorted copy was made and the original is compared): equality of ID sets depends on the order in which the IDs are listed")
		}
	}
	// or by membership: a binary search in one list for each element of the
	// other - the searched list must have been sorted
	for _, ins := range all {
		c, ok := ins.(*ssa.Call)
		if !ok || !calleeIs(c, "sort", "SearchStrings") || len(c.Common().Args) != 2 {
			continue
		}
		n++
		side := c.Common().Args[0]
		sorted := oa.sortedBefore(side, c.Block(), c)
		r.decide(sorted, "C10.set-equality", "checkSlice:searched-list:"+shorten(pathOf(side, 0)), p.pos(c.Pos()), "searched after being sorted", "checkSlice looks IDs up by binary search in a list that was not sorted before: equality of ID sets depends on the order in which the IDs are listed")
	}
	r.floor("elementwise comparisons (or sorted-membership tests) in checkSlice", n, 1)
}
