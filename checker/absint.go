package main

// Scenario evaluation: conditional constant propagation over the SSA form of
// a function for one assignment of abstract values to its parameters
// (a kind constant, a nullable flag, an operator string, "nil"/"non-nil"
// pointers, values of a given dynamic type). Branches whose condition folds
// to a constant are followed; other branches are explored both ways. No
// solver is involved and nothing is executed: values that are not constants
// stay symbolic terms (printed canonically), e.g. "checkInt(op, int64(rval),
// int64(cval))" or "(rval < cval)".
//
// The finite tables the library restates in several places (kinds × nullable,
// operators × helpers, nil × nil) are decided by enumerating all scenarios.

import (
	"fmt"
	"go/constant"
	"go/token"
	"go/types"
	"sort"
	"strings"

	"golang.org/x/tools/go/ssa"
)

type akind int

const (
	aUnknown akind = iota
	aConst         // compile-time constant (int, string, bool)
	aNil           // nil pointer / nil interface / nil slice
	aSym           // symbolic term
	aIface         // interface holding dyn
	aStruct        // struct value with known fields
)

type aval struct {
	k      akind
	c      constant.Value
	t      types.Type // static type of the term (dynamic type for boxed values)
	sym    string
	dyn    *aval // boxed value for aIface
	fields map[string]*aval
	nonnil bool  // pointer known to be non-nil
	pt     *aval // pointee (struct) of a pointer value, when known
}

func (a *aval) String() string {
	if a == nil {
		return "<nil-aval>"
	}
	switch a.k {
	case aConst:
		return a.c.ExactString()
	case aNil:
		return "nil"
	case aSym:
		return a.sym
	case aIface:
		if a.dyn == nil {
			return "iface(?)"
		}
		return a.dyn.String()
	case aStruct:
		var ks []string
		for k := range a.fields {
			ks = append(ks, k)
		}
		sort.Strings(ks)
		var parts []string
		for _, k := range ks {
			parts = append(parts, k+":"+a.fields[k].String())
		}
		return "{" + strings.Join(parts, ", ") + "}"
	}
	return "?"
}

func symv(s string, t types.Type) *aval { return &aval{k: aSym, sym: s, t: t} }
func constv(c constant.Value, t types.Type) *aval {
	return &aval{k: aConst, c: c, t: t}
}
func boolv(b bool) *aval { return constv(constant.MakeBool(b), types.Typ[types.Bool]) }

// An outcome is one way the function can return under the scenario.
type outcome struct {
	decided map[string]bool
	results []*aval
	ret     *ssa.Return
	path    []*ssa.BasicBlock
	calls   []string // calls executed along the path (canonical terms)
	notes   []string
	panics  bool
	loop    bool // path abandoned because of a loop
}

type interp struct {
	p               *Prog
	f               *ssa.Function
	maxPaths        int
	structuralNames bool // name range elements after the ranged expression instead of the SSA register
	maxVisit        int  // how often a block may be entered on one path (default 2: loops run at most once)
	depth           int
	out             []outcome
	// hook: evaluate a call symbolically; return nil for the default (opaque term)
	callHook func(st *istate, c *ssa.Call, args []*aval) *aval
	// hook: decide a binary operation on symbolic operands; nil for the default
	binopHook func(st *istate, x *ssa.BinOp, a, b *aval) *aval
	// hook: decide whether a map/string range has another element (iteration k, 1-based)
	nextHook func(st *istate, nx *ssa.Next, rangeOperand *aval, k int) *aval
	// hook: name the question asked by a branch whose condition does not fold;
	// the answer taken is recorded in the path's notes as "<label>=true|false"
	forkHook func(st *istate, cond *aval, ifi *ssa.If) string
	// hook: observe a map update (map, key, value)
	mapUpdateHook func(st *istate, mu *ssa.MapUpdate, m, k, v *aval)
	// hook: the body of a range loop is entered for its k-th element
	elemHook func(st *istate, nx *ssa.Next, rangeOperand *aval, k int)
	// inline: calls of these in-package functions are evaluated in place (the
	// callee's paths fork the caller's path) instead of staying opaque terms, so
	// that a rule sees the same thing whether a piece of code is written inline
	// or extracted into a helper
	inline func(callee *ssa.Function) bool
	pfx    string // prefix of locally named symbols (callee name when inlined)
}

type istate struct {
	env     map[ssa.Value]*aval
	mem     map[ssa.Value]*aval // contents of local variables (whole-value)
	path    []*ssa.BasicBlock
	calls   []string
	notes   []string                // scratch area for hooks (copied on fork)
	dead    bool                    // a failing type assertion was executed: the path panics
	rbase   map[*ssa.BasicBlock]int // visits of a range loop's header before its current activation
	decided map[string]bool         // outcome already taken on this path for a symbolic condition (by its term)
	escaped map[ssa.Value]bool      // locals whose address was handed to a call
	count   map[*ssa.BasicBlock]int
}

func (s *istate) clone() *istate {
	n := &istate{env: map[ssa.Value]*aval{}, mem: map[ssa.Value]*aval{}, count: map[*ssa.BasicBlock]int{}, rbase: map[*ssa.BasicBlock]int{}}
	for k, v := range s.env {
		n.env[k] = v
	}
	for k, v := range s.mem {
		n.mem[k] = v
	}
	for k, v := range s.count {
		n.count[k] = v
	}
	n.path = append([]*ssa.BasicBlock{}, s.path...)
	n.calls = append([]string{}, s.calls...)
	n.notes = append([]string{}, s.notes...)
	n.rbase = map[*ssa.BasicBlock]int{}
	for k, v := range s.rbase {
		n.rbase[k] = v
	}
	n.decided = map[string]bool{}
	for k, v := range s.decided {
		n.decided[k] = v
	}
	n.escaped = map[ssa.Value]bool{}
	for k, v := range s.escaped {
		n.escaped[k] = v
	}
	return n
}

// run evaluates f with the given parameter values.
func (in *interp) run(params map[*ssa.Parameter]*aval) []outcome {
	in.out = nil
	if in.maxPaths == 0 {
		in.maxPaths = 4000
	}
	st := &istate{env: map[ssa.Value]*aval{}, mem: map[ssa.Value]*aval{}, count: map[*ssa.BasicBlock]int{}, rbase: map[*ssa.BasicBlock]int{}}
	for prm, v := range params {
		st.env[prm] = v
	}
	in.block(st, in.f.Blocks[0], nil)
	return in.out
}

func (in *interp) get(st *istate, v ssa.Value) *aval {
	if v == nil {
		return &aval{k: aUnknown}
	}
	if a, ok := st.env[v]; ok {
		return a
	}
	switch x := v.(type) {
	case *ssa.Const:
		if x.Value == nil {
			return &aval{k: aNil, t: x.Type()}
		}
		return constv(x.Value, x.Type())
	case *ssa.Parameter:
		return symv(x.Name(), x.Type())
	case *ssa.Function:
		return symv(funcName(x), x.Type())
	case *ssa.Global:
		return symv(x.Name(), x.Type())
	case *ssa.FreeVar:
		return symv(x.Name(), x.Type())
	}
	return symv(in.pfx+v.Name(), v.Type())
}

// inlineCall evaluates a call of an in-package function in place. It returns
// one caller state per way the callee can return (with the call's value bound)
// and handled=false when the call is not to be inlined.
func (in *interp) inlineCall(st *istate, c *ssa.Call) ([]*istate, bool) {
	sc := c.Common().StaticCallee()
	if sc == nil || sc.Blocks == nil || !in.p.inTarget(sc) || in.depth >= 3 || sc == in.f || !in.inline(sc) {
		return nil, false
	}
	var args []*aval
	for _, a := range c.Common().Args {
		args = append(args, in.get(st, a))
	}
	if in.callHook != nil {
		if r := in.callHook(st, c, args); r != nil {
			st.env[c] = r
			return []*istate{st}, true
		}
	}
	sub := &interp{p: in.p, f: sc, depth: in.depth + 1, maxPaths: in.maxPaths, maxVisit: in.maxVisit, structuralNames: in.structuralNames,
		callHook: in.callHook, binopHook: in.binopHook, nextHook: in.nextHook, forkHook: in.forkHook, mapUpdateHook: in.mapUpdateHook, elemHook: in.elemHook,
		inline: in.inline, pfx: in.pfx + sc.Name() + "."}
	s0 := &istate{env: map[ssa.Value]*aval{}, mem: map[ssa.Value]*aval{}, count: map[*ssa.BasicBlock]int{}, rbase: map[*ssa.BasicBlock]int{},
		decided: map[string]bool{}, escaped: map[ssa.Value]bool{}}
	for k, v := range st.decided {
		s0.decided[k] = v
	}
	s0.notes = append([]string{}, st.notes...)
	s0.calls = append([]string{}, st.calls...)
	for i, prm := range sc.Params {
		if i < len(args) {
			s0.env[prm] = args[i]
			// a pointer to a caller's variable: what it holds now
			if m, ok := st.mem[c.Common().Args[i]]; ok {
				s0.mem[prm] = m
			}
		}
	}
	sub.block(s0, sc.Blocks[0], nil)
	var out []*istate
	for _, o := range sub.out {
		if o.loop {
			in.out = append(in.out, outcome{loop: true, path: st.path, calls: o.calls})
			continue
		}
		if o.panics || o.ret == nil {
			in.out = append(in.out, outcome{panics: true, path: st.path, calls: o.calls, notes: o.notes})
			continue
		}
		ns := st.clone()
		ns.notes = append([]string{}, o.notes...)
		ns.calls = append([]string{}, o.calls...)
		for k, v := range o.decided {
			ns.decided[k] = v
		}
		switch len(o.results) {
		case 0:
		case 1:
			ns.env[c] = o.results[0]
		default:
			flds := map[string]*aval{}
			for i, rv := range o.results {
				flds[fmt.Sprint(i)] = rv
			}
			ns.env[c] = &aval{k: aStruct, fields: flds}
		}
		out = append(out, ns)
	}
	return out, true
}

func (in *interp) block(st *istate, b *ssa.BasicBlock, pred *ssa.BasicBlock) {
	if len(in.out) >= in.maxPaths {
		return
	}
	st.count[b]++
	lim := in.maxVisit
	if lim == 0 {
		lim = 2
	}
	if st.count[b] > lim {
		in.out = append(in.out, outcome{loop: true, path: st.path, calls: st.calls})
		return
	}
	st.path = append(st.path, b)
	// phis first, all evaluated against the incoming edge
	predIdx := -1
	for i, p := range b.Preds {
		if p == pred {
			predIdx = i
		}
	}
	newPhi := map[ssa.Value]*aval{}
	for _, ins := range b.Instrs {
		phi, ok := ins.(*ssa.Phi)
		if !ok {
			break
		}
		if predIdx >= 0 {
			newPhi[phi] = in.get(st, phi.Edges[predIdx])
		}
	}
	for k, v := range newPhi {
		st.env[k] = v
	}
	in.runFrom(st, b, 0)
}

// runFrom executes the instructions of b starting at index start (phis are
// skipped: they were evaluated on entry).
func (in *interp) runFrom(st *istate, b *ssa.BasicBlock, start int) {
	for idx := start; idx < len(b.Instrs); idx++ {
		ins := b.Instrs[idx]
		switch x := ins.(type) {
		case *ssa.Phi:
			continue
		case *ssa.If:
			c := in.get(st, x.Cond)
			if c.k == aConst && c.c.Kind() == constant.Bool {
				if constant.BoolVal(c.c) {
					in.block(st, b.Succs[0], b)
				} else {
					in.block(st, b.Succs[1], b)
				}
				return
			}
			// the same symbolic condition was already decided on this path
			if c.k == aSym {
				v, ok := st.decided[c.sym]
				if !ok {
					// the complementary comparison was decided earlier on this path
					if nt := negatedTerm(c.sym); nt != "" {
						if nv, nok := st.decided[nt]; nok {
							v, ok = !nv, true
						}
					}
				}
				if ok {
					if v {
						in.block(st, b.Succs[0], b)
					} else {
						in.block(st, b.Succs[1], b)
					}
					return
				}
			}
			s2 := st.clone()
			if c.k == aSym {
				if st.decided == nil {
					st.decided = map[string]bool{}
				}
				if s2.decided == nil {
					s2.decided = map[string]bool{}
				}
				st.decided[c.sym] = true
				s2.decided[c.sym] = false
			}
			if in.forkHook != nil {
				if label := in.forkHook(st, c, x); label != "" {
					st.notes = append(st.notes, label+"=true")
					s2.notes = append(s2.notes, label+"=false")
				}
			}
			in.block(st, b.Succs[0], b)
			in.block(s2, b.Succs[1], b)
			return
		case *ssa.Jump:
			in.block(st, b.Succs[0], b)
			return
		case *ssa.Return:
			o := outcome{ret: x, path: st.path, calls: st.calls, notes: st.notes, decided: st.decided}
			for _, r := range x.Results {
				o.results = append(o.results, in.get(st, r))
			}
			in.out = append(in.out, o)
			return
		case *ssa.Panic:
			in.out = append(in.out, outcome{panics: true, path: st.path, calls: st.calls})
			return
		default:
			if c, isCall := ins.(*ssa.Call); isCall && in.inline != nil {
				if states, handled := in.inlineCall(st, c); handled {
					if len(states) == 0 {
						return // every path through the callee ended (panic / loop bound)
					}
					for _, s2 := range states[1:] {
						in.runFrom(s2, b, idx+1)
					}
					st = states[0]
					continue
				}
			}
			in.instr(st, ins)
			if st.dead {
				in.out = append(in.out, outcome{panics: true, path: st.path, calls: st.calls, notes: st.notes})
				return
			}
		}
	}
}

func typeName(t types.Type) string { return typeStr(t) }

// negatedTerm: "(A == B)" <-> "(A != B)" for a comparison term printed by binop.
func negatedTerm(s string) string {
	if !strings.HasPrefix(s, "(") || !strings.HasSuffix(s, ")") {
		return ""
	}
	depth := 0
	for i := 0; i < len(s); i++ {
		switch s[i] {
		case '(':
			depth++
		case ')':
			depth--
		case ' ':
			if depth == 1 && i+4 <= len(s) {
				switch s[i:i+4] {
				case " == ":
					return s[:i] + " != " + s[i+4:]
				case " != ":
					return s[:i] + " == " + s[i+4:]
				}
			}
		}
	}
	return ""
}

func (in *interp) instr(st *istate, ins ssa.Instruction) {
	switch x := ins.(type) {
	case *ssa.Alloc:
		name := x.Name()
		if x.Comment != "" && x.Comment != "complit" && x.Comment != "varargs" && x.Comment != "slicelit" {
			name = x.Comment
		}
		pfx := in.pfx
		if in.structuralNames && name != x.Name() {
			// twin comparisons name variables after their source names, wherever
			// the code that declares them lives
			pfx = ""
		}
		a := symv("&"+pfx+name, x.Type())
		a.nonnil = true
		st.env[x] = a
		delete(st.mem, x) // a local is zeroed each time its declaration executes
	case *ssa.Store:
		if _, ok := x.Addr.(*ssa.Alloc); ok {
			st.mem[x.Addr] = in.get(st, x.Val)
		}
		// a store into a field of a local struct: keep the struct's known fields
		if fa, ok := x.Addr.(*ssa.FieldAddr); ok {
			if al, ok := fa.X.(*ssa.Alloc); ok {
				_, name := fieldRef(fa.X, fa.Field)
				m := st.mem[al]
				if m == nil || m.k != aStruct {
					m = &aval{k: aStruct, fields: map[string]*aval{}}
				} else {
					// copy on write: states are forked shallowly
					nm := &aval{k: aStruct, fields: map[string]*aval{}}
					for k, v := range m.fields {
						nm.fields[k] = v
					}
					m = nm
				}
				m.fields[name] = in.get(st, x.Val)
				st.mem[al] = m
				st.mem[fa] = m.fields[name]
			}
		}
	case *ssa.UnOp:
		v := in.get(st, x.X)
		switch x.Op {
		case token.NOT:
			if v.k == aConst {
				st.env[x] = boolv(!constant.BoolVal(v.c))
			} else {
				st.env[x] = symv("!"+v.String(), x.Type())
			}
		case token.MUL:
			if m, ok := st.mem[x.X]; ok {
				st.env[x] = m
				return
			}
			if _, isAlloc := x.X.(*ssa.Alloc); isAlloc && !st.escaped[x.X] {
				// never stored: the zero value of a basic type
				if bt, ok := x.Type().Underlying().(*types.Basic); ok {
					switch {
					case bt.Info()&types.IsBoolean != 0:
						st.env[x] = constv(constant.MakeBool(false), x.Type())
						return
					case bt.Info()&types.IsString != 0:
						st.env[x] = constv(constant.MakeString(""), x.Type())
						return
					case bt.Info()&types.IsInteger != 0:
						st.env[x] = constv(constant.MakeInt64(0), x.Type())
						return
					}
				}
			}
			// an element, at a constant index, of a local array all of whose slots
			// are stored once with constants (a lookup table written as a literal)
			if ia, ok := x.X.(*ssa.IndexAddr); ok {
				if al, ok := ia.X.(*ssa.Alloc); ok {
					if k := in.get(st, ia.Index); k.k == aConst && k.c.Kind() == constant.Int {
						if n, exact := constant.Int64Val(k.c); exact {
							if cv, ok := constArraySlot(al, n); ok {
								st.env[x] = constv(cv, x.Type())
								return
							}
						}
					}
				}
			}
			if v.k == aNil {
				st.env[x] = symv("deref(nil)!", x.Type())
				return
			}
			if v.pt != nil && v.pt.k == aConst {
				st.env[x] = v.pt
				return
			}
			st.env[x] = symv("*"+v.String(), x.Type())
		case token.SUB:
			if v.k == aConst {
				st.env[x] = constv(constant.UnaryOp(token.SUB, v.c, 0), x.Type())
			} else {
				st.env[x] = symv("-"+v.String(), x.Type())
			}
		default:
			st.env[x] = symv(x.Op.String()+v.String(), x.Type())
		}
	case *ssa.BinOp:
		a, b := in.get(st, x.X), in.get(st, x.Y)
		if in.binopHook != nil && (a.k == aSym || b.k == aSym) {
			if r := in.binopHook(st, x, a, b); r != nil {
				st.env[x] = r
				return
			}
		}
		st.env[x] = in.binop(x, a, b)
	case *ssa.Field:
		v := in.get(st, x.X)
		_, name := fieldRef(x.X, x.Field)
		if v.k == aStruct {
			if f, ok := v.fields[name]; ok {
				st.env[x] = f
				return
			}
		}
		st.env[x] = symv(v.String()+"."+name, x.Type())
	case *ssa.FieldAddr:
		v := in.get(st, x.X)
		_, name := fieldRef(x.X, x.Field)
		a := symv("&"+v.String()+"."+name, x.Type())
		a.nonnil = true
		if v.pt != nil && v.pt.k == aStruct {
			if f, ok := v.pt.fields[name]; ok {
				st.mem[x] = f
			}
		}
		// remember struct field constants for loads through the address
		if v.k == aSym && strings.HasPrefix(v.sym, "&") {
			if al, ok := x.X.(*ssa.Alloc); ok {
				if m, ok := st.mem[al]; ok && m.k == aStruct {
					if f, ok := m.fields[name]; ok {
						st.mem[x] = f
					}
				} else if ok && m.k == aSym {
					// a symbolic struct stored in the variable: name its field after it
					st.mem[x] = symv(m.sym+"."+name, deref(x.Type()))
				}
			}
		}
		st.env[x] = a
		// loads of FieldAddr look in mem[x]
	case *ssa.MakeInterface:
		v := in.get(st, x.X)
		if al, ok := x.X.(*ssa.Alloc); ok {
			// boxing the address of a local: remember what the local holds now
			if m, ok := st.mem[al]; ok && v.k == aSym {
				c := *v
				c.pt = m
				v = &c
			} else if !ok && v.k == aSym && !st.escaped[al] {
				if bt, isB := deref(al.Type()).Underlying().(*types.Basic); isB && bt.Info()&types.IsBoolean != 0 {
					c := *v
					c.pt = constv(constant.MakeBool(false), deref(al.Type()))
					v = &c
				}
			}
		}
		st.env[x] = &aval{k: aIface, dyn: v, t: x.X.Type()}
	case *ssa.ChangeInterface:
		st.env[x] = in.get(st, x.X)
	case *ssa.ChangeType:
		v := in.get(st, x.X)
		if v.k == aConst || v.k == aNil {
			st.env[x] = &aval{k: v.k, c: v.c, t: x.Type()}
		} else {
			st.env[x] = symv(v.String(), x.Type())
		}
	case *ssa.Convert:
		v := in.get(st, x.X)
		if v.k == aConst && v.c.Kind() == constant.String {
			st.env[x] = constv(v.c, x.Type())
			return
		}
		// a small integer constant converted between integer types keeps its value
		if v.k == aConst && v.c.Kind() == constant.Int {
			if bt, ok := x.Type().Underlying().(*types.Basic); ok && bt.Info()&types.IsInteger != 0 {
				if n, exact := constant.Int64Val(v.c); exact && n >= -128 && n <= 127 && (n >= 0 || bt.Info()&types.IsUnsigned == 0) {
					st.env[x] = constv(v.c, x.Type())
					return
				}
			}
		}
		st.env[x] = symv(typeName(x.Type())+"("+v.String()+")", x.Type())
	case *ssa.TypeAssert:
		v := in.get(st, x.X)
		var dynT types.Type
		var boxed *aval
		known := false
		if v.k == aIface {
			dynT, boxed, known = v.t, v.dyn, true
		} else if v.k == aNil {
			known = true
		}
		if x.CommaOk {
			ok := symv("ok("+v.String()+".("+typeName(x.AssertedType)+"))", types.Typ[types.Bool])
			val := symv(v.String()+".("+typeName(x.AssertedType)+")", x.AssertedType)
			if known {
				match := dynT != nil && assertOK(dynT, x.AssertedType)
				ok = boolv(match)
				if match {
					val = boxed
					if _, isIface := x.AssertedType.Underlying().(*types.Interface); isIface {
						val = v
					}
				}
			}
			st.env[x] = &aval{k: aStruct, fields: map[string]*aval{"0": val, "1": ok}}
			return
		}
		if known && dynT != nil && assertOK(dynT, x.AssertedType) {
			if _, isIface := x.AssertedType.Underlying().(*types.Interface); isIface {
				st.env[x] = v
			} else {
				st.env[x] = boxed
			}
			return
		}
		if known {
			st.env[x] = symv("ASSERT-PANIC("+v.String()+".("+typeName(x.AssertedType)+"))", x.AssertedType)
			st.dead = true
			return
		}
		st.env[x] = symv(v.String()+".("+typeName(x.AssertedType)+")", x.AssertedType)
	case *ssa.Extract:
		if nx, ok := x.Tuple.(*ssa.Next); ok {
			if x.Index == 0 && in.nextHook != nil {
				var op *aval
				if rg, ok := nx.Iter.(*ssa.Range); ok {
					op = in.get(st, rg.X)
				}
				if r := in.nextHook(st, nx, op, st.count[nx.Block()]-st.rbase[nx.Block()]); r != nil {
					st.env[x] = r
					return
				}
			}
			if in.elemHook != nil && x.Index >= 1 {
				var op *aval
				if rg, ok := nx.Iter.(*ssa.Range); ok {
					op = in.get(st, rg.X)
				}
				in.elemHook(st, nx, op, st.count[nx.Block()]-st.rbase[nx.Block()])
			}
			// the k-th element visited by this range on this path gets its own name
			rname := in.pfx + nx.Name()
			if in.structuralNames {
				if rg, ok := nx.Iter.(*ssa.Range); ok {
					rname = "elem(" + in.get(st, rg.X).String() + ")"
				}
			}
			st.env[x] = symv(fmt.Sprintf("%s@%dr%d#%d", rname, st.count[nx.Block()], st.count[nx.Block()]-st.rbase[nx.Block()], x.Index), x.Type())
			return
		}
		t := in.get(st, x.Tuple)
		if t.k == aStruct {
			if f, ok := t.fields[fmt.Sprint(x.Index)]; ok {
				st.env[x] = f
				return
			}
		}
		st.env[x] = symv(fmt.Sprintf("%s#%d", t.String(), x.Index), x.Type())
	case *ssa.Call:
		in.call(st, x)
	case *ssa.Slice:
		v := in.get(st, x.X)
		lo, hi := "", ""
		if x.Low != nil {
			lo = in.get(st, x.Low).String()
		}
		if x.High != nil {
			hi = in.get(st, x.High).String()
		}
		if v.k == aConst && v.c.Kind() == constant.String && x.High == nil {
			if l := in.get(st, x.Low); x.Low != nil && l.k == aConst {
				s := constant.StringVal(v.c)
				n, _ := constant.Int64Val(l.c)
				if int(n) <= len(s) {
					st.env[x] = constv(constant.MakeString(s[n:]), x.Type())
					return
				}
			}
		}
		st.env[x] = symv(v.String()+"["+lo+":"+hi+"]", x.Type())
	case *ssa.Range:
		for _, ref := range referrers(x) {
			if nx, ok := ref.(*ssa.Next); ok {
				st.rbase[nx.Block()] = st.count[nx.Block()]
			}
		}
		st.env[x] = symv("range("+in.get(st, x.X).String()+")", x.Type())
	case *ssa.MapUpdate:
		if in.mapUpdateHook != nil {
			in.mapUpdateHook(st, x, in.get(st, x.Map), in.get(st, x.Key), in.get(st, x.Value))
		}
	case *ssa.MakeMap:
		// every executed make is a distinct, non-nil map
		a := symv("makemap:"+in.pfx+x.Name(), x.Type())
		a.nonnil = true
		st.env[x] = a
	case *ssa.IndexAddr, *ssa.Index, *ssa.Lookup, *ssa.MakeSlice, *ssa.MakeClosure, *ssa.Next, *ssa.DebugRef, *ssa.RunDefers, *ssa.Defer:
		// a lookup with a constant key in a package-level table of constants
		if lk, isLk := ins.(*ssa.Lookup); isLk {
			if ld, ok := lk.X.(*ssa.UnOp); ok && ld.Op == token.MUL {
				if gl, ok := ld.X.(*ssa.Global); ok {
					if tbl, ok := constGlobalMap(in.p, gl); ok {
						if k := in.get(st, lk.Index); k.k == aConst {
							mt := deref(gl.Type()).Underlying().(*types.Map)
							val, found := tbl[k.c.ExactString()]
							var res *aval
							if found {
								res = constv(val, mt.Elem())
							} else {
								res = zeroConst(mt.Elem())
							}
							if res != nil {
								if lk.CommaOk {
									st.env[lk] = structVal(map[string]*aval{"0": res, "1": boolv(found)})
								} else {
									st.env[lk] = res
								}
								return
							}
						}
					}
				}
			}
		}
		if v, ok := ins.(ssa.Value); ok {
			ops := []string{}
			for _, op := range ins.Operands(nil) {
				if *op != nil {
					ops = append(ops, in.get(st, *op).String())
				}
			}
			st.env[v] = symv(fmt.Sprintf("%T(%s)", ins, strings.Join(ops, ",")), v.Type())
		}
	}
}

func (in *interp) binop(x *ssa.BinOp, a, b *aval) *aval {
	// constants
	if a.k == aConst && b.k == aConst {
		switch x.Op {
		case token.EQL, token.NEQ, token.LSS, token.LEQ, token.GTR, token.GEQ:
			return boolv(constant.Compare(a.c, x.Op, b.c))
		case token.ADD, token.SUB, token.MUL:
			return constv(constant.BinaryOp(a.c, x.Op, b.c), x.Type())
		case token.LAND, token.LOR:
		}
	}
	// nil comparisons
	if x.Op == token.EQL || x.Op == token.NEQ {
		isNil := func(v *aval) (bool, bool) { // (known, nil?)
			switch {
			case v.k == aNil:
				return true, true
			case v.k == aIface && v.dyn != nil:
				return true, false
			case v.nonnil:
				return true, false
			}
			return false, false
		}
		ka, na := isNil(a)
		kb, nb := isNil(b)
		if ka && kb && (na || nb) {
			eq := na && nb
			return boolv(eq == (x.Op == token.EQL))
		}
		if a.k == aSym && b.k == aSym && a.sym == b.sym {
			return boolv(x.Op == token.EQL)
		}
	}
	// string concatenation with constants folds partially
	return symv("("+a.String()+" "+x.Op.String()+" "+b.String()+")", x.Type())
}

func (in *interp) call(st *istate, c *ssa.Call) {
	cc := c.Common()
	var args []*aval
	for _, a := range cc.Args {
		args = append(args, in.get(st, a))
	}
	// a local whose address is handed to the callee may be written by it
	for _, a := range cc.Args {
		if mi, ok := a.(*ssa.MakeInterface); ok {
			a = mi.X
		}
		if al, ok := a.(*ssa.Alloc); ok {
			if st.escaped == nil {
				st.escaped = map[ssa.Value]bool{}
			}
			st.escaped[al] = true
			delete(st.mem, al)
		}
	}
	name := "?"
	if b, ok := cc.Value.(*ssa.Builtin); ok {
		name = b.Name()
		if name == "len" && len(args) == 1 && args[0].k == aNil {
			st.env[c] = constv(constant.MakeInt64(0), c.Type())
			return
		}
		if name == "len" && len(args) == 1 && args[0].k == aConst && args[0].c.Kind() == constant.String {
			st.env[c] = constv(constant.MakeInt64(int64(len(constant.StringVal(args[0].c)))), c.Type())
			return
		}
	} else if sc := cc.StaticCallee(); sc != nil {
		name = strings.TrimPrefix(fullName(sc), targetPkgPath+".")
		// pure string predicates on constants
		if len(args) == 2 && args[0].k == aConst && args[1].k == aConst && args[0].c.Kind() == constant.String && args[1].c.Kind() == constant.String {
			s0, s1 := constant.StringVal(args[0].c), constant.StringVal(args[1].c)
			switch name {
			case "strings.HasPrefix":
				st.env[c] = boolv(strings.HasPrefix(s0, s1))
				return
			case "strings.HasSuffix":
				st.env[c] = boolv(strings.HasSuffix(s0, s1))
				return
			case "strings.Contains":
				st.env[c] = boolv(strings.Contains(s0, s1))
				return
			case "strings.TrimPrefix":
				st.env[c] = constv(constant.MakeString(strings.TrimPrefix(s0, s1)), c.Type())
				return
			case "strings.TrimSuffix":
				st.env[c] = constv(constant.MakeString(strings.TrimSuffix(s0, s1)), c.Type())
				return
			case "strings.CutPrefix", "strings.CutSuffix":
				var rest string
				var found bool
				if name == "strings.CutPrefix" {
					found = strings.HasPrefix(s0, s1)
					rest = strings.TrimPrefix(s0, s1)
				} else {
					found = strings.HasSuffix(s0, s1)
					rest = strings.TrimSuffix(s0, s1)
				}
				st.env[c] = &aval{k: aStruct, fields: map[string]*aval{"0": constv(constant.MakeString(rest), types.Typ[types.String]), "1": boolv(found)}}
				return
			case "strings.TrimLeft":
				st.env[c] = constv(constant.MakeString(strings.TrimLeft(s0, s1)), c.Type())
				return
			case "strings.TrimRight":
				st.env[c] = constv(constant.MakeString(strings.TrimRight(s0, s1)), c.Type())
				return
			}
		}
	} else if cc.IsInvoke() {
		recv := in.get(st, cc.Value)
		name = recv.String() + "." + cc.Method.Name()
	} else {
		name = in.get(st, cc.Value).String()
	}
	if in.callHook != nil {
		if r := in.callHook(st, c, args); r != nil {
			st.env[c] = r
			return
		}
	}
	// a target-package function applied to constants only: evaluate it (table functions)
	if sc := cc.StaticCallee(); sc != nil && in.p.inTarget(sc) && sc.Blocks != nil && len(args) > 0 && in.depth < 3 {
		allConst := true
		for _, a := range args {
			if a.k != aConst {
				allConst = false
			}
		}
		if allConst {
			sub := &interp{p: in.p, f: sc, depth: in.depth + 1, maxPaths: 50}
			prm := map[*ssa.Parameter]*aval{}
			for i, a := range args {
				if i < len(sc.Params) {
					prm[sc.Params[i]] = a
				}
			}
			outs := sub.run(prm)
			if len(outs) == 1 && outs[0].ret != nil {
				if len(outs[0].results) == 1 {
					st.env[c] = outs[0].results[0]
					return
				}
				flds := map[string]*aval{}
				for i, rv := range outs[0].results {
					flds[fmt.Sprint(i)] = rv
				}
				st.env[c] = &aval{k: aStruct, fields: flds}
				return
			}
		}
	}
	parts := make([]string, len(args))
	for i, a := range args {
		parts[i] = a.String()
	}
	term := name + "(" + strings.Join(parts, ", ") + ")"
	st.calls = append(st.calls, term)
	res := symv(term, c.Type())
	switch name {
	case "errors.New", "fmt.Errorf":
		res.nonnil = true
	}
	st.env[c] = res
}

// summarize renders the distinct results of position idx over all outcomes.
func summarize(outs []outcome, idx int) []string {
	set := map[string]bool{}
	for _, o := range outs {
		switch {
		case o.panics:
			set["PANIC"] = true
		case o.loop:
			set["LOOP"] = true
		case idx < len(o.results):
			set[o.results[idx].String()] = true
		}
	}
	var out []string
	for s := range set {
		out = append(out, s)
	}
	sort.Strings(out)
	return out
}

// smallHelper: an unexported function of the package, small enough to be
// evaluated in place.
func smallHelper(f *ssa.Function) bool {
	n := f.Name()
	if n == "" || f.Blocks == nil || len(f.Blocks) > 20 {
		return false
	}
	c := n[0]
	return c >= 'a' && c <= 'z'
}

// zeroConst: the zero value of a basic type as a constant (nil when t is not
// a basic bool/int/string type).
func zeroConst(t types.Type) *aval {
	bt, ok := t.Underlying().(*types.Basic)
	if !ok {
		return nil
	}
	switch {
	case bt.Info()&types.IsBoolean != 0:
		return constv(constant.MakeBool(false), t)
	case bt.Info()&types.IsInteger != 0:
		return constv(constant.MakeInt64(0), t)
	case bt.Info()&types.IsString != 0:
		return constv(constant.MakeString(""), t)
	}
	return nil
}

var constGlobalMaps = map[*ssa.Global]map[string]constant.Value{}

// constGlobalMap: gl is a package-level map with constant keys and constant
// basic values that the package initialiser fills and every other function
// only looks up (m[k], len(m)): a constant table. Keys are returned in their
// exact constant spelling.
func constGlobalMap(p *Prog, gl *ssa.Global) (map[string]constant.Value, bool) {
	if t, ok := constGlobalMaps[gl]; ok {
		return t, t != nil
	}
	constGlobalMaps[gl] = nil
	mt, ok := deref(gl.Type()).Underlying().(*types.Map)
	if !ok {
		return nil, false
	}
	if _, ok := mt.Key().Underlying().(*types.Basic); !ok {
		return nil, false
	}
	if _, ok := mt.Elem().Underlying().(*types.Basic); !ok {
		return nil, false
	}
	var mk *ssa.MakeMap
	good := true
	for _, f := range p.Funcs {
		isInit := f.Name() == "init" && f.Signature.Recv() == nil && f.Parent() == nil
		eachInstr(f, func(ins ssa.Instruction) {
			uses := false
			for _, op := range ins.Operands(nil) {
				if *op == ssa.Value(gl) {
					uses = true
				}
			}
			if !uses {
				return
			}
			switch x := ins.(type) {
			case *ssa.Store:
				m, isMk := x.Val.(*ssa.MakeMap)
				if !isInit || x.Addr != ssa.Value(gl) || !isMk || mk != nil {
					good = false
					return
				}
				mk = m
			case *ssa.UnOp:
				if x.Op != token.MUL {
					good = false
					return
				}
				for _, ref := range referrers(x) {
					switch y := ref.(type) {
					case *ssa.Lookup:
						if y.X != ssa.Value(x) {
							good = false
						}
					case *ssa.Call:
						if builtinName(y.Common()) != "len" {
							good = false
						}
					case *ssa.DebugRef:
					default:
						good = false
					}
				}
			default:
				good = false
			}
		})
	}
	if !good || mk == nil {
		return nil, false
	}
	tbl := map[string]constant.Value{}
	for _, ref := range referrers(mk) {
		switch y := ref.(type) {
		case *ssa.MapUpdate:
			kc, ok1 := y.Key.(*ssa.Const)
			vc, ok2 := y.Value.(*ssa.Const)
			if !ok1 || !ok2 || kc.Value == nil || vc.Value == nil || y.Map != ssa.Value(mk) {
				return nil, false
			}
			if _, dup := tbl[kc.Value.ExactString()]; dup {
				return nil, false
			}
			tbl[kc.Value.ExactString()] = vc.Value
		case *ssa.Store:
		case *ssa.DebugRef:
		default:
			return nil, false
		}
	}
	if len(tbl) == 0 {
		return nil, false
	}
	constGlobalMaps[gl] = tbl
	return tbl, true
}

// constArraySlot: al is a local array every slot of which is stored exactly
// once, with a constant, through a constant index, and which is otherwise only
// read; the constant in slot n.
func constArraySlot(al *ssa.Alloc, n int64) (constant.Value, bool) {
	at, ok := deref(al.Type()).Underlying().(*types.Array)
	if !ok || n < 0 || n >= at.Len() {
		return nil, false
	}
	var found constant.Value
	filled := map[int64]bool{}
	for _, ref := range referrers(al) {
		switch y := ref.(type) {
		case *ssa.IndexAddr:
			k, isConst := constInt(y.Index)
			for _, r2 := range referrers(y) {
				switch z := r2.(type) {
				case *ssa.Store:
					c, isC := z.Val.(*ssa.Const)
					if !isConst || !isC || c.Value == nil || z.Addr != ssa.Value(y) || filled[k] {
						return nil, false
					}
					filled[k] = true
					if k == n {
						found = c.Value
					}
				case *ssa.UnOp, *ssa.DebugRef:
				default:
					return nil, false
				}
			}
		case *ssa.UnOp, *ssa.DebugRef:
		case *ssa.Slice:
			for _, r2 := range referrers(y) {
				switch z := r2.(type) {
				case *ssa.DebugRef:
				case *ssa.Call:
					if b := builtinName(z.Common()); b != "len" && b != "cap" {
						return nil, false
					}
				default:
					return nil, false
				}
			}
		default:
			return nil, false
		}
	}
	if int64(len(filled)) != at.Len() || found == nil {
		return nil, false
	}
	return found, true
}
