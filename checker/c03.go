package main

import (
	"encoding/json"
	"fmt"
	"os"
	"regexp"
	"go/constant"
	"go/token"
	"go/types"
	"sort"
	"strings"

	"golang.org/x/tools/go/ssa"
)

func init() { register("C03", checkC03) }

func checkC03(p *Prog, r *Report) {
	r.rule("C03.top-level (scenario evaluation of MarshalDocument: every path to the successful return, with the stores into the payload map recorded): jsonapi is always stored (value {version: 1.0}); links is always stored and the stored map received self = PrePath + url.String() on that path; errors and data are never both stored; included is stored only on paths that stored data")
	r.rule("C03.top-level.dominance (CFG): the store of included is dominated by the store of data, and neither the errors store nor the data store can reach the other")
	r.rule("C03.resource-members: in MarshalResource the stores of id, type and links into the payload map dominate the return; links is a literal whose self entry is buildSelfLink(r, prepath); every relationship object literal has a links entry from buildRelationshipLinks(r, prepath, rel.FromName), itself a literal with exactly self and related built on buildSelfLink with the same arguments")
	r.rule("C03.self-link (scenario evaluation of buildSelfLink, strings.HasSuffix(prepath, \"/\") taken both ways): the link is prepath, one slash only when prepath lacks it, type name, slash, id")
	r.rule("C03.prefix-flow: every call of MarshalResource / MarshalCollection in MarshalDocument passes doc.PrePath, and the prefix parameter is handed on unchanged down to buildSelfLink")
	r.rule("R14 JSON provenance: in the marshal functions every byte-slice value is produced by encoding/json, by MarshalResource / MarshalCollection, or is a constant that is valid JSON; nothing is built or cut by hand (an empty literal only accompanies a non-nil error)")
	r.rule("C03.include-predicate: the predicate used by Document.Include is true exactly when the candidate's Get(\"id\") equals the new resource's and its GetType().Name equals the new resource's (&&-chain read off the SSA form; captured variables resolved to their single stores)")
	r.rule("C03.include-guards (must-pass-through with per-predecessor conditions): every path to the append in Include has compared the new resource with the primary resource (if Data is a Resource), with every element At(0..Len()-1) of a primary Collection of any implementation, and with every element of Included; each loop is left only by exhaustion or by returning after a match; the append adds exactly res and is the only growing store to Included")
	r.assume("Meta, Links and attribute values supplied by the caller are marshalable (C01/C14 decide the error discipline)")
	r.notCovered("escaping of ids and type names inside strings is encoding/json's; content of url.String() is C08's; the order of included is C11's")

	checkC03Document(p, r)
	checkC03Resource(p, r)
	checkC03SelfLink(p, r)
	r.rule("C03.to-many-emission (shared with C01/C06): the loop of MarshalResource that writes a to-many relationship's identifiers emits one identifier per ID (an append, or the slot of its own index) on every iteration: no hole (a JSON null) and no missing identifier in the linkage array")
	checkToManyEmission(p, r, "C03")
	checkC03Provenance(p, r)
	checkC03Include(p, r)
}

// ---------------------------------------------------------------------------

func checkC03Document(p *Prog, r *Report) {
	f := p.Fn("MarshalDocument")
	if f == nil {
		r.fail("anchor MarshalDocument not found")
		return
	}
	r.fn(funcName(f))
	// the payload map: argument of the json.Marshal whose results are returned
	var plMap ssa.Value
	var okRet *ssa.Return
	for _, b := range f.Blocks {
		ret, ok := b.Instrs[len(b.Instrs)-1].(*ssa.Return)
		if !ok || len(ret.Results) != 2 {
			continue
		}
		c, _ := callOf(ret.Results[0])
		if c == nil || !calleeIs(c, "encoding/json", "Marshal") {
			continue
		}
		a := c.Common().Args[0]
		if mi, ok := a.(*ssa.MakeInterface); ok {
			a = mi.X
		}
		if _, ok := a.(*ssa.MakeMap); ok {
			plMap, okRet = a, ret
		}
	}
	if plMap == nil {
		r.bad("C03.top-level", "MarshalDocument:payload-map", p.pos(f.Pos()), "the successful return is not json.Marshal of a map built in the function: the member structure cannot be read off")
		return
	}
	plName := "makemap:" + plMap.Name()

	// --- dominance rules
	stores := map[string][]*ssa.MapUpdate{}
	eachInstr(f, func(ins ssa.Instruction) {
		if mu, ok := ins.(*ssa.MapUpdate); ok && mu.Map == plMap {
			k, ok := constString(mu.Key)
			if !ok {
				r.bad("C03.top-level", "MarshalDocument:computed-key:"+p.describe(mu), p.pos(mu.Pos()), "a top-level member with a computed name is stored")
				return
			}
			stores[k] = append(stores[k], mu)
		}
	})
	var keys []string
	for k := range stores {
		keys = append(keys, k)
	}
	sort.Strings(keys)
	allowed := map[string]bool{"data": true, "errors": true, "included": true, "meta": true, "links": true, "jsonapi": true}
	for _, k := range keys {
		r.decide(allowed[k], "C03.top-level", "MarshalDocument:member:"+k, p.pos(stores[k][0].Pos()), "a JSON:API top-level member", "a top-level member that JSON:API does not define is emitted")
	}
	for _, inc := range stores["included"] {
		dom := false
		for _, d := range stores["data"] {
			if d.Block().Dominates(inc.Block()) {
				dom = true
			}
		}
		r.decide(dom, "C03.top-level.dominance", "MarshalDocument:included-under-data:"+p.describe(inc), p.pos(inc.Pos()), "dominated by the data store", "included can be emitted on a path that did not emit data")
	}
	for _, d := range stores["data"] {
		for _, e := range stores["errors"] {
			excl := !blockReaches(d.Block(), e.Block(), true) && !blockReaches(e.Block(), d.Block(), true)
			r.decide(excl, "C03.top-level.dominance", "MarshalDocument:data-xor-errors:"+p.describe(d), p.pos(d.Pos()), "no path executes both stores", "a path stores both data and errors")
		}
	}
	r.floor("top-level member stores", len(keys), 6)

	// --- scenario evaluation
	in := &interp{p: p, f: f, maxPaths: 400000, inline: smallHelper}
	if deep {
		in.maxVisit = 3 // two included resources per path
		in.maxPaths = 2000000
	}
	in.mapUpdateHook = func(st *istate, mu *ssa.MapUpdate, m, k, v *aval) {
		st.notes = append(st.notes, "mu|"+m.String()+"|"+k.String()+"|"+v.String())
	}
	doc := symv("doc", f.Params[0].Type())
	doc.nonnil = true
	url := symv("url", f.Params[1].Type())
	url.nonnil = true
	outs := in.run(map[*ssa.Parameter]*aval{f.Params[0]: doc, f.Params[1]: url})
	nOK, nLoop := 0, 0
	type verdict struct{ ok bool; msg string }
	results := map[string]verdict{}
	set := func(key string, ok bool, msg string) {
		if v, have := results[key]; have && !v.ok {
			return
		}
		results[key] = verdict{ok, msg}
	}
	for _, k := range []string{"jsonapi", "links", "self", "xor", "included"} {
		results[k] = verdict{true, ""}
	}
	for _, o := range outs {
		if o.loop {
			nLoop++
			continue
		}
		if o.panics || o.ret != okRet {
			continue
		}
		nOK++
		top := map[string]string{}
		other := map[string]map[string]string{}
		for _, n := range o.notes {
			parts := strings.SplitN(n, "|", 4)
			if len(parts) != 4 || parts[0] != "mu" {
				continue
			}
			key := strings.Trim(parts[2], `"`)
			if parts[1] == plName {
				top[key] = parts[3]
			} else {
				if other[parts[1]] == nil {
					other[parts[1]] = map[string]string{}
				}
				other[parts[1]][key] = parts[3]
			}
		}
		where := pathSummary(o)
		if v, ok := top["jsonapi"]; !ok {
			set("jsonapi", false, "a successful path does not store jsonapi ("+where+")")
		} else if ver := other[v]["version"]; ver != `"1.0"` {
			set("jsonapi", false, "the jsonapi member is not {version: 1.0}: "+v)
		}
		if lm, ok := top["links"]; !ok {
			set("links", false, "a successful path (url != nil) does not store links ("+where+")")
		} else {
			// the links map is either a fresh map or doc.Links; self was stored into it
			found := ""
			for m, kv := range other {
				if s, ok := kv["self"]; ok && (m == lm) {
					found = s
				}
			}
			if found == "" {
				set("self", false, "the links map stored on a successful path did not receive a self entry ("+where+")")
			} else if !(strings.Contains(found, "PrePath") && (strings.Contains(found, "url.String()") || strings.Contains(found, "(*URL).String(url)")) && strings.Contains(found, " + ")) {
				set("self", false, "the self link is not PrePath + url.String(): "+found)
			}
		}
		_, hasD := top["data"]
		_, hasE := top["errors"]
		_, hasI := top["included"]
		if hasD && hasE {
			set("xor", false, "a successful path stores both data and errors ("+where+")")
		}
		if hasI && !hasD {
			set("included", false, "a successful path stores included without data ("+where+")")
		}
	}
	msgs := map[string]string{
		"jsonapi":  "jsonapi {version 1.0} on every successful path",
		"links":    "links on every successful path",
		"self":     "links.self = PrePath + url.String()",
		"xor":      "never both data and errors",
		"included": "included only with data",
	}
	for _, k := range []string{"jsonapi", "links", "self", "xor", "included"} {
		v := results[k]
		r.decide(v.ok, "C03.top-level", "MarshalDocument:"+k, p.pos(f.Pos()), msgs[k], v.msg)
	}
	r.note(fmt.Sprintf("MarshalDocument: %d complete successful paths evaluated, %d abandoned after the loop bound", nOK, nLoop))
	r.floor("successful paths of MarshalDocument evaluated", nOK, 20)
	if len(outs) >= in.maxPaths {
		r.fail("path budget exhausted in MarshalDocument")
	}
}

func pathSummary(o outcome) string {
	var bs []string
	for _, b := range o.path {
		bs = append(bs, fmt.Sprint(b.Index))
	}
	if len(bs) > 24 {
		bs = append(bs[:12], append([]string{"…"}, bs[len(bs)-10:]...)...)
	}
	return "blocks " + strings.Join(bs, ",")
}

// ---------------------------------------------------------------------------

// mapLiteralEntries: the constant-keyed stores into a map made in f.
func mapLiteralEntries(m ssa.Value) map[string]ssa.Value {
	out := map[string]ssa.Value{}
	for _, ref := range referrers(m) {
		if mu, ok := ref.(*ssa.MapUpdate); ok && mu.Map == m {
			if k, ok := constString(mu.Key); ok {
				out[k] = mu.Value
			} else {
				out["?"] = mu.Value
			}
		}
	}
	return out
}

func unbox(v ssa.Value) ssa.Value {
	for {
		switch x := v.(type) {
		case *ssa.MakeInterface:
			v = x.X
		case *ssa.ChangeType:
			v = x.X
		default:
			return v
		}
	}
}

func checkC03Resource(p *Prog, r *Report) {
	f := p.Fn("MarshalResource")
	bsl := p.Fn("buildSelfLink")
	brl := p.Fn("buildRelationshipLinks")
	if f == nil || bsl == nil || brl == nil {
		r.fail("anchor MarshalResource / buildSelfLink / buildRelationshipLinks not found")
		return
	}
	r.fn(funcName(f))
	r.fn(funcName(brl))
	res, prepath := f.Params[0], f.Params[1]
	// payload map: argument of the json.Marshal whose result is returned
	var rets []*ssa.Return
	var mapPl ssa.Value
	for _, b := range f.Blocks {
		if ret, ok := b.Instrs[len(b.Instrs)-1].(*ssa.Return); ok {
			rets = append(rets, ret)
			for _, o := range origins(ret.Results[0]) {
				if c, _ := callOf(o); c != nil && calleeIs(c, "encoding/json", "Marshal") {
					if mm, ok := unbox(c.Common().Args[0]).(*ssa.MakeMap); ok {
						mapPl = mm
					}
				}
			}
		}
	}
	if mapPl == nil || len(rets) != 1 {
		r.bad("C03.resource-members", "MarshalResource:payload-map", p.pos(f.Pos()), "the result is not json.Marshal of one map built in the function")
		return
	}
	isSelfLinkCall := func(v ssa.Value, resV, preV ssa.Value) bool {
		c, _ := callOf(v)
		return c != nil && c.Common().StaticCallee() == bsl && c.Common().Args[0] == resV && c.Common().Args[1] == preV
	}
	for _, key := range []string{"id", "type", "links"} {
		var mu *ssa.MapUpdate
		for _, ref := range referrers(mapPl) {
			if m, ok := ref.(*ssa.MapUpdate); ok {
				if k, ok := constString(m.Key); ok && k == key {
					mu = m
				}
			}
		}
		good := mu != nil && mu.Block().Dominates(rets[0].Block())
		why := "the " + key + " member is not stored on every path"
		if good {
			switch key {
			case "id", "type":
				if bt, ok := unbox(mu.Value).Type().Underlying().(*types.Basic); !ok || bt.Info()&types.IsString == 0 {
					good, why = false, "the "+key+" member is not a string"
				}
			case "links":
				ent := mapLiteralEntries(unbox(mu.Value))
				if _, isMap := unbox(mu.Value).(*ssa.MakeMap); !isMap || len(ent) != 1 || ent["self"] == nil || !isSelfLinkCall(ent["self"], res, prepath) {
					good, why = false, "links is not the literal {self: buildSelfLink(r, prepath)}"
				}
			}
		}
		pos := f.Pos()
		if mu != nil {
			pos = mu.Pos()
		}
		r.decide(good, "C03.resource-members", "MarshalResource:"+key, p.pos(pos), "stored on every path with the required shape", why)
	}
	// relationship objects: every map marshaled into a *json.RawMessage stored in rels
	nRel := 0
	eachInstr(f, func(ins ssa.Instruction) {
		c, ok := ins.(*ssa.Call)
		if !ok || !calleeIs(c, "encoding/json", "Marshal") {
			return
		}
		mm, ok := unbox(c.Common().Args[0]).(*ssa.MakeMap)
		if !ok || mm == mapPl {
			return
		}
		nRel++
		ent := mapLiteralEntries(mm)
		good, why := true, ""
		lk := ent["links"]
		if lk == nil {
			good, why = false, "the relationship object has no links member"
		} else {
			lc, _ := callOf(unbox(lk))
			if lc == nil || lc.Common().StaticCallee() != brl || lc.Common().Args[0] != ssa.Value(res) || lc.Common().Args[1] != ssa.Value(prepath) {
				good, why = false, "links does not come from buildRelationshipLinks(r, prepath, …)"
			} else if _, fl, ok := fieldLoad(lc.Common().Args[2]); !ok || fl != "FromName" {
				good, why = false, "the relationship name passed to buildRelationshipLinks is not rel.FromName"
			}
		}
		for k := range ent {
			if k != "links" && k != "data" {
				good, why = false, "a member other than links and data is stored in a relationship object: "+k
			}
		}
		r.decide(good, "C03.resource-members", "MarshalResource:relationship-object:"+p.describe(c), p.pos(c.Pos()), "links from buildRelationshipLinks, only links and data", why)
	})
	r.floor("relationship object literals", nRel, 2)
	// buildRelationshipLinks: literal with exactly self and related on buildSelfLink(res, prepath)
	{
		good, why := false, "the result is not a map literal"
		for _, b := range brl.Blocks {
			if ret, ok := b.Instrs[len(b.Instrs)-1].(*ssa.Return); ok {
				if mm, ok := ret.Results[0].(*ssa.MakeMap); ok {
					ent := mapLiteralEntries(mm)
					good, why = true, ""
					if len(ent) != 2 || ent["self"] == nil || ent["related"] == nil {
						good, why = false, "the links object does not have exactly self and related"
						continue
					}
					for k, suffix := range map[string]string{"self": "/relationships/", "related": "/"} {
						// ((buildSelfLink(res, prepath) + suffix) + rel)
						ok := false
						if bo, isB := ent[k].(*ssa.BinOp); isB && bo.Op == token.ADD && bo.Y == ssa.Value(brl.Params[2]) {
							if bi, isB := bo.X.(*ssa.BinOp); isB && bi.Op == token.ADD && isSelfLinkCall(bi.X, brl.Params[0], brl.Params[1]) {
								if s, isC := constString(bi.Y); isC && s == suffix {
									ok = true
								}
							}
						}
						if !ok {
							good, why = false, "the "+k+" link is not buildSelfLink(res, prepath) + \""+suffix+"\" + rel"
						}
					}
				}
			}
		}
		r.decide(good, "C03.resource-members", "buildRelationshipLinks:shape", p.pos(brl.Pos()), "{self: link/relationships/rel, related: link/rel}", why)
	}

	// prefix flow
	n := 0
	md, mc := p.Fn("MarshalDocument"), p.Fn("MarshalCollection")
	if md == nil || mc == nil {
		r.fail("anchor MarshalDocument / MarshalCollection not found")
		return
	}
	r.fn(funcName(mc))
	eachInstrOf(append([]*ssa.Function{md}, stringHelpers(md)...), func(ins ssa.Instruction) {
		c, ok := ins.(*ssa.Call)
		if !ok || (c.Common().StaticCallee() != f && c.Common().StaticCallee() != mc) {
			return
		}
		n++
		base, fl, ok := fieldLoad(c.Common().Args[1])
		good := ok && fl == "PrePath" && isParamOrItsCopy(base, md.Params[0])
		if ok && fl == "PrePath" && !good && c.Parent() != md {
			// inside a phase helper: its document parameter is MarshalDocument's
			if prm, isP := base.(*ssa.Parameter); isP {
				g := c.Parent()
				idx := -1
				for i, q := range g.Params {
					if q == prm {
						idx = i
					}
				}
				eachInstr(md, func(i2 ssa.Instruction) {
					if hc, ok := i2.(*ssa.Call); ok && hc.Common().StaticCallee() == g && idx >= 0 && idx < len(hc.Common().Args) {
						if isParamOrItsCopy(hc.Common().Args[idx], md.Params[0]) {
							good = true
						}
					}
				})
			}
		}
		r.decide(good, "C03.prefix-flow", "MarshalDocument:"+p.describe(c), p.pos(c.Pos()), "passes doc.PrePath", "a resource is marshaled with a prefix other than the document's PrePath: its links differ from those of the other resources of the document")
	})
	eachInstr(mc, func(ins ssa.Instruction) {
		c, ok := ins.(*ssa.Call)
		if !ok || c.Common().StaticCallee() != f {
			return
		}
		n++
		r.decide(c.Common().Args[1] == ssa.Value(mc.Params[1]), "C03.prefix-flow", "MarshalCollection:"+p.describe(c), p.pos(c.Pos()), "hands its prefix on unchanged", "MarshalCollection does not hand its prefix on unchanged")
	})
	r.floor("prefix call sites", n, 4)
}

// ---------------------------------------------------------------------------

// flattenConcat splits a printed concatenation term into its leaves.
func flattenConcat(s string) []string {
	s = strings.TrimSpace(s)
	if strings.HasPrefix(s, "(") && strings.HasSuffix(s, ")") {
		depth := 0
		inStr := false
		for i := 0; i < len(s); i++ {
			ch := s[i]
			if inStr {
				if ch == '\\' {
					i++
				} else if ch == '"' {
					inStr = false
				}
				continue
			}
			switch ch {
			case '"':
				inStr = true
			case '(':
				depth++
			case ')':
				depth--
				if depth == 0 && i != len(s)-1 {
					return []string{s} // the outer parentheses do not match each other
				}
			case ' ':
				if depth == 1 && strings.HasPrefix(s[i:], " + ") {
					return append(flattenConcat(s[1:i]), flattenConcat(s[i+3:len(s)-1])...)
				}
			}
		}
	}
	return []string{s}
}

// the type name and the id as they are read from the resource: nothing is
// applied to them on the way into the link
var (
	selfLinkTypeRe = regexp.MustCompile(`^\w+\.GetType\(\)\.Name$`)
	selfLinkIDRe   = regexp.MustCompile(`^\w+\.Get\("id"\)(\.\(string\))?$`)
)

func checkC03SelfLink(p *Prog, r *Report) {
	f := p.Fn("buildSelfLink")
	if f == nil {
		r.fail("anchor buildSelfLink not found")
		return
	}
	r.fn(funcName(f))
	for _, hasSlash := range []bool{true, false} {
		in := &interp{p: p, f: f, maxPaths: 200, inline: smallHelper}
		asked := false
		in.callHook = func(st *istate, c *ssa.Call, args []*aval) *aval {
			if calleeIs(c, "strings", "HasSuffix") && len(args) == 2 && args[0].String() == "prepath" && args[1].String() == `"/"` {
				asked = true
				return boolv(hasSlash)
			}
			// strings.TrimSuffix(prepath, "/"): the prefix without its final slash
			if calleeIs(c, "strings", "TrimSuffix") && len(args) == 2 && args[0].String() == "prepath" && args[1].String() == `"/"` {
				asked = true
				if hasSlash {
					return symv("P-", c.Type())
				}
				return symv("prepath", c.Type())
			}
			return nil
		}
		outs := in.run(map[*ssa.Parameter]*aval{f.Params[1]: symv("prepath", f.Params[1].Type())})
		canon := func(tok string) string {
			switch {
			case tok == "prepath" && hasSlash:
				return "P- /" // a prefix that ends with a slash, written as its stem and the slash
			case tok == "prepath":
				return "P"
			case tok == "P-":
				return "P-"
			case selfLinkTypeRe.MatchString(tok):
				return "T"
			case selfLinkIDRe.MatchString(tok):
				return "I"
			case tok == `"/"`:
				return "/"
			}
			return "?" + tok
		}
		want := "P- / T / I"
		if !hasSlash {
			want = "P / T / I"
		}
		full := 0
		key := fmt.Sprintf("buildSelfLink:prefix-ends-with-slash=%v", hasSlash)
		for _, o := range outs {
			if o.ret == nil || o.loop || len(o.results) != 1 {
				continue
			}
			var toks []string
			for _, t := range flattenConcat(o.results[0].String()) {
				c := canon(t)
				if os.Getenv("VERIF_DEBUG") != "" {
					fmt.Fprintf(os.Stderr, "DBG self-link tok %q -> %s\n", t, c)
				}
				// adjacent constants fold
				toks = append(toks, c)
			}
			got := strings.Join(toks, " ")
			got = strings.ReplaceAll(got, `?"//"`, "/ /")
			if strings.Contains(got, "T") || strings.Contains(got, "I") {
				full++
				r.decide(got == want, "C03.self-link", key+":"+got, p.pos(f.Pos()), "link = "+want, "the self link is assembled as "+got+" instead of "+want)
			} else {
				// the branch without id / type name: the bare prefix
				wantBare := "P- /"
				if !hasSlash {
					wantBare = "P /"
				}
				r.decide(got == wantBare, "C03.self-link", key+":bare:"+got, p.pos(f.Pos()), "bare prefix when id or type name is empty", "the link of a resource without id is assembled as "+got)
			}
		}
		if full == 0 {
			r.bad("C03.self-link", key+":no-full-link", p.pos(f.Pos()), "no path builds a link with type and id")
		}
		if !asked {
			r.bad("C03.self-link", key+":suffix-test", p.pos(f.Pos()), "buildSelfLink does not ask whether the prefix already ends with a slash: one of the two prefix forms yields a doubled or missing slash")
		}
	}
}

// ---------------------------------------------------------------------------

func isBytesType(t types.Type) bool {
	s := fmtTypeString(t)
	return s == "[]byte" || s == "[]uint8" || s == "json.RawMessage"
}

func checkC03Provenance(p *Prog, r *Report) {
	names := []string{"MarshalDocument", "MarshalResource", "MarshalCollection", "(Link).MarshalJSON", "(Error).MarshalJSON"}
	n := 0
	provSeen := map[*ssa.Function]bool{}
	for _, name := range names {
		f := p.Fn(name)
		if f == nil {
			r.fail("anchor %s not found", name)
			continue
		}
		r.fn(funcName(f))
		// the function and the small helpers it delegates phases to: a helper's
		// byte results are judged where the helper produces them
		scope := []*ssa.Function{f}
		for _, g := range stringHelpers(f) {
			if !provSeen[g] {
				provSeen[g] = true
				scope = append(scope, g)
			}
		}
		inScope := func(g *ssa.Function) bool { return g != nil && g.Blocks != nil && smallHelper(g) && (provSeen[g]) }
		eachInstrOf(scope, func(ins ssa.Instruction) {
			v, ok := ins.(ssa.Value)
			if !ok || !isBytesType(v.Type()) {
				return
			}
			if c, _ := callOf(v); c != nil && inScope(c.Common().StaticCallee()) {
				return // transparent: decided inside the helper
			}
			good, why := false, ""
			switch x := ins.(type) {
			case *ssa.Phi, *ssa.ChangeType:
				return // transparent
			case *ssa.UnOp:
				if x.Op == token.MUL {
					return // load of a variable holding one of the other values
				}
				why = "operator " + x.Op.String()
			case *ssa.Extract:
				c, _ := callOf(x.Tuple)
				if c != nil && calleeIs(c, "encoding/json", "Marshal") && x.Index == 0 {
					good = true
				} else {
					why = "result of a call other than json.Marshal"
				}
			case *ssa.Call:
				sc := x.Common().StaticCallee()
				if sc != nil && (funcName(sc) == "MarshalResource" || funcName(sc) == "MarshalCollection") {
					good = true
				} else {
					why = "result of " + p.describe(x)
				}
			case *ssa.Convert:
				if s, ok := constString(x.X); ok {
					good = json.Valid([]byte(s))
					why = "the constant " + fmt.Sprintf("%q", s) + " is not valid JSON"
				} else if isBytesType(x.X.Type()) {
					return
				} else {
					why = "conversion from a computed string"
				}
			case *ssa.Slice:
				// []byte{} : only as the value accompanying a non-nil error
				if al, ok := x.X.(*ssa.Alloc); ok {
					if at, ok := deref(al.Type()).Underlying().(*types.Array); ok && at.Len() == 0 && x.Low == nil && x.High == nil {
						good = true
						for _, ref := range referrers(x) {
							ret, isRet := ref.(*ssa.Return)
							if !isRet || len(ret.Results) != 2 || !errNonNilAt(ret.Results[1], ret.Block()) {
								good = false
								why = "an empty byte literal is used other than next to a non-nil error"
							}
						}
						break
					}
				}
				why = "a byte slice is cut by hand"
			default:
				why = fmt.Sprintf("%T", ins)
			}
			n++
			r.decide(good, "R14.json-provenance", name+":"+p.describe(ins), p.pos(ins.Pos()), "produced by encoding/json or a valid constant", "bytes that end up in the document are not produced by encoding/json: "+why)
		})
	}
	r.floor("byte-slice producers in the marshal functions", n, 12)
}

// errNonNilAt: the error value e is known non-nil in block b (a dominating e != nil test).
func errNonNilAt(e ssa.Value, b *ssa.BasicBlock) bool {
	for _, ef := range expandFacts(factsAt(b)) {
		bo, ok := ef.Cond.(*ssa.BinOp)
		if !ok || (bo.Op != token.NEQ && bo.Op != token.EQL) {
			continue
		}
		if (bo.X == e && isNilConst(bo.Y)) || (bo.Y == e && isNilConst(bo.X)) {
			if (bo.Op == token.NEQ) == ef.Truth {
				return true
			}
		}
	}
	return false
}

// ---------------------------------------------------------------------------

// andChain: the atoms of v when v is an && chain (phi of false constants and
// one continuing edge); ok is false when v has another shape.
func andChain(v ssa.Value) (atoms []ssa.Value, ok bool) {
	switch x := v.(type) {
	case *ssa.BinOp:
		return []ssa.Value{x}, true
	case *ssa.Call:
		return []ssa.Value{x}, true
	case *ssa.Phi:
		var rest ssa.Value
		var falsePreds []*ssa.BasicBlock
		for i, e := range x.Edges {
			if cb, isC := constBool(e); isC && !cb {
				falsePreds = append(falsePreds, x.Block().Preds[i])
				continue
			}
			if rest != nil {
				return nil, false
			}
			rest = e
		}
		if rest == nil {
			return nil, false
		}
		tail, ok := andChain(rest)
		if !ok {
			return nil, false
		}
		// every false edge is the false branch of an atom of the chain
		for _, pb := range falsePreds {
			ifi, isIf := pb.Instrs[len(pb.Instrs)-1].(*ssa.If)
			if !isIf || pb.Succs[1] != x.Block() {
				return nil, false
			}
			sub, ok := andChain(ifi.Cond)
			if !ok {
				return nil, false
			}
			atoms = append(atoms, sub...)
		}
		return append(atoms, tail...), true
	}
	return nil, false
}

// singleStore: the only value stored into the local variable (alloc) al.
func singleStore(al ssa.Value) ssa.Value {
	var val ssa.Value
	n := 0
	for _, ref := range referrers(al) {
		if st, ok := ref.(*ssa.Store); ok && st.Addr == al {
			val = st.Val
			n++
		}
	}
	if n == 1 {
		return val
	}
	return nil
}

func isGetIDOf(v ssa.Value, recv ssa.Value) bool {
	ta, ok := v.(*ssa.TypeAssert)
	if !ok {
		if ex, isEx := v.(*ssa.Extract); isEx && ex.Index == 0 {
			ta, ok = ex.Tuple.(*ssa.TypeAssert)
		}
		if !ok {
			return false
		}
	}
	c, _ := callOf(ta.X)
	if c == nil || !c.Common().IsInvoke() || c.Common().Method.Name() != "Get" || c.Common().Value != recv {
		return false
	}
	s, ok := constString(c.Common().Args[0])
	return ok && s == "id"
}

func isTypeNameOf(v ssa.Value, recv ssa.Value) bool {
	base, fl, ok := fieldLoad(v)
	if !ok || fl != "Name" {
		return false
	}
	isGT := func(x ssa.Value) bool {
		c, _ := callOf(x)
		return c != nil && c.Common().IsInvoke() && c.Common().Method.Name() == "GetType" && c.Common().Value == recv
	}
	if isGT(base) {
		return true
	}
	if al, ok := base.(*ssa.Alloc); ok {
		if sv := singleStore(al); sv != nil && isGT(sv) {
			return true
		}
	}
	return false
}

func checkC03Include(p *Prog, r *Report) {
	f := p.Fn("(*Document).Include")
	if f == nil {
		r.fail("anchor (*Document).Include not found")
		return
	}
	r.fn(funcName(f))
	d, res := f.Params[0], f.Params[1]
	// the append
	var appStore *ssa.Store
	nStores := 0
	eachInstr(f, func(ins ssa.Instruction) {
		st, ok := ins.(*ssa.Store)
		if !ok {
			return
		}
		fa, ok := st.Addr.(*ssa.FieldAddr)
		if !ok || fa.X != ssa.Value(d) {
			return
		}
		if _, fl := fieldRef(fa.X, fa.Field); fl != "Included" {
			return
		}
		nStores++
		if c, _ := callOf(st.Val); c != nil && builtinName(c.Common()) == "append" {
			if appStore != nil {
				r.bad("C03.include-guards", "Include:second-append:"+p.describe(st), p.pos(st.Pos()), "Included grows at more than one place")
			}
			appStore = st
			return
		}
		// any other store must be an empty slice
		good := false
		if sl, ok := st.Val.(*ssa.Slice); ok {
			if al, ok := sl.X.(*ssa.Alloc); ok {
				if at, ok := deref(al.Type()).Underlying().(*types.Array); ok && at.Len() == 0 {
					good = true
				}
			}
		}
		r.decide(good, "C03.include-guards", "Include:other-store:"+p.describe(st), p.pos(st.Pos()), "stores an empty list only", "Included is overwritten with something other than an empty list")
	})
	if appStore == nil {
		r.bad("C03.include-guards", "Include:append", p.pos(f.Pos()), "no append to d.Included found")
		return
	}
	{
		c, _ := callOf(appStore.Val)
		good, why := true, ""
		if _, fl, ok := fieldLoad(c.Common().Args[0]); !ok || fl != "Included" {
			good, why = false, "the list appended to is not d.Included"
		}
		// the variadic part: one element, res
		if sl, ok := c.Common().Args[1].(*ssa.Slice); ok {
			al, _ := sl.X.(*ssa.Alloc)
			cnt, isRes := 0, true
			if al != nil {
				for _, ref := range referrers(al) {
					if ia, ok := ref.(*ssa.IndexAddr); ok {
						for _, r2 := range referrers(ia) {
							if st, ok := r2.(*ssa.Store); ok {
								cnt++
								if st.Val != ssa.Value(res) {
									isRes = false
								}
							}
						}
					}
				}
			}
			if cnt != 1 || !isRes {
				good, why = false, "what is appended is not exactly res"
			}
		} else {
			good, why = false, "what is appended is not exactly res"
		}
		r.decide(good, "C03.include-guards", "Include:append-shape", p.pos(appStore.Pos()), "d.Included = append(d.Included, res)", why)
	}

	// the predicate: a closure over the new resource's id and type name, or a
	// named function of the package that receives them as arguments
	var pred *ssa.MakeClosure
	var predFn *ssa.Function
	eachInstr(f, func(ins ssa.Instruction) {
		if mc, ok := ins.(*ssa.MakeClosure); ok {
			pred = mc
		}
	})
	if pred == nil {
		counts := map[*ssa.Function]int{}
		eachInstr(f, func(ins ssa.Instruction) {
			c, ok := ins.(*ssa.Call)
			if !ok {
				return
			}
			g := c.Common().StaticCallee()
			if g == nil || !p.inTarget(g) || g.Signature.Results().Len() != 1 || len(g.Params) < 2 {
				return
			}
			if bt, ok := g.Signature.Results().At(0).Type().Underlying().(*types.Basic); !ok || bt.Kind() != types.Bool {
				return
			}
			nRes := 0
			for _, q := range g.Params {
				if fmtTypeString(q.Type()) == "jsonapi.Resource" {
					nRes++
				}
			}
			if nRes != 1 {
				return
			}
			counts[g]++
		})
		for g, n := range counts {
			if predFn == nil || n > counts[predFn] {
				predFn = g
			}
		}
	}
	isSameCall := func(v ssa.Value) (*ssa.Call, bool) {
		c, ok := v.(*ssa.Call)
		if !ok {
			return nil, false
		}
		if pred != nil && c.Common().Value == ssa.Value(pred) {
			return c, true
		}
		if predFn != nil && c.Common().StaticCallee() == predFn {
			return c, true
		}
		return nil, false
	}
	if pred == nil && predFn == nil {
		r.bad("C03.include-predicate", "Include:predicate", p.pos(f.Pos()), "no identity predicate (closure or function of a Resource returning bool) found in Include")
		return
	}
	var pf *ssa.Function
	if pred != nil {
		pf = pred.Fn.(*ssa.Function)
	} else {
		pf = predFn
	}
	r.fn(funcName(pf))
	// the candidate resource: the predicate's parameter of type Resource
	cand := pf.Params[0]
	for _, q := range pf.Params {
		if fmtTypeString(q.Type()) == "jsonapi.Resource" {
			cand = q
		}
	}
	{
		good, why := true, ""
		var retv ssa.Value
		nret := 0
		for _, b := range pf.Blocks {
			if ret, ok := b.Instrs[len(b.Instrs)-1].(*ssa.Return); ok {
				nret++
				retv = ret.Results[0]
			}
		}
		atoms, ok := andChain(retv)
		if nret != 1 || !ok {
			good, why = false, "the predicate is not a conjunction of comparisons"
		} else {
			// resolve free variables to what Include stored in them
			resolve := func(v ssa.Value) (kind string) {
				if isGetIDOf(v, cand) {
					return "cand.id"
				}
				if isTypeNameOf(v, cand) {
					return "cand.type"
				}
				// a field of a key struct passed by value (receiver or argument):
				// what Include stored in that field of the literal it passes. The
				// struct parameter may be read directly or through its spilled copy.
				var keyPrm *ssa.Parameter
				keyField := -1
				if fld, ok := v.(*ssa.Field); ok {
					if q, ok := fld.X.(*ssa.Parameter); ok {
						keyPrm, keyField = q, fld.Field
					}
				}
				if ld, ok := v.(*ssa.UnOp); ok && ld.Op == token.MUL {
					if fa, ok := ld.X.(*ssa.FieldAddr); ok {
						if al, ok := fa.X.(*ssa.Alloc); ok {
							if q, ok := singleStore(al).(*ssa.Parameter); ok {
								keyPrm, keyField = q, fa.Field
							}
						}
					}
				}
				if keyPrm != nil && pred == nil {
					fld := struct{ Field int }{keyField}
					if prm := keyPrm; true {
						idx := -1
						for i, q := range pf.Params {
							if q == prm {
								idx = i
							}
						}
						kind := ""
						eachInstr(f, func(ins ssa.Instruction) {
							c, ok := ins.(*ssa.Call)
							if !ok || c.Common().StaticCallee() != pf || idx < 0 || idx >= len(c.Common().Args) {
								return
							}
							k := "?"
							if ld, ok := c.Common().Args[idx].(*ssa.UnOp); ok && ld.Op == token.MUL {
								if al, ok := ld.X.(*ssa.Alloc); ok {
									var sv ssa.Value
									ns := 0
									for _, ref := range referrers(al) {
										if fa, ok := ref.(*ssa.FieldAddr); ok && fa.Field == fld.Field {
											for _, r2 := range referrers(fa) {
												if st, ok := r2.(*ssa.Store); ok {
													sv = st.Val
													ns++
												}
											}
										}
										if st, ok := ref.(*ssa.Store); ok && st.Addr == ssa.Value(al) {
											ns += 2 // overwritten as a whole
										}
									}
									if ns == 1 {
										if isGetIDOf(sv, res) {
											k = "res.id"
										} else if isTypeNameOf(sv, res) {
											k = "res.type"
										}
									}
								}
							}
							if kind == "" {
								kind = k
							} else if kind != k {
								kind = "?"
							}
						})
						if kind != "" {
							return kind
						}
						return "?"
					}
				}
				if prm, ok := v.(*ssa.Parameter); ok && pred == nil {
					// what every call in Include passes for this parameter
					idx := -1
					for i, q := range pf.Params {
						if q == prm {
							idx = i
						}
					}
					kind := ""
					eachInstr(f, func(ins ssa.Instruction) {
						c, ok := ins.(*ssa.Call)
						if !ok || c.Common().StaticCallee() != pf || idx < 0 || idx >= len(c.Common().Args) {
							return
						}
						k := "?"
						if isGetIDOf(c.Common().Args[idx], res) {
							k = "res.id"
						} else if isTypeNameOf(c.Common().Args[idx], res) {
							k = "res.type"
						}
						if kind == "" {
							kind = k
						} else if kind != k {
							kind = "?"
						}
					})
					if kind != "" {
						return kind
					}
					return "?"
				}
				if ld, ok := v.(*ssa.UnOp); ok && ld.Op == token.MUL {
					if fv, ok := ld.X.(*ssa.FreeVar); ok && pred != nil {
						for i, x := range pf.FreeVars {
							if x == fv {
								sv := singleStore(pred.Bindings[i])
								if sv == nil {
									return "?"
								}
								if isGetIDOf(sv, res) {
									return "res.id"
								}
								if isTypeNameOf(sv, res) {
									return "res.type"
								}
							}
						}
					}
				}
				return "?"
			}
			seen := map[string]bool{}
			for _, a := range atoms {
				bo, ok := a.(*ssa.BinOp)
				if !ok || bo.Op != token.EQL {
					good, why = false, "the predicate depends on something other than the equality of id and of type name: "+p.describe(a.(ssa.Instruction))
					continue
				}
				ks := []string{resolve(bo.X), resolve(bo.Y)}
				sort.Strings(ks)
				k := strings.Join(ks, "=")
				switch k {
				case "cand.id=res.id", "cand.type=res.type":
					seen[k] = true
				default:
					good, why = false, "the predicate compares "+k
				}
			}
			if good && len(seen) != 2 {
				good, why = false, "the predicate does not compare both id and type name"
			}
		}
		r.decide(good, "C03.include-predicate", "Include:predicate", p.pos(pf.Pos()), "same id and same type name, nothing else", why)
	}

	target := appStore.Block()
	sameFalse := func(cond ssa.Value, truth bool, isArg func(ssa.Value) bool) bool {
		if truth {
			return false
		}
		c, ok := isSameCall(cond)
		return ok && isArg(candidateArg(c))
	}
	// loads of d.Data asserted to a given interface
	assertOfData := func(v ssa.Value, iface string) (*ssa.TypeAssert, bool) {
		ex, ok := v.(*ssa.Extract)
		if !ok {
			return nil, false
		}
		ta, ok := ex.Tuple.(*ssa.TypeAssert)
		if !ok || !ta.CommaOk || fmtTypeString(ta.AssertedType) != "jsonapi."+iface {
			return nil, false
		}
		base, fl, ok := fieldLoad(ta.X)
		if !ok || fl != "Data" || base != ssa.Value(d) {
			return nil, false
		}
		return ta, true
	}
	okOf := func(cond ssa.Value, iface string) bool {
		ex, ok := cond.(*ssa.Extract)
		if !ok || ex.Index != 1 {
			return false
		}
		_, ok = assertOfData(cond, iface)
		return ok
	}
	valOf := func(v ssa.Value, iface string) bool {
		ex, ok := v.(*ssa.Extract)
		if !ok || ex.Index != 0 {
			return false
		}
		_, ok = assertOfData(v, iface)
		return ok
	}

	// the scan of the primary data may live in a helper h(data, predicate) bool
	// that answers true only after a match and false only after having compared
	// the primary resource / every element of the primary collection
	viaScanHelper := func(cond ssa.Value, truth bool) bool {
		if truth {
			return false
		}
		hc, ok := cond.(*ssa.Call)
		if !ok {
			return false
		}
		h := hc.Common().StaticCallee()
		if h == nil || !smallHelper(h) {
			return false
		}
		di, pi, ok := dataScanHelper(p, h)
		if !ok || di >= len(hc.Common().Args) || pi >= len(hc.Common().Args) {
			return false
		}
		base, fl, ok := fieldLoad(hc.Common().Args[di])
		return ok && fl == "Data" && base == ssa.Value(d) && pred != nil && hc.Common().Args[pi] == ssa.Value(pred)
	}
	// (a) primary resource
	ga := mustPassEdge(f, target, func(cond ssa.Value, truth bool) bool {
		if okOf(cond, "Resource") && !truth {
			return true
		}
		if viaScanHelper(cond, truth) {
			return true
		}
		return sameFalse(cond, truth, func(a ssa.Value) bool { return valOf(a, "Resource") })
	})
	r.decide(ga, "C03.include-guards", "Include:primary-resource", p.pos(appStore.Pos()), "compared with the primary resource before appending", "a resource can be included although it is the document's primary resource (or the comparison is skipped on some path)")

	// loops
	type loopInfo struct {
		header *ssa.BasicBlock
		exitOK bool
		kind   string // "collection" / "included"
	}
	var loops []loopInfo
	for _, b := range f.Blocks {
		ifi, ok := b.Instrs[len(b.Instrs)-1].(*ssa.If)
		if !ok {
			continue
		}
		bo, ok := ifi.Cond.(*ssa.BinOp)
		if !ok || bo.Op != token.LSS {
			continue
		}
		loop := naturalLoop(b)
		if len(loop) < 2 {
			continue
		}
		// induction variable: phi [init, phi+1] compared with the length
		idx := bo.X
		start, step := inductionOf(idx, loop)
		kind := ""
		var elemOK func(ssa.Value) bool
		if c, _ := callOf(bo.Y); c != nil && c.Common().IsInvoke() && c.Common().Method.Name() == "Len" && valOf(c.Common().Value, "Collection") {
			kind = "collection"
			col := c.Common().Value
			elemOK = func(a ssa.Value) bool {
				ac, _ := callOf(a)
				return ac != nil && ac.Common().IsInvoke() && ac.Common().Method.Name() == "At" && ac.Common().Value == col && ac.Common().Args[0] == idx
			}
		} else if c, _ := callOf(bo.Y); c != nil && builtinName(c.Common()) == "len" {
			if _, fl, ok := fieldLoad(c.Common().Args[0]); ok && fl == "Included" {
				kind = "included"
				list := c.Common().Args[0]
				elemOK = func(a ssa.Value) bool {
					ld, ok := a.(*ssa.UnOp)
					if !ok || ld.Op != token.MUL {
						return false
					}
					ia, ok := ld.X.(*ssa.IndexAddr)
					return ok && ia.X == list && ia.Index == idx
				}
			}
		}
		if kind == "" {
			continue
		}
		good, why := true, ""
		if !(start == 0 && step == 1) {
			good, why = false, fmt.Sprintf("the index does not run 0,1,2,… (start %d, step %d)", start, step)
		}
		// exits: only the header (exhaustion) or a return right after a match
		for x := range loop {
			for _, s := range x.Succs {
				if loop[s] || x == b {
					continue
				}
				xi, isIf := x.Instrs[len(x.Instrs)-1].(*ssa.If)
				_, isRet := s.Instrs[len(s.Instrs)-1].(*ssa.Return)
				matched := false
				if isIf && x.Succs[0] == s {
					if c, ok := isSameCall(xi.Cond); ok && elemOK(candidateArg(c)) {
						matched = true
					}
				}
				if !(matched && isRet && len(s.Instrs) == 1) {
					good, why = false, "the loop is left other than by exhaustion or by returning after a match"
				}
			}
		}
		// every trip round the loop compares the current element
		if good {
			body := b.Succs[0]
			if !mustPassEdgeFrom(body, b, func(cond ssa.Value, truth bool) bool { return sameFalse(cond, truth, elemOK) }) {
				good, why = false, "an element can be passed over without being compared"
			}
		}
		r.decide(good, "C03.include-guards", "Include:loop:"+kind, p.pos(ifi.Pos()), "visits and compares every element", why)
		loops = append(loops, loopInfo{b, good, kind})
	}
	exhausted := func(kind string) func(cond ssa.Value, truth bool) bool {
		return func(cond ssa.Value, truth bool) bool {
			if truth {
				return false
			}
			for _, l := range loops {
				if l.kind == kind && l.exitOK {
					if ifi := l.header.Instrs[len(l.header.Instrs)-1].(*ssa.If); ifi.Cond == cond {
						return true
					}
				}
			}
			return false
		}
	}
	// (b) primary collection: Data not a Collection, or Data a Resource (tested first), or the loop exhausted
	gb := mustPassEdge(f, target, func(cond ssa.Value, truth bool) bool {
		if okOf(cond, "Collection") && !truth {
			return true
		}
		if okOf(cond, "Resource") && truth {
			return true
		}
		if viaScanHelper(cond, truth) {
			return true
		}
		return exhausted("collection")(cond, truth)
	})
	r.decide(gb, "C03.include-guards", "Include:primary-collection", p.pos(appStore.Pos()), "every element of a primary collection (of any implementation) compared before appending", "a resource can be included although it is an element of the primary collection: the traversal is skipped on some path (for instance for collections without a type)")
	// (c) included
	gc := mustPassEdge(f, target, exhausted("included"))
	r.decide(gc, "C03.include-guards", "Include:already-included", p.pos(appStore.Pos()), "every already included resource compared before appending", "a resource can be included twice")
	r.floor("traversal loops in Include", len(loops), 1)
}

// dataScanHelper: h(…data any…, …match func(Resource) bool…) bool answers
// whether the primary data is, or contains, a resource for which match holds:
// it returns true only right after match answered true, hands on match's own
// answer for a primary Resource, and returns the constant false only when data
// is no Resource and either no Collection or a Collection all of whose
// elements At(0..Len()-1) were passed to match. Returns the parameter indices.
func dataScanHelper(p *Prog, h *ssa.Function) (dataIdx, predIdx int, ok bool) {
	dataIdx, predIdx = -1, -1
	for i, prm := range h.Params {
		switch t := prm.Type().Underlying().(type) {
		case *types.Interface:
			if t.NumMethods() == 0 && dataIdx < 0 {
				dataIdx = i
			}
		case *types.Signature:
			if predIdx < 0 {
				predIdx = i
			}
		}
	}
	if dataIdx < 0 || predIdx < 0 || h.Signature.Results().Len() != 1 {
		return 0, 0, false
	}
	data, pred := h.Params[dataIdx], h.Params[predIdx]
	isPredCall := func(v ssa.Value) (*ssa.Call, bool) {
		c, ok := v.(*ssa.Call)
		if !ok || c.Common().Value != ssa.Value(pred) {
			return nil, false
		}
		return c, true
	}
	assertOf := func(v ssa.Value, iface string, idx int) bool {
		ex, ok := v.(*ssa.Extract)
		if !ok || ex.Index != idx {
			return false
		}
		ta, ok := ex.Tuple.(*ssa.TypeAssert)
		return ok && ta.CommaOk && ta.X == ssa.Value(data) && fmtTypeString(ta.AssertedType) == "jsonapi."+iface
	}
	// the collection loop
	var collHeader *ssa.BasicBlock
	collOK := false
	for _, b := range h.Blocks {
		ifi, isIf := b.Instrs[len(b.Instrs)-1].(*ssa.If)
		if !isIf {
			continue
		}
		bo, isB := ifi.Cond.(*ssa.BinOp)
		if !isB || bo.Op != token.LSS {
			continue
		}
		loop := naturalLoop(b)
		if loop == nil {
			continue
		}
		c, _ := callOf(bo.Y)
		if c == nil || !c.Common().IsInvoke() || c.Common().Method.Name() != "Len" || !assertOf(c.Common().Value, "Collection", 0) {
			continue
		}
		col, idx := c.Common().Value, bo.X
		elemOK := func(a ssa.Value) bool {
			ac, _ := callOf(a)
			return ac != nil && ac.Common().IsInvoke() && ac.Common().Method.Name() == "At" && ac.Common().Value == col && ac.Common().Args[0] == idx
		}
		good := true
		if st, sp := inductionOf(idx, loop); st != 0 || sp != 1 {
			good = false
		}
		for x := range loop {
			for _, s2 := range x.Succs {
				if loop[s2] || x == b {
					continue
				}
				xi, isIf2 := x.Instrs[len(x.Instrs)-1].(*ssa.If)
				ret, isRet := s2.Instrs[len(s2.Instrs)-1].(*ssa.Return)
				matched := false
				if isIf2 && x.Succs[0] == s2 {
					if pc, ok := isPredCall(xi.Cond); ok && elemOK(candidateArg(pc)) {
						matched = true
					}
				}
				retTrue := false
				if isRet && len(s2.Instrs) == 1 {
					if cb, isC := constBool(ret.Results[0]); isC && cb {
						retTrue = true
					}
				}
				if !(matched && retTrue) {
					good = false
				}
			}
		}
		if good {
			body := b.Succs[0]
			if !mustPassEdgeFrom(body, b, func(cond ssa.Value, truth bool) bool {
				if truth {
					return false
				}
				pc, ok := isPredCall(cond)
				return ok && elemOK(candidateArg(pc))
			}) {
				good = false
			}
		}
		collHeader, collOK = b, good
	}
	n := 0
	for _, b := range h.Blocks {
		ret, isRet := b.Instrs[len(b.Instrs)-1].(*ssa.Return)
		if !isRet {
			continue
		}
		n++
		v := ret.Results[0]
		if cb, isC := constBool(v); isC {
			if cb {
				// true only after a match: decided with the loop exits above, or
				// directly behind a predicate call
				behind := mustPassEdge(h, b, func(cond ssa.Value, truth bool) bool {
					_, ok := isPredCall(cond)
					return ok && truth
				})
				if !behind {
					return 0, 0, false
				}
				continue
			}
			// constant false: data is no Resource, and no Collection or the loop was exhausted
			notRes := mustPassEdge(h, b, func(cond ssa.Value, truth bool) bool {
				if assertOf(cond, "Resource", 1) && !truth {
					return true
				}
				if pc, ok := isPredCall(cond); ok && !truth && assertOf(candidateArg(pc), "Resource", 0) {
					return true
				}
				return false
			})
			collDone := mustPassEdge(h, b, func(cond ssa.Value, truth bool) bool {
				if assertOf(cond, "Collection", 1) && !truth {
					return true
				}
				if assertOf(cond, "Resource", 1) && truth {
					return true
				}
				if collOK && collHeader != nil && !truth {
					if ifi := collHeader.Instrs[len(collHeader.Instrs)-1].(*ssa.If); ifi.Cond == cond {
						return true
					}
				}
				return false
			})
			if !notRes || !collDone {
				return 0, 0, false
			}
			continue
		}
		// match's own answer for the primary resource
		pc, ok := isPredCall(v)
		if !ok || !assertOf(candidateArg(pc), "Resource", 0) {
			return 0, 0, false
		}
	}
	return dataIdx, predIdx, n > 0
}

// inductionOf: idx is phi [c, idx+k] of the loop (or phi+k for the rotated
// range form, in which case start is c+k).
func inductionOf(idx ssa.Value, loop map[*ssa.BasicBlock]bool) (start, step int64) {
	start, step = -999, -999
	add := int64(0)
	if bo, ok := idx.(*ssa.BinOp); ok && bo.Op == token.ADD {
		if k, ok := constInt(bo.Y); ok {
			if phi, ok := bo.X.(*ssa.Phi); ok {
				// rotated: t = phi[-1, t]; t+1
				var init int64 = -999
				okBack := true
				for i, e := range phi.Edges {
					if loop[phi.Block().Preds[i]] {
						if e != idx {
							okBack = false
						}
					} else if c, ok := constInt(e); ok {
						init = c
					} else {
						okBack = false
					}
				}
				if okBack && init != -999 {
					return init + k, k
				}
			}
		}
		return
	}
	phi, ok := idx.(*ssa.Phi)
	if !ok {
		return
	}
	for i, e := range phi.Edges {
		if loop[phi.Block().Preds[i]] {
			bo, ok := e.(*ssa.BinOp)
			if !ok || bo.Op != token.ADD || bo.X != idx {
				return -999, -999
			}
			k, ok := constInt(bo.Y)
			if !ok {
				return -999, -999
			}
			add = k
		} else if c, ok := constInt(e); ok {
			start = c
		} else {
			return -999, -999
		}
	}
	_ = constant.MakeBool
	return start, add
}

// isParamOrItsCopy: v is the parameter prm or a load of the local variable it
// was spilled to (a parameter captured by a closure lives in such a variable).
func isParamOrItsCopy(v ssa.Value, prm *ssa.Parameter) bool {
	if v == ssa.Value(prm) {
		return true
	}
	if ld, ok := v.(*ssa.UnOp); ok && ld.Op == token.MUL {
		if al, ok := ld.X.(*ssa.Alloc); ok {
			return singleStore(al) == ssa.Value(prm)
		}
	}
	return false
}

// candidateArg: the argument of a predicate call that is the resource under
// test: the one bound to the callee's parameter of type Resource (a method on
// a key struct takes the key first), the first argument otherwise.
func candidateArg(c *ssa.Call) ssa.Value {
	if g := c.Common().StaticCallee(); g != nil {
		for i, q := range g.Params {
			if fmtTypeString(q.Type()) == "jsonapi.Resource" && i < len(c.Common().Args) {
				return c.Common().Args[i]
			}
		}
	}
	return c.Common().Args[0]
}
