package main

// R11: deleting from a slice while iterating over it.
//
// A splice X = append(X[:a], X[b:]...) removes the elements [a, b) and moves
// every later element down. Inside a loop whose counter i determines a and b,
// the element that moved into position a is examined again only if the next
// value of the counter on the path that performed the splice is <= a (loops
// that count upwards), or the loop counts downwards (the moved elements were
// already examined), or control leaves the loop after the splice.

import (
	"fmt"
	"go/types"

	"golang.org/x/tools/go/ssa"
)

type spliceSite struct {
	call   *ssa.Call
	lo, hi ssa.Value // X[:lo] and X[hi:]
	base   ssa.Value
}

func findSplices(bf *boundsFn) []spliceSite {
	var out []spliceSite
	eachInstr(bf.fn, func(ins ssa.Instruction) {
		c, ok := ins.(*ssa.Call)
		if !ok {
			return
		}
		b, ok := c.Call.Value.(*ssa.Builtin)
		if !ok || b.Name() != "append" || len(c.Call.Args) != 2 {
			return
		}
		s0, ok0 := stripValue(c.Call.Args[0]).(*ssa.Slice)
		s1, ok1 := stripValue(c.Call.Args[1]).(*ssa.Slice)
		if !ok0 || !ok1 || s0.High == nil || s1.Low == nil || s1.High != nil {
			return
		}
		if s0.Low != nil {
			if c0, isC := constInt(s0.Low); !isC || c0 != 0 {
				return
			}
		}
		if bf.find(s0.X) != bf.find(s1.X) {
			return
		}
		out = append(out, spliceSite{call: c, lo: s0.High, hi: s1.Low, base: s0.X})
	})
	// the same removal spelt copy(X[i:], X[j:]) followed by X = X[:len(X)-(j-i)]
	eachInstr(bf.fn, func(ins ssa.Instruction) {
		c, ok := ins.(*ssa.Call)
		if !ok || builtinName(c.Common()) != "copy" || len(c.Call.Args) != 2 {
			return
		}
		s0, ok0 := stripValue(c.Call.Args[0]).(*ssa.Slice)
		s1, ok1 := stripValue(c.Call.Args[1]).(*ssa.Slice)
		if !ok0 || !ok1 || s0.Low == nil || s0.High != nil || s1.Low == nil || s1.High != nil {
			return
		}
		if bf.find(s0.X) != bf.find(s1.X) {
			return
		}
		la, lo := bf.atom(s0.Low)
		ha, ho := bf.atom(s1.Low)
		if la != ha || ho-lo < 1 {
			return
		}
		if truncationAfter(bf, c, s0.X, ho-lo) == nil {
			return
		}
		out = append(out, spliceSite{call: c, lo: s0.Low, hi: s1.Low, base: s0.X})
	})
	return out
}

// truncationAfter: later in the block of the copy, the list is resliced to
// X[:len(X)-k]; returns that slice instruction.
func truncationAfter(bf *boundsFn, cp *ssa.Call, base ssa.Value, k int64) *ssa.Slice {
	var found *ssa.Slice
	after := false
	for _, ins := range cp.Block().Instrs {
		if ins == ssa.Instruction(cp) {
			after = true
			continue
		}
		if !after {
			continue
		}
		sl, ok := ins.(*ssa.Slice)
		if !ok || sl.High == nil || sl.Low != nil && !isZeroConst(sl.Low) {
			continue
		}
		if bf.find(sl.X) != bf.find(base) {
			continue
		}
		ha, ho := bf.atom(sl.High)
		la, lo := bf.lenAtom(sl.X)
		if ha == la && ho == lo-k {
			found = sl
		}
	}
	return found
}

func isZeroConst(v ssa.Value) bool {
	c, ok := constInt(v)
	return ok && c == 0
}

// checkSpliceLoops applies R11 to every splice in f; returns the number found.
func checkSpliceLoops(p *Prog, r *Report, pc *panicChecker, f *ssa.Function) int {
	bf := pc.bf(f)
	sites := findSplices(bf)
	for _, s := range sites {
		key := funcName(f) + ":" + p.describe(s.call)
		ok, why := spliceSafe(bf, s)
		r.decide(ok, "R11.splice-loop", key, p.pos(s.call.Pos()), why, why)
	}
	return len(sites)
}

func spliceSafe(bf *boundsFn, s spliceSite) (bool, string) {
	la, lo := bf.atom(s.lo)
	ha, ho := bf.atom(s.hi)
	if la != ha || ho-lo < 1 {
		return false, fmt.Sprintf("not a removal of a fixed number of elements: X[:%s%+d] + X[%s%+d:]", la, lo, ha, ho)
	}
	// find loop headers with an integer phi whose atom is the splice's index atom
	var hdr *ssa.BasicBlock
	var ctr *ssa.Phi
	for b := s.call.Block(); b != nil; b = b.Idom() {
		for _, ins := range b.Instrs {
			phi, ok := ins.(*ssa.Phi)
			if !ok {
				break
			}
			if bt, ok := phi.Type().Underlying().(*types.Basic); !ok || bt.Info()&types.IsInteger == 0 {
				continue
			}
			pa, _ := bf.atom(phi)
			if pa == la && blockReaches(s.call.Block(), b, false) && b.Dominates(s.call.Block()) {
				if hdr == nil {
					hdr, ctr = b, phi
				}
			}
		}
		if hdr != nil {
			break
		}
	}
	if hdr == nil {
		// either not in a loop over this index, or control never returns to the loop
		if inLoopOverIndex(bf, s, la) {
			return true, "control leaves the loop right after the splice (return or break)"
		}
		return true, "the splice is not inside a loop whose counter selects the removed index"
	}
	// direction of the loop
	up, down := false, false
	pa, _ := bf.atom(ctr)
	for _, e := range ctr.Edges {
		a, o := bf.atom(e)
		if a == pa {
			if o > 0 {
				up = true
			}
			if o < 0 {
				down = true
			}
		}
	}
	// the counter may also be updated through phis (i-- before break): resolve per path
	nexts, complete := nextCounterValues(bf, s.call.Block(), hdr, ctr)
	if !complete {
		return false, "cannot determine the next value of the loop counter after the splice"
	}
	if len(nexts) == 0 {
		return true, "control leaves the loop right after the splice (return or break)"
	}
	for _, nv := range nexts {
		if nv.atom != la {
			return false, "after the splice the loop counter is not expressed in terms of the removed index"
		}
		if nv.off > lo {
			up = true
		}
		if nv.off < lo {
			// counter moved below the removal point
		}
	}
	if down && !up {
		return true, "the loop counts downwards: every element that moved down was examined before the splice"
	}
	for _, nv := range nexts {
		if nv.off > lo {
			return false, fmt.Sprintf("after removing the element at index i the loop continues with index i%+d: the element that moved into position i is never examined (and a loop that ranges over the old length runs past the end)", nv.off-lo)
		}
	}
	return true, "after the splice the loop re-examines the position the next element moved into"
}

func inLoopOverIndex(bf *boundsFn, s spliceSite, la string) bool {
	for b := s.call.Block(); b != nil; b = b.Idom() {
		for _, ins := range b.Instrs {
			if phi, ok := ins.(*ssa.Phi); ok {
				if pa, _ := bf.atom(phi); pa == la {
					return true
				}
			} else {
				break
			}
		}
	}
	return false
}

type nextVal struct {
	atom string
	off  int64
}

// nextCounterValues enumerates the paths from block `from` back to the loop
// header and returns the value the counter phi receives on each, resolving
// intermediate phis along the path.
func nextCounterValues(bf *boundsFn, from, hdr *ssa.BasicBlock, ctr *ssa.Phi) ([]nextVal, bool) {
	var out []nextVal
	complete := true
	seen := map[string]bool{}
	type frame struct {
		b    *ssa.BasicBlock
		path []*ssa.BasicBlock
	}
	var walk func(b *ssa.BasicBlock, path []*ssa.BasicBlock, depth int)
	walk = func(b *ssa.BasicBlock, path []*ssa.BasicBlock, depth int) {
		if depth > 40 {
			complete = false
			return
		}
		for _, succ := range b.Succs {
			np := append(append([]*ssa.BasicBlock{}, path...), succ)
			if succ == hdr {
				// value of ctr's edge from b, resolved along the path
				idx := -1
				for i, p := range hdr.Preds {
					if p == b {
						idx = i
					}
				}
				if idx < 0 {
					complete = false
					continue
				}
				a, o, ok := resolveAlong(bf, ctr.Edges[idx], path)
				if !ok {
					complete = false
					continue
				}
				k := fmt.Sprintf("%s%+d", a, o)
				if !seen[k] {
					seen[k] = true
					out = append(out, nextVal{a, o})
				}
				continue
			}
			// do not walk around other loops forever
			cyc := false
			for _, pb := range path {
				if pb == succ {
					cyc = true
				}
			}
			if cyc {
				continue
			}
			if !blockReaches(succ, hdr, true) {
				continue
			}
			walk(succ, np, depth+1)
		}
	}
	walk(from, []*ssa.BasicBlock{from}, 0)
	return out, complete
}

// resolveAlong normalises v to atom+offset, replacing phis that lie on the
// path by the value coming from the path's predecessor.
func resolveAlong(bf *boundsFn, v ssa.Value, path []*ssa.BasicBlock) (string, int64, bool) {
	off := int64(0)
	for i := 0; i < 20; i++ {
		switch x := v.(type) {
		case *ssa.BinOp:
			a, o := bf.atom(x)
			if a == "v:"+x.Name() {
				return a, off + o, true
			}
			// atom() folded a constant offset: find the inner operand
			if c, ok := constInt(x.Y); ok {
				if x.Op.String() == "+" {
					off += c
				} else if x.Op.String() == "-" {
					off -= c
				} else {
					return a, off + o, true
				}
				v = x.X
				continue
			}
			return a, off + o, true
		case *ssa.Phi:
			// is the phi's block on the path (not at position 0)? use the predecessor's edge
			pos := -1
			for j, pb := range path {
				if pb == x.Block() && j > 0 {
					pos = j
				}
			}
			if pos < 0 {
				a, o := bf.atom(x)
				return a, off + o, true
			}
			pred := path[pos-1]
			idx := -1
			for j, p := range x.Block().Preds {
				if p == pred {
					idx = j
				}
			}
			if idx < 0 {
				return "", 0, false
			}
			v = x.Edges[idx]
			continue
		default:
			a, o := bf.atom(v)
			return a, off + o, true
		}
	}
	return "", 0, false
}

// checkSpliceLoopsScope applies R11 to f and to the small unexported helpers
// it calls (a filtering phase may live in a helper).
func checkSpliceLoopsScope(p *Prog, r *Report, pc *panicChecker, f *ssa.Function) int {
	if f == nil {
		return 0
	}
	n := checkSpliceLoops(p, r, pc, f)
	for _, g := range stringHelpers(f) {
		n += checkSpliceLoops(p, r, pc, g)
	}
	return n
}
