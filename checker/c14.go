package main

import (
	"fmt"
	"go/token"
	"go/types"
	"strings"

	"golang.org/x/tools/go/ssa"
)

func init() { register("C14", checkC14) }

var e14 = []string{"(*Schema).AddType", "(*Schema).RemoveType", "(*Schema).AddAttr", "(*Schema).RemoveAttr",
	"(*Schema).AddRel", "(*Schema).RemoveRel", "(*Schema).AddTwoWayRel",
	"(*Type).AddAttr", "(*Type).RemoveAttr", "(*Type).AddRel", "(*Type).RemoveRel"}

func checkC14(p *Prog, r *Report) {
	r.rule("C14.two-way-lookups: in AddTwoWayRel each end's type is taken from the schema under that end's own name test and no other test inside the lookup loop")
	checkTwoWayLookupsIndependent(p, r)
	r.rule("C14.normalize.* (imported from C16): Rel.Normalize returns only the receiver or receiver.Invert(), and Invert is a field permutation that is its own inverse - so the pair AddTwoWayRel stores is the relationship it was given and its inverse")
	nImp := r.importRules(func(r2 *Report) { checkC16(p, r2) }, "C14.normalize", "C16.normalize-shape", "C16.involution", "C16.normalize-oneway")
	r.floor("imported Normalize/Invert obligations", nImp, 4)
	r.rule("C14.remove-scope: Type.RemoveAttr (helpers included) deletes from and stores into the map of Attr values only, Type.RemoveRel the map of Rel values only, and each deletes from its map")
	r.rule("C14.remove-splices-only: RemoveType, RemoveAttr and RemoveRel never overwrite an element of Schema.Types: a type leaves the list only through the splice")
	for _, name := range []string{"(*Schema).RemoveType", "(*Schema).RemoveAttr", "(*Schema).RemoveRel"} {
		g := p.Fn(name)
		if g == nil {
			r.fail("anchor %s not found", name)
			continue
		}
		bad := ""
		eachInstr(g, func(ins ssa.Instruction) {
			st, ok := ins.(*ssa.Store)
			if !ok {
				return
			}
			if ia, ok := st.Addr.(*ssa.IndexAddr); ok {
				if _, fl, ok := fieldLoad(ia.X); ok && fl == "Types" {
					bad = p.describe(st) + " (" + p.pos(st.Pos()) + ")"
				}
			}
		})
		r.decide(bad == "", "C14.remove-splices-only", name+":no-element-overwrite", p.pos(g.Pos()), "no element of Types is overwritten", name+" overwrites an element of Schema.Types ("+bad+"): a type other than the one being removed can be lost or emptied")
	}
	r.rule("C14.type-lookup: Schema.GetType / HasType find a type by one exact equality test between a type's Name and the requested name and call nothing else (the comparison AddType uses to keep names unique)")
	checkTypeLookup(p, r, "C14")
	r.rule(r3RuleText)
	r.rule("R11 splice loops (RemoveType): after removing element i the loop must leave or re-examine position i")
	r.rule("R12 all-or-nothing: on every CFG path of an error-returning edit method to a return that may carry a non-nil error, no instruction has written pre-existing memory (writes from the mod analysis; calls to callees that are themselves all-or-nothing are handled path-sensitively on their error result)")
	r.rule("C14.validate: the single state change of AddType / Type.AddAttr / Type.AddRel is preceded on every path by the non-empty-name test, the kind / target-type test, and the exit of a duplicate scan that ranges over the whole collection, compares names, returns an error on a match and has no other exit")
	r.rule("C14.key-is-name: the map key under which an attribute / relationship is stored is the Name / FromName field of the stored value")
	r.rule("C14.remove-exact: a removal deletes exactly the element whose name was tested (splice index = tested index, delete key = tested name), and only inside the match branch")
	r.rule("R4a: errors of the delegated edits are returned, not dropped")
	r.assume("non-nil receivers")
	r.notCovered("equivalence with a reference model over arbitrary edit histories; that AddTwoWayRel's two relationships are each other's inverse as values (C16 decides Invert)")

	pc := runR3(p, r, r3opts{entries: e14, floorSites: 25, floorFns: 11})

	var roots []*ssa.Function
	for _, e := range e14 {
		f := p.Fn(e)
		if f == nil {
			r.fail("anchor %s not found", e)
			continue
		}
		roots = append(roots, f)
	}
	// R11
	n := 0
	for _, f := range roots {
		n += checkSpliceLoopsScope(p, r, pc, f)
	}
	r.count("splices in schema edits", n)

	// R12
	h := newHeap(p)
	ac := &atomicChecker{p: p, h: h, atomic: map[*ssa.Function]bool{}}
	var errFns []*ssa.Function
	for _, f := range roots {
		res := f.Signature.Results()
		if res != nil && res.Len() == 1 && isErrorType(res.At(0).Type()) {
			errFns = append(errFns, f)
			ac.atomic[f] = true // assumed while checking; each is checked itself
		}
	}
	if sc := p.Fn("(*SoftCollection).AddAttr"); sc != nil {
		errFns = append(errFns, sc)
		ac.atomic[sc] = true
	}
	if sc := p.Fn("(*SoftCollection).AddRel"); sc != nil {
		errFns = append(errFns, sc)
		ac.atomic[sc] = true
	}
	for _, f := range errFns {
		viol := ac.check(f)
		// the method must write at all (positive control: otherwise the rule is vacuous)
		writes := 0
		eachInstr(f, func(ins ssa.Instruction) {
			if w, _ := ac.writesExternal(f, ins); w {
				writes++
			}
		})
		if writes == 0 {
			r.fail("R12 is vacuous for %s: the mod analysis sees no write to pre-existing memory in it", funcName(f))
		}
		if len(viol) == 0 {
			r.ok("R12.atomic-edit", funcName(f), p.pos(f.Pos()), "no path writes before returning an error")
		}
		for _, v := range viol {
			r.bad("R12.atomic-edit", funcName(f)+":"+p.describe(v.ret), p.pos(v.ret.Pos()),
				"an error can be returned after the schema was already changed: "+v.why+" at "+p.pos(v.write.Pos())+" precedes this return on some path")
		}
	}
	r.floor("error-returning edit methods", len(errFns), 7)

	// R4a
	checkErrDrops(p, r, roots, []errException{
		{"(*Schema).AddTwoWayRel", "(*Type).AddRel", "both relationships were just accepted by AddRel on copies of the same types (checked by C14.tried-first)"},
	})
	checkTriedFirst(p, r)

	checkTwoWayApplies(p, r, h)
	checkValidateBeforeWrite(p, r)
	checkKeyIsName(p, r)
	checkRemoveExact(p, r, pc)
}

// checkTriedFirst: in AddTwoWayRel, every AddRel whose error is discarded is
// dominated by an AddRel with the same relationship argument whose error is
// tested and returned (the try on a copy).
func checkTriedFirst(p *Prog, r *Report) {
	f := p.Fn("(*Schema).AddTwoWayRel")
	if f == nil {
		return
	}
	var calls []*ssa.Call
	eachInstr(f, func(ins ssa.Instruction) {
		if c, ok := ins.(*ssa.Call); ok {
			if sc := c.Common().StaticCallee(); sc != nil && funcName(sc) == "(*Type).AddRel" {
				calls = append(calls, c)
			}
		}
	})
	relArg := func(c *ssa.Call) ssa.Value {
		a := c.Common().Args[1]
		if ld, ok := a.(*ssa.UnOp); ok {
			return ld.X
		}
		return a
	}
	for _, c := range calls {
		if errUsed(c, map[ssa.Value]bool{}) {
			continue
		}
		ok := mustPassInstr(f, c, func(ins ssa.Instruction) bool {
			d, isCall := ins.(*ssa.Call)
			if !isCall || d == c {
				return false
			}
			for _, x := range calls {
				if x == d && errUsed(d, map[ssa.Value]bool{}) && relArg(d) == relArg(c) {
					return true
				}
			}
			return false
		})
		r.decide(ok, "C14.tried-first", "AddTwoWayRel:"+p.describe(c), p.pos(c.Pos()),
			"the same relationship was accepted by a checked AddRel on every path to this call",
			"an AddRel whose error is discarded is not preceded by a checked AddRel of the same relationship")
	}
}

// nameField: v reads field `field` of struct value/pointer base.
func readsField(v ssa.Value, names ...string) (ssa.Value, string, bool) {
	base, f, ok := fieldLoad(v)
	if !ok {
		return nil, "", false
	}
	for _, n := range names {
		if f == n {
			return base, f, true
		}
	}
	return nil, "", false
}

// checkValidateBeforeWrite implements C14.validate.
func checkValidateBeforeWrite(p *Prog, r *Report) {
	type spec struct {
		fn        string
		nameField string
		extra     string // "kind" | "target" | ""
	}
	for _, sp := range []spec{{"(*Schema).AddType", "Name", ""}, {"(*Type).AddAttr", "Name", "kind"}, {"(*Type).AddRel", "FromName", "target"}} {
		f := p.Fn(sp.fn)
		if f == nil {
			r.fail("anchor %s not found", sp.fn)
			continue
		}
		newElem := f.Params[1]
		// the state change: MapUpdate or a Store of an append
		var writes []ssa.Instruction
		eachInstr(f, func(ins ssa.Instruction) {
			switch x := ins.(type) {
			case *ssa.MapUpdate:
				writes = append(writes, x)
			case *ssa.Store:
				if c, ok := x.Val.(*ssa.Call); ok {
					if b, ok := c.Call.Value.(*ssa.Builtin); ok && b.Name() == "append" {
						writes = append(writes, x)
					}
				}
			}
		})
		if len(writes) == 0 {
			r.fail("%s: no state change found", sp.fn)
			continue
		}
		for _, w := range writes {
			key := sp.fn + ":" + p.describe(w)
			// (a) non-empty name
			nameTest := func(ef edgeFact, isNew func(ssa.Value) bool) bool {
				if bo, ok := ef.Cond.(*ssa.BinOp); ok && (bo.Op == token.EQL || bo.Op == token.NEQ) {
					for _, pr := range [][2]ssa.Value{{bo.X, bo.Y}, {bo.Y, bo.X}} {
						if s, ok := constString(pr[1]); ok && s == "" && (bo.Op == token.NEQ) == ef.Truth {
							if base, _, ok := readsField(pr[0], sp.nameField); ok && isNew(base) {
								return true
							}
						}
					}
				}
				return false
			}
			isNewHere := func(base ssa.Value) bool { return base == ssa.Value(newElem) || isSpillOf(base, newElem) }
			okName := mustPassEdge(f, w.Block(), func(cond ssa.Value, truth bool) bool {
				for _, ef := range expandFacts([]edgeFact{{Cond: cond, Truth: truth}}) {
					if nameTest(ef, isNewHere) {
						return true
					}
					// the tests may live in a validation helper whose error was found nil
					for _, vf := range validatorFacts(ef, newElem) {
						if nameTest(vf.fact, vf.isNew) {
							return true
						}
					}
				}
				return false
			})
			r.decide(okName, "C14.validate", key+":name-non-empty", p.pos(w.Pos()), "behind the non-empty-name test", "the element is stored without testing that its name is not empty")
			// (b) kind / target
			switch sp.extra {
			case "kind":
				kindTest := func(ef edgeFact) bool {
					if bo, ok := ef.Cond.(*ssa.BinOp); ok && (bo.Op == token.EQL || bo.Op == token.NEQ) {
						for _, pr := range [][2]ssa.Value{{bo.X, bo.Y}, {bo.Y, bo.X}} {
							if s, ok := constString(pr[1]); ok && s == "" && (bo.Op == token.NEQ) == ef.Truth {
								if c, _ := callOf(pr[0]); c != nil {
									if sc := c.Common().StaticCallee(); sc != nil && sc.Name() == "GetAttrTypeString" {
										return true
									}
								}
							}
						}
					}
					return false
				}
				ok := mustPassEdge(f, w.Block(), func(cond ssa.Value, truth bool) bool {
					for _, ef := range expandFacts([]edgeFact{{Cond: cond, Truth: truth}}) {
						if kindTest(ef) {
							return true
						}
						for _, vf := range validatorFacts(ef, newElem) {
							if kindTest(vf.fact) {
								return true
							}
						}
					}
					return false
				})
				r.decide(ok, "C14.validate", key+":kind-valid", p.pos(w.Pos()), "behind the kind-validity test (GetAttrTypeString(kind) != \"\")", "an attribute is stored without testing that its kind is valid")
			case "target":
				ok := mustPassEdge(f, w.Block(), func(cond ssa.Value, truth bool) bool {
					for _, ef := range expandFacts([]edgeFact{{Cond: cond, Truth: truth}}) {
						if bo, ok := ef.Cond.(*ssa.BinOp); ok && (bo.Op == token.EQL || bo.Op == token.NEQ) {
							for _, pr := range [][2]ssa.Value{{bo.X, bo.Y}, {bo.Y, bo.X}} {
								if s, ok := constString(pr[1]); ok && s == "" && (bo.Op == token.NEQ) == ef.Truth {
									if base, _, ok := readsField(pr[0], "ToType"); ok && (base == ssa.Value(newElem) || isSpillOf(base, newElem)) {
										return true
									}
								}
							}
						}
					}
					return false
				})
				r.decide(ok, "C14.validate", key+":target-non-empty", p.pos(w.Pos()), "behind the non-empty-target-type test", "a relationship is stored without testing that its target type is not empty")
			}
			// (c) duplicate scan
			ok, why := dupScanBefore(f, w, newElem, sp.nameField)
			r.decide(ok, "C14.validate", key+":duplicate-scan", p.pos(w.Pos()), why, "the element is stored without a complete duplicate scan: "+why)
		}
	}
}

func isSpillOf(v ssa.Value, prm *ssa.Parameter) bool {
	return isParamOrSpill(v, prm)
}

// dupScanBefore: a loop that dominates the write, is finished before it,
// compares the name of each existing element with the new element's name,
// returns an error on equality and has no exit other than completion.
func dupScanBefore(f *ssa.Function, w ssa.Instruction, newElem *ssa.Parameter, nameField string) (bool, string) {
	// the first element of a collection found nil goes into a map made here:
	// there is nothing to scan
	if mu, ok := w.(*ssa.MapUpdate); ok {
		if mk, isMk := mu.Map.(*ssa.MakeMap); isMk && mk.Parent() == f {
			for _, ef := range expandFacts(factsAt(w.Block())) {
				bo, ok := ef.Cond.(*ssa.BinOp)
				if !ok {
					continue
				}
				op := bo.Op
				if !ef.Truth {
					op = negateCmp(op)
				}
				if op != token.EQL {
					continue
				}
				for _, pr := range [][2]ssa.Value{{bo.X, bo.Y}, {bo.Y, bo.X}} {
					if !isNilConst(pr[1]) {
						continue
					}
					if base, _, isFl := fieldLoad(pr[0]); isFl && len(f.Params) > 0 && base == ssa.Value(f.Params[0]) && types.Identical(pr[0].Type(), mk.Type()) {
						return true, "the collection was found nil: the element is the first one of a map made here"
					}
				}
			}
		}
	}
	for _, b := range f.Blocks {
		inLoop := naturalLoop(b)
		if inLoop == nil || !b.Dominates(w.Block()) {
			continue
		}
		if inLoop[w.Block()] {
			continue
		}
		// comparison inside the loop
		found := false
		for x := range inLoop {
			ifi, ok := x.Instrs[len(x.Instrs)-1].(*ssa.If)
			if !ok {
				continue
			}
			bo, ok := ifi.Cond.(*ssa.BinOp)
			if !ok || bo.Op != token.EQL {
				continue
			}
			for _, pr := range [][2]ssa.Value{{bo.X, bo.Y}, {bo.Y, bo.X}} {
				nb, _, ok1 := readsField(pr[0], nameField)
				_, _, ok2 := readsField(pr[1], nameField, "Name", "FromName")
				if ok1 && ok2 && (nb == ssa.Value(newElem) || isSpillOf(nb, newElem)) {
					// true edge must end in an error return without writes
					tb := x.Succs[0]
					if ret, ok := tb.Instrs[len(tb.Instrs)-1].(*ssa.Return); ok && len(ret.Results) == 1 && !isNilConst(ret.Results[0]) {
						found = true
					}
				}
			}
		}
		if !found {
			continue
		}
		// exits: every edge leaving the loop goes to an error return or is the header's own exit
		okExits := true
		for x := range inLoop {
			for _, s := range x.Succs {
				if inLoop[s] {
					continue
				}
				if x == b {
					continue // normal completion
				}
				if ret, ok := s.Instrs[len(s.Instrs)-1].(*ssa.Return); ok && len(ret.Results) == 1 && !isNilConst(ret.Results[0]) {
					continue
				}
				okExits = false
			}
		}
		if !okExits {
			return false, "the duplicate scan can be left early (break) without an error"
		}
		return true, "a complete duplicate scan with an error return on a name match precedes the write"
	}
	// the scan may live in a helper of the same receiver (HasType): the write is
	// reached only when it answered false for the new element's name
	viaHelper := mustPassEdge(f, w.Block(), func(cond ssa.Value, truth bool) bool {
		hc, ok := cond.(*ssa.Call)
		if !ok || truth {
			return false
		}
		sum := existsPredicate(hc.Common().StaticCallee())
		if sum == nil || sum.elemField == "" {
			return false
		}
		nb, _, ok1 := readsField(hc.Common().Args[sum.nameParam], nameField)
		return ok1 && (nb == ssa.Value(newElem) || isSpillOf(nb, newElem))
	})
	if viaHelper {
		return true, "a complete duplicate scan in a search helper, answered false, precedes the write"
	}
	return false, "no loop comparing existing names with the new name dominates the write"
}

// checkKeyIsName implements C14.key-is-name.
func checkKeyIsName(p *Prog, r *Report) {
	n := 0
	for _, name := range []string{"(*Type).AddAttr", "(*Type).AddRel"} {
		f := p.Fn(name)
		if f == nil {
			continue
		}
		eachInstr(f, func(ins ssa.Instruction) {
			mu, ok := ins.(*ssa.MapUpdate)
			if !ok {
				return
			}
			n++
			kb, kf, ok1 := readsField(mu.Key, "Name", "FromName")
			val := mu.Value
			var vb ssa.Value = val
			if ld, ok := val.(*ssa.UnOp); ok && ld.Op == token.MUL {
				vb = ld.X
			}
			good := ok1 && (kb == vb || kb == val)
			want := "Name"
			if structName(val.Type()) == "Rel" {
				want = "FromName"
			}
			good = good && kf == want
			r.decide(good, "C14.key-is-name", name+":"+p.describe(mu), p.pos(mu.Pos()), "key is the "+want+" of the stored value",
				"the element is stored under a key that is not its own "+want+": lookups by name and the list of elements disagree")
		})
	}
	r.floor("map stores in Type.AddAttr/AddRel", n, 2)
}

// checkRemoveExact implements C14.remove-exact.
func checkRemoveExact(p *Prog, r *Report, pc *panicChecker) {
	n := 0
	for _, name := range []string{"(*Type).RemoveAttr", "(*Type).RemoveRel"} {
		f := p.Fn(name)
		if f == nil {
			r.fail("anchor %s not found", name)
			continue
		}
		eachInstr(f, func(ins ssa.Instruction) {
			c, ok := ins.(*ssa.Call)
			if !ok {
				return
			}
			b, ok := c.Call.Value.(*ssa.Builtin)
			if !ok || b.Name() != "delete" {
				return
			}
			n++
			key := c.Call.Args[1]
			// key is the name parameter, and the delete is guarded by elem.Name == key (or is unguarded: deleting an absent key is a no-op)
			isParam := key == ssa.Value(f.Params[1])
			mt, _ := c.Call.Args[0].Type().Underlying().(*types.Map)
			want := "Name"
			if mt != nil && structName(mt.Elem()) == "Rel" {
				want = "FromName"
			}
			guardOK := true
			for _, ef := range expandFacts(factsAt(c.Block())) {
				if bo, ok := ef.Cond.(*ssa.BinOp); ok && bo.Op == token.EQL && ef.Truth {
					for _, pr := range [][2]ssa.Value{{bo.X, bo.Y}, {bo.Y, bo.X}} {
						if pr[1] == key {
							if _, fl, ok := readsField(pr[0], "Name", "FromName", "FromType", "ToName", "ToType"); ok && fl != want {
								guardOK = false
							}
						}
					}
				}
			}
			r.decide(isParam && guardOK, "C14.remove-exact", name+":"+p.describe(c), p.pos(c.Pos()), "deletes the key that was asked for, matched on "+want,
				"the removal deletes a key other than the requested name, or matches elements on a field other than "+want)
		})
	}
	// scope: RemoveAttr touches the attribute map only, RemoveRel the
	// relationship map only, helpers included
	for _, name := range []string{"(*Type).RemoveAttr", "(*Type).RemoveRel"} {
		f := p.Fn(name)
		if f == nil {
			continue
		}
		want := "Attr"
		if strings.HasSuffix(name, "Rel") {
			want = "Rel"
		}
		right := 0
		eachInstrOf(append([]*ssa.Function{f}, stringHelpers(f)...), func(ins ssa.Instruction) {
			var m ssa.Value
			switch x := ins.(type) {
			case *ssa.Call:
				if b, ok := x.Call.Value.(*ssa.Builtin); ok && b.Name() == "delete" {
					m = x.Call.Args[0]
				}
			case *ssa.MapUpdate:
				m = x.Map
			}
			if m == nil {
				return
			}
			mt, _ := m.Type().Underlying().(*types.Map)
			good := mt != nil && structName(mt.Elem()) == want
			if good {
				right++
			}
			r.decide(good, "C14.remove-scope", name+":"+p.describe(ins), p.pos(ins.Pos()), "changes the map of "+want+" values only",
				name+" changes a map other than the type's map of "+want+" values: removing an absent "+strings.ToLower(want)+" is no longer a no-op when a field of the other kind has that name")
		})
		r.decide(right > 0, "C14.remove-scope", name+":deletes", p.pos(f.Pos()), "deletes from the map of "+want+" values", name+" (helpers included) never deletes from the map of "+want+" values")
	}
	// RemoveType: the spliced index is the index whose Name was tested
	if f := p.Fn("(*Schema).RemoveType"); f != nil {
		bf := pc.bf(f)
		for _, s := range findSplices(bf) {
			n++
			la, lo := bf.atom(s.lo)
			ok := false
			for _, ef := range expandFacts(factsAt(s.call.Block())) {
				if bo, isB := ef.Cond.(*ssa.BinOp); isB && bo.Op == token.EQL && ef.Truth {
					for _, pr := range [][2]ssa.Value{{bo.X, bo.Y}, {bo.Y, bo.X}} {
						if pr[1] != ssa.Value(f.Params[1]) {
							continue
						}
						if base, fl, ok2 := readsField(pr[0], "Name"); ok2 && fl == "Name" {
							if ia, isIA := base.(*ssa.IndexAddr); isIA {
								xa, xo := bf.atom(ia.Index)
								ha, ho := bf.atom(s.hi)
								if xa == la && xo == lo && ha == la && ho == lo+1 {
									ok = true
								}
							}
						}
					}
				}
			}
			r.decide(ok, "C14.remove-exact", "(*Schema).RemoveType:"+p.describe(s.call), p.pos(s.call.Pos()), "removes exactly the element whose Name equals the argument",
				"the splice does not remove exactly the element whose Name was compared with the argument")
		}
	}
	// Schema.Remove*/Add* delegation: the element acted upon is the one whose Name matched
	for _, name := range []string{"(*Schema).AddAttr", "(*Schema).AddRel", "(*Schema).RemoveAttr", "(*Schema).RemoveRel"} {
		f := p.Fn(name)
		if f == nil {
			continue
		}
		eachInstr(f, func(ins ssa.Instruction) {
			c, ok := ins.(*ssa.Call)
			if !ok || c.Common().StaticCallee() == nil || !p.inTarget(c.Common().StaticCallee()) {
				return
			}
			recv, ok := c.Common().Args[0].(*ssa.IndexAddr)
			if !ok {
				return
			}
			n++
			nameMatched := func(facts []edgeFact, idx ssa.Value) bool {
				for _, ef := range expandFacts(facts) {
					if bo, isB := ef.Cond.(*ssa.BinOp); isB && bo.Op == token.EQL && ef.Truth {
						for _, pr := range [][2]ssa.Value{{bo.X, bo.Y}, {bo.Y, bo.X}} {
							if pr[1] != ssa.Value(f.Params[1]) {
								continue
							}
							if base, _, ok2 := readsField(pr[0], "Name"); ok2 {
								if ia, isIA := base.(*ssa.IndexAddr); isIA && ia.Index == idx && sameSliceField(ia.X, recv.X) {
									return true
								}
							}
						}
					}
				}
				return false
			}
			good := nameMatched(factsAt(c.Block()), recv.Index) || foundIndexPhi(pc.bf(f), recv.Index, c, nameMatched)
			r.decide(good, "C14.remove-exact", name+":"+p.describe(c), p.pos(c.Pos()), "acts on the type whose Name equals the argument",
				"the edit is applied to a type other than the one whose Name was compared with the argument")
		})
	}
	r.floor("removal/delegation sites", n, 4)
}

// checkTwoWayApplies: every successful return of AddTwoWayRel lies behind two
// AddRel calls whose receivers are elements of the schema's own Types slice
// (not copies), one with the normalised relationship and one with its inverse.
func checkTwoWayApplies(p *Prog, r *Report, h *Heap) {
	f := p.Fn("(*Schema).AddTwoWayRel")
	if f == nil {
		r.fail("anchor (*Schema).AddTwoWayRel not found")
		return
	}
	st := h.states[f]
	norm, inv := p.Fn("(*Rel).Normalize"), p.Fn("(*Rel).Invert")
	// classify the relationship argument of each AddRel
	relKind := func(c *ssa.Call) string {
		a := c.Common().Args[1]
		var al ssa.Value = a
		if ld, ok := a.(*ssa.UnOp); ok {
			al = ld.X
		}
		alloc, ok := al.(*ssa.Alloc)
		if !ok {
			return "?"
		}
		for _, ref := range referrers(alloc) {
			if s, ok := ref.(*ssa.Store); ok && s.Addr == ssa.Value(alloc) {
				if cc, _ := callOf(s.Val); cc != nil {
					switch cc.Common().StaticCallee() {
					case norm:
						return "normalised"
					case inv:
						return "inverse"
					}
				}
			}
		}
		return "?"
	}
	onSchema := func(c *ssa.Call) bool {
		recv := st.get(c.Common().Args[0])
		if len(recv) == 0 {
			return false
		}
		for l := range recv {
			if l != "P0.Types*[]" {
				return false
			}
		}
		return true
	}
	n := 0
	eachInstr(f, func(ins ssa.Instruction) {
		ret, ok := ins.(*ssa.Return)
		if !ok || len(ret.Results) != 1 || !isNilConst(ret.Results[0]) {
			return
		}
		n++
		for _, kind := range []string{"normalised", "inverse"} {
			kind := kind
			ok := mustPassInstr(f, ret, func(ins ssa.Instruction) bool {
				c, isCall := ins.(*ssa.Call)
				if !isCall {
					return false
				}
				sc := c.Common().StaticCallee()
				return sc != nil && funcName(sc) == "(*Type).AddRel" && relKind(c) == kind && onSchema(c)
			})
			r.decide(ok, "C14.two-way-applies", "AddTwoWayRel:success:"+kind, p.pos(ret.Pos()),
				"every path to the successful return adds the "+kind+" relationship to an element of the schema's Types slice",
				"AddTwoWayRel can report success without having added the "+kind+" relationship to a type stored in the schema (the receiver is a copy, or the call is skipped on some path, e.g. when both ends are the same type)")
		}
	})
	r.floor("AddTwoWayRel successful returns", n, 1)
	// the inverse is taken from the normalised relationship
	eachInstr(f, func(ins ssa.Instruction) {
		c, ok := ins.(*ssa.Call)
		if !ok || c.Common().StaticCallee() != inv {
			return
		}
		arg := c.Common().Args[0]
		good := false
		if al, ok := arg.(*ssa.Alloc); ok {
			for _, ref := range referrers(al) {
				if s, ok := ref.(*ssa.Store); ok && s.Addr == ssa.Value(al) {
					if cc, _ := callOf(s.Val); cc != nil && cc.Common().StaticCallee() == norm {
						good = true
					}
				}
			}
		}
		r.decide(good, "C14.two-way-applies", "AddTwoWayRel:inverse-of-normalised", p.pos(c.Pos()),
			"the second relationship is the inverse of the normalised one",
			"the second relationship is not computed from the normalised one: for a relationship given in the other direction both sides are the same relationship")
	})
}

// checkTypeLookup: Schema.GetType and Schema.HasType find a type by exact
// equality of its Name with the requested name - the same comparison AddType
// uses to keep names unique - and GetType hands out the matching element.
// Shared by the properties that rely on "the type of that name".
func checkTypeLookup(p *Prog, r *Report, prefix string) {
	for _, name := range []string{"(*Schema).GetType", "(*Schema).HasType"} {
		f := p.Fn(name)
		if f == nil {
			r.fail("anchor %s not found", name)
			continue
		}
		r.fn(funcName(f))
		want := f.Params[1]
		good, why := true, ""
		nEq := 0
		eachInstr(f, func(ins ssa.Instruction) {
			switch x := ins.(type) {
			case *ssa.Call:
				if builtinName(x.Common()) == "" {
					good, why = false, "the lookup calls "+p.describe(x)+" ("+p.pos(x.Pos())+") instead of comparing names with =="
				}
			case *ssa.If:
				bo, ok := x.Cond.(*ssa.BinOp)
				if !ok {
					good, why = false, "a branch of the lookup is not a plain comparison"
					return
				}
				if bo.Op == token.LSS {
					return // the loop test
				}
				isName := func(v ssa.Value) bool {
					_, fl, ok := fieldLoad(v)
					return ok && fl == "Name"
				}
				if bo.Op == token.EQL && ((isName(bo.X) && bo.Y == ssa.Value(want)) || (isName(bo.Y) && bo.X == ssa.Value(want))) {
					nEq++
					return
				}
				good, why = false, "a branch of the lookup does not compare a type's Name with the requested name for equality ("+p.pos(bo.Pos())+")"
			}
		})
		if good && nEq != 1 {
			good, why = false, "the lookup does not consist of one equality test on the Name"
		}
		r.decide(good, prefix+".type-lookup", name+":exact-name", p.pos(f.Pos()), "finds a type by exact equality of its Name (as AddType's uniqueness test does)", name+" does not find types by exact name equality: "+why+"; two types that AddType keeps apart can answer to the same name")
	}
}

// checkTwoWayLookupsIndependent: AddTwoWayRel finds the types of the two ends
// independently: each assignment of a type found in the schema is guarded by
// the equality of that type's name with that end's type name and by nothing
// about the other end (a relationship between a type and itself has both ends
// on one element).
func checkTwoWayLookupsIndependent(p *Prog, r *Report) {
	f := p.Fn("(*Schema).AddTwoWayRel")
	if f == nil {
		r.fail("anchor (*Schema).AddTwoWayRel not found")
		return
	}
	n := 0
	for _, h := range f.Blocks {
		loop := naturalLoop(h)
		if loop == nil {
			continue
		}
		for b := range loop {
			for _, ins := range b.Instrs {
				ia, ok := ins.(*ssa.IndexAddr)
				if !ok {
					continue
				}
				if _, fl, ok := fieldLoad(ia.X); !ok || fl != "Types" {
					continue
				}
				// &s.Types[i] taken as a value (flows to a phi / store), not only
				// dereferenced: each place where it is taken is judged by the
				// tests under which that place is reached
				var at []*ssa.BasicBlock
				for _, ref := range referrers(ia) {
					switch x := ref.(type) {
					case *ssa.Phi:
						for i, e := range x.Edges {
							if e == ssa.Value(ia) {
								at = append(at, x.Block().Preds[i])
							}
						}
					case *ssa.Store:
						if x.Val == ssa.Value(ia) {
							at = append(at, x.Block())
						}
					}
				}
				for k, ub := range at {
					n++
					nameTests := 0
					for _, ef := range factsAt(ub) {
						if ef.From == nil || !loop[ef.From] || ef.From == h {
							continue
						}
						bo, ok := ef.Cond.(*ssa.BinOp)
						if !ok {
							continue
						}
						if _, fl, ok := fieldLoad(bo.X); ok && fl == "Name" {
							nameTests++
						} else if _, fl, ok := fieldLoad(bo.Y); ok && fl == "Name" {
							nameTests++
						}
					}
					key := "AddTwoWayRel:" + p.describe(ia)
					if k > 0 {
						key += fmt.Sprintf("#%d", k+1)
					}
					r.decide(nameTests == 1, "C14.two-way-lookups", key, p.pos(ia.Pos()), "guarded by its own name test only", fmt.Sprintf("the type of one end is looked up under %d name tests: whether it is found depends on the other end's test, so a relationship between a type and itself does not find its second end", nameTests))
				}
			}
		}
	}
	r.count("type lookups in AddTwoWayRel", n) // the lookups may be delegated to a helper; nothing to decide then
}

type validatorFact struct {
	fact  edgeFact
	isNew func(ssa.Value) bool
}

// validatorFacts: when ef says that the error returned by a small validation
// helper g(…newElem…) is nil, the branch outcomes that hold on every nil-error
// return of g, together with a test for "this value is g's view of the new
// element".
func validatorFacts(ef edgeFact, newElem *ssa.Parameter) []validatorFact {
	bo, ok := ef.Cond.(*ssa.BinOp)
	if !ok || (bo.Op != token.EQL && bo.Op != token.NEQ) {
		return nil
	}
	var errv ssa.Value
	switch {
	case isNilConst(bo.Y):
		errv = bo.X
	case isNilConst(bo.X):
		errv = bo.Y
	default:
		return nil
	}
	if (bo.Op == token.EQL) != ef.Truth {
		return nil // the error is non-nil on this edge
	}
	c, _ := callOf(errv)
	if c == nil {
		return nil
	}
	g := c.Common().StaticCallee()
	if g == nil || !smallHelper(g) || g.Signature.Results().Len() != 1 {
		return nil
	}
	// which parameter of g is the new element
	pi := -1
	for i, a := range c.Common().Args {
		if a == ssa.Value(newElem) {
			pi = i
		}
		if ld, ok := a.(*ssa.UnOp); ok && ld.Op == token.MUL && isSpillOf(ld.X, newElem) {
			pi = i
		}
	}
	if pi < 0 || pi >= len(g.Params) {
		return nil
	}
	gp := g.Params[pi]
	isNew := func(base ssa.Value) bool { return base == ssa.Value(gp) || isSpillOf(base, gp) }
	// intersection over the returns that yield nil
	type key struct {
		c ssa.Value
		t bool
	}
	var common map[key]edgeFact
	for _, b := range g.Blocks {
		ret, ok := b.Instrs[len(b.Instrs)-1].(*ssa.Return)
		if !ok || len(ret.Results) != 1 || !isNilConst(ret.Results[0]) {
			continue
		}
		cur := map[key]edgeFact{}
		for _, f2 := range expandFacts(factsAt(b)) {
			cur[key{f2.Cond, f2.Truth}] = f2
		}
		if common == nil {
			common = cur
			continue
		}
		for k := range common {
			if _, ok := cur[k]; !ok {
				delete(common, k)
			}
		}
	}
	var out []validatorFact
	for _, f2 := range common {
		out = append(out, validatorFact{f2, isNew})
	}
	return out
}

// sameSliceField: both values are loads of the same field of the same base
// (or the same value).
func sameSliceField(a, b ssa.Value) bool {
	if a == b {
		return true
	}
	la, ok1 := a.(*ssa.UnOp)
	lb, ok2 := b.(*ssa.UnOp)
	if !ok1 || !ok2 {
		return false
	}
	fa, ok1 := la.X.(*ssa.FieldAddr)
	fb, ok2 := lb.X.(*ssa.FieldAddr)
	return ok1 && ok2 && fa.X == fb.X && fa.Field == fb.Field
}

// foundIndexPhi: idx is a merge of "not found" markers (negative constants)
// and of indices i for which `matched` holds on the edge that carries i (the
// search loop's break), and at the site idx is proved non-negative: the
// element at idx is the one that matched.
func foundIndexPhi(bf *boundsFn, idx ssa.Value, site ssa.Instruction, matched func(facts []edgeFact, i ssa.Value) bool) bool {
	phi, ok := idx.(*ssa.Phi)
	if !ok {
		return false
	}
	nIdx, nNeg := 0, 0
	for k, e := range phi.Edges {
		if cv, ok := constInt(e); ok {
			if cv >= 0 {
				return false
			}
			nNeg++
			continue
		}
		pred := phi.Block().Preds[k]
		facts := factsAt(pred)
		if ifi, ok := pred.Instrs[len(pred.Instrs)-1].(*ssa.If); ok && pred.Succs[0] != pred.Succs[1] {
			facts = append(facts, edgeFact{Cond: ifi.Cond, Truth: pred.Succs[0] == phi.Block(), From: pred})
		}
		if !matched(facts, e) {
			return false
		}
		nIdx++
	}
	if nIdx == 0 {
		return false
	}
	if nNeg > 0 {
		a, o := bf.atom(idx)
		if !bf.prove("0", 0, a, o, site, nil) {
			return false
		}
	}
	return true
}
