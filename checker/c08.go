package main

import (
	"fmt"
	"go/token"
	"go/types"
	"net/url"
	"regexp"
	"sort"
	"strings"

	"golang.org/x/tools/go/ssa"
)

func init() { register("C08", checkC08) }

func checkC08(p *Prog, r *Report) {
	r.rule("R16 escape taint (SSA value flow in URL.String): the returned text is path + query; every piece of the path part is a URL-safe constant or went through url.PathEscape, every piece of the query part (the part whose first constant is \"?\") is a URL-safe constant or went through url.QueryEscape; concatenation, trimming, lists of pieces and loop accumulators keep the class, anything else (a field, fmt.Sprint, strconv, string(bytes)) is raw")
	r.rule("R5 parameter names: every parameter name URL.String can emit (constants percent-decoded at analysis time: fields[*], filter, page[number], page[size], sort) is accepted by a case of NewSimpleURL (exact names and prefix/suffix pairs read off its conditions); the bracket content is cut with offsets equal to the lengths of that prefix and suffix; the page keys read by String are the ones it emits; Filter and its decoding twin filter carry the same json tags")
	r.rule("C08.all-items: in each loop of URL.String that emits list items, no path round the loop leaves the accumulator unchanged (nothing selected is skipped)")
	r.rule("C08.emission-guards: no parameter is emitted conditionally on the dynamic type of a value (no type-assertion outcome among the branch conditions that dominate an emission); page values are printed with fmt.Sprint of the stored value")
	r.rule("C08.fields-accepted: String() prints a fields[T] parameter for every key of Params.Fields, whichever way the key got there, and does not print include; so NewParams may reject a fields[T] entry only for reasons computed from T, its name list, the schema and what this very iteration stored - never from state left by other parameters (every condition that dominates a rejecting return inside the loop over the parsed field selections is checked for its inputs)")
	r.rule("C08.fields-fresh (shared with C07): a list stored into Params.Fields inside a loop is allocated inside that loop; C08.sort-completion: where NewParams appends the attributes not yet mentioned to the kept sorting rules (append(K, R...)), every list of strings scanned in the loop that builds R is K itself: the completion is relative to the list being completed, so the completed list is a fixed point of print-and-parse")
	r.rule("C08.path-decoding: NewSimpleURL cuts the fragments out of the decoded path (url.URL.Path), the counterpart of String()'s PathEscape; C08.fields-default (shared with C07): no write to the field selections escapes the loop that replaces empty selections by all fields")
	r.rule("C08.separator-trim: a trailing-separator trim x[:len(x)-k] after a loop is sound for zero iterations - the loop's source is known non-empty there, or the initial text has exactly k characters")
	r.rule("R7 canonical order (shared with C11): the map of field selections is collected, sorted and emitted in sorted order, each name list is sorted before emission; R7 reader: in NewSimpleURL's loop over the query map every write goes to an entry keyed by the current name, happens under an exact name test (at most one iteration), or is a lazy initialisation, and the loop is left early only with an error")
	r.assume("net/url: QueryEscape/PathEscape are inverted by Query()/Path parsing; fmt.Sprint of the int and string page values NewSimpleURL stores prints what strconv.Atoi / the raw value read (contract)")
	r.notCovered("the fixed-point law itself (needs net/url and encoding/json semantics for the filter tree); which error is returned when several parameters are bad; NewParams' canonicalisation is C07's")

	f := p.Fn("(*URL).String")
	ns := p.Fn("NewSimpleURL")
	if f == nil || ns == nil {
		r.fail("anchor (*URL).String / NewSimpleURL not found")
		return
	}
	r.fn(funcName(f))
	r.fn(funcName(ns))
	checkC08Escape(p, r, f)
	emitted := checkC08Names(p, r, f, ns)
	checkC08Items(p, r, f)
	checkC08Guards(p, r, f, emitted)
	checkC08Trim(p, r, f)
	// canonical order in String, order-insensitive reader
	oa := &orderAnalysis{p: p, r: r, tainted: map[*ssa.Function]bool{}}
	_, nUn, nSorts := oa.checkFunction(f)
	for _, g := range stringHelpers(f) {
		_, u2, s2 := oa.checkFunction(g)
		nUn += u2
		nSorts += s2
	}
	r.floor("unordered loops in URL.String", nUn, 2)
	r.floor("sorts in URL.String", nSorts, 2)
	checkC08FieldsAccepted(p, r)
	r.rule("C08.list-split: every strings splitter on the NewSimpleURL path is Split/SplitN at the constant \",\" (lists) or \"/\" (path), the separators String() writes")
	checkListSplit(p, r, ns)
	r.rule("C08.filter-verbatim: Filter.UnmarshalJSON stores Field, Op and Col as decoded (a member of the skeleton, or a constant); C08.single-decoding: nothing on the NewSimpleURL path percent-decodes again what net/url already decoded (url.URL.Path, url.URL.Query)")
	checkFilterVerbatim(p, r)
	checkFieldsDefault(p, r, "C08")
	checkFieldsFresh(p, r, "C08")
	checkSortCompletion(p, r)
	// the reader takes the path fragments from the decoded path: String() applies PathEscape to them
	{
		okPath, n := false, 0
		eachInstr(ns, func(ins ssa.Instruction) {
			c, ok := ins.(*ssa.Call)
			if !ok || c.Common().StaticCallee() == nil || funcName(c.Common().StaticCallee()) != "parseFragments" {
				return
			}
			n++
			if base, fl, ok := fieldLoad(c.Common().Args[0]); ok && fl == "Path" && base == ssa.Value(ns.Params[0]) {
				okPath = true
			}
		})
		// and the parameters through (*url.URL).Query(), which decodes them and
		// skips pairs it cannot decode
		okQuery := false
		eachInstr(ns, func(ins ssa.Instruction) {
			if c, ok := ins.(*ssa.Call); ok && c.Common().StaticCallee() != nil && fullName(c.Common().StaticCallee()) == "net/url.(*URL).Query" && c.Common().Args[0] == ssa.Value(ns.Params[0]) {
				okQuery = true
			}
		})
		r.decide(okQuery, "C08.path-decoding", "NewSimpleURL:parameters-from-Query", p.pos(ns.Pos()), "parameters are read with (*url.URL).Query()", "the query parameters are not read with (*url.URL).Query(): a stricter or differently decoding reader refuses or misreads text that String() produces (e.g. the fields parameter of a type without fields, see the known finding)")
		r.decide(okPath && n == 1, "C08.path-decoding", "NewSimpleURL:fragments-from-decoded-path", p.pos(ns.Pos()), "fragments are cut from url.URL.Path (decoded)", "the path fragments are not cut from the decoded path (url.URL.Path): String() escapes them with PathEscape, so an ID that needs escaping is escaped twice and does not parse back")
	}
	oa2 := &orderAnalysis{p: p, r: r, tainted: map[*ssa.Function]bool{}, allowErrExit: true, mapsOnly: true, rule: "R7.order-insensitive-reader"}
	_, nUn2, _ := oa2.checkFunction(ns)
	r.floor("map loops in NewSimpleURL", nUn2, 1)
}

// ---------------------------------------------------------------------------
// escape classes

type escClass struct {
	path, query bool
	why         string // why both classes are missing (a raw piece)
	whyPath     string // why the piece is not fit for the path part
	whyQuery    string // why the piece is not fit for the query part
}

var (
	reQuerySafe = regexp.MustCompile(`^([A-Za-z0-9\-._~?&=/]|%[0-9A-Fa-f]{2})*$`)
	rePathSafe  = regexp.MustCompile(`^([A-Za-z0-9\-._~/]|%[0-9A-Fa-f]{2})*$`)
)

type escAnalysis struct {
	p    *Prog
	memo map[ssa.Value]*escClass
	// when a helper of the package is analysed for one call site: its
	// parameters stand for the caller's arguments
	args  map[*ssa.Parameter]ssa.Value
	outer *escAnalysis
	depth int
}

// inCallee: an analysis of g's values for the call c made in the context ea.
func (ea *escAnalysis) inCallee(c *ssa.Call, g *ssa.Function) *escAnalysis {
	sub := &escAnalysis{p: ea.p, memo: map[ssa.Value]*escClass{}, args: map[*ssa.Parameter]ssa.Value{}, outer: ea, depth: ea.depth + 1}
	for i, prm := range g.Params {
		if i < len(c.Common().Args) {
			sub.args[prm] = c.Common().Args[i]
		}
	}
	return sub
}

// returnsOf: the first results of g's returns.
func returnsOf(g *ssa.Function) []ssa.Value {
	var out []ssa.Value
	for _, b := range g.Blocks {
		if ret, ok := b.Instrs[len(b.Instrs)-1].(*ssa.Return); ok && len(ret.Results) > 0 {
			out = append(out, ret.Results[0])
		}
	}
	return out
}

func meet(a, b *escClass) *escClass {
	out := &escClass{path: a.path && b.path, query: a.query && b.query}
	switch {
	case a.why != "":
		out.why = a.why
	case b.why != "":
		out.why = b.why
	}
	for _, c := range []*escClass{a, b} {
		if out.whyPath == "" {
			out.whyPath = c.whyPath
		}
		if out.whyQuery == "" {
			out.whyQuery = c.whyQuery
		}
	}
	return out
}

func (ea *escAnalysis) classOf(v ssa.Value) *escClass {
	if c, ok := ea.memo[v]; ok {
		if c == nil {
			return &escClass{path: true, query: true} // in progress: optimistic for cycles
		}
		return c
	}
	ea.memo[v] = nil
	out := ea.compute(v)
	ea.memo[v] = out
	return out
}

func (ea *escAnalysis) compute(v ssa.Value) *escClass {
	p := ea.p
	switch x := v.(type) {
	case *ssa.Parameter:
		if a, ok := ea.args[x]; ok && ea.outer != nil {
			return ea.outer.classOf(a)
		}
	case *ssa.Const:
		s, ok := constString(x)
		if !ok {
			return &escClass{why: "non-string constant"}
		}
		c := &escClass{path: rePathSafe.MatchString(s), query: reQuerySafe.MatchString(s)}
		if !c.path && !c.query {
			c.why = fmt.Sprintf("the constant %q contains characters that are neither URL-safe nor percent-escaped", s)
		}
		return c
	case *ssa.Call:
		if calleeIs(x, "net/url", "PathEscape") {
			return &escClass{path: true, whyQuery: p.describe(x) + " (" + p.pos(x.Pos()) + ") is escaped for a path: '+' is left as is and is read back from a query as a space"}
		}
		if calleeIs(x, "net/url", "QueryEscape") {
			return &escClass{query: true, whyPath: p.describe(x) + " (" + p.pos(x.Pos()) + ") is escaped for a query: a space becomes '+', which a path does not decode"}
		}
		if calleeIs(x, "strings", "Join") && len(x.Common().Args) == 2 {
			return meet(ea.listClass(x.Common().Args[0]), ea.classOf(x.Common().Args[1]))
		}
		if (calleeIs(x, "strings", "TrimSuffix") || calleeIs(x, "strings", "TrimPrefix")) && len(x.Common().Args) == 2 {
			return ea.classOf(x.Common().Args[0])
		}
		// a string-building helper of the package: the class of what it returns,
		// its parameters standing for the arguments of this call
		if g := x.Common().StaticCallee(); g != nil && smallHelper(g) && ea.depth < 3 {
			sub := ea.inCallee(x, g)
			out := &escClass{path: true, query: true}
			rs := returnsOf(g)
			for _, rv := range rs {
				out = meet(out, sub.classOf(rv))
			}
			if len(rs) > 0 {
				return out
			}
		}
		return &escClass{why: "the result of " + p.describe(x) + " (" + p.pos(x.Pos()) + ") is used unescaped"}
	case *ssa.BinOp:
		if x.Op == token.ADD {
			return meet(ea.classOf(x.X), ea.classOf(x.Y))
		}
	case *ssa.Phi:
		out := &escClass{path: true, query: true}
		for _, e := range x.Edges {
			out = meet(out, ea.classOf(e))
		}
		return out
	case *ssa.Slice:
		if _, isStr := x.X.Type().Underlying().(*types.Basic); isStr {
			return ea.classOf(x.X)
		}
	case *ssa.Index:
		if _, elems, ok := constTable(x); ok {
			out := &escClass{path: true, query: true}
			for _, s := range elems {
				c := &escClass{path: rePathSafe.MatchString(s), query: reQuerySafe.MatchString(s)}
				if !c.path && !c.query {
					c.why = fmt.Sprintf("the constant %q contains characters that are neither URL-safe nor percent-escaped", s)
				}
				out = meet(out, c)
			}
			return out
		}
	case *ssa.UnOp:
		if x.Op == token.MUL {
			if _, elems, ok := constTable(x); ok {
				out := &escClass{path: true, query: true}
				for _, s := range elems {
					c := &escClass{path: rePathSafe.MatchString(s), query: reQuerySafe.MatchString(s)}
					if !c.path && !c.query {
						c.why = fmt.Sprintf("the constant %q contains characters that are neither URL-safe nor percent-escaped", s)
					}
					out = meet(out, c)
				}
				return out
			}
			// an element of a list of pieces
			if ia, ok := x.X.(*ssa.IndexAddr); ok {
				return ea.listClass(ia.X)
			}
			if al, ok := x.X.(*ssa.Alloc); ok {
				out := &escClass{path: true, query: true}
				n := 0
				for _, ref := range referrers(al) {
					if st, ok := ref.(*ssa.Store); ok && st.Addr == ssa.Value(al) {
						out = meet(out, ea.classOf(st.Val))
						n++
					}
				}
				if n > 0 {
					return out
				}
			}
		}
	}
	desc := v.Name()
	if ins, ok := v.(ssa.Instruction); ok {
		desc = p.describe(ins) + " (" + p.pos(ins.Pos()) + ")"
	}
	return &escClass{why: "the raw value " + desc + " reaches the URL text unescaped"}
}

// listClass: the class common to all pieces stored in the []string v.
func (ea *escAnalysis) listClass(v ssa.Value) *escClass {
	if c, ok := ea.memo[v]; ok {
		if c == nil {
			return &escClass{path: true, query: true}
		}
		return c
	}
	ea.memo[v] = nil
	out := func() *escClass {
		switch x := v.(type) {
		case *ssa.Parameter:
			if a, ok := ea.args[x]; ok && ea.outer != nil {
				return ea.outer.listClass(a)
			}
		case *ssa.Slice:
			if al, ok := x.X.(*ssa.Alloc); ok {
				// a literal: its element stores
				out := &escClass{path: true, query: true}
				for _, ref := range referrers(al) {
					if ia, ok := ref.(*ssa.IndexAddr); ok {
						for _, r2 := range referrers(ia) {
							if st, ok := r2.(*ssa.Store); ok {
								out = meet(out, ea.classOf(st.Val))
							}
						}
					}
				}
				return out
			}
			return ea.listClass(x.X)
		case *ssa.MakeSlice:
			return &escClass{path: true, query: true}
		case *ssa.Phi:
			out := &escClass{path: true, query: true}
			for _, e := range x.Edges {
				out = meet(out, ea.listClass(e))
			}
			return out
		case *ssa.Call:
			if builtinName(x.Common()) == "append" {
				out := ea.listClass(x.Common().Args[0])
				if len(x.Common().Args) > 1 {
					out = meet(out, ea.listClass(x.Common().Args[1]))
				}
				return out
			}
		}
		desc := v.Name()
		if ins, ok := v.(ssa.Instruction); ok {
			desc = ea.p.describe(ins)
		}
		return &escClass{why: "the list " + desc + " holds raw values"}
	}()
	ea.memo[v] = out
	return out
}

// leftmostConst: the first constant of a concatenation (through accumulators' initial values).
func leftmostConst(v ssa.Value, depth int) (string, bool) {
	if depth > 10 {
		return "", false
	}
	switch x := v.(type) {
	case *ssa.Const:
		return constString(x)
	case *ssa.BinOp:
		if x.Op == token.ADD {
			return leftmostConst(x.X, depth+1)
		}
	case *ssa.Slice:
		return leftmostConst(x.X, depth+1)
	case *ssa.Phi:
		// the edge that enters the loop from outside
		for i, e := range x.Edges {
			if !x.Block().Dominates(x.Block().Preds[i]) {
				return leftmostConst(e, depth+1)
			}
		}
	}
	return "", false
}

func checkC08Escape(p *Prog, r *Report, f *ssa.Function) {
	ea := &escAnalysis{p: p, memo: map[ssa.Value]*escClass{}}
	n := 0
	for _, b := range f.Blocks {
		ret, ok := b.Instrs[len(b.Instrs)-1].(*ssa.Return)
		if !ok {
			continue
		}
		n++
		bo, ok := ret.Results[0].(*ssa.BinOp)
		if !ok || bo.Op != token.ADD {
			r.bad("R16.escape-taint", "String:return-shape", p.pos(ret.Pos()), "the returned text is not path + query: the position of each piece cannot be read off")
			continue
		}
		first, okc := leftmostConst(bo.Y, 0)
		if !okc || !strings.HasPrefix(first, "?") {
			r.bad("R16.escape-taint", "String:query-marker", p.pos(ret.Pos()), "the second part of the returned text does not start with the constant \"?\"")
			continue
		}
		pc := ea.classOf(bo.X)
		r.decide(pc.path, "R16.escape-taint", "String:path-part", p.pos(ret.Pos()), "every piece of the path is a safe constant or PathEscape'd", "a piece of the path is not escaped for a path (url.PathEscape): "+pc.why+" "+pc.whyPath)
		qc := ea.classOf(bo.Y)
		r.decide(qc.query, "R16.escape-taint", "String:query-part", p.pos(ret.Pos()), "every piece of the query is a safe constant or QueryEscape'd", "a piece of the query is not escaped for a query (url.QueryEscape): "+qc.why+" "+qc.whyQuery)
	}
	r.floor("returns of URL.String", n, 1)
	// every escape call sits where its class is wanted: reported individually for diagnosis
	nEsc := 0
	eachInstr(f, func(ins ssa.Instruction) {
		c, ok := ins.(*ssa.Call)
		if !ok {
			return
		}
		if calleeIs(c, "net/url", "PathEscape") || calleeIs(c, "net/url", "QueryEscape") {
			nEsc++
		}
	})
	r.floor("escape calls in URL.String", nEsc, 5)
}

// ---------------------------------------------------------------------------
// parameter names

// nameTemplate: the text up to and including the first '=' of the emitted piece,
// with escaped dynamic parts written as '*'.
func nameTemplate(v ssa.Value, depth int) (string, bool) {
	return nameTemplateEnv(v, depth, nil)
}

func nameTemplateEnv(v ssa.Value, depth int, env map[*ssa.Parameter]ssa.Value) (string, bool) {
	if depth > 12 {
		return "", false
	}
	switch x := v.(type) {
	case *ssa.Parameter:
		if a, ok := env[x]; ok {
			return nameTemplateEnv(a, depth+1, nil)
		}
		return "", false
	case *ssa.Const:
		s, ok := constString(x)
		if !ok {
			return "", false
		}
		d, err := url.QueryUnescape(s)
		if err != nil {
			return "", false
		}
		return d, true
	case *ssa.Call:
		if calleeIs(x, "net/url", "QueryEscape") || calleeIs(x, "net/url", "PathEscape") {
			return "*", true
		}
		if g := x.Common().StaticCallee(); g != nil && smallHelper(g) {
			sub := map[*ssa.Parameter]ssa.Value{}
			for i, prm := range g.Params {
				if i < len(x.Common().Args) {
					sub[prm] = x.Common().Args[i]
				}
			}
			for _, rv := range returnsOf(g) {
				if t, ok := nameTemplateEnv(rv, depth+1, sub); ok {
					return t, true
				}
			}
		}
		return "", false
	case *ssa.BinOp:
		if x.Op != token.ADD {
			return "", false
		}
		l, ok := nameTemplateEnv(x.X, depth+1, env)
		if !ok {
			return "", false
		}
		if strings.Contains(l, "=") {
			return l, true
		}
		rr, ok := nameTemplateEnv(x.Y, depth+1, env)
		if !ok {
			return l, true
		}
		return l + rr, true
	case *ssa.Slice:
		return nameTemplateEnv(x.X, depth+1, env)
	case *ssa.Phi:
		for i, e := range x.Edges {
			if !x.Block().Dominates(x.Block().Preds[i]) {
				return nameTemplateEnv(e, depth+1, env)
			}
		}
	case *ssa.Index, *ssa.UnOp:
		// an element of a constant table the emission loop walks: the entry
		// currently picked (the caller enumerates the entries)
		if al, elems, ok := constTable(v); ok {
			if k, picked := tablePick[al]; picked && k < len(elems) {
				if d, err := url.QueryUnescape(elems[k]); err == nil {
					return d, true
				}
			}
		}
	}
	return "", false
}

// tablePick selects, per constant table, the entry that stands for "the
// element of this iteration" while a template is computed.
var tablePick = map[*ssa.Alloc]int{}

// constTable: v is an element (at a non-constant index) of a local array of
// strings every slot of which is stored once, with a constant, and which is
// otherwise only read: `for _, k := range [...]string{"a", "b"}`.
func constTable(v ssa.Value) (*ssa.Alloc, []string, bool) {
	var al *ssa.Alloc
	switch x := v.(type) {
	case *ssa.Index:
		if ld, ok := x.X.(*ssa.UnOp); ok && ld.Op == token.MUL {
			al, _ = ld.X.(*ssa.Alloc)
		}
	case *ssa.UnOp:
		if x.Op != token.MUL {
			return nil, nil, false
		}
		if ia, ok := x.X.(*ssa.IndexAddr); ok {
			if _, isConst := constInt(ia.Index); isConst {
				return nil, nil, false
			}
			switch y := ia.X.(type) {
			case *ssa.Alloc:
				al = y
			case *ssa.Slice:
				if y.Low == nil && y.High == nil {
					al, _ = y.X.(*ssa.Alloc)
				}
			}
		}
	}
	if al == nil {
		return nil, nil, false
	}
	at, ok := deref(al.Type()).Underlying().(*types.Array)
	if !ok {
		return nil, nil, false
	}
	if bt, ok := at.Elem().Underlying().(*types.Basic); !ok || bt.Info()&types.IsString == 0 {
		return nil, nil, false
	}
	elems := make([]string, at.Len())
	filled := make([]bool, at.Len())
	for _, ref := range referrers(al) {
		switch y := ref.(type) {
		case *ssa.IndexAddr:
			k, isConst := constInt(y.Index)
			if !isConst {
				// a read at a computed index: every referrer must be a load
				for _, r2 := range referrers(y) {
					if ld, ok := r2.(*ssa.UnOp); !ok || ld.Op != token.MUL {
						return nil, nil, false
					}
				}
				continue
			}
			for _, r2 := range referrers(y) {
				switch z := r2.(type) {
				case *ssa.Store:
					sv, ok := constString(z.Val)
					if !ok || z.Addr != ssa.Value(y) || k < 0 || k >= at.Len() || filled[k] {
						return nil, nil, false
					}
					elems[k], filled[k] = sv, true
				case *ssa.UnOp:
				default:
					return nil, nil, false
				}
			}
		case *ssa.UnOp: // load of the whole array
		case *ssa.Slice:
			for _, r2 := range referrers(y) {
				if _, ok := r2.(*ssa.IndexAddr); !ok {
					return nil, nil, false
				}
			}
		default:
			return nil, nil, false
		}
	}
	for _, f := range filled {
		if !f {
			return nil, nil, false
		}
	}
	return al, elems, true
}

// tablesIn: the constant tables an expression reads an element of.
func tablesIn(v ssa.Value, depth int, out map[*ssa.Alloc]int) {
	if depth > 12 || v == nil {
		return
	}
	if al, elems, ok := constTable(v); ok {
		out[al] = len(elems)
		return
	}
	switch x := v.(type) {
	case *ssa.BinOp:
		tablesIn(x.X, depth+1, out)
		tablesIn(x.Y, depth+1, out)
	case *ssa.Slice:
		tablesIn(x.X, depth+1, out)
	case *ssa.Phi:
		for i, e := range x.Edges {
			if !x.Block().Dominates(x.Block().Preds[i]) {
				tablesIn(e, depth+1, out)
			}
		}
	}
}

type emission struct {
	call *ssa.Call // the append
	elem ssa.Value
	name string
	tbl  *ssa.Alloc // the constant table the name is an entry of (or nil)
	pick int
}

func checkC08Names(p *Prog, r *Report, f, ns *ssa.Function) []emission {
	// accepted by NewSimpleURL
	var nameVar ssa.Value
	exact := map[string]bool{}
	prefixes := map[string]*ssa.Call{}
	suffixes := map[string]bool{}
	eachInstr(ns, func(ins ssa.Instruction) {
		if ex, ok := ins.(*ssa.Extract); ok && ex.Index == 1 {
			if _, isNext := ex.Tuple.(*ssa.Next); isNext && nameVar == nil {
				nameVar = ex
			}
		}
	})
	if nameVar == nil {
		r.bad("R5.param-names", "NewSimpleURL:name-loop", p.pos(ns.Pos()), "the loop over the query parameters was not found")
		return nil
	}
	eachInstr(ns, func(ins ssa.Instruction) {
		switch x := ins.(type) {
		case *ssa.BinOp:
			if x.Op == token.EQL && x.X == nameVar {
				if s, ok := constString(x.Y); ok {
					exact[s] = true
				}
			}
		case *ssa.Call:
			if len(x.Common().Args) == 2 && x.Common().Args[0] == nameVar {
				if s, ok := constString(x.Common().Args[1]); ok {
					if calleeIs(x, "strings", "HasPrefix") {
						prefixes[s] = x
					}
					if calleeIs(x, "strings", "HasSuffix") {
						suffixes[s] = true
					}
				}
			}
		}
	})
	// minimum-length guards: len(name) > K under a prefix test
	minLen := map[string]int64{}
	eachInstr(ns, func(ins ssa.Instruction) {
		bo, ok := ins.(*ssa.BinOp)
		if !ok || bo.Op != token.GTR {
			return
		}
		c, _ := callOf(bo.X)
		k, isC := constInt(bo.Y)
		if c == nil || !isC || builtinName(c.Common()) != "len" || c.Common().Args[0] != nameVar {
			return
		}
		for pre, call := range prefixes {
			pc := call
			if bo.Block() == pc.Block() || mustPassEdge(ns, bo.Block(), func(cond ssa.Value, truth bool) bool { return cond == ssa.Value(pc) && truth }) {
				if k > minLen[pre] {
					minLen[pre] = k
				}
			}
		}
	})
	accepted := func(name string) bool {
		if exact[name] {
			return true
		}
		for pre := range prefixes {
			for suf := range suffixes {
				if strings.HasPrefix(name, pre) && strings.HasSuffix(name, suf) && len(name) > len(pre)+len(suf) && int64(len(name)) > minLen[pre] {
					return true
				}
			}
		}
		return false
	}
	// offsets used to cut the bracket content
	nCut := 0
	eachInstr(ns, func(ins ssa.Instruction) {
		sl, ok := ins.(*ssa.Slice)
		if !ok || sl.X != nameVar {
			return
		}
		nCut++
		lo, okLo := constInt(sl.Low)
		hiOff := int64(-1)
		if bo, ok := sl.High.(*ssa.BinOp); ok && bo.Op == token.SUB {
			if c, _ := callOf(bo.X); c != nil && builtinName(c.Common()) == "len" && c.Common().Args[0] == nameVar {
				hiOff, _ = constInt(bo.Y)
			}
		}
		var guard string
		for pre, call := range prefixes {
			pc := call
			if mustPassEdge(ns, sl.Block(), func(cond ssa.Value, truth bool) bool { return cond == ssa.Value(pc) && truth }) {
				guard = pre
			}
		}
		good := guard != "" && okLo && int(lo) == len(guard) && hiOff == 1 && suffixes["]"]
		r.decide(good, "R5.param-names", "NewSimpleURL:cut:"+p.describe(sl), p.pos(sl.Pos()), "cuts exactly the text between "+guard+" and ]",
			fmt.Sprintf("the bracket content is cut with offsets %d / len-%d under the prefix test %q: the key read is not what String wrote between the brackets", lo, hiOff, guard))
	})
	r.floor("bracket cuts in NewSimpleURL", nCut, 2)

	// emitted by String
	var ems []emission
	eachInstr(f, func(ins ssa.Instruction) {
		c, ok := ins.(*ssa.Call)
		if !ok || builtinName(c.Common()) != "append" || len(c.Common().Args) != 2 {
			return
		}
		sl, ok := c.Common().Args[1].(*ssa.Slice)
		if !ok {
			return
		}
		al, ok := sl.X.(*ssa.Alloc)
		if !ok {
			return
		}
		for _, ref := range referrers(al) {
			if ia, ok := ref.(*ssa.IndexAddr); ok {
				for _, r2 := range referrers(ia) {
					if st, ok := r2.(*ssa.Store); ok {
						tbls := map[*ssa.Alloc]int{}
						tablesIn(st.Val, 0, tbls)
						if len(tbls) == 1 {
							// a loop over a constant table of names: one emission per entry
							for tal, n := range tbls {
								for k := 0; k < n; k++ {
									tablePick[tal] = k
									if t, ok := nameTemplate(st.Val, 0); ok && strings.Contains(t, "=") {
										ems = append(ems, emission{c, st.Val, t[:strings.Index(t, "=")], tal, k})
									}
									delete(tablePick, tal)
								}
							}
							continue
						}
						if t, ok := nameTemplate(st.Val, 0); ok && strings.Contains(t, "=") {
							ems = append(ems, emission{c, st.Val, t[:strings.Index(t, "=")], nil, 0})
						}
					}
				}
			}
		}
	})
	sort.Slice(ems, func(i, j int) bool { return ems[i].call.Pos() < ems[j].call.Pos() })
	for _, e := range ems {
		concrete := strings.ReplaceAll(e.name, "*", "x") // the shortest name: one character
		r.decide(accepted(concrete), "R5.param-names", "String:emits:"+e.name, p.pos(e.call.Pos()), "accepted by a case of NewSimpleURL", "URL.String emits the parameter "+e.name+", which no case of NewSimpleURL accepts: its own output does not parse")
	}
	r.floor("parameters URL.String can emit", len(ems), 6)
	// page keys
	nPage := 0
	for _, e := range ems {
		if !strings.HasPrefix(e.name, "page[") {
			continue
		}
		nPage++
		want := strings.TrimSuffix(strings.TrimPrefix(e.name, "page["), "]")
		// the value printed comes from Page[want]
		found := ""
		var walk func(v ssa.Value, depth int)
		walk = func(v ssa.Value, depth int) {
			if depth > 12 || v == nil {
				return
			}
			switch x := v.(type) {
			case *ssa.Lookup:
				if k, ok := constString(x.Index); ok {
					found = k
				}
				if tal, elems, ok := constTable(x.Index); ok && tal == e.tbl && e.pick < len(elems) {
					found = elems[e.pick]
				}
				return
			case *ssa.Alloc:
				for _, ref := range referrers(x) {
					if ia, ok := ref.(*ssa.IndexAddr); ok {
						for _, r2 := range referrers(ia) {
							if st, ok := r2.(*ssa.Store); ok {
								walk(st.Val, depth+1)
							}
						}
					}
					if st, ok := ref.(*ssa.Store); ok && st.Addr == ssa.Value(x) {
						walk(st.Val, depth+1)
					}
				}
				return
			case ssa.Instruction:
				for _, op := range x.Operands(nil) {
					if *op != nil {
						if _, isC := (*op).(*ssa.Const); !isC {
							walk(*op, depth+1)
						}
					}
				}
			}
		}
		walk(e.elem, 0)
		r.decide(found == want, "R5.param-names", "String:page-key:"+e.name, p.pos(e.call.Pos()), "prints Page["+want+"]", fmt.Sprintf("the parameter %s prints Page[%q]", e.name, found))
	}
	r.floor("page parameters", nPage, 2)
	// Filter / filter tags
	scope := p.Types.Scope()
	F, fl := scope.Lookup("Filter"), scope.Lookup("filter")
	if F == nil || fl == nil {
		r.fail("anchor Filter / filter not found")
	} else {
		a, b := structTags(F.Type()), structTags(fl.Type())
		var names []string
		for k := range a {
			names = append(names, k)
		}
		sort.Strings(names)
		for _, k := range names {
			r.decide(a[k] == b[k], "R5.param-names", "Filter-tags:"+k, p.pos(F.Pos()), "same json tag on Filter and filter", fmt.Sprintf("Filter.%s is written as %q but filter.%s is read from %q", k, a[k], k, b[k]))
		}
		r.floor("Filter fields", len(names), 4)
	}
	return ems
}

// ---------------------------------------------------------------------------

// stringHelpers: the small unexported functions URL.String calls directly.
func stringHelpers(f *ssa.Function) []*ssa.Function {
	var out []*ssa.Function
	seen := map[*ssa.Function]bool{}
	eachInstr(f, func(ins ssa.Instruction) {
		if c, ok := ins.(*ssa.Call); ok {
			if g := c.Common().StaticCallee(); g != nil && smallHelper(g) && g.Blocks != nil && !seen[g] {
				seen[g] = true
				out = append(out, g)
			}
		}
	})
	return out
}

func checkC08Items(p *Prog, r *Report, f *ssa.Function) {
	n := 0
	var loops []*loopDesc
	for _, g := range append([]*ssa.Function{f}, stringHelpers(f)...) {
		loops = append(loops, findLoops(g)...)
	}
	for _, ld := range loops {
		if ld.kind != "slice" && ld.kind != "map" {
			continue
		}
		for _, ins := range ld.header.Instrs {
			phi, ok := ins.(*ssa.Phi)
			if !ok {
				break
			}
			if bt, isB := phi.Type().Underlying().(*types.Basic); isB && bt.Info()&types.IsInteger != 0 {
				continue
			}
			n++
			// may the accumulator reach the back edge unchanged?
			mayUnchanged := map[ssa.Value]bool{phi: true}
			for changed := true; changed; {
				changed = false
				for b := range ld.blocks {
					for _, i2 := range b.Instrs {
						ph2, ok := i2.(*ssa.Phi)
						if !ok || mayUnchanged[ph2] || ph2 == phi {
							continue
						}
						for _, e := range ph2.Edges {
							if mayUnchanged[e] {
								mayUnchanged[ph2] = true
								changed = true
							}
						}
					}
				}
			}
			good := true
			for i, e := range phi.Edges {
				if ld.blocks[ld.header.Preds[i]] && mayUnchanged[e] {
					good = false
				}
			}
			name := phi.Comment
			if name == "" {
				name = phi.Name()
			}
			r.decide(good, "C08.all-items", "String:loop:"+name, p.pos(loopPos(ld)), "every iteration extends "+name, "an iteration can leave "+name+" unchanged: an item of the list is not written, so the text does not parse back to the same selection")
		}
	}
	r.floor("accumulating loops in URL.String", n, 2)
}

func checkC08Guards(p *Prog, r *Report, f *ssa.Function, ems []emission) {
	for _, e := range ems {
		bad := ""
		var visit func(v ssa.Value, depth int)
		visit = func(v ssa.Value, depth int) {
			if depth > 6 || v == nil {
				return
			}
			switch x := v.(type) {
			case *ssa.Extract:
				if ta, ok := x.Tuple.(*ssa.TypeAssert); ok && x.Index == 1 {
					bad = "the outcome of the type assertion " + p.describe(ta) + " (" + p.pos(ta.Pos()) + ")"
				}
			case *ssa.Phi:
				for _, ed := range x.Edges {
					visit(ed, depth+1)
				}
			case *ssa.UnOp:
				visit(x.X, depth+1)
			case *ssa.BinOp:
				visit(x.X, depth+1)
				visit(x.Y, depth+1)
			}
		}
		for _, ef := range factsAt(e.call.Block()) {
			visit(ef.Cond, 0)
		}
		r.decide(bad == "", "C08.emission-guards", "String:guards:"+e.name, p.pos(e.call.Pos()), "emitted whatever the dynamic type of its value", "the parameter "+e.name+" is emitted only depending on "+bad+": values of another dynamic type (which NewSimpleURL stores as well) are dropped from the text")
		if strings.HasPrefix(e.name, "page[") {
			// value printed with fmt.Sprint
			okSprint := false
			var walk func(v ssa.Value, depth int)
			walk = func(v ssa.Value, depth int) {
				if depth > 8 || v == nil {
					return
				}
				if c, ok := v.(*ssa.Call); ok {
					if calleeIs(c, "fmt", "Sprint") {
						okSprint = true
						return
					}
					for _, a := range c.Common().Args {
						walk(a, depth+1)
					}
					return
				}
				if bo, ok := v.(*ssa.BinOp); ok {
					walk(bo.X, depth+1)
					walk(bo.Y, depth+1)
				}
			}
			walk(e.elem, 0)
			r.decide(okSprint, "C08.emission-guards", "String:page-value:"+e.name, p.pos(e.call.Pos()), "printed with fmt.Sprint (any dynamic type)", "the value of "+e.name+" is not printed with fmt.Sprint: only some dynamic types are written")
		}
	}
}

// ---------------------------------------------------------------------------

func checkC08Trim(p *Prog, r *Report, f *ssa.Function) {
	n := 0
	type site struct {
		fn   *ssa.Function
		call *ssa.Call // the call of fn in String when fn is a helper
	}
	sites := []site{{f, nil}}
	for _, g := range stringHelpers(f) {
		eachInstr(f, func(ins ssa.Instruction) {
			if c, ok := ins.(*ssa.Call); ok && c.Common().StaticCallee() == g {
				sites = append(sites, site{g, c})
			}
		})
	}
	for _, st := range sites {
		fn := st.fn
		env := map[*ssa.Parameter]ssa.Value{}
		if st.call != nil {
			for i, prm := range fn.Params {
				if i < len(st.call.Common().Args) {
					env[prm] = st.call.Common().Args[i]
				}
			}
		}
		eachInstr(fn, func(ins ssa.Instruction) {
			sl, ok := ins.(*ssa.Slice)
			if !ok || sl.Low != nil || sl.High == nil {
				return
			}
			if bt, isB := sl.X.Type().Underlying().(*types.Basic); !isB || bt.Info()&types.IsString == 0 {
				return
			}
			bo, ok := sl.High.(*ssa.BinOp)
			if !ok || bo.Op != token.SUB {
				return
			}
			k, ok := constInt(bo.Y)
			if !ok {
				return
			}
			phi, ok := sl.X.(*ssa.Phi)
			if !ok {
				return
			}
			n++
			var ld *loopDesc
			for _, cand := range findLoops(fn) {
				if cand.header == phi.Block() {
					ld = cand
				}
			}
			// what is being trimmed, named after the text the accumulator starts with
			// (the parameter it builds), wherever the loop lives
			var initV ssa.Value
			if ld != nil {
				for i, e := range phi.Edges {
					if !ld.blocks[ld.header.Preds[i]] {
						initV = e
					}
				}
			}
			label := phi.Comment
			if initV != nil {
				if t, ok := nameTemplateEnv(initV, 0, env); ok && t != "" {
					label = t
				}
			}
			key := fmt.Sprintf("String:%s[:len-%d]", label, k)
			if ld == nil {
				r.bad("C08.separator-trim", key, p.pos(sl.Pos()), "the trimmed text is not a loop accumulator")
				return
			}
			// separator appended per iteration has k characters
			sepOK := false
			for i, e := range phi.Edges {
				if !ld.blocks[ld.header.Preds[i]] {
					continue
				}
				if add, ok := e.(*ssa.BinOp); ok && add.Op == token.ADD {
					tail := add.Y
					for {
						if t2, ok := tail.(*ssa.BinOp); ok && t2.Op == token.ADD {
							tail = t2.Y
							continue
						}
						break
					}
					if s, ok := constString(tail); ok && int64(len(s)) == k {
						sepOK = true
					}
				}
			}
			// zero iterations: the initial text has exactly k characters, or the
			// list is known non-empty (in the loop's function, or at the call site)
			zeroOK := false
			iv := initV
			if prm, isP := iv.(*ssa.Parameter); isP && env[prm] != nil {
				iv = env[prm]
			}
			if s0, ok := constString(iv); ok && int64(len(s0)) == k {
				zeroOK = true
			}
			nonEmpty := func(list ssa.Value, at *ssa.BasicBlock) bool {
				want := pathOf(list, 0)
				for _, ef := range expandFacts(factsAt(at)) {
					b2, ok := ef.Cond.(*ssa.BinOp)
					if !ok || !ef.Truth || b2.Op != token.GTR {
						continue
					}
					if c, _ := callOf(b2.X); c != nil && builtinName(c.Common()) == "len" && pathOf(c.Common().Args[0], 0) == want {
						if z, ok := constInt(b2.Y); ok && z == 0 {
							return true
						}
					}
				}
				return false
			}
			if !zeroOK && ld.src != nil {
				if nonEmpty(ld.src, ld.header) {
					zeroOK = true
				} else if prm, isP := ld.src.(*ssa.Parameter); isP && env[prm] != nil && st.call != nil {
					zeroOK = nonEmpty(env[prm], st.call.Block())
				}
			}
			switch {
			case !sepOK:
				r.bad("C08.separator-trim", key, p.pos(sl.Pos()), fmt.Sprintf("the loop does not end each item with a %d-character separator", k))
			case !zeroOK:
				r.bad("C08.separator-trim", key, p.pos(sl.Pos()), fmt.Sprintf("when the list is empty the trim removes the last %d characters of the parameter's own prefix: a damaged parameter is emitted (e.g. fields%%5Btype%% for a type without fields), which does not parse back", k))
			default:
				r.ok("C08.separator-trim", key, p.pos(sl.Pos()), "separator length matches and the empty case is sound")
			}
		})
	}
	r.floor("separator trims in URL.String", n, 1)
}

// leftmostConstWhole: the accumulator's initial value when it is a constant.
func leftmostConstWhole(phi *ssa.Phi, ld *loopDesc) (*string, bool) {
	for i, e := range phi.Edges {
		if ld.blocks[ld.header.Preds[i]] {
			continue
		}
		if s, ok := constString(e); ok {
			return &s, true
		}
	}
	return nil, false
}

// checkC08FieldsAccepted: see the rule text.
func checkC08FieldsAccepted(p *Prog, r *Report) {
	np := p.Fn("NewParams")
	if np == nil {
		r.fail("anchor NewParams not found")
		return
	}
	r.fn(funcName(np))
	n := 0
	for _, ld := range findLoops(np) {
		if ld.kind != "map" {
			continue
		}
		if _, fl, ok := fieldLoad(ld.src); !ok || fl != "Fields" || !strings.HasSuffix(typeStr(ld.src.Type()), "map[string][]string") {
			continue
		}
		base, _, _ := fieldLoad(ld.src)
		if !strings.HasSuffix(typeStr(deref(base.Type())), "SimpleURL") {
			continue
		}
		// the region: the loop and the tails of its early exits
		region := map[*ssa.BasicBlock]bool{}
		for b := range ld.blocks {
			region[b] = true
		}
		var grow func(b *ssa.BasicBlock)
		grow = func(b *ssa.BasicBlock) {
			if region[b] || len(b.Preds) != 1 {
				return
			}
			region[b] = true
			for _, s := range b.Succs {
				grow(s)
			}
		}
		for b := range ld.blocks {
			for _, s := range b.Succs {
				if !ld.blocks[s] && b != ld.header {
					grow(s)
				}
			}
		}
		// this iteration's own stores into maps: (map path, key value)
		type mstore struct {
			m   string
			key ssa.Value
			b   *ssa.BasicBlock
		}
		var own []mstore
		for b := range ld.blocks {
			for _, ins := range b.Instrs {
				if mu, ok := ins.(*ssa.MapUpdate); ok {
					own = append(own, mstore{pathOf(mu.Map, 0), mu.Key, b})
				}
			}
		}
		var pure func(v ssa.Value, at *ssa.BasicBlock, seen map[ssa.Value]bool) string
		pure = func(v ssa.Value, at *ssa.BasicBlock, seen map[ssa.Value]bool) string {
			if v == nil || seen[v] {
				return ""
			}
			seen[v] = true
			switch x := v.(type) {
			case *ssa.Const, *ssa.Parameter, *ssa.Function, *ssa.Builtin:
				return ""
			case *ssa.Extract:
				if x.Tuple == ssa.Value(ld.next) {
					return ""
				}
				return pure(x.Tuple, at, seen)
			case *ssa.Lookup:
				// a read of a map: fine when it reads what this iteration stored, or schema data
				mp := pathOf(x.X, 0)
				if strings.Contains(mp, "param:NewParams.schema") || strings.Contains(mp, "GetType(") || strings.Contains(mp, "val:") && !strings.Contains(mp, "params") {
					if w := pure(x.X, at, seen); w != "" {
						return w
					}
					return pure(x.Index, at, seen)
				}
				for _, o := range own {
					if o.m == mp && (o.key == x.Index || pathOf(o.key, 0) == pathOf(x.Index, 0)) && o.b.Dominates(x.Block()) {
						return pure(x.Index, at, seen)
					}
				}
				return "the entry " + shorten(p.describe(x)) + " (" + p.pos(x.Pos()) + ") as left by the parameters processed before"
			case *ssa.UnOp:
				if x.Op == token.MUL {
					if _, fl, ok := fieldLoad(x); ok {
						b, _, _ := fieldLoad(x)
						bt := typeStr(deref(b.Type()))
						if strings.HasSuffix(bt, "SimpleURL") && fl != "Fields" {
							return "the parsed parameter " + fl + " (" + p.pos(x.Pos()) + ")"
						}
					}
				}
				return pure(x.X, at, seen)
			case *ssa.Alloc:
				for _, ref := range referrers(x) {
					if st, ok := ref.(*ssa.Store); ok && st.Addr == ssa.Value(x) {
						if w := pure(st.Val, at, seen); w != "" {
							return w
						}
					}
				}
				return ""
			case *ssa.Call:
				for _, a := range x.Common().Args {
					if w := pure(a, at, seen); w != "" {
						return w
					}
				}
				if x.Common().IsInvoke() || x.Common().StaticCallee() == nil {
					return pure(x.Common().Value, at, seen)
				}
				return ""
			case ssa.Instruction:
				for _, op := range x.Operands(nil) {
					if *op != nil {
						if w := pure(*op, at, seen); w != "" {
							return w
						}
					}
				}
			}
			return ""
		}
		// a branch taken before this iteration has stored its own entry decides
		// whether the parameter is honoured at all (rejected, skipped or kept): its
		// condition must not read what other parameters left behind
		for b := range ld.blocks {
			ifi, ok := b.Instrs[len(b.Instrs)-1].(*ssa.If)
			if !ok || b == ld.header {
				continue
			}
			afterOwn := false
			for _, o := range own {
				if o.b.Dominates(b) {
					afterOwn = true
				}
			}
			if afterOwn {
				continue
			}
			if w := pure(ifi.Cond, b, map[ssa.Value]bool{}); w != "" {
				n++
				r.bad("C08.fields-accepted", "NewParams:branch:"+p.describe(ifi), p.pos(ifi.Pos()), "whether a fields[T] parameter is honoured depends on "+w+": String() prints fields[T] for every selected type but not the parameter that put it there, so parsing its own output can drop or refuse the selection")
			}
		}
		for b := range region {
			ret, ok := b.Instrs[len(b.Instrs)-1].(*ssa.Return)
			if !ok || len(ret.Results) != 2 || isNilConst(ret.Results[1]) {
				continue
			}
			n++
			why := ""
			for _, ef := range factsAt(b) {
				if ef.From == nil || !region[ef.From] {
					continue
				}
				if w := pure(ef.Cond, b, map[ssa.Value]bool{}); w != "" {
					why = w
				}
			}
			r.decide(why == "", "C08.fields-accepted", "NewParams:reject:"+p.describe(ret), p.pos(ret.Pos()), "rejected only for reasons computed from the type, its names and the schema", "a fields[T] parameter can be rejected depending on "+why+": String() prints fields[T] for every selected type but not the parameter that put it there, so its own output can be refused")
		}
	}
	r.floor("rejecting returns in the field-selection loop of NewParams", n, 2)
}

// accumulatorsSkippable: the accumulators (non-integer header phis) of the loop
// that some path round the loop leaves unchanged.
func accumulatorsSkippable(ld *loopDesc) (all []string, skippable []string) {
	for _, ins := range ld.header.Instrs {
		phi, ok := ins.(*ssa.Phi)
		if !ok {
			break
		}
		if bt, isB := phi.Type().Underlying().(*types.Basic); isB && bt.Info()&types.IsInteger != 0 {
			continue
		}
		name := phi.Comment
		if name == "" {
			name = phi.Name()
		}
		all = append(all, name)
		mayUnchanged := map[ssa.Value]bool{phi: true}
		for changed := true; changed; {
			changed = false
			for b := range ld.blocks {
				for _, i2 := range b.Instrs {
					ph2, ok := i2.(*ssa.Phi)
					if !ok || mayUnchanged[ph2] || ph2 == phi {
						continue
					}
					for _, e := range ph2.Edges {
						if mayUnchanged[e] {
							mayUnchanged[ph2] = true
							changed = true
						}
					}
				}
			}
		}
		for i, e := range phi.Edges {
			if ld.blocks[ld.header.Preds[i]] && mayUnchanged[e] {
				skippable = append(skippable, name)
				break
			}
		}
	}
	return
}

// checkToManyEmission: in MarshalResource the loop that writes a to-many
// relationship's identifiers adds one identifier for every element of the ID
// list (no iteration leaves the list being built unchanged).
func checkToManyEmission(p *Prog, r *Report, prefix string) {
	f := p.Fn("MarshalResource")
	if f == nil {
		r.fail("anchor MarshalResource not found")
		return
	}
	n := 0
	for _, ld := range findLoops(f) {
		if ld.kind != "slice" {
			continue
		}
		src := ld.src
		if ex, ok := src.(*ssa.Extract); ok {
			src = ex.Tuple
		}
		ta, ok := src.(*ssa.TypeAssert)
		if !ok {
			continue
		}
		if c, _ := callOf(ta.X); c == nil || !c.Common().IsInvoke() || c.Common().Method.Name() != "Get" {
			continue
		}
		n++
		all, skip := accumulatorsSkippable(ld)
		good := len(all) > 0 && len(skip) == 0
		if len(all) == 0 {
			// the list may be preallocated with the length of the ID list and filled by index
			good = indexFilled(ld) != nil
		}
		r.decide(good, prefix+".to-many-emission", "MarshalResource:ids-loop", p.pos(loopPos(ld)), "one identifier per element of the ID list", "an element of a to-many relationship's ID list can be passed over when its identifiers are written: the linkage emitted is not the list of IDs the resource holds")
	}
	r.floor("to-many emission loops in MarshalResource", n, 1)
}

// indexFilled: the loop stores out[i] for its own index i on every iteration,
// where out was made with the length of the list the loop ranges over.
// Returns the slice made, or nil.
func indexFilled(ld *loopDesc) *ssa.MakeSlice {
	for b := range ld.blocks {
		for _, ins := range b.Instrs {
			st, ok := ins.(*ssa.Store)
			if !ok {
				continue
			}
			ia, ok := st.Addr.(*ssa.IndexAddr)
			if !ok || ia.Index != ld.idx {
				continue
			}
			ms, ok := ia.X.(*ssa.MakeSlice)
			if !ok {
				continue
			}
			lc, _ := callOf(ms.Len)
			if lc == nil || builtinName(lc.Common()) != "len" || (lc.Common().Args[0] != ld.src && pathOf(lc.Common().Args[0], 0) != pathOf(ld.src, 0)) {
				continue
			}
			dom := true
			for _, pb := range ld.header.Preds {
				if ld.blocks[pb] && !b.Dominates(pb) {
					dom = false
				}
			}
			if dom {
				return ms
			}
		}
	}
	return nil
}

// checkSortCompletion: NewParams completes the caller's sorting rules with the
// attributes that are not yet mentioned. The membership test that decides
// "not yet mentioned" must scan the list that is being completed (the kept
// rules) - with any other list (the raw rules, say) the completed list is not
// a fixed point of print-and-parse.
func checkSortCompletion(p *Prog, r *Report) {
	f := p.Fn("NewParams")
	if f == nil {
		r.fail("anchor NewParams not found")
		return
	}
	n := 0
	eachInstr(f, func(ins ssa.Instruction) {
		st, ok := ins.(*ssa.Store)
		if !ok {
			return
		}
		fa, ok := st.Addr.(*ssa.FieldAddr)
		if !ok {
			return
		}
		if o, fl := fieldRef(fa.X, fa.Field); o != "Params" || fl != "SortingRules" {
			return
		}
		// find append(K, R...) on the way back from the stored value
		var spread *ssa.Call
		seen := map[ssa.Value]bool{}
		var back func(v ssa.Value, depth int)
		back = func(v ssa.Value, depth int) {
			if depth > 20 || seen[v] || spread != nil {
				return
			}
			seen[v] = true
			switch x := v.(type) {
			case *ssa.Phi:
				for _, e := range x.Edges {
					back(e, depth+1)
				}
			case *ssa.Call:
				if builtinName(x.Common()) != "append" || len(x.Common().Args) != 2 {
					return
				}
				if sl, ok := x.Common().Args[1].(*ssa.Slice); ok {
					if _, isArr := sl.X.(*ssa.Alloc); isArr {
						back(x.Common().Args[0], depth+1) // append(xs, "id"): explicit elements
						return
					}
				}
				spread = x
			}
		}
		back(st.Val, 0)
		if spread == nil {
			return
		}
		n++
		K, R := spread.Common().Args[0], spread.Common().Args[1]
		// the loop that builds R
		var rphi *ssa.Phi
		var find func(v ssa.Value, depth int)
		find = func(v ssa.Value, depth int) {
			if depth > 10 || rphi != nil {
				return
			}
			switch x := v.(type) {
			case *ssa.Phi:
				if naturalLoop(x.Block()) != nil {
					rphi = x
					return
				}
				for _, e := range x.Edges {
					find(e, depth+1)
				}
			case *ssa.Call:
				if builtinName(x.Common()) == "append" {
					find(x.Common().Args[0], depth+1)
				}
			}
		}
		find(R, 0)
		key := "NewParams:" + p.describe(spread)
		if rphi == nil {
			r.ok("C08.sort-completion", key, p.pos(spread.Pos()), "the completing list is not built by a loop here (not covered)")
			return
		}
		loop := naturalLoop(rphi.Block())
		// lists of strings scanned inside that loop: indexed in an inner loop,
		// or handed to a function of the package
		scanned := map[ssa.Value]string{}
		for b := range loop {
			for _, i2 := range b.Instrs {
				switch x := i2.(type) {
				case *ssa.IndexAddr:
					if isStringSlice(x.X.Type()) {
						scanned[x.X] = p.describe(x)
					}
				case *ssa.Call:
					g := x.Common().StaticCallee()
					if g == nil || !p.inTarget(g) {
						continue
					}
					for _, a := range x.Common().Args {
						if isStringSlice(a.Type()) {
							scanned[a] = p.describe(x)
						}
					}
				}
			}
		}
		if len(scanned) == 0 {
			// membership through a local set of names: the set must receive a
			// name only where the rule that carries it is appended to the kept list
			var sets []*ssa.MakeMap
			for b := range loop {
				for _, i2 := range b.Instrs {
					if lk, ok := i2.(*ssa.Lookup); ok {
						if mk, ok := lk.X.(*ssa.MakeMap); ok {
							sets = append(sets, mk)
						}
					}
				}
			}
			if len(sets) == 0 {
				r.ok("C08.sort-completion", key, p.pos(spread.Pos()), "no list is scanned while the rules are completed (membership decided otherwise: not covered)")
				return
			}
			bad := ""
			for _, mk := range sets {
				for _, ref := range referrers(mk) {
					mu, ok := ref.(*ssa.MapUpdate)
					if !ok {
						continue
					}
					appends := false
					for _, i2 := range mu.Block().Instrs {
						if c, ok := i2.(*ssa.Call); ok && builtinName(c.Common()) == "append" && len(c.Common().Args) == 2 {
							if sameListVar(stripValue(c.Common().Args[0]), stripValue(K)) || sameListVar(stripValue(K), ssa.Value(c)) {
								appends = true
							}
						}
					}
					if !appends {
						bad = p.describe(mu)
					}
				}
			}
			r.decide(bad == "", "C08.sort-completion", key, p.pos(spread.Pos()), "the set of mentioned names receives a name only where its rule is kept",
				"the set that decides which attributes are still missing is filled ("+bad+") where no rule is appended to the kept list: a rule that was dropped still hides its attribute, so String() of the parsed URL does not parse back to the same rules")
			return
		}
		bad := ""
		for l, where := range scanned {
			if l == K || sameAccumulation(l, K) {
				continue
			}
			// the list being built itself
			if l == ssa.Value(rphi) || sameAccumulation(l, rphi) {
				continue
			}
			bad = where
		}
		r.decide(bad == "", "C08.sort-completion", key, p.pos(spread.Pos()), "the attributes added are those not mentioned in the very list they are added to",
			"the sorting rules are completed with the attributes missing from another list than the one being completed ("+bad+"): a rule the caller gave after id is dropped but still hides its attribute, so String() of the parsed URL does not parse back to the same rules")
	})
	r.floor("completions of the sorting rules", n, 1)
}

func isStringSlice(t types.Type) bool {
	sl, ok := t.Underlying().(*types.Slice)
	if !ok {
		return false
	}
	bt, ok := sl.Elem().Underlying().(*types.Basic)
	return ok && bt.Info()&types.IsString != 0
}

// sameAccumulation: a and b are the same list variable at different points of
// its accumulation with no way for one to hold elements the other lacks at
// the point of use - here simply: one is a phi that merges the other with
// itself unchanged, or they are identical.
func sameAccumulation(a, b ssa.Value) bool {
	if a == b {
		return true
	}
	for _, pr := range [][2]ssa.Value{{a, b}, {b, a}} {
		if phi, ok := pr[0].(*ssa.Phi); ok {
			all := true
			for _, e := range phi.Edges {
				if e != pr[1] && e != ssa.Value(phi) {
					all = false
				}
			}
			if all {
				return true
			}
		}
	}
	return false
}

// checkListSplit: String() writes the items of fields[...] and sort lists
// separated by a comma and nothing else; NewSimpleURL's readers must cut the
// lists at commas only. Every standard-library splitter used on the way from
// NewSimpleURL (parseCommaList and the like) is strings.Split / SplitN(-1)
// with the constant separator ",".
func checkListSplit(p *Prog, r *Report, ns *ssa.Function) {
	n := 0
	var scope []*ssa.Function
	for _, g := range p.cg.Reachable(ns) {
		if g.Pkg == ns.Pkg {
			scope = append(scope, g)
		}
	}
	// the separator: a constant, or a parameter that every call in scope binds
	// to an accepted constant
	var sepOK func(v ssa.Value, depth int) bool
	sepOK = func(v ssa.Value, depth int) bool {
		if sep, ok := constString(v); ok {
			return sep == "," || sep == "/"
		}
		prm, ok := v.(*ssa.Parameter)
		if !ok || depth > 2 {
			return false
		}
		g := prm.Parent()
		idx := -1
		for i, q := range g.Params {
			if q == prm {
				idx = i
			}
		}
		nCalls, all := 0, true
		for _, h := range scope {
			eachInstr(h, func(i2 ssa.Instruction) {
				c2, ok := i2.(*ssa.Call)
				if !ok || c2.Common().StaticCallee() != g || idx < 0 || idx >= len(c2.Common().Args) {
					return
				}
				nCalls++
				if !sepOK(c2.Common().Args[idx], depth+1) {
					all = false
				}
			})
		}
		return nCalls > 0 && all
	}
	nDec := 0
	for _, g := range scope {
		eachInstr(g, func(ins ssa.Instruction) {
			c, ok := ins.(*ssa.Call)
			if !ok || c.Common().StaticCallee() == nil {
				return
			}
			if nm := fullName(c.Common().StaticCallee()); nm == "net/url.PathUnescape" || nm == "net/url.QueryUnescape" {
				nDec++
				r.bad("C08.single-decoding", funcName(g)+":"+p.describe(c), p.pos(c.Pos()), "a value taken from the parsed URL (already percent-decoded by net/url) is decoded a second time: an ID that contains a literal percent escape (printed by String() as %25..) reads back as another ID")
			}
		})
	}
	if nDec == 0 {
		r.ok("C08.single-decoding", "NewSimpleURL:no-second-decoding", p.pos(ns.Pos()), "no percent-decoding call on the NewSimpleURL path")
	}
	for _, g := range scope {
		eachInstr(g, func(ins ssa.Instruction) {
			c, ok := ins.(*ssa.Call)
			if !ok || c.Common().StaticCallee() == nil || c.Common().StaticCallee().Pkg == nil || c.Common().StaticCallee().Pkg.Pkg.Path() != "strings" {
				return
			}
			st, ok := c.Type().Underlying().(*types.Slice)
			if !ok {
				return
			}
			if b, ok := st.Elem().Underlying().(*types.Basic); !ok || b.Info()&types.IsString == 0 {
				return
			}
			n++
			name := c.Common().StaticCallee().Name()
			good := false
			if (name == "Split" || name == "SplitN") && len(c.Common().Args) >= 2 && sepOK(c.Common().Args[1], 0) {
				good = true
			}
			r.decide(good, "C08.list-split", funcName(g)+":"+p.describe(c), p.pos(c.Pos()), "lists are cut at the separator String() writes",
				"a list read from the URL is cut with "+name+" at something other than the single comma (or slash, for the path) that String() writes between items: a name containing the extra separator (a space, say) is printed as one item and read back as two, so String() is not a fixed point of parsing")
		})
	}
	r.floor("list splitters on the NewSimpleURL path", n, 1)
}

// checkFilterVerbatim: the filter printed by String() is the Filter's own
// Field/Op/Col re-marshaled; it parses back to the same tree only if
// Filter.UnmarshalJSON stores those members as decoded. Every store into
// Field, Op or Col of the receiver is a member of the decoded skeleton as is,
// or a constant (the reset of Field for and/or).
func checkFilterVerbatim(p *Prog, r *Report) {
	f := p.Fn("(*Filter).UnmarshalJSON")
	if f == nil {
		r.fail("anchor (*Filter).UnmarshalJSON not found")
		return
	}
	n := 0
	eachInstr(f, func(ins ssa.Instruction) {
		st, ok := ins.(*ssa.Store)
		if !ok {
			return
		}
		fa, ok := st.Addr.(*ssa.FieldAddr)
		if !ok || fa.X != ssa.Value(f.Params[0]) {
			return
		}
		_, fl := fieldRef(fa.X, fa.Field)
		if fl != "Field" && fl != "Op" && fl != "Col" {
			return
		}
		n++
		good := true
		for _, o := range origins(st.Val) {
			if _, isConst := o.(*ssa.Const); isConst {
				continue
			}
			if _, _, isField := fieldLoad(o); isField {
				continue
			}
			good = false
		}
		r.decide(good, "C08.filter-verbatim", "(*Filter).UnmarshalJSON:"+p.describe(st), p.pos(st.Pos()), "stored as decoded",
			"Filter.UnmarshalJSON stores a transformed value into "+fl+" (lower-cased, trimmed, …) while its own decisions and String()'s output use the raw one: the printed filter does not parse back to the same tree, so String() is not a fixed point")
	})
	r.floor("stores into Filter.Field/Op/Col", n, 3)
}
