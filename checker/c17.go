package main

func init() { register("C17", checkC17) }

func checkC17(p *Prog, r *Report) {
	kt := buildKindTable(p, r)
	kt.checkNameTables(r)
	kt.checkUnmarshalTypes(r)
}
