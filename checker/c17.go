package main

import (
	"fmt"
	"go/constant"
	"go/token"
	"go/types"
	"os"
	"reflect"
	"sort"
	"strings"

	"golang.org/x/tools/go/ssa"
)

func init() { register("C17", checkC17) }

func checkC17(p *Prog, r *Report) {
	r.rule("C17.wrapper-new: Wrapper.New wraps reflect.New(<wrapped type>).Interface(), a zero value, never the wrapped value itself")
	checkWrapperNew(p, r, "C17")
	r.rule("C17.inspectors-pure: BuildType, Wrap, Check, IDAndType and what they call in the package use no package-level variable that is modified at run time (no cache keyed by type or name): what they report for a struct depends on that struct alone")
	checkInspectorsPure(p, r, "C17")
	r.rule("C17.id-field: Wrapper.SetID stores through FieldByName(\"ID\") of the wrapped value (the field Check validates by its Go name) and GetID reads the ID from the wrapped value on every call; the Wrapper keeps no ID of its own")
	checkWrapperID(p, r, "C17")
	r.rule("C17.get-api-only: where Wrapper.getField (or its search helper) matches the key against a json tag it also tests the field's api tag, so Get only reads fields that belong to the resource")
	checkGetFieldAPIOnly(p, r, "C17")
	r.rule("C17.field-loops: every loop bounded by NumField() in Wrap, BuildType, Check and the Wrapper's methods visits fields 0 … NumField()-1, so the wrapper reports every declared field (shared with C20)")
	checkFieldLoopsFull(p, r, "C17")
	r.rule("C17.set-always-stores: every return of Wrapper.setField is preceded, on every path, by a reflect Set on the located field")
	r.rule("C17.equal-counts: Equal compares the lengths of the two attribute lists and of the two relationship lists with != and returns false when they differ")
	checkSetAlwaysStores(p, r)
	checkEqualCounts(p, r)
	r.rule("C17.check-complete: every return of SoftResource.check lies behind its loops that zero-fill missing attributes and relationships (shared with C09)")
	checkSoftCheckComplete(p, r, "C17")
	r.rule("R1 kind table: zero values (typed nil pointers for nullable kinds), name tables and %T classification (see C01), and the Set gate of SoftResource on kind and nullability")
	r.rule("C17.zero-fill: SoftResource.check stores, for every attribute without a value, GetZeroValue(<that attribute's kind>, <that attribute's nullability>), and for every relationship without a value \"\" when it is to-one and an empty []string otherwise")
	r.rule("C17.get-returns-stored: SoftResource.Get returns GetID() for \"id\", the value found in the data map under the key for fields of the type, and nil otherwise - nothing is transformed on the way out")
	r.rule("C17.set-stores-given: SoftResource.Set stores the very value it was given (or the kind's typed nil for an untyped nil on a nullable attribute) and writes nothing reachable from that value (mod analysis: no write rooted at the value parameter); Wrapper.setField hands reflect.Value.Set exactly reflect.ValueOf(v) (or the zero value of the field's type for nil)")
	r.rule("C17.new-pure / C17.new-result: Type.New stores nothing into its receiver (a memoised constructor would travel with Type.Copy and value copies to derived types) and returns either the receiver's NewFunc() or a newly allocated SoftResource whose Type is the receiver")
	r.rule("C17.build-wrap (shared with C20.sibling-agreement): for the same answers about each struct field BuildType and Wrap record the same attributes and relationships (kind, nullability, cardinality, target, inverse), so a wrapped struct and a soft resource of the built type expose the same fields")
	r.rule("C17.not-found-panic (shared with C20): Wrapper.getField / setField panic only for an empty key, a value of another type, or after an exhaustive scan of the struct's fields found no such json tag, so Get and Set of a declared field never panic")
	r.rule("C17.id: both implementations special-case \"id\" in Get and Set (Get returns GetID(), Set stores the string and returns)")
	r.rule("C17.tag-agreement: Wrapper.getField and setField locate the field by comparing the key with the json tag")
	r.rule("C17.equal (scenario evaluation of Equal): with one to-many relationship whose two values differ, Equal returns false unless both are empty - in particular when exactly one of them is empty; EqualStrict is the ID comparison followed by Equal; likewise with one attribute whose two values are not DeepEqual, Equal returns false unless BOTH values print as <nil> (each side decided separately, so a test that reads the same side twice is seen)")
	r.rule("C17.equal-names (merge-join key check): where Equal walks two name-sorted lists in lock-step, the names at the same position are compared before the values")
	r.assume("reflect.Value.Set/Interface store and return the value they are given; reflect.DeepEqual is value equality")
	r.notCovered("reflexivity and symmetry of the equality helpers as value-level laws; arbitrary Set histories on a Wrapper beyond the single store (delegated to reflect)")

	kt := buildKindTable(p, r)
	kt.checkNameTables(r)
	checkSetGate(p, r, kt)
	checkZeroFill(p, r)
	checkTypeNew(p, r)
	checkNotFoundPanics(p, r, "C17")
	nBW := r.importRules(func(r2 *Report) { checkBuildWrapAgreement(p, r2) }, "C17.build-wrap", "C20.sibling-agreement")
	r.floor("imported BuildType/Wrap agreement obligations", nBW, 2)
	checkSoftGetSet(p, r)
	checkWrapperGetSet(p, r)
	checkEqualHelpers(p, r)
}

func checkZeroFill(p *Prog, r *Report) {
	f := p.Fn("(*SoftResource).check")
	if f == nil {
		r.fail("anchor (*SoftResource).check not found")
		return
	}
	r.fn(funcName(f))
	nAttr, nRel := 0, 0
	eachInstrOf(append([]*ssa.Function{f}, stringHelpers(f)...), func(ins ssa.Instruction) {
		mu, ok := ins.(*ssa.MapUpdate)
		if !ok {
			return
		}
		mt := mu.Map.Type().Underlying().(*types.Map)
		if !isEmptyIface(mt.Elem()) {
			return
		}
		// attribute zero: GetZeroValue(X.Type, X.Nullable) with X the attribute whose Name is the key
		if c, _ := callOf(mu.Value); c != nil {
			if g := c.Common().StaticCallee(); g != nil && g.Name() == "GetZeroValue" {
				nAttr++
				tb, tf, ok1 := fieldLoad(c.Common().Args[0])
				nb, nf, ok2 := fieldLoad(c.Common().Args[1])
				kb, kf, ok3 := fieldLoad(mu.Key)
				same := func(a, b ssa.Value) bool {
					if a == b {
						return true
					}
					// loads of the same map element attrs[i]
					la, ok1 := a.(*ssa.Lookup)
					lb, ok2 := b.(*ssa.Lookup)
					return ok1 && ok2 && la.Index == lb.Index
				}
				good := ok1 && ok2 && ok3 && tf == "Type" && nf == "Nullable" && kf == "Name" && same(tb, nb) && same(tb, kb)
				r.decide(good, "C17.zero-fill", "check:attribute-zero", p.pos(mu.Pos()), "data[attr.Name] = GetZeroValue(attr.Type, attr.Nullable) for the same attribute",
					"a missing attribute is not initialised with GetZeroValue of its own kind and nullability")
			}
			return
		}
		// relationship zero
		var ts string
		if mi, ok := mu.Value.(*ssa.MakeInterface); ok {
			ts = fmtTypeString(mi.X.Type())
			toOne := 0
			for _, ef := range expandFacts(factsAt(mu.Block())) {
				if _, fl, ok := fieldLoad(ef.Cond); ok && fl == "ToOne" {
					if ef.Truth {
						toOne = 1
					} else {
						toOne = -1
					}
				}
			}
			if toOne == 0 {
				return
			}
			nRel++
			good := false
			if toOne == 1 {
				s, isC := constString(mi.X)
				good = ts == "string" && isC && s == ""
			} else {
				good = ts == "[]string" && valKind(mi.X) == "empty"
				if sl, ok := mi.X.(*ssa.Slice); ok {
					if al, ok := sl.X.(*ssa.Alloc); ok {
						if at, ok := deref(al.Type()).Underlying().(*types.Array); ok && at.Len() == 0 {
							good = ts == "[]string"
						}
					}
				}
			}
			r.decide(good, "C17.zero-fill", fmt.Sprintf("check:relationship-zero:toOne=%v", toOne == 1), p.pos(mu.Pos()), "\"\" for to-one, empty []string for to-many",
				"a missing relationship is not initialised with \"\" (to-one) / an empty []string (to-many): got a "+ts)
		}
	})
	r.floor("attribute zero stores in check", nAttr, 1)
	r.floor("relationship zero stores in check", nRel, 2)
}

func checkSoftGetSet(p *Prog, r *Report) {
	get, set := p.Fn("(*SoftResource).Get"), p.Fn("(*SoftResource).Set")
	if get == nil || set == nil {
		r.fail("anchors (*SoftResource).Get / Set not found")
		return
	}
	r.fn(funcName(get))
	r.fn(funcName(set))
	// Get: each return is GetID() boxed (under key == "id"), nil, or the value of a lookup data[key]
	eachInstr(get, func(ins ssa.Instruction) {
		ret, ok := ins.(*ssa.Return)
		if !ok || len(ret.Results) != 1 {
			return
		}
		v := ret.Results[0]
		key := "Get:" + p.describe(ret)
		// one value under the branch outcomes that hold where it is produced
		judge := func(v ssa.Value, facts []edgeFact) (bool, string) {
			if isNilConst(v) {
				return true, "nil for names outside the type"
			}
			if mi, ok := v.(*ssa.MakeInterface); ok {
				if c, _ := callOf(mi.X); c != nil && c.Common().StaticCallee() != nil && c.Common().StaticCallee().Name() == "GetID" {
					for _, ef := range expandFacts(facts) {
						if bo, ok := ef.Cond.(*ssa.BinOp); ok && bo.Op == token.EQL && ef.Truth {
							if s, ok := constString(bo.Y); ok && s == "id" && bo.X == ssa.Value(get.Params[1]) {
								return true, "GetID() under key == \"id\""
							}
						}
					}
					return false, ""
				}
			}
			lkv := v
			if ex, ok := v.(*ssa.Extract); ok && ex.Index == 0 {
				lkv = ex.Tuple
			}
			if lk, ok := lkv.(*ssa.Lookup); ok && lk.Index == ssa.Value(get.Params[1]) {
				if _, fl, ok := fieldLoad(lk.X); ok && fl == "data" {
					return true, "the value stored under the key (nil when there is none)"
				}
			}
			return false, ""
		}
		good, why := false, ""
		if phi, isPhi := v.(*ssa.Phi); isPhi && len(phi.Edges) > 0 {
			// single exit: every value merged into the result is judged on its edge
			good = true
			for k, e := range phi.Edges {
				pred := phi.Block().Preds[k]
				facts := factsAt(pred)
				if ifi, ok := pred.Instrs[len(pred.Instrs)-1].(*ssa.If); ok && pred.Succs[0] != pred.Succs[1] {
					facts = append(facts, edgeFact{Cond: ifi.Cond, Truth: pred.Succs[0] == phi.Block(), From: pred})
				}
				if ok, _ := judge(e, facts); !ok {
					good = false
				}
			}
			why = "every value merged into the result is GetID() for \"id\", the stored value, or nil"
		} else {
			good, why = judge(v, factsAt(ret.Block()))
		}
		r.decide(good, "C17.get-returns-stored", key, p.pos(ret.Pos()), why, "Get returns something other than the stored value, GetID() for \"id\", or nil")
	})
	// Set: what is stored (in Set itself or in the small helpers it hands key and value to)
	isGiven := func(v ssa.Value, target *ssa.Parameter) bool {
		if v == ssa.Value(target) {
			return true
		}
		prm, ok := v.(*ssa.Parameter)
		if !ok || prm.Parent() == set {
			return false
		}
		return boundToInCalls(set, prm, target)
	}
	eachInstrOf(append([]*ssa.Function{set}, stringHelpers(set)...), func(ins ssa.Instruction) {
		mu, ok := ins.(*ssa.MapUpdate)
		if !ok {
			return
		}
		if _, fl, ok := fieldLoad(mu.Map); !ok || fl != "data" {
			return
		}
		key := "Set:" + p.describe(mu)
		good := isGiven(mu.Value, set.Params[2]) && isGiven(mu.Key, set.Params[1])
		if !good {
			if c, _ := callOf(mu.Value); c != nil && c.Common().StaticCallee() != nil && c.Common().StaticCallee().Name() == "GetZeroValue" {
				// typed nil for an untyped nil on a nullable attribute
				nilFact, nullableFact := false, false
				for _, ef := range expandFacts(factsAt(mu.Block())) {
					if bo, ok := ef.Cond.(*ssa.BinOp); ok && bo.Op == token.EQL && ef.Truth && isGiven(bo.X, set.Params[2]) && isNilConst(bo.Y) {
						nilFact = true
					}
					if _, fl, ok := fieldLoad(ef.Cond); ok && fl == "Nullable" && ef.Truth {
						nullableFact = true
					}
				}
				good = nilFact && nullableFact && isGiven(mu.Key, set.Params[1])
			}
		}
		r.decide(good, "C17.set-stores-given", key, p.pos(mu.Pos()), "stores the given value under the given key (or the typed nil for nil on a nullable attribute)",
			"Set stores something other than the value it was given under the key it was given")
	})
	// id handling
	idOK := false
	eachInstr(set, func(ins ssa.Instruction) {
		st, ok := ins.(*ssa.Store)
		if !ok {
			return
		}
		if fa, ok := st.Addr.(*ssa.FieldAddr); ok {
			if _, fl := fieldRef(fa.X, fa.Field); fl == "id" {
				for _, ef := range expandFacts(factsAt(st.Block())) {
					if bo, ok := ef.Cond.(*ssa.BinOp); ok && bo.Op == token.EQL && ef.Truth {
						if s, ok := constString(bo.Y); ok && s == "id" {
							// followed by a return without further stores
							if _, isRet := st.Block().Instrs[len(st.Block().Instrs)-1].(*ssa.Return); isRet {
								idOK = true
							}
						}
					}
				}
			}
		}
	})
	r.decide(idOK, "C17.id", "(*SoftResource).Set:id", p.pos(set.Pos()), "Set(\"id\", v) stores the ID and returns", "SoftResource.Set does not special-case \"id\" (store the ID, then return)")
	// mod analysis: nothing reachable from v is written
	h := newHeap(p)
	for _, f := range []*ssa.Function{set, p.Fn("(*Wrapper).Set")} {
		if f == nil {
			continue
		}
		bad := 0
		for _, m := range h.ModsOf(f) {
			if rootOf(m.Loc) == "P2" {
				bad++
				r.bad("C17.set-stores-given", fmt.Sprintf("%s:writes-argument:%s:%s", funcName(f), m.Kind, m.Loc), p.pos(m.Pos),
					funcName(f)+" modifies the value it is given ("+m.Kind+" of "+m.Loc+" in "+m.Fn+"): "+m.Desc+" - the caller's value changes and Get no longer returns what was set")
			}
		}
		if bad == 0 {
			r.ok("C17.set-stores-given", funcName(f)+":argument-untouched", p.pos(f.Pos()), "no write rooted at the value parameter in the interprocedural write summary")
		}
	}
}

func checkWrapperGetSet(p *Prog, r *Report) {
	get, set, sf, gf := p.Fn("(*Wrapper).Get"), p.Fn("(*Wrapper).Set"), p.Fn("(*Wrapper).setField"), p.Fn("(*Wrapper).getField")
	if get == nil || set == nil || sf == nil || gf == nil {
		r.fail("anchors of the Wrapper's Get/Set not found")
		return
	}
	for _, f := range []*ssa.Function{get, set, sf, gf} {
		r.fn(funcName(f))
	}
	// Get("id") -> GetID()
	okGet := false
	eachInstr(get, func(ins ssa.Instruction) {
		ret, ok := ins.(*ssa.Return)
		if !ok {
			return
		}
		if mi, ok := ret.Results[0].(*ssa.MakeInterface); ok {
			if c, _ := callOf(mi.X); c != nil && c.Common().StaticCallee() != nil && c.Common().StaticCallee().Name() == "GetID" {
				okGet = true
			}
		}
	})
	r.decide(okGet, "C17.id", "(*Wrapper).Get:id", p.pos(get.Pos()), "Get(\"id\") returns GetID()", "Wrapper.Get does not return GetID() for \"id\"")
	// Set("id") -> SetID then return
	okSet := false
	eachInstr(set, func(ins ssa.Instruction) {
		c, ok := ins.(*ssa.Call)
		if !ok || c.Common().StaticCallee() == nil || c.Common().StaticCallee().Name() != "SetID" {
			return
		}
		if _, isRet := c.Block().Instrs[len(c.Block().Instrs)-1].(*ssa.Return); isRet {
			okSet = true
			return
		}
		// or the field search is simply not reachable after it (a switch on
		// the key with the search in another arm)
		searchAfter := false
		nSearch := 0
		eachInstr(set, func(i2 ssa.Instruction) {
			c2, ok := i2.(*ssa.Call)
			if !ok || c2.Common().StaticCallee() == nil || c2.Common().StaticCallee().Name() != "setField" {
				return
			}
			nSearch++
			if reachableAvoiding(c, c2, nil) {
				searchAfter = true
			}
		})
		if nSearch > 0 && !searchAfter {
			okSet = true
		}
	})
	r.decide(okSet, "C17.id", "(*Wrapper).Set:id", p.pos(set.Pos()), "Set(\"id\", v) calls SetID and returns", "Wrapper.Set does not return after setting the ID (it goes on to look for a field tagged \"id\")")
	// and nothing is silently dropped: every return of Set has gone through
	// SetID or through the field setter
	eachInstr(set, func(ins ssa.Instruction) {
		ret, ok := ins.(*ssa.Return)
		if !ok {
			return
		}
		stored := mustPassInstr(set, ret, func(i2 ssa.Instruction) bool {
			c, ok := i2.(*ssa.Call)
			if !ok || c.Common().StaticCallee() == nil {
				return false
			}
			nm := c.Common().StaticCallee().Name()
			return nm == "SetID" || nm == "setField"
		})
		r.decide(stored, "C17.id", "(*Wrapper).Set:always-sets:"+p.describe(ret), p.pos(ret.Pos()), "every path through Set calls SetID or setField",
			"Wrapper.Set can return without having called SetID or the field setter: some value (an empty ID, say) is silently ignored, so Get does not read back what was Set while a soft resource stores it")
	})
	// setField: reflect.Set argument is reflect.ValueOf(v) or the zero of the field type
	n := 0
	// the value given to setField, also as the parameter of an assignment
	// helper that every call in setField hands it to
	givenV := func(x ssa.Value) bool {
		if x == ssa.Value(sf.Params[2]) {
			return true
		}
		prm, ok := x.(*ssa.Parameter)
		return ok && boundToInCalls(sf, prm, sf.Params[2])
	}
	eachInstrOf(append([]*ssa.Function{sf}, setFieldHelpers(sf)...), func(ins ssa.Instruction) {
		c, ok := ins.(*ssa.Call)
		if !ok {
			return
		}
		g := c.Common().StaticCallee()
		if g == nil || fullName(g) != "reflect.(Value).Set" {
			return
		}
		n++
		arg := c.Common().Args[1]
		good := false
		why := ""
		// one source of the stored value: reflect.ValueOf(v), or the field
		// type's zero value on a path where v == nil was established
		okSource := func(v ssa.Value, at *ssa.BasicBlock, viaEdgeFrom *ssa.BasicBlock) (bool, string) {
			vc, _ := callOf(v)
			if vc == nil || vc.Common().StaticCallee() == nil {
				return false, ""
			}
			switch fullName(vc.Common().StaticCallee()) {
			case "reflect.ValueOf":
				return givenV(vc.Common().Args[0]), "stores reflect.ValueOf(v) for the given v"
			case "reflect.(Value).Elem", "reflect.Zero":
				facts := factsAt(at)
				if viaEdgeFrom != nil {
					facts = append(facts, factsAt(viaEdgeFrom)...)
				}
				for _, ef := range expandFacts(facts) {
					if bo, ok := ef.Cond.(*ssa.BinOp); ok && bo.Op == token.EQL && ef.Truth && givenV(bo.X) && isNilConst(bo.Y) {
						return true, "stores the field type's zero value for an untyped nil"
					}
				}
			}
			return false, ""
		}
		if phi, isPhi := arg.(*ssa.Phi); isPhi {
			// the two sources merged before one Set
			good = len(phi.Edges) > 0
			for i, e := range phi.Edges {
				ok, w := okSource(e, phi.Block().Preds[i], phi.Block().Preds[i])
				if !ok {
					good = false
				}
				why = w
			}
			if good {
				why = "stores reflect.ValueOf(v), or the field type's zero value for an untyped nil"
			}
		} else {
			good, why = okSource(arg, c.Block(), nil)
		}
		r.decide(good, "C17.set-stores-given", "setField:"+p.describe(c), p.pos(c.Pos()), why,
			"Wrapper.setField stores something other than the value it was given (e.g. a copy or a freshly allocated pointer): a typed nil no longer reads back as nil, or Get returns a different object than was set")
	})
	r.floor("reflect.Set calls in setField", n, 1)
	// tag agreement (both compare the key with the json tag): see C20.names; repeat here
	for _, f := range []*ssa.Function{gf, sf} {
		good := locatesByJSONTag(f, f.Params[1], 0)
		r.decide(good, "C17.tag-agreement", funcName(f)+":json-tag", p.pos(f.Pos()), "field located by key == json tag", funcName(f)+" does not locate the field by its json tag")
	}
	// getField returns field.Interface() of the located field
	okIface := false
	eachInstr(gf, func(ins ssa.Instruction) {
		ret, ok := ins.(*ssa.Return)
		if !ok || isNilConst(ret.Results[0]) {
			return
		}
		// the result, or (single exit) every non-nil value merged into it
		for _, o := range origins(ret.Results[0]) {
			if c, _ := callOf(o); c != nil && c.Common().StaticCallee() != nil && fullName(c.Common().StaticCallee()) == "reflect.(Value).Interface" {
				okIface = true
			} else if !isNilConst(o) {
				okIface = false
				return
			}
		}
	})
	r.decide(okIface, "C17.get-returns-stored", "getField:returns-Interface()", p.pos(gf.Pos()), "returns the field's value as is", "Wrapper.getField does not return the located field's value as is")
	// the untyped nil is handed out for nil POINTER fields only (a nil byte
	// slice is a value of its kind and reads as such)
	nilOK := func(facts []edgeFact) bool {
		isNil, isPtr := false, false
		for _, ef := range expandFacts(facts) {
			switch c := ef.Cond.(type) {
			case *ssa.Call:
				g := c.Common().StaticCallee()
				if g == nil || !ef.Truth {
					continue
				}
				switch fullName(g) {
				case "reflect.(Value).IsNil":
					isNil = true
				case "strings.HasPrefix":
					if s, ok := constString(c.Common().Args[1]); ok && s == "*" {
						isPtr = true
					}
				}
			case *ssa.BinOp:
				op := c.Op
				if !ef.Truth {
					op = negateCmp(op)
				}
				if op != token.EQL {
					continue
				}
				for _, pr := range [][2]ssa.Value{{c.X, c.Y}, {c.Y, c.X}} {
					k, isK := constInt(pr[1])
					kc, _ := callOf(pr[0])
					if isK && k == int64(reflect.Ptr) && kc != nil && kc.Common().StaticCallee() != nil && strings.HasSuffix(fullName(kc.Common().StaticCallee()), ".Kind") {
						isPtr = true
					}
				}
			}
		}
		return isNil && isPtr
	}
	nNil := 0
	eachInstr(gf, func(ins ssa.Instruction) {
		ret, ok := ins.(*ssa.Return)
		if !ok {
			return
		}
		type src struct {
			facts []edgeFact
		}
		var srcs []src
		if isNilConst(ret.Results[0]) {
			srcs = append(srcs, src{factsAt(ret.Block())})
		} else if phi, ok := ret.Results[0].(*ssa.Phi); ok {
			for i, e := range phi.Edges {
				if !isNilConst(e) {
					continue
				}
				pred := phi.Block().Preds[i]
				facts := append([]edgeFact{}, factsAt(pred)...)
				if ifi, ok := pred.Instrs[len(pred.Instrs)-1].(*ssa.If); ok && pred.Succs[0] != pred.Succs[1] {
					facts = append(facts, edgeFact{Cond: ifi.Cond, Truth: pred.Succs[0] == phi.Block(), From: pred})
				}
				srcs = append(srcs, src{facts})
			}
		}
		for k, s := range srcs {
			nNil++
			r.decide(nilOK(s.facts), "C17.get-returns-stored", fmt.Sprintf("getField:nil-for-nil-pointer:%s#%d", p.describe(ret), k), p.pos(ret.Pos()), "nil is returned for a nil pointer field only",
				"Wrapper.getField returns the untyped nil without having established that the field is a nil POINTER: a nil byte slice (the zero value of a non-nullable bytes attribute) reads as nil from a wrapped struct and as an empty byte string from a soft resource")
		}
	})
	r.count("nil results of getField", nNil)
}

func checkEqualHelpers(p *Prog, r *Report) {
	eq, eqs := p.Fn("Equal"), p.Fn("EqualStrict")
	if eq == nil || eqs == nil {
		r.fail("anchors Equal / EqualStrict not found")
		return
	}
	r.fn("Equal")
	r.fn("EqualStrict")
	// EqualStrict: returns Equal(r1, r2) or false under ids differ
	okStrict := true
	nRet := 0
	eachInstr(eqs, func(ins ssa.Instruction) {
		ret, ok := ins.(*ssa.Return)
		if !ok {
			return
		}
		nRet++
		// the result is false, or Equal(r1, r2); an && of the ID test and the
		// call reads as a phi of exactly those two
		vals := []ssa.Value{ret.Results[0]}
		if phi, ok := ret.Results[0].(*ssa.Phi); ok {
			vals = phi.Edges
			nRet++ // the short-circuit edge plays the role of the early return
		}
		for _, v := range vals {
			if cb, ok := constBool(v); ok {
				if cb {
					okStrict = false
				}
				continue
			}
			c, _ := callOf(v)
			if c == nil || c.Common().StaticCallee() != eq || c.Common().Args[0] != ssa.Value(eqs.Params[0]) || c.Common().Args[1] != ssa.Value(eqs.Params[1]) {
				okStrict = false
			}
		}
	})
	r.decide(okStrict && nRet >= 2, "C17.equal", "EqualStrict:shape", p.pos(eqs.Pos()), "false when the IDs differ, otherwise Equal(r1, r2)", "EqualStrict is not 'IDs equal and Equal(r1, r2)'")

	// the ID test itself: every branch of EqualStrict asks one question, whether
	// the ID read from the first resource equals the ID read from the second; a
	// further conjunct (non-empty, same length, ...) makes some pair of
	// different IDs pass.
	var idOfIn func(fn *ssa.Function, v ssa.Value, depth int) int
	idOf := func(v ssa.Value) int { return idOfIn(eqs, v, 0) }
	idOfIn = func(fn *ssa.Function, v ssa.Value, depth int) int {
		for {
			switch x := v.(type) {
			case *ssa.TypeAssert:
				v = x.X
				continue
			case *ssa.Extract:
				if ta, ok := x.Tuple.(*ssa.TypeAssert); ok && x.Index == 0 {
					v = ta.X
					continue
				}
			case *ssa.ChangeType:
				v = x.X
				continue
			}
			break
		}
		c, _ := callOf(v)
		if c == nil {
			return -1
		}
		cc := c.Common()
		if !cc.IsInvoke() {
			// a package helper every return of which is the ID of one of its
			// parameters (func resourceID(r Resource) string { return r.Get("id").(string) })
			sc := cc.StaticCallee()
			if sc == nil || depth > 2 || sc.Pkg != eqs.Pkg || len(sc.Blocks) == 0 {
				return -1
			}
			which := -2
			eachInstr(sc, func(i2 ssa.Instruction) {
				ret, ok := i2.(*ssa.Return)
				if !ok {
					return
				}
				j := -1
				if len(ret.Results) == 1 {
					j = idOfIn(sc, ret.Results[0], depth+1)
				}
				if which == -2 {
					which = j
				} else if which != j {
					which = -1
				}
			})
			if which < 0 || which >= len(cc.Args) {
				return -1
			}
			for i, prm := range fn.Params {
				if cc.Args[which] == ssa.Value(prm) {
					return i
				}
			}
			return -1
		}
		switch cc.Method.Name() {
		case "Get":
			if s, ok := constString(cc.Args[0]); !ok || s != "id" {
				return -1
			}
		case "GetID":
		default:
			return -1
		}
		for i, prm := range fn.Params {
			if cc.Value == ssa.Value(prm) {
				return i
			}
		}
		return -1
	}
	nIf, badIf := 0, ""
	eachInstr(eqs, func(ins ssa.Instruction) {
		iff, ok := ins.(*ssa.If)
		if !ok {
			return
		}
		nIf++
		b, ok := iff.Cond.(*ssa.BinOp)
		if !ok || (b.Op != token.NEQ && b.Op != token.EQL) {
			badIf = "a branch of EqualStrict does not compare the two IDs for equality"
			return
		}
		x, y := idOf(b.X), idOf(b.Y)
		if !(x == 0 && y == 1 || x == 1 && y == 0) {
			badIf = "a branch of EqualStrict compares something other than the ID of the first resource with the ID of the second (an extra condition lets two different IDs pass, e.g. when one of them is empty)"
		}
	})
	r.decide(badIf == "" && nIf == 1, "C17.equal", "EqualStrict:id-test", p.pos(eqs.Pos()), "the only branch of EqualStrict is the comparison of Get(\"id\") of one resource with Get(\"id\") of the other", func() string {
		if badIf != "" {
			return badIf
		}
		return fmt.Sprintf("EqualStrict has %d branches, expected exactly one (the ID comparison)", nIf)
	}())

	// scenario evaluation of the to-many comparison
	for _, sc := range []struct {
		l1, l2 bool // non-empty?
		want   bool
	}{{false, true, false}, {true, false, false}, {true, true, false}, {false, false, true}} {
		got, n := evalEqualToMany(p, eq, sc.l1, sc.l2)
		key := fmt.Sprintf("Equal:to-many:differ:nonempty(%v,%v)", sc.l1, sc.l2)
		good := n > 0 && len(got) == 1 && got[0] == fmt.Sprint(sc.want)
		r.decide(good, "C17.equal", key, p.pos(eq.Pos()), fmt.Sprintf("%v on %d paths", sc.want, n),
			fmt.Sprintf("two resources whose to-many relationship values differ (first non-empty=%v, second non-empty=%v) compare as %v on %d paths; expected %v", sc.l1, sc.l2, got, n, sc.want))
	}

	// scenario evaluation of the attribute comparison: one attribute whose two
	// values are not DeepEqual; "prints as <nil>" decided per side
	for _, sc := range []struct {
		n1, n2 bool
		want   bool
	}{{false, false, false}, {true, false, false}, {false, true, false}, {true, true, true}} {
		got, n := evalEqualAttr(p, eq, sc.n1, sc.n2)
		key := fmt.Sprintf("Equal:attribute:differ:nil(%v,%v)", sc.n1, sc.n2)
		good := n > 0 && len(got) == 1 && got[0] == fmt.Sprint(sc.want)
		r.decide(good, "C17.equal", key, p.pos(eq.Pos()), fmt.Sprintf("%v on %d paths", sc.want, n),
			fmt.Sprintf("two resources with an attribute whose values differ (first prints as <nil>=%v, second=%v) compare as %v on %d paths; expected %v: Equal holds between resources that differ in a field value, or is not symmetric", sc.n1, sc.n2, got, n, sc.want))
	}

	// merge-join key check
	checkMergeJoinNames(p, r, eq)
}

// evalEqualAttr: types, names and relationships agree; one attribute whose
// values are not DeepEqual; whether each side's value prints as "<nil>" is
// given.
func evalEqualAttr(p *Prog, eq *ssa.Function, nil1, nil2 bool) ([]string, int) {
	in := &interp{p: p, f: eq, maxPaths: 30000, maxVisit: 2, structuralNames: true, inline: smallHelper}
	in.callHook = func(st *istate, c *ssa.Call, args []*aval) *aval {
		cc := c.Common()
		if sc := cc.StaticCallee(); sc != nil {
			switch fullName(sc) {
			case "reflect.DeepEqual":
				if strings.Contains(args[0].String(), ".([]string)") || strings.Contains(args[1].String(), ".([]string)") {
					return boolv(true)
				}
				st.notes = append(st.notes, "attr-compared")
				return boolv(false)
			case "sort.Slice":
				return &aval{k: aNil}
			case "fmt.Sprintf":
				// name the printed value (the variadic slice hides it)
				if len(cc.Args) == 2 {
					if sl, ok := cc.Args[1].(*ssa.Slice); ok {
						if al, ok := sl.X.(*ssa.Alloc); ok {
							for _, ref := range referrers(al) {
								if ia, ok := ref.(*ssa.IndexAddr); ok {
									for _, r2 := range referrers(ia) {
										if stv, ok := r2.(*ssa.Store); ok {
											return symv("fmt.Sprintf("+in.get(st, stv.Val).String()+")", types.Typ[types.String])
										}
									}
								}
							}
						}
					}
				}
			}
		}
		return nil
	}
	in.binopHook = func(st *istate, x *ssa.BinOp, a, b *aval) *aval {
		as := a.String()
		if strings.Contains(as, "Sprintf") && (x.Op == token.EQL || x.Op == token.NEQ) {
			is1 := strings.Contains(as, "r1.Get") || strings.Contains(as, "invoke r1")
			is2 := strings.Contains(as, "r2.Get") || strings.Contains(as, "invoke r2")
			if is1 == is2 {
				return nil
			}
			isNil := nil2
			if is1 {
				isNil = nil1
			}
			return boolv(isNil == (x.Op == token.EQL))
		}
		if x.Op == token.NEQ {
			if strings.Contains(as, ".Name") || strings.Contains(as, "len(") || strings.Contains(as, ".ToOne") || strings.Contains(as, ".(string)") {
				return boolv(false)
			}
		}
		return nil
	}
	outs := in.run(map[*ssa.Parameter]*aval{eq.Params[0]: symv("r1", eq.Params[0].Type()), eq.Params[1]: symv("r2", eq.Params[1].Type())})
	set := map[string]bool{}
	n := 0
	for _, o := range outs {
		if o.loop || o.panics || o.ret == nil {
			continue
		}
		asked := false
		for _, nt := range o.notes {
			if nt == "attr-compared" {
				asked = true
			}
		}
		if !asked {
			continue
		}
		n++
		if len(o.results) == 1 {
			set[o.results[0].String()] = true
		}
		if os.Getenv("DBGC17") != "" {
			fmt.Fprintf(os.Stderr, "nil(%v,%v) -> %v decided=%v\n", nil1, nil2, o.results[0], o.decided)
		}
	}
	var out []string
	for s := range set {
		out = append(out, s)
	}
	sort.Strings(out)
	return out, n
}

// evalEqualToMany: all attribute/type comparisons succeed; one to-many
// relationship whose values are not DeepEqual, with the given emptiness.
func evalEqualToMany(p *Prog, eq *ssa.Function, nonEmpty1, nonEmpty2 bool) ([]string, int) {
	in := &interp{p: p, f: eq, maxPaths: 30000, maxVisit: 2, structuralNames: true, inline: smallHelper}
	in.callHook = func(st *istate, c *ssa.Call, args []*aval) *aval {
		cc := c.Common()
		if sc := cc.StaticCallee(); sc != nil {
			switch fullName(sc) {
			case "reflect.DeepEqual":
				// the to-many values differ; attribute values are equal
				if strings.Contains(args[0].String(), ".([]string)") || strings.Contains(args[1].String(), ".([]string)") {
					st.notes = append(st.notes, "tomany-compared")
					return boolv(false)
				}
				return boolv(true)
			case "sort.Slice":
				return &aval{k: aNil}
			}
		}
		return nil
	}
	in.binopHook = func(st *istate, x *ssa.BinOp, a, b *aval) *aval {
		as := a.String()
		// len(v1) != 0 / len(v2) != 0 on the asserted []string values
		if strings.HasPrefix(as, "len(") && strings.Contains(as, ".([]string)") && b.k == aConst {
			first := strings.Contains(as, "r1.Get") || strings.Contains(as, "invoke r1")
			ne := nonEmpty2
			if first {
				ne = nonEmpty1
			}
			n := int64(0)
			if ne {
				n = 2
			}
			st.notes = append(st.notes, "len-asked")
			return boolv(constant.Compare(constant.MakeInt64(n), x.Op, b.c))
		}
		// type names, counts, ToOne flags agree; to-one values agree
		switch x.Op {
		case token.NEQ:
			if strings.Contains(as, ".Name") || strings.Contains(as, "len(") || strings.Contains(as, ".ToOne") || strings.Contains(as, ".(string)") {
				return boolv(false)
			}
		case token.EQL:
			if strings.Contains(as, "Sprintf") {
				return boolv(false)
			}
		}
		return nil
	}
	in.forkHook = func(st *istate, cond *aval, ifi *ssa.If) string {
		if strings.Contains(cond.String(), ".ToOne") {
			return "to-one"
		}
		return ""
	}
	outs := in.run(map[*ssa.Parameter]*aval{eq.Params[0]: symv("r1", eq.Params[0].Type()), eq.Params[1]: symv("r2", eq.Params[1].Type())})
	set := map[string]bool{}
	n := 0
	for _, o := range outs {
		if o.loop || o.panics || o.ret == nil {
			continue
		}
		asked := false
		toOne := false
		for _, nt := range o.notes {
			if nt == "len-asked" || nt == "tomany-compared" {
				asked = true
			}
			if nt == "to-one=true" {
				toOne = true
			}
		}
		if !asked || toOne {
			continue
		}
		n++
		if len(o.results) == 1 {
			set[o.results[0].String()] = true
		}
	}
	var out []string
	for s := range set {
		out = append(out, s)
	}
	return out, n
}

// checkMergeJoinNames: in each lock-step loop over two sorted lists (A[i],
// B[i]) the sort keys A[i].F and B[i].F are compared.
func checkMergeJoinNames(p *Prog, r *Report, eq *ssa.Function) {
	// find loops that index two different slices of the same element type with the same index
	type pair struct{ a, b *ssa.IndexAddr }
	var pairs []pair
	var idx []*ssa.IndexAddr
	eachInstr(eq, func(ins ssa.Instruction) {
		if ia, ok := ins.(*ssa.IndexAddr); ok {
			idx = append(idx, ia)
		}
	})
	// range-over-slice loops yield the element via IndexAddr(X, i); the second list is indexed explicitly with the same i
	for _, a := range idx {
		for _, b := range idx {
			if a == b || a.X == b.X || !types.Identical(a.Type(), b.Type()) {
				continue
			}
			if a.Index == b.Index && a.Block() == b.Block() && instrPos(a).i < instrPos(b).i {
				pairs = append(pairs, pair{a, b})
			}
		}
	}
	n := 0
	for _, pr := range pairs {
		elem := structName(deref(pr.a.Type()))
		keyField := map[string]string{"Attr": "Name", "Rel": "FromName"}[elem]
		if keyField == "" {
			continue
		}
		n++
		// is there, in the loop body, a comparison of <elemA>.keyField with <elemB>.keyField ?
		loop := naturalLoop(loopHeaderOf(pr.a.Block()))
		found := false
		eachInstr(eq, func(ins ssa.Instruction) {
			bo, ok := ins.(*ssa.BinOp)
			if !ok || (bo.Op != token.EQL && bo.Op != token.NEQ) || (loop != nil && !loop[bo.Block()]) {
				return
			}
			_, f1, ok1 := fieldLoad(bo.X)
			_, f2, ok2 := fieldLoad(bo.Y)
			if ok1 && ok2 && f1 == keyField && f2 == keyField {
				found = true
			}
		})
		r.decide(found, "C17.equal-names", "Equal:lock-step:"+elem+"."+keyField, p.pos(pr.a.Pos()), "the names at the same position are compared",
			"Equal walks the two name-sorted lists of "+elem+"s in lock-step but never compares the "+keyField+" at the same position: two resources with the same values under different field names are reported equal")
	}
	r.floor("lock-step loops in Equal", n, 2)
}

func loopHeaderOf(b *ssa.BasicBlock) *ssa.BasicBlock {
	for x := b; x != nil; x = x.Idom() {
		if l := naturalLoop(x); l != nil && l[b] {
			return x
		}
	}
	return b
}

// checkSetAlwaysStores: every return of Wrapper.setField has executed a
// reflect Set on the located field (no value - a typed nil pointer included -
// is silently ignored).
func checkSetAlwaysStores(p *Prog, r *Report) {
	sf := p.Fn("(*Wrapper).setField")
	if sf == nil {
		r.fail("anchor (*Wrapper).setField not found")
		return
	}
	n := 0
	eachInstr(sf, func(ins ssa.Instruction) {
		ret, ok := ins.(*ssa.Return)
		if !ok {
			return
		}
		n++
		isSet := func(i2 ssa.Instruction) bool {
			c, ok := i2.(*ssa.Call)
			if !ok || c.Common().StaticCallee() == nil {
				return false
			}
			nm := fullName(c.Common().StaticCallee())
			return nm == "reflect.(Value).Set" || nm == "reflect.(Value).SetString"
		}
		stored := mustPassInstr(sf, ret, func(i2 ssa.Instruction) bool {
			if isSet(i2) {
				return true
			}
			// an assignment helper every return of which has stored
			c, ok := i2.(*ssa.Call)
			if !ok {
				return false
			}
			g := c.Common().StaticCallee()
			isHelper := false
			for _, h := range setFieldHelpers(sf) {
				if h == g {
					isHelper = true
				}
			}
			if !isHelper {
				return false
			}
			nRet := 0
			for _, b := range g.Blocks {
				if gr, ok := b.Instrs[len(b.Instrs)-1].(*ssa.Return); ok {
					nRet++
					if !mustPassInstr(g, gr, isSet) {
						return false
					}
				}
			}
			return nRet > 0
		})
		r.decide(stored, "C17.set-always-stores", "setField:"+p.describe(ret)+"@"+p.pos(ret.Pos()), p.pos(ret.Pos()), "a Set call precedes this return on every path", "Wrapper.setField can return without having stored anything: some values (e.g. a typed nil pointer) are silently ignored, so Get does not read back what was Set")
	})
	r.floor("returns of setField", n, 1)
}

// checkEqualCounts: Equal rejects resources whose attribute or relationship
// lists differ in length (with != on the two lengths) before comparing them
// position by position.
func checkEqualCounts(p *Prog, r *Report) {
	eq := p.Fn("Equal")
	if eq == nil {
		return
	}
	n := 0
	eachInstr(eq, func(ins ssa.Instruction) {
		ifi, ok := ins.(*ssa.If)
		if !ok {
			return
		}
		bo, ok := ifi.Cond.(*ssa.BinOp)
		if !ok {
			return
		}
		lx, _ := callOf(bo.X)
		ly, _ := callOf(bo.Y)
		if lx == nil || ly == nil || builtinName(lx.Common()) != "len" || builtinName(ly.Common()) != "len" {
			return
		}
		// only the guards on the collected lists (slices), not the to-many value guards
		if _, isSlice := lx.Common().Args[0].Type().Underlying().(*types.Slice); !isSlice {
			return
		}
		if fmtTypeString(lx.Common().Args[0].Type()) == "[]string" {
			return
		}
		n++
		good := bo.Op == token.NEQ
		if good {
			tb := ifi.Block().Succs[0]
			ret, isRet := tb.Instrs[len(tb.Instrs)-1].(*ssa.Return)
			if cb, isC := constBool(func() ssa.Value {
				if isRet {
					return ret.Results[0]
				}
				return nil
			}()); !isRet || !isC || cb {
				good = false
			}
		}
		r.decide(good, "C17.equal-counts", "Equal:"+p.describe(bo), p.pos(bo.Pos()), "different lengths give false", "Equal does not reject resources whose field lists have different lengths with !=: a resource whose fields are a prefix of the other's compares equal (and Equal is not symmetric)")
	})
	r.floor("length guards in Equal", n, 2)
}

// checkSoftCheckComplete: (*SoftResource).check - the normalisation every
// accessor runs first - reaches each of its returns only through its loops over
// the type's attributes and relationships (which store the typed zero value of
// every missing field) and, when there are more stored values than fields,
// through the loop that drops stale ones: no shortcut returns before them.
// Shared by C17 and C09 (Less and the filters rely on Get returning typed values).
func checkSoftCheckComplete(p *Prog, r *Report, prefix string) {
	f := p.Fn("(*SoftResource).check")
	if f == nil {
		r.fail("anchor (*SoftResource).check not found")
		return
	}
	r.fn(funcName(f))
	// the zero-filling loops, in check itself or in a phase helper it calls on
	// its own receiver; for a loop in a helper the instruction every return of
	// check must pass is the call of that helper, and every return of the
	// helper must pass the loop
	type fillLoop struct {
		nx   *ssa.Next
		in   *ssa.Function
		pass ssa.Instruction // in check
	}
	var fill []fillLoop
	collect := func(g *ssa.Function, pass ssa.Instruction) {
		for _, ld := range findLoops(g) {
			if ld.kind != "map" {
				continue
			}
			if _, fl, ok := fieldLoad(ld.src); ok && (fl == "Attrs" || fl == "Rels") {
				stores := false
				for b := range ld.blocks {
					for _, ins := range b.Instrs {
						if _, ok := ins.(*ssa.MapUpdate); ok {
							stores = true
						}
					}
				}
				if stores {
					ps := pass
					if ps == nil {
						ps = ld.next
					}
					fill = append(fill, fillLoop{ld.next, g, ps})
				}
			}
		}
	}
	collect(f, nil)
	eachInstr(f, func(ins ssa.Instruction) {
		c, ok := ins.(*ssa.Call)
		if !ok {
			return
		}
		g := c.Common().StaticCallee()
		if g == nil || g.Blocks == nil || !smallHelper(g) || len(c.Common().Args) == 0 || c.Common().Args[0] != ssa.Value(f.Params[0]) {
			return
		}
		collect(g, c)
	})
	r.floor(prefix+": zero-filling loops in SoftResource.check", len(fill), 2)
	n := 0
	whatOf := func(nx *ssa.Next) string {
		if _, fl, _ := fieldLoad(nx.Iter.(*ssa.Range).X); fl == "Rels" {
			return "relationships"
		}
		return "attributes"
	}
	eachInstr(f, func(ins ssa.Instruction) {
		ret, ok := ins.(*ssa.Return)
		if !ok {
			return
		}
		n++
		for _, fl := range fill {
			fl := fl
			passes := mustPassInstr(f, ret, func(i2 ssa.Instruction) bool { return i2 == fl.pass })
			what := whatOf(fl.nx)
			r.decide(passes, prefix+".check-complete", "SoftResource.check:return@"+p.pos(ret.Pos())+":"+what, p.pos(ret.Pos()), "the loop that zero-fills missing "+what+" runs before this return",
				"SoftResource.check can return without having run the loop that stores the typed zero value of missing "+what+": Get then returns nil (or a stale value) for such a field, and callers that assert its type panic or mis-sort")
		}
	})
	for _, fl := range fill {
		if fl.in == f {
			continue
		}
		fl := fl
		eachInstr(fl.in, func(ins ssa.Instruction) {
			ret, ok := ins.(*ssa.Return)
			if !ok {
				return
			}
			passes := mustPassInstr(fl.in, ret, func(i2 ssa.Instruction) bool { return i2 == ssa.Instruction(fl.nx) })
			what := whatOf(fl.nx)
			r.decide(passes, prefix+".check-complete", funcName(fl.in)+":return@"+p.pos(ret.Pos())+":"+what, p.pos(ret.Pos()), "the loop that zero-fills missing "+what+" runs before this return",
				"the phase helper of SoftResource.check can return without having run the loop that stores the typed zero value of missing "+what)
		})
	}
	r.floor(prefix+": returns of SoftResource.check", n, 1)
}

// checkTypeNew implements C17.new: Type.New leaves its receiver alone and
// returns the NewFunc's result or a SoftResource bound to the receiver.
func checkTypeNew(p *Prog, r *Report) {
	f := p.Fn("(*Type).New")
	if f == nil {
		r.fail("anchor (*Type).New not found")
		return
	}
	r.fn(funcName(f))
	isRecv := func(v ssa.Value) bool { return isParamOrItsCopy(v, f.Params[0]) }
	// (a) no store into the receiver
	nSt := 0
	eachInstr(f, func(ins ssa.Instruction) {
		st, ok := ins.(*ssa.Store)
		if !ok {
			return
		}
		a := st.Addr
		for {
			if fa, ok := a.(*ssa.FieldAddr); ok {
				a = fa.X
				continue
			}
			break
		}
		if isRecv(a) {
			nSt++
			r.bad("C17.new-pure", "(*Type).New:"+p.describe(st), p.pos(st.Pos()), "Type.New writes into its receiver: the change travels with every later copy of the type (Type.Copy and plain value copies), so types derived from it create resources of the original type")
		}
	})
	if nSt == 0 {
		r.ok("C17.new-pure", "(*Type).New:no-store", p.pos(f.Pos()), "no store into the receiver")
	}
	// (b) what is returned
	nRet := 0
	var classify func(v ssa.Value, seen map[ssa.Value]bool) string
	classify = func(v ssa.Value, seen map[ssa.Value]bool) string {
		if seen[v] {
			return ""
		}
		seen[v] = true
		switch x := v.(type) {
		case *ssa.MakeInterface:
			return classify(x.X, seen)
		case *ssa.ChangeInterface:
			return classify(x.X, seen)
		case *ssa.Phi:
			for _, e := range x.Edges {
				if why := classify(e, seen); why != "" {
					return why
				}
			}
			return ""
		case *ssa.Call:
			if x.Call.IsInvoke() {
				return "the result of an interface call"
			}
			if ld, ok := x.Call.Value.(*ssa.UnOp); ok && ld.Op == token.MUL {
				if fa, ok := ld.X.(*ssa.FieldAddr); ok && isRecv(fa.X) {
					if _, n := fieldRef(fa.X, fa.Field); n == "NewFunc" {
						return ""
					}
				}
			}
			return "the result of a call other than the receiver's NewFunc"
		case *ssa.Alloc:
			if structName(deref(x.Type())) != "SoftResource" {
				return "not a SoftResource"
			}
			bound := false
			for _, ref := range *x.Referrers() {
				if fa, ok := ref.(*ssa.FieldAddr); ok {
					if _, n := fieldRef(fa.X, fa.Field); n == "Type" {
						for _, r2 := range *fa.Referrers() {
							if st, ok := r2.(*ssa.Store); ok && st.Addr == ssa.Value(fa) {
								bound = isRecv(st.Val)
							}
						}
					}
				}
			}
			if !bound {
				return "a SoftResource whose Type is not the receiver"
			}
			return ""
		}
		return "a value of unrecognised origin"
	}
	eachInstr(f, func(ins ssa.Instruction) {
		ret, ok := ins.(*ssa.Return)
		if !ok || len(ret.Results) != 1 {
			return
		}
		nRet++
		why := classify(ret.Results[0], map[ssa.Value]bool{})
		r.decide(why == "", "C17.new-result", "(*Type).New:return@"+p.pos(ret.Pos()), p.pos(ret.Pos()), "returns the receiver's NewFunc() or a new SoftResource bound to the receiver",
			"Type.New returns "+why+": a freshly created resource need not have the type's name and fields")
	})
	r.floor("returns of Type.New", nRet, 1)
}

// boundToInCalls: prm is a parameter of a small helper, and every call of that
// helper in f passes target at prm's position.
func boundToInCalls(f *ssa.Function, prm *ssa.Parameter, target ssa.Value) bool {
	g := prm.Parent()
	if g == nil || !smallHelper(g) {
		return false
	}
	idx := -1
	for i, q := range g.Params {
		if q == prm {
			idx = i
		}
	}
	n := 0
	all := true
	eachInstr(f, func(ins ssa.Instruction) {
		if c, ok := ins.(*ssa.Call); ok && c.Common().StaticCallee() == g && idx >= 0 && idx < len(c.Common().Args) {
			n++
			if c.Common().Args[idx] != target {
				all = false
			}
		}
	})
	return n > 0 && all
}

// setFieldHelpers: the package functions setField calls with a reflect.Value
// (the located field) among their arguments.
func setFieldHelpers(sf *ssa.Function) []*ssa.Function {
	var out []*ssa.Function
	seen := map[*ssa.Function]bool{}
	eachInstr(sf, func(ins ssa.Instruction) {
		c, ok := ins.(*ssa.Call)
		if !ok || c.Common().IsInvoke() {
			return
		}
		g := c.Common().StaticCallee()
		if g == nil || g.Pkg != sf.Pkg || g.Blocks == nil || seen[g] || g == sf {
			return
		}
		for _, a := range c.Common().Args {
			if isReflectValue(a.Type()) {
				seen[g] = true
				out = append(out, g)
				return
			}
		}
	})
	return out
}

// checkGetFieldAPIOnly: the function in which Wrapper.getField (or its search
// helper) matches the key against a field's json tag also tests that field's
// api tag for emptiness: Get only reads fields that are part of the resource.
// (Which value is returned for the located field is decided elsewhere; this
// is the presence of the membership test next to the name test.)
func checkGetFieldAPIOnly(p *Prog, r *Report, prefix string) {
	gf := p.Fn("(*Wrapper).getField")
	if gf == nil {
		r.fail("anchor (*Wrapper).getField not found")
		return
	}
	n := 0
	for _, g := range append([]*ssa.Function{gf}, stringHelpers(gf)...) {
		var jsonCmp ssa.Instruction
		apiTest := false
		eachInstr(g, func(ins ssa.Instruction) {
			bo, ok := ins.(*ssa.BinOp)
			if !ok || (bo.Op != token.EQL && bo.Op != token.NEQ) {
				return
			}
			for _, pr := range [][2]ssa.Value{{bo.X, bo.Y}, {bo.Y, bo.X}} {
				k, isTag := tagGetOf(pr[1])
				if !isTag {
					continue
				}
				if k == "json" {
					if _, isConst := pr[0].(*ssa.Const); !isConst {
						jsonCmp = bo
					}
				}
				if k == "api" {
					apiTest = true
				}
			}
		})
		if jsonCmp == nil {
			continue
		}
		n++
		r.decide(apiTest, prefix+".get-api-only", funcName(g)+":"+p.describe(jsonCmp), p.pos(jsonCmp.Pos()), "the name test is accompanied by a test of the api tag",
			"Wrapper.getField matches a field on its json tag without consulting its api tag: Get can read a struct field that is not part of the resource (one that shares the json tag of an attribute or relationship declared after it)")
	}
	r.floor("json-tag matches on the getField path", n, 1)
}

// checkWrapperID: the Wrapper keeps no ID of its own. SetID writes the struct
// field named ID (the field Check validates and IDAndType reads) through
// reflect's FieldByName("ID"), and GetID reads it from the wrapped value on
// every call - directly or through IDAndType(w.val.Interface()).
func checkWrapperID(p *Prog, r *Report, prefix string) {
	setID, getID := p.Fn("(*Wrapper).SetID"), p.Fn("(*Wrapper).GetID")
	if setID == nil || getID == nil {
		r.fail("anchors (*Wrapper).SetID / GetID not found")
		return
	}
	fromVal := func(v ssa.Value, recv *ssa.Parameter) bool {
		ok := false
		for _, o := range originsDeep(v) {
			if base, fl, isFl := fieldLoad(o); isFl && fl == "val" && base == ssa.Value(recv) {
				ok = true
			}
		}
		return ok
	}
	isIDField := func(v ssa.Value, recv *ssa.Parameter) bool {
		c, _ := callOf(v)
		if c == nil || c.Common().StaticCallee() == nil || fullName(c.Common().StaticCallee()) != "reflect.(Value).FieldByName" {
			return false
		}
		if s, ok := constString(c.Common().Args[1]); !ok || s != "ID" {
			return false
		}
		return fromVal(c.Common().Args[0], recv)
	}
	// SetID
	for _, b := range setID.Blocks {
		ret, ok := b.Instrs[len(b.Instrs)-1].(*ssa.Return)
		if !ok {
			continue
		}
		stored := mustPassInstr(setID, ret, func(i2 ssa.Instruction) bool {
			c, ok := i2.(*ssa.Call)
			if !ok || c.Common().StaticCallee() == nil {
				return false
			}
			nm := fullName(c.Common().StaticCallee())
			if nm != "reflect.(Value).SetString" && nm != "reflect.(Value).Set" {
				return false
			}
			return isIDField(c.Common().Args[0], setID.Params[0])
		})
		r.decide(stored, prefix+".id-field", "(*Wrapper).SetID:"+p.describe(ret), p.pos(ret.Pos()), "sets the struct field named ID of the wrapped value",
			"Wrapper.SetID does not store through FieldByName(\"ID\") of the wrapped value on every path: the ID field is the one Check validates by its Go name, whatever its json tag or defined string type, so locating it any other way panics or misses for structs that Check accepts")
	}
	// GetID
	n := 0
	for _, b := range getID.Blocks {
		ret, ok := b.Instrs[len(b.Instrs)-1].(*ssa.Return)
		if !ok || len(ret.Results) != 1 {
			continue
		}
		n++
		good := true
		for _, o := range originsDeep(ret.Results[0]) {
			okOne := false
			if c, _ := callOf(o); c != nil && c.Common().StaticCallee() != nil {
				switch fullName(c.Common().StaticCallee()) {
				case "reflect.(Value).String":
					okOne = isIDField(c.Common().Args[0], getID.Params[0])
				default:
					if c.Common().StaticCallee().Name() == "IDAndType" && len(c.Common().Args) == 1 {
						for _, a := range originsDeep(c.Common().Args[0]) {
							if ic, _ := callOf(a); ic != nil && ic.Common().StaticCallee() != nil && fullName(ic.Common().StaticCallee()) == "reflect.(Value).Interface" && fromVal(ic.Common().Args[0], getID.Params[0]) {
								okOne = true
							}
						}
					}
				}
			}
			if !okOne {
				good = false
			}
		}
		r.decide(good, prefix+".id-field", "(*Wrapper).GetID:"+p.describe(ret), p.pos(ret.Pos()), "reads the ID from the wrapped value on every call",
			"Wrapper.GetID does not read the ID from the wrapped struct (IDAndType(w.val.Interface()) or FieldByName(\"ID\")): a cached ID goes stale when the struct's ID field is assigned directly, so selection by ID and the id sort rule see another ID than the resource holds")
	}
	r.floor("returns of GetID", n, 1)
}

// checkWrapperNew: Wrapper.New wraps a freshly allocated zero value of the
// struct type (reflect.New(w.val.Type()).Interface()), never the wrapped value
// itself: a new resource reads as all zero values, like SoftResource.New.
func checkWrapperNew(p *Prog, r *Report, prefix string) {
	f := p.Fn("(*Wrapper).New")
	if f == nil {
		r.fail("anchor (*Wrapper).New not found")
		return
	}
	n := 0
	for _, b := range f.Blocks {
		ret, ok := b.Instrs[len(b.Instrs)-1].(*ssa.Return)
		if !ok || len(ret.Results) != 1 {
			continue
		}
		n++
		good := false
		for _, o := range originsDeep(ret.Results[0]) {
			c, _ := callOf(o)
			if c == nil || c.Common().StaticCallee() == nil || c.Common().StaticCallee().Name() != "Wrap" || len(c.Common().Args) != 1 {
				continue
			}
			good = true
			for _, a := range originsDeep(c.Common().Args[0]) {
				ic, _ := callOf(a)
				if ic == nil || ic.Common().StaticCallee() == nil || fullName(ic.Common().StaticCallee()) != "reflect.(Value).Interface" {
					good = false
					continue
				}
				fresh := false
				for _, v := range originsDeep(ic.Common().Args[0]) {
					if nc, _ := callOf(v); nc != nil && nc.Common().StaticCallee() != nil && fullName(nc.Common().StaticCallee()) == "reflect.New" {
						fresh = true
					}
				}
				if !fresh {
					good = false
				}
			}
		}
		r.decide(good, prefix+".wrapper-new", "(*Wrapper).New:"+p.describe(ret), p.pos(ret.Pos()), "wraps reflect.New(type).Interface()",
			"Wrapper.New does not wrap a freshly allocated zero struct (reflect.New of the wrapped type): the new resource carries the ID and field values of the wrapper it came from, while SoftResource.New returns zero values")
	}
	r.floor("returns of Wrapper.New", n, 1)
}
