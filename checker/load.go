package main

import (
	"fmt"
	"go/ast"
	"go/token"
	"go/types"
	"os"
	"path/filepath"
	"sort"
	"strings"

	"golang.org/x/tools/go/packages"
	"golang.org/x/tools/go/ssa"
	"golang.org/x/tools/go/ssa/ssautil"
)

const targetPkgPath = "github.com/mfcochauxlaberge/jsonapi"

// Prog is the resolved program under analysis: the type-checked package,
// its SSA form and a package-local call-graph resolver.
type Prog struct {
	RepoDir string
	GOARCH  string
	Fset    *token.FileSet
	Pkg     *packages.Package
	SSAProg *ssa.Program
	SSAPkg  *ssa.Package
	Types   *types.Package
	Info    *types.Info

	// all functions with bodies that belong to the target package
	// (declared functions, methods, anonymous functions).
	Funcs []*ssa.Function
	// name -> function ("Range", "(*Schema).AddType", "(Attr).UnmarshalToType")
	byName map[string]*ssa.Function

	// address-taken / closure / bound functions by signature string
	funcValues []*ssa.Function

	files map[string]*ast.File // filename -> syntax

	cg *callGraph
}

// loadProg loads /repo (non-test files) with the real build configuration,
// builds SSA for the whole program and indexes the target package.
func loadProg(repo, goarch string) (*Prog, error) {
	env := append(os.Environ(),
		"GOFLAGS=-mod=mod", "GOPROXY=off", "GOSUMDB=off", "GOWORK=off",
		"GOTOOLCHAIN=local",
	)
	if goarch != "" {
		env = append(env, "GOARCH="+goarch, "CGO_ENABLED=0")
	}
	cfg := &packages.Config{
		Mode:  packages.LoadAllSyntax,
		Dir:   repo,
		Env:   env,
		Tests: false,
	}
	pkgs, err := packages.Load(cfg, "./...")
	if err != nil {
		return nil, fmt.Errorf("load: %v", err)
	}
	if len(pkgs) == 0 {
		return nil, fmt.Errorf("load: zero packages matched ./... in %s", repo)
	}
	var target *packages.Package
	var nerr int
	for _, p := range pkgs {
		for _, e := range p.Errors {
			fmt.Fprintf(os.Stderr, "load error: %s: %v\n", p.PkgPath, e)
			nerr++
		}
		if p.PkgPath == targetPkgPath {
			target = p
		}
	}
	if nerr > 0 {
		return nil, fmt.Errorf("load: %d type/parse errors in the target tree", nerr)
	}
	if target == nil {
		return nil, fmt.Errorf("load: package %s not found among %d packages", targetPkgPath, len(pkgs))
	}
	if len(target.Syntax) == 0 {
		return nil, fmt.Errorf("load: package %s has no syntax", targetPkgPath)
	}

	prog, _ := ssautil.AllPackages(pkgs, ssa.InstantiateGenerics)
	prog.Build()

	p := &Prog{
		RepoDir: repo,
		GOARCH:  goarch,
		Fset:    target.Fset,
		Pkg:     target,
		SSAProg: prog,
		SSAPkg:  prog.Package(target.Types),
		Types:   target.Types,
		Info:    target.TypesInfo,
		byName:  map[string]*ssa.Function{},
		files:   map[string]*ast.File{},
	}
	if p.SSAPkg == nil {
		return nil, fmt.Errorf("load: no SSA package for %s", targetPkgPath)
	}
	for _, f := range target.Syntax {
		p.files[p.Fset.Position(f.Pos()).Filename] = f
	}
	p.index()
	if len(p.Funcs) < 50 {
		return nil, fmt.Errorf("load: only %d functions found in %s (expected >= 50): vacuous", len(p.Funcs), targetPkgPath)
	}
	p.cg = newCallGraph(p)
	return p, nil
}

func (p *Prog) index() {
	seen := map[*ssa.Function]bool{}
	var add func(f *ssa.Function)
	add = func(f *ssa.Function) {
		if f == nil || seen[f] {
			return
		}
		seen[f] = true
		if f.Blocks != nil {
			p.Funcs = append(p.Funcs, f)
		}
		for _, an := range f.AnonFuncs {
			add(an)
		}
	}
	for _, m := range p.SSAPkg.Members {
		switch m := m.(type) {
		case *ssa.Function:
			add(m)
			if m.Name() != "init" {
				p.byName[m.Name()] = m
			}
		case *ssa.Type:
			nt, ok := m.Type().(*types.Named)
			if !ok {
				continue
			}
			for _, t := range []types.Type{nt, types.NewPointer(nt)} {
				ms := p.SSAProg.MethodSets.MethodSet(t)
				for i := 0; i < ms.Len(); i++ {
					fn := p.SSAProg.MethodValue(ms.At(i))
					if fn == nil {
						continue
					}
					// only methods declared in this package with a body and real syntax
					if fn.Pkg != p.SSAPkg || fn.Synthetic != "" {
						continue
					}
					add(fn)
					p.byName[funcName(fn)] = fn
				}
			}
		}
	}
	sort.Slice(p.Funcs, func(i, j int) bool { return funcName(p.Funcs[i]) < funcName(p.Funcs[j]) })
}

// funcName returns a stable, human-readable name: "Range",
// "(*Schema).AddType", "(Attr).UnmarshalToType", "Equal$1".
func funcName(f *ssa.Function) string {
	if f == nil {
		return "<nil>"
	}
	if f.Parent() != nil {
		return funcName(f.Parent()) + "$" + strings.TrimPrefix(f.Name(), f.Parent().Name()+"$")
	}
	if recv := f.Signature.Recv(); recv != nil {
		t := recv.Type()
		if pt, ok := t.(*types.Pointer); ok {
			if nt, ok := pt.Elem().(*types.Named); ok {
				return "(*" + nt.Obj().Name() + ")." + f.Name()
			}
		}
		if nt, ok := t.(*types.Named); ok {
			return "(" + nt.Obj().Name() + ")." + f.Name()
		}
	}
	return f.Name()
}

// Fn returns the named function or nil.
func (p *Prog) Fn(name string) *ssa.Function { return p.byName[name] }

// pos renders a position relative to the repository root.
func (p *Prog) pos(pos token.Pos) string {
	if !pos.IsValid() {
		return "-"
	}
	ps := p.Fset.Position(pos)
	rel, err := filepath.Rel(p.RepoDir, ps.Filename)
	if err != nil {
		rel = ps.Filename
	}
	return fmt.Sprintf("%s:%d", rel, ps.Line)
}

// namedType returns the named type declared in the target package.
func (p *Prog) namedType(name string) *types.Named {
	obj := p.Types.Scope().Lookup(name)
	if obj == nil {
		return nil
	}
	nt, _ := obj.Type().(*types.Named)
	return nt
}

// inTarget reports whether f belongs to the target package (including its
// anonymous functions and bound-method/thunk wrappers of its methods).
func (p *Prog) inTarget(f *ssa.Function) bool {
	if f == nil {
		return false
	}
	for f.Parent() != nil {
		f = f.Parent()
	}
	if f.Pkg == p.SSAPkg {
		return true
	}
	return false
}
