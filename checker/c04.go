package main

import (
	"go/token"
	"go/types"

	"golang.org/x/tools/go/ssa"
)

func init() { register("C04", checkC04) }

// elemOfParamList: v is an element of the slice parameter prm (fields[i]).
func elemOfValue(v ssa.Value, isList func(ssa.Value) bool) bool {
	ld, ok := v.(*ssa.UnOp)
	if !ok || ld.Op != token.MUL {
		return false
	}
	ia, ok := ld.X.(*ssa.IndexAddr)
	return ok && isList(ia.X)
}

func checkC04(p *Prog, r *Report) {
	r.rule("C04.url-untouched (imported from C11.write-inventory): marshaling - URL.String included - writes nothing reachable from the URL, so the field selections a document is marshaled with are the ones the next document is marshaled with")
	nUU := r.importRules(func(r2 *Report) { checkC11(p, r2) }, "C04.url-untouched", "C11.write-inventory")
	r.floor("imported write-inventory obligations", nUU, 1)
	r.rule("C04.get-api-only: where Wrapper.getField (or its search helper) matches the key against a json tag it also tests the field's api tag, so Get only reads fields that belong to the resource")
	checkGetFieldAPIOnly(p, r, "C04")
	r.rule("C04.check-complete: SoftResource.check, which Get runs before a soft resource's values are read, cannot return before its loops that zero-fill missing and drop stale fields (shared with C17)")
	checkSoftCheckComplete(p, r, "C04")
	r.rule("R10 selection guards (must-pass-through over the CFG, && / || conditions resolved per predecessor): in MarshalResource an attribute is stored only behind fields[i] == attr.Name, a relationship object only behind fields[i] == rel.FromName, and a data member only behind relData[<this resource's type name>][j] == rel.FromName; no other store into those maps exists")
	r.rule("C04.complete: the attribute and relationship loops range over all of Attrs() / Rels() and the inner search loops are only left early right after a match (nothing selected is skipped)")
	r.rule("C04.search-complete: every loop of MarshalResource over the field selection, the relationship-data list, the attribute map or the relationship map is order-insensitive: it is left early only right after an equality match and writes only entries keyed by the current element or objects made in the iteration (so a name is found wherever it stands in the list)")
	r.rule("C04.call-sites: every call of MarshalResource (MarshalDocument for primary and included resources, MarshalCollection for members) passes as field selection <Fields map>[x.GetType().Name] for the very resource x it passes as first argument, and the document's RelData")
	r.rule("C04.data-shape: a to-one data member is nil exactly on the id == \"\" branch and an identifier otherwise; a to-many data member receives one identifier per element of the ID list; identifiers carry rel.ToType (shared plumbing rule)")
	r.assume("Params.Fields was computed by NewParams (C07); duplicate names in a hand-built selection are harmless (map stores are idempotent)")
	r.notCovered("the JSON encoding of the selected values (C01)")

	f := p.Fn("MarshalResource")
	if f == nil {
		r.fail("anchor MarshalResource not found")
		return
	}
	r.fn(funcName(f))
	fieldsP, relDataP := f.Params[2], f.Params[3]
	isFields := func(v ssa.Value) bool { return v == ssa.Value(fieldsP) }
	isRelDataOfType := func(v ssa.Value) bool {
		lk, ok := v.(*ssa.Lookup)
		if !ok || lk.X != ssa.Value(relDataP) {
			return false
		}
		// key: r.GetType().Name
		base, fl, ok := fieldLoad(lk.Index)
		if !ok || fl != "Name" {
			return false
		}
		isGT := func(x ssa.Value) bool {
			c, _ := callOf(x)
			return c != nil && c.Common().IsInvoke() && c.Common().Method.Name() == "GetType" && c.Common().Value == ssa.Value(f.Params[0])
		}
		if isGT(base) {
			return true
		}
		if al, ok := base.(*ssa.Alloc); ok {
			for _, ref := range referrers(al) {
				if st, ok := ref.(*ssa.Store); ok && isGT(st.Val) {
					return true
				}
			}
		}
		return false
	}
	guard := func(isList func(ssa.Value) bool, nameField string, elemAlloc ssa.Value) func(cond ssa.Value, truth bool) bool {
		return func(cond ssa.Value, truth bool) bool {
			for _, ef := range expandFacts([]edgeFact{{Cond: cond, Truth: truth}}) {
				// a search helper: contains(list, name)
				if hc, isCall := ef.Cond.(*ssa.Call); isCall && ef.Truth {
					if sum := existsPredicate(hc.Common().StaticCallee()); sum != nil && sum.elemField == "" && sum.collParam >= 0 {
						as := hc.Common().Args
						if isList(as[sum.collParam]) {
							base, fl, ok := fieldLoad(as[sum.nameParam])
							if ok && fl == nameField && (elemAlloc == nil || base == elemAlloc) {
								return true
							}
						}
					}
				}
				// membership in a set built from the list: `_, ok := set[name]` (or
				// set[name] for a map to bool) where every key put into the local
				// map is an element of the list
				if ef.Truth {
					var lk *ssa.Lookup
					if ex, isEx := ef.Cond.(*ssa.Extract); isEx && ex.Index == 1 {
						lk, _ = ex.Tuple.(*ssa.Lookup)
					} else if l2, isLk := ef.Cond.(*ssa.Lookup); isLk {
						lk = l2
					}
					if lk != nil && setOfList(lk.X, isList) {
						base, fl, ok := fieldLoad(lk.Index)
						if ok && fl == nameField && (elemAlloc == nil || base == elemAlloc) {
							return true
						}
					}
				}
				bo, ok := ef.Cond.(*ssa.BinOp)
				if !ok || bo.Op != token.EQL || !ef.Truth {
					continue
				}
				for _, pr := range [][2]ssa.Value{{bo.X, bo.Y}, {bo.Y, bo.X}} {
					if !elemOfValue(pr[0], isList) {
						continue
					}
					base, fl, ok := fieldLoad(pr[1])
					if ok && fl == nameField && (elemAlloc == nil || base == elemAlloc) {
						return true
					}
				}
			}
			return false
		}
	}
	nEmit := 0
	eachInstr(f, func(ins ssa.Instruction) {
		mu, ok := ins.(*ssa.MapUpdate)
		if !ok {
			return
		}
		mt := mu.Map.Type().Underlying().(*types.Map)
		ks, constKey := constString(mu.Key)
		switch {
		case !constKey && isEmptyIface(mt.Elem()):
			// attribute emission
			nEmit++
			base, _, _ := fieldLoad(mu.Key)
			ok := mustPassEdge(f, mu.Block(), guard(isFields, "Name", base))
			r.decide(ok, "R10.select-guard", "MarshalResource:attribute:"+p.describe(mu), p.pos(mu.Pos()), "only behind fields[i] == attr.Name for this attribute",
				"an attribute can be emitted without its name having been found in the field selection")
		case !constKey && fmtTypeString(mt.Elem()) == "*json.RawMessage":
			nEmit++
			base, _, _ := fieldLoad(mu.Key)
			ok := mustPassEdge(f, mu.Block(), guard(isFields, "FromName", base))
			r.decide(ok, "R10.select-guard", "MarshalResource:relationship:"+p.describe(mu), p.pos(mu.Pos()), "only behind fields[i] == rel.FromName for this relationship",
				"a relationship object can be emitted without its name having been found in the field selection")
		case constKey && ks == "data":
			nEmit++
			ok := mustPassEdge(f, mu.Block(), guard(isRelDataOfType, "FromName", nil))
			r.decide(ok, "R10.select-guard", "MarshalResource:data:"+p.describe(mu), p.pos(mu.Pos()), "only behind relData[type][j] == rel.FromName",
				"a relationship's data member can be emitted although the document did not ask for that relationship's data for this resource's type")
		}
	})
	r.floor("emission sites in MarshalResource", nEmit, 5)

	// completeness: loops over Attrs()/Rels() have no early exit; search loops break only after a match
	nLoops := 0
	eachInstr(f, func(ins ssa.Instruction) {
		rg, ok := ins.(*ssa.Range)
		if !ok {
			return
		}
		c, _ := callOf(rg.X)
		if c == nil || !c.Common().IsInvoke() || (c.Common().Method.Name() != "Attrs" && c.Common().Method.Name() != "Rels") {
			return
		}
		for _, ref := range referrers(rg) {
			nx, ok := ref.(*ssa.Next)
			if !ok {
				continue
			}
			nLoops++
			loop := naturalLoop(nx.Block())
			okExit := true
			for x := range loop {
				for _, s := range x.Succs {
					if !loop[s] && x != nx.Block() {
						okExit = false
					}
				}
			}
			r.decide(okExit, "C04.complete", "MarshalResource:range "+c.Common().Method.Name()+"()", p.pos(rg.Pos()), "visits every element", "the loop over "+c.Common().Method.Name()+"() can be left early: selected fields after that point are not emitted")
		}
	})
	r.floor("loops over Attrs()/Rels()", nLoops, 2)

	// the searches through the field selection and the relationship-data list
	// stop only at a match (order-insensitive traversal, shared with C11)
	oa := &orderAnalysis{p: p, r: r, tainted: map[*ssa.Function]bool{}, rule: "C04.search-complete"}
	_, nSearch, _ := oa.checkFunction(f)
	// searches delegated to a small membership helper count once per call
	helperSearches := map[*ssa.Function]int{}
	eachInstr(f, func(ins ssa.Instruction) {
		c, ok := ins.(*ssa.Call)
		if !ok {
			return
		}
		g := c.Common().StaticCallee()
		if g == nil || g.Blocks == nil || !smallHelper(g) {
			return
		}
		k, seen := helperSearches[g]
		if !seen {
			_, k, _ = oa.checkFunction(g)
			helperSearches[g] = k
		}
		nSearch += k
	})
	r.floor("loops over selections in MarshalResource (helper searches counted per call)", nSearch, 4)

	checkMarshalCallSites(p, r, f)
	checkDataShape(p, r, f)
	checkMarshalPlumbing(p, r, "C04")
}

func checkMarshalCallSites(p *Prog, r *Report, mr *ssa.Function) {
	checkMarshalCallSitesRule(p, r, mr, "C04.call-sites")
}

func checkMarshalCallSitesRule(p *Prog, r *Report, mr *ssa.Function, rule string) {
	n := 0
	for _, name := range []string{"MarshalDocument", "MarshalCollection"} {
		f := p.Fn(name)
		if f == nil {
			r.fail("anchor %s not found", name)
			continue
		}
		r.fn(name)
		// the function and the phase helpers it calls
		eachInstrOf(append([]*ssa.Function{f}, stringHelpers(f)...), func(ins ssa.Instruction) {
			c, ok := ins.(*ssa.Call)
			if !ok || c.Common().StaticCallee() != mr {
				return
			}
			n++
			res, sel := c.Common().Args[0], c.Common().Args[2]
			good, why := false, "the selection is not a lookup in the Fields map"
			if lk, ok := sel.(*ssa.Lookup); ok {
				why = "the key of the lookup is not the type name of the resource being marshaled"
				base, fl, ok := fieldLoad(lk.Index)
				if ok && fl == "Name" {
					gt, _ := callOf(base)
					if gt == nil {
						if al, ok := base.(*ssa.Alloc); ok {
							for _, ref := range referrers(al) {
								if st, ok := ref.(*ssa.Store); ok {
									gt, _ = callOf(st.Val)
								}
							}
						}
					}
					if gt != nil && gt.Common().IsInvoke() && gt.Common().Method.Name() == "GetType" && sameResourceValue(gt.Common().Value, res) {
						good = true
					}
				}
				// the map: Params.Fields of the URL, or the fields parameter
				if good {
					okMap := false
					if _, mf, ok := fieldLoad(lk.X); ok && mf == "Fields" {
						okMap = true
					}
					if prm, ok := lk.X.(*ssa.Parameter); ok && prm.Name() == "fields" {
						okMap = true
					}
					if !okMap {
						good, why = false, "the selection is not looked up in the URL's Fields map"
					}
				}
			}
			r.decide(good, rule, name+":"+p.describe(c), p.pos(c.Pos()), "selection = Fields[x.GetType().Name] for the resource x being marshaled",
				"a resource is marshaled with a field selection that is not Fields[<its own type name>]: "+why)
			// relData argument: the document's RelData / the relData parameter
			rd := c.Common().Args[3]
			okRD := false
			if _, fl, ok := fieldLoad(rd); ok && fl == "RelData" {
				okRD = true
			}
			if prm, ok := rd.(*ssa.Parameter); ok && prm.Name() == "relData" {
				okRD = true
			}
			r.decide(okRD, rule, name+":relData:"+p.describe(c), p.pos(c.Pos()), "passes the document's RelData", "the relationship-data request passed to MarshalResource is not the document's RelData")
		})
	}
	r.floor("MarshalResource call sites", n, 3)
}

// sameResourceValue: a and b denote the same resource: identical SSA values,
// or two loads of the same slice element.
func sameResourceValue(a, b ssa.Value) bool {
	if a == b {
		return true
	}
	la, ok1 := a.(*ssa.UnOp)
	lb, ok2 := b.(*ssa.UnOp)
	if !ok1 || !ok2 {
		return false
	}
	ia, ok1 := la.X.(*ssa.IndexAddr)
	ib, ok2 := lb.X.(*ssa.IndexAddr)
	if !ok1 || !ok2 || ia.Index != ib.Index {
		return false
	}
	if ia.X == ib.X {
		return true
	}
	// two loads of the same field (doc.Included)
	xa, ok1 := ia.X.(*ssa.UnOp)
	xb, ok2 := ib.X.(*ssa.UnOp)
	return ok1 && ok2 && sameAddr(xa.X, xb.X)
}

func checkDataShape(p *Prog, r *Report, f *ssa.Function) {
	n := 0
	eachInstr(f, func(ins ssa.Instruction) {
		mu, ok := ins.(*ssa.MapUpdate)
		if !ok {
			return
		}
		if ks, ok := constString(mu.Key); !ok || ks != "data" {
			return
		}
		n++
		mt := mu.Map.Type().Underlying().(*types.Map)
		if isEmptyIface(mt.Elem()) {
			// to-many: data is the slice built by one append per element of the ID list
			good := false
			if mi, ok := mu.Value.(*ssa.MakeInterface); ok {
				for _, o := range origins(mi.X) {
					if c, ok := o.(*ssa.Call); ok && builtinName(c.Common()) == "append" {
						good = true
					}
					// or a list of the ID list's length filled by index in the emitting loop
					if ms, ok := o.(*ssa.MakeSlice); ok {
						for _, ld := range findLoops(f) {
							if ld.kind == "slice" && indexFilled(ld) == ms {
								good = true
							}
						}
					}
				}
			}
			r.decide(good, "C04.data-shape", "MarshalResource:to-many-data", p.pos(mu.Pos()), "data is the list built by appending one identifier per ID", "the to-many data member is not the list of identifiers built from the ID list")
			return
		}
		// the member may be built by a helper: each of its returns is then held
		// to the same rule
		if hc, isCall := mu.Value.(*ssa.Call); isCall {
			if g := hc.Common().StaticCallee(); g != nil && smallHelper(g) {
				good, nret := true, 0
				for _, b := range g.Blocks {
					ret, ok := b.Instrs[len(b.Instrs)-1].(*ssa.Return)
					if !ok || len(ret.Results) != 1 {
						continue
					}
					nret++
					ie := 0
					for _, ef := range expandFacts(factsAt(b)) {
						bo, ok := ef.Cond.(*ssa.BinOp)
						if !ok || (bo.Op != token.NEQ && bo.Op != token.EQL) {
							continue
						}
						if s0, ok := constString(bo.Y); ok && s0 == "" {
							if (bo.Op == token.EQL) == ef.Truth {
								ie = 1
							} else {
								ie = -1
							}
						}
					}
					isNil := isNilConst(ret.Results[0])
					if !((ie == 1 && isNil) || (ie == -1 && !isNil)) {
						good = false
					}
				}
				r.decide(good && nret >= 2, "C04.data-shape", "MarshalResource:to-one-data:"+p.describe(mu), p.pos(mu.Pos()), "the helper returns null exactly when the related ID is empty", "a to-one data member is null for a non-empty ID or an identifier for an empty one")
				return
			}
		}
		// to-one: nil const on the id == "" edge, a map literal otherwise
		idEmpty := 0
		for _, ef := range expandFacts(factsAt(mu.Block())) {
			bo, ok := ef.Cond.(*ssa.BinOp)
			if !ok || (bo.Op != token.NEQ && bo.Op != token.EQL) {
				continue
			}
			if s, ok := constString(bo.Y); ok && s == "" {
				if (bo.Op == token.EQL) == ef.Truth {
					idEmpty = 1
				} else {
					idEmpty = -1
				}
			}
		}
		isNil := isNilConst(mu.Value)
		good := (idEmpty == 1 && isNil) || (idEmpty == -1 && !isNil)
		r.decide(good, "C04.data-shape", "MarshalResource:to-one-data:"+p.describe(mu), p.pos(mu.Pos()), "null exactly when the related ID is empty", "a to-one data member is null for a non-empty ID or an identifier for an empty one")
	})
	r.floor("data member stores", n, 2)
}

// checkRelDataKey: in MarshalResource every lookup in the relationship-data
// request is keyed by the type name of the resource being marshaled.
func checkRelDataKey(p *Prog, r *Report, prefix string) {
	f := p.Fn("MarshalResource")
	if f == nil {
		r.fail("anchor MarshalResource not found")
		return
	}
	relDataP := f.Params[3]
	n := 0
	eachInstr(f, func(ins ssa.Instruction) {
		lk, ok := ins.(*ssa.Lookup)
		if !ok || lk.X != ssa.Value(relDataP) {
			return
		}
		n++
		good := false
		if base, fl, ok := fieldLoad(lk.Index); ok && fl == "Name" {
			isGT := func(x ssa.Value) bool {
				c, _ := callOf(x)
				return c != nil && c.Common().IsInvoke() && c.Common().Method.Name() == "GetType" && c.Common().Value == ssa.Value(f.Params[0])
			}
			if isGT(base) {
				good = true
			}
			if al, ok := base.(*ssa.Alloc); ok {
				for _, ref := range referrers(al) {
					if st, ok := ref.(*ssa.Store); ok && isGT(st.Val) {
						good = true
					}
				}
			}
		}
		r.decide(good, prefix+".reldata-key", "MarshalResource:"+p.describe(lk), p.pos(lk.Pos()), "looked up under the resource's own type name", "the relationship-data request is looked up under something other than the type name of the resource being marshaled: relationship data selected for this type is not emitted (e.g. for relationships whose FromType is empty)")
	})
	r.floor("relationship-data lookups in MarshalResource", n, 2)
}

// setOfList: m is a local map (made in the function) whose every stored key is
// an element of a list accepted by isList, with a constant (or empty struct)
// value: the set of the list's items.
func setOfList(m ssa.Value, isList func(ssa.Value) bool) bool {
	mk, ok := m.(*ssa.MakeMap)
	if !ok {
		return false
	}
	n := 0
	for _, ref := range referrers(mk) {
		switch x := ref.(type) {
		case *ssa.MapUpdate:
			if x.Map != ssa.Value(mk) || !elemOfValue(x.Key, isList) {
				return false
			}
			n++
		case *ssa.Lookup, *ssa.DebugRef:
		case *ssa.Call:
			if builtinName(x.Common()) != "len" {
				return false
			}
		default:
			return false
		}
	}
	return n > 0
}
