// verifchk decides structural necessary conditions of the jsonapi properties
// C01–C20 from the source in /repo, without executing any of it.
package main

import (
	"encoding/json"
	"flag"
	"fmt"
	"os"
	"path/filepath"
	"runtime/debug"
	"sort"
	"strconv"
)

type checkFunc func(p *Prog, r *Report)

var registry = map[string]checkFunc{}

func register(id string, f checkFunc) { registry[id] = f }

func main() {
	var (
		prop   = flag.String("prop", "", "property id (C01…C20)")
		tier   = flag.String("tier", "quick", "quick | thorough")
		repo   = flag.String("repo", "/repo", "repository root to analyse")
		verif  = flag.String("verif", "", "verification directory (default: parent of the executable's directory)")
		goarch = flag.String("goarch", "", "GOARCH to analyse under (default: host)")
		replay = flag.String("replay", "", "replay file: re-run the property and print the named obligation")
		dump   = flag.String("dump", "", "debug: funcs | reach:<fn> | ssa:<fn>")
		noCal  = flag.Bool("nocalibrate", false, "thorough tier: skip checker calibration on seeded variants")
	)
	flag.Parse()
	if *verif == "" {
		exe, err := os.Executable()
		if err == nil {
			*verif = filepath.Dir(filepath.Dir(exe))
		} else {
			*verif = "/verif"
		}
	}
	if t := os.Getenv("VERIF_TIER"); t != "" && !flagSet("tier") {
		*tier = t
	}
	seed := 0
	if s := os.Getenv("VERIF_SEED"); s != "" {
		seed, _ = strconv.Atoi(s)
	}

	if *replay != "" {
		os.Exit(doReplay(*replay, *verif))
	}
	if *dump != "" {
		p, err := loadProg(*repo, *goarch)
		if err != nil {
			fmt.Fprintln(os.Stderr, err)
			os.Exit(2)
		}
		doDump(p, *dump)
		return
	}
	f, ok := registry[*prop]
	if !ok {
		ids := []string{}
		for id := range registry {
			ids = append(ids, id)
		}
		sort.Strings(ids)
		fmt.Fprintf(os.Stderr, "unknown property %q; known: %v\n", *prop, ids)
		os.Exit(2)
	}
	code := runProp(*prop, f, *tier, *repo, *verif, *goarch, seed, *noCal)
	os.Exit(code)
}

func flagSet(name string) bool {
	set := false
	flag.Visit(func(f *flag.Flag) {
		if f.Name == name {
			set = true
		}
	})
	return set
}

// runProp runs one property check and returns the exit code.
func runProp(id string, f checkFunc, tier, repo, verif, goarch string, seed int, noCal bool) (code int) {
	r := newReport(id, tier)
	defer func() {
		if e := recover(); e != nil {
			fmt.Printf("CHECKER-ERROR property=%s panic: %v\n%s\n", id, e, debug.Stack())
			code = 2
		}
	}()
	p, err := loadProg(repo, goarch)
	if err != nil {
		fmt.Printf("CHECKER-ERROR property=%s %v\n", id, err)
		return 2
	}
	r.count("package_functions", len(p.Funcs))
	deep = tier == "thorough"
	f(p, r)
	extra := map[string]any{}
	if tier == "thorough" {
		thorough(id, f, p, r, repo, verif, extra, noCal)
	}
	return r.finish(verif, repo, goarch, seed, extra)
}

func doReplay(path, verif string) int {
	b, err := os.ReadFile(path)
	if err != nil {
		fmt.Fprintln(os.Stderr, err)
		return 2
	}
	var rf replayFile
	if err := json.Unmarshal(b, &rf); err != nil {
		fmt.Fprintln(os.Stderr, err)
		return 2
	}
	f, ok := registry[rf.Property]
	if !ok {
		fmt.Fprintf(os.Stderr, "unknown property %q in replay file\n", rf.Property)
		return 2
	}
	r := newReport(rf.Property, "quick")
	p, err := loadProg(rf.Repo, rf.GOARCH)
	if err != nil {
		fmt.Fprintln(os.Stderr, err)
		return 2
	}
	f(p, r)
	for _, o := range r.obs {
		if o.Key == rf.Obligation.Key {
			fmt.Printf("obligation %s\n  rule:   %s\n  at:     %s\n  status: %s\n  detail: %s\n", o.Key, o.Rule, o.Pos, o.Status, o.Detail)
			if o.Status == "violated" {
				fmt.Printf("VIOLATION property=%s replay=%s\n", rf.Property, path)
				return 1
			}
			return 0
		}
	}
	fmt.Printf("obligation %s no longer exists in the current tree\n", rf.Obligation.Key)
	return 0
}
