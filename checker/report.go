package main

import (
	"encoding/json"
	"fmt"
	"os"
	"path/filepath"
	"sort"
	"strings"
	"time"
)

// An Obligation is one rule instance: a specific construct of the program
// that a rule had to decide.
type Obligation struct {
	Key    string `json:"key"`    // rule:function:construct — stable across unrelated edits
	Rule   string `json:"rule"`   // rule family (R1 … R16, or a property-specific name)
	Pos    string `json:"pos"`    // file:line in /repo
	Status string `json:"status"` // discharged | violated | known-finding
	Detail string `json:"detail"` // why it is discharged / what fails
}

// Report collects what one property check analysed and decided.
type Report struct {
	Prop        string
	Tier        string
	obs         []Obligation
	keys        map[string]int
	Functions   map[string]bool
	Rules       []string // rule texts applied
	NotCovered  []string
	Assumptions []string
	Notes       []string
	counters    map[string]int
	broken      []string // checker-level failures (not property violations)
	start       time.Time
}

func newReport(prop, tier string) *Report {
	return &Report{Prop: prop, Tier: tier, keys: map[string]int{}, Functions: map[string]bool{},
		counters: map[string]int{}, start: time.Now()}
}

// uniq makes keys unique by appending #n to repeated constructs.
func (r *Report) uniq(key string) string {
	r.keys[key]++
	if n := r.keys[key]; n > 1 {
		return fmt.Sprintf("%s#%d", key, n)
	}
	return key
}

func (r *Report) ok(rule, key, pos, detail string) {
	r.obs = append(r.obs, Obligation{Key: r.uniq(rule + ":" + key), Rule: rule, Pos: pos, Status: "discharged", Detail: detail})
}

func (r *Report) bad(rule, key, pos, detail string) {
	r.obs = append(r.obs, Obligation{Key: r.uniq(rule + ":" + key), Rule: rule, Pos: pos, Status: "violated", Detail: detail})
}

// decide records an obligation as discharged or violated.
func (r *Report) decide(okay bool, rule, key, pos, okDetail, badDetail string) bool {
	if okay {
		r.ok(rule, key, pos, okDetail)
	} else {
		r.bad(rule, key, pos, badDetail)
	}
	return okay
}

func (r *Report) rule(text string)         { r.Rules = append(r.Rules, text) }
func (r *Report) notCovered(text string)   { r.NotCovered = append(r.NotCovered, text) }
func (r *Report) assume(text string)       { r.Assumptions = append(r.Assumptions, text) }
func (r *Report) note(text string)         { r.Notes = append(r.Notes, text) }
func (r *Report) count(what string, n int) { r.counters[what] += n }
func (r *Report) fn(name string)           { r.Functions[name] = true }

// fail marks the checker itself as broken for this run (unresolved anchor,
// vacuous rule, internal inconsistency). This is not a property violation.
func (r *Report) fail(format string, a ...any) {
	r.broken = append(r.broken, fmt.Sprintf(format, a...))
}

// floor fails the run as vacuous when fewer instances than confirmed by hand
// were matched.
func (r *Report) floor(what string, got, min int) {
	r.counters[what] = got
	if got < min {
		r.fail("vacuous: %s matched %d instance(s), floor is %d", what, got, min)
	}
}

// ---------------------------------------------------------------------------
// known findings

type KnownFinding struct {
	Property string `json:"property"`
	Key      string `json:"key"`
	Status   string `json:"status"` // "known" or "fixed"
	Commit   string `json:"commit,omitempty"`
	What     string `json:"what"`
	Input    string `json:"failing_input,omitempty"`
}

type knownFile struct {
	Comment  string         `json:"_comment"`
	Findings []KnownFinding `json:"findings"`
	Fixed    []string       `json:"fixed"`
}

func loadKnown(path string) (*knownFile, error) {
	b, err := os.ReadFile(path)
	if err != nil {
		if os.IsNotExist(err) {
			return &knownFile{}, nil
		}
		return nil, err
	}
	var k knownFile
	if err := json.Unmarshal(b, &k); err != nil {
		return nil, fmt.Errorf("%s: %v", path, err)
	}
	return &k, nil
}

// ---------------------------------------------------------------------------
// output

type evidenceFile struct {
	PropertyID  string         `json:"property_id"`
	Tier        string         `json:"tier"`
	Seed        int            `json:"seed"`
	Level       string         `json:"level"`
	Coverage    map[string]any `json:"coverage"`
	Assumptions []string       `json:"assumptions"`
	WallS       float64        `json:"wall_s"`
	Violations  int            `json:"violations"`
}

type replayFile struct {
	Property   string     `json:"property"`
	Obligation Obligation `json:"obligation"`
	Repo       string     `json:"repo"`
	GOARCH     string     `json:"goarch"`
	Hint       string     `json:"hint"`
}

// finish applies the known-findings file, prints the verdict lines, writes the
// evidence and replay files, and returns the process exit code.
func (r *Report) finish(verifDir, repo, goarch string, seed int, extra map[string]any) int {
	known, err := loadKnown(filepath.Join(verifDir, "known_findings.json"))
	if err != nil {
		fmt.Fprintf(os.Stderr, "cannot read known findings: %v\n", err)
		return 2
	}
	knownKeys := map[string]KnownFinding{}
	for _, k := range known.Findings {
		if k.Property == r.Prop && k.Status == "known" {
			knownKeys[k.Key] = k
		}
	}
	sort.SliceStable(r.obs, func(i, j int) bool { return r.obs[i].Key < r.obs[j].Key })

	var violations []Obligation
	nDis, nKnown := 0, 0
	for i := range r.obs {
		o := &r.obs[i]
		switch o.Status {
		case "discharged":
			nDis++
		case "violated":
			if k, ok := knownKeys[o.Key]; ok {
				o.Status = "known-finding"
				nKnown++
				fmt.Printf("KNOWN-FINDING: property=%s %s %s (%s)\n", r.Prop, o.Key, k.What, o.Pos)
			} else {
				violations = append(violations, *o)
			}
		}
	}

	replayDir := filepath.Join(verifDir, "replay")
	_ = os.MkdirAll(replayDir, 0o755)
	// remove stale replay files of this property
	if old, _ := filepath.Glob(filepath.Join(replayDir, r.Prop+"-*.json")); len(old) > 0 {
		for _, f := range old {
			_ = os.Remove(f)
		}
	}
	for i, v := range violations {
		path := filepath.Join(replayDir, fmt.Sprintf("%s-%d.json", r.Prop, i+1))
		b, _ := json.MarshalIndent(replayFile{Property: r.Prop, Obligation: v, Repo: repo, GOARCH: goarch,
			Hint: "re-run: bin/verifchk -replay " + path}, "", " ")
		_ = os.WriteFile(path, b, 0o644)
		fmt.Printf("VIOLATION property=%s replay=%s\n", r.Prop, path)
		fmt.Printf("  %s at %s: %s\n", v.Key, v.Pos, v.Detail)
	}
	for _, b := range r.broken {
		fmt.Printf("CHECKER-ERROR property=%s %s\n", r.Prop, b)
	}

	// evidence
	fns := make([]string, 0, len(r.Functions))
	for f := range r.Functions {
		fns = append(fns, f)
	}
	sort.Strings(fns)
	byRule := map[string]int{}
	for _, o := range r.obs {
		byRule[o.Rule]++
	}
	samples := []any{}
	seenRule := map[string]int{}
	for _, o := range r.obs {
		if seenRule[o.Rule] < 3 || o.Status != "discharged" {
			seenRule[o.Rule]++
			samples = append(samples, o)
		}
	}
	cov := map[string]any{
		"explanation": fmt.Sprintf("Static analysis of %s (non-test files, GOARCH=%s) over the type-checked program and its go/ssa form; "+
			"nothing from the repository is executed. %d obligations (rule instances over named constructs) were enumerated from the current source; "+
			"%d discharged by the rule's structural argument, %d are listed known findings, %d violated. "+
			"Each obligation is a necessary structural condition of the property, not the behaviour itself; see not_covered.",
			repo, goarchOrDefault(goarch), len(r.obs), nDis, nKnown, len(violations)),
		"obligations":          len(r.obs),
		"discharged":           nDis,
		"known_findings":       nKnown,
		"violated":             len(violations),
		"obligations_by_rule":  byRule,
		"rules":                r.Rules,
		"functions_analysed":   fns,
		"n_functions_analysed": len(fns),
		"counters":             r.counters,
		"not_covered":          r.NotCovered,
		"notes":                r.Notes,
		"samples":              samples,
		"all_obligations":      r.obs,
		"checker_cmd":          strings.Join(os.Args, " "),
		"checker_errors":       r.broken,
		"trusted_base": []string{"go/types", "golang.org/x/tools/go/ssa v0.29.0", "go/packages loader",
			"contract table for the standard library (contracts.go)"},
	}
	for k, v := range extra {
		cov[k] = v
	}
	ev := evidenceFile{
		PropertyID: r.Prop, Tier: r.Tier, Seed: seed, Level: "other", Coverage: cov,
		Assumptions: r.Assumptions, WallS: time.Since(r.start).Seconds(), Violations: len(violations),
	}
	if ev.Assumptions == nil {
		ev.Assumptions = []string{}
	}
	evDir := filepath.Join(verifDir, "evidence")
	_ = os.MkdirAll(evDir, 0o755)
	b, _ := json.MarshalIndent(ev, "", " ")
	if err := os.WriteFile(filepath.Join(evDir, r.Prop+".json"), append(b, '\n'), 0o644); err != nil {
		fmt.Fprintf(os.Stderr, "cannot write evidence: %v\n", err)
		return 2
	}

	fmt.Printf("property=%s tier=%s obligations=%d discharged=%d known=%d violated=%d functions=%d wall=%.1fs\n",
		r.Prop, r.Tier, len(r.obs), nDis, nKnown, len(violations), len(fns), ev.WallS)
	if len(violations) > 0 {
		return 1
	}
	if len(r.broken) > 0 {
		return 2
	}
	return 0
}

func goarchOrDefault(a string) string {
	if a == "" {
		return "amd64"
	}
	return a
}

// importRules runs another property's rule set on a scratch report and takes
// over the obligations whose rule name starts with one of the given prefixes,
// renamed into this property's namespace: properties that depend on the same
// structural fact decide it with the same rule.
func (r *Report) importRules(run func(r2 *Report), newPrefix string, rulePrefixes ...string) int {
	r2 := newReport(r.Prop, r.Tier)
	run(r2)
	n := 0
	for _, o := range r2.obs {
		for _, rp := range rulePrefixes {
			if strings.HasPrefix(o.Rule, rp) {
				rule := newPrefix + "." + strings.TrimPrefix(strings.TrimPrefix(o.Rule, rp), ".")
				rule = strings.TrimSuffix(rule, ".")
				key := strings.TrimPrefix(o.Key, o.Rule+":")
				n++
				if o.Status == "violated" {
					r.bad(rule, key, o.Pos, o.Detail)
				} else {
					r.ok(rule, key, o.Pos, o.Detail)
				}
				break
			}
		}
	}
	for _, b := range r2.broken {
		r.fail("%s", b)
	}
	for f := range r2.Functions {
		r.fn(f)
	}
	return n
}
