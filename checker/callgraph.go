package main

import (
	"go/types"
	"sort"
	"strings"

	"golang.org/x/tools/go/ssa"
)

// callGraph resolves calls made by functions of the target package.
//
// Resolution is by types, never by name:
//   - static callees directly (bound-method closures and thunks are unwrapped
//     to the method they wrap);
//   - interface invocations to every method of a target-package type that
//     implements the interface (package-local CHA);
//   - dynamic calls of func values to every target-package function whose
//     address is taken (closure, bound method, plain function value) and whose
//     signature is identical;
//   - callbacks from the standard library: sort.Sort/Stable → Len/Less/Swap of
//     the argument's type, sort.Slice & co → the closure argument,
//     encoding/json Marshal/Unmarshal → every MarshalJSON/UnmarshalJSON of the
//     package, fmt → every String/Error method of the package.
//
// Functions outside the target package are leaves ("external").
type callGraph struct {
	p *Prog
	// concrete named types of the target package, value and pointer forms
	recvTypes []types.Type
	// functions used as values
	valueFuncs []*ssa.Function
	callees    map[ssa.CallInstruction][]*ssa.Function
	externals  map[ssa.CallInstruction][]*ssa.Function
	out        map[*ssa.Function][]*ssa.Function // in-target successors
	callers    map[*ssa.Function][]ssa.CallInstruction
}

func newCallGraph(p *Prog) *callGraph {
	g := &callGraph{
		p:         p,
		callees:   map[ssa.CallInstruction][]*ssa.Function{},
		externals: map[ssa.CallInstruction][]*ssa.Function{},
		out:       map[*ssa.Function][]*ssa.Function{},
		callers:   map[*ssa.Function][]ssa.CallInstruction{},
	}
	for _, m := range p.SSAPkg.Members {
		if t, ok := m.(*ssa.Type); ok {
			if nt, ok := t.Type().(*types.Named); ok {
				if _, isIface := nt.Underlying().(*types.Interface); isIface {
					continue
				}
				g.recvTypes = append(g.recvTypes, nt, types.NewPointer(nt))
			}
		}
	}
	sort.Slice(g.recvTypes, func(i, j int) bool { return g.recvTypes[i].String() < g.recvTypes[j].String() })

	// functions used as values
	seen := map[*ssa.Function]bool{}
	for _, f := range p.Funcs {
		for _, b := range f.Blocks {
			for _, ins := range b.Instrs {
				if mc, ok := ins.(*ssa.MakeClosure); ok {
					if fn, ok := mc.Fn.(*ssa.Function); ok {
						fn = unwrapSynthetic(fn)
						if !seen[fn] {
							seen[fn] = true
							g.valueFuncs = append(g.valueFuncs, fn)
						}
					}
				}
				var callee ssa.Value
				if c, ok := ins.(ssa.CallInstruction); ok {
					callee = c.Common().Value
				}
				for _, op := range ins.Operands(nil) {
					if op == nil || *op == nil {
						continue
					}
					if fn, ok := (*op).(*ssa.Function); ok && *op != callee {
						fn = unwrapSynthetic(fn)
						if !seen[fn] {
							seen[fn] = true
							g.valueFuncs = append(g.valueFuncs, fn)
						}
					}
				}
			}
		}
	}

	for _, f := range p.Funcs {
		set := map[*ssa.Function]bool{}
		for _, b := range f.Blocks {
			for _, ins := range b.Instrs {
				c, ok := ins.(ssa.CallInstruction)
				if !ok {
					continue
				}
				in, ext := g.resolve(c)
				g.callees[c] = in
				g.externals[c] = ext
				for _, t := range in {
					if !set[t] {
						set[t] = true
						g.out[f] = append(g.out[f], t)
					}
					g.callers[t] = append(g.callers[t], c)
				}
			}
		}
	}
	return g
}

// unwrapSynthetic maps bound-method closures and thunks to the declared method.
func unwrapSynthetic(fn *ssa.Function) *ssa.Function {
	for i := 0; i < 4 && fn != nil && fn.Synthetic != "" && fn.Blocks != nil; i++ {
		var next *ssa.Function
		for _, b := range fn.Blocks {
			for _, ins := range b.Instrs {
				if c, ok := ins.(ssa.CallInstruction); ok {
					if sc := c.Common().StaticCallee(); sc != nil {
						next = sc
					}
				}
			}
		}
		if next == nil {
			return fn
		}
		fn = next
	}
	return fn
}

func (g *callGraph) methodsImplementing(iface *types.Interface, name string) []*ssa.Function {
	var res []*ssa.Function
	for _, t := range g.recvTypes {
		if !types.Implements(t, iface) {
			continue
		}
		ms := g.p.SSAProg.MethodSets.MethodSet(t)
		sel := ms.Lookup(g.p.Types, name)
		if sel == nil {
			// exported method: package does not matter
			sel = ms.Lookup(nil, name)
		}
		if sel == nil {
			continue
		}
		fn := g.p.SSAProg.MethodValue(sel)
		if fn == nil {
			continue
		}
		fn = unwrapSynthetic(fn)
		res = append(res, fn)
	}
	return dedupFuncs(res)
}

func (g *callGraph) methodsNamed(names ...string) []*ssa.Function {
	var res []*ssa.Function
	for _, t := range g.recvTypes {
		ms := g.p.SSAProg.MethodSets.MethodSet(t)
		for _, n := range names {
			sel := ms.Lookup(nil, n)
			if sel == nil {
				continue
			}
			if fn := g.p.SSAProg.MethodValue(sel); fn != nil {
				res = append(res, unwrapSynthetic(fn))
			}
		}
	}
	return dedupFuncs(res)
}

func dedupFuncs(fs []*ssa.Function) []*ssa.Function {
	seen := map[*ssa.Function]bool{}
	var out []*ssa.Function
	for _, f := range fs {
		if f != nil && !seen[f] {
			seen[f] = true
			out = append(out, f)
		}
	}
	sort.Slice(out, func(i, j int) bool { return funcName(out[i]) < funcName(out[j]) })
	return out
}

// resolve returns (in-target callees with bodies, external callees).
func (g *callGraph) resolve(c ssa.CallInstruction) (in, ext []*ssa.Function) {
	cc := c.Common()
	add := func(fn *ssa.Function) {
		if fn == nil {
			return
		}
		fn = unwrapSynthetic(fn)
		if g.p.inTarget(fn) && fn.Blocks != nil {
			in = append(in, fn)
		} else {
			ext = append(ext, fn)
		}
	}
	if cc.IsInvoke() {
		iface, _ := cc.Value.Type().Underlying().(*types.Interface)
		if iface != nil {
			for _, fn := range g.methodsImplementing(iface, cc.Method.Name()) {
				add(fn)
			}
		}
		return dedupFuncs(in), dedupFuncs(ext)
	}
	if sc := cc.StaticCallee(); sc != nil {
		add(sc)
		// callbacks from the standard library
		if !g.p.inTarget(unwrapSynthetic(sc)) {
			for _, fn := range g.callbacks(sc, cc) {
				add(fn)
			}
		}
		return dedupFuncs(in), dedupFuncs(ext)
	}
	if _, ok := cc.Value.(*ssa.Builtin); ok {
		return nil, nil
	}
	// dynamic call through a func value
	sig, _ := cc.Value.Type().Underlying().(*types.Signature)
	if mc, ok := cc.Value.(*ssa.MakeClosure); ok {
		add(mc.Fn.(*ssa.Function))
		return dedupFuncs(in), dedupFuncs(ext)
	}
	for _, fn := range g.valueFuncs {
		if sig != nil && sameSigIgnoringRecv(fn.Signature, sig) {
			add(fn)
		}
	}
	return dedupFuncs(in), dedupFuncs(ext)
}

func sameSigIgnoringRecv(a, b *types.Signature) bool {
	if a.Params().Len() != b.Params().Len() || a.Results().Len() != b.Results().Len() || a.Variadic() != b.Variadic() {
		return false
	}
	for i := 0; i < a.Params().Len(); i++ {
		if !types.Identical(a.Params().At(i).Type(), b.Params().At(i).Type()) {
			return false
		}
	}
	for i := 0; i < a.Results().Len(); i++ {
		if !types.Identical(a.Results().At(i).Type(), b.Results().At(i).Type()) {
			return false
		}
	}
	return true
}

// callbacks models which target-package functions an external callee may
// invoke on our behalf.
func (g *callGraph) callbacks(sc *ssa.Function, cc *ssa.CallCommon) []*ssa.Function {
	var res []*ssa.Function
	pkg := ""
	if sc.Pkg != nil {
		pkg = sc.Pkg.Pkg.Path()
	} else if sc.Object() != nil && sc.Object().Pkg() != nil {
		pkg = sc.Object().Pkg().Path()
	}
	// closures / function values passed as arguments are called back
	for _, a := range cc.Args {
		switch a := a.(type) {
		case *ssa.MakeClosure:
			res = append(res, a.Fn.(*ssa.Function))
		case *ssa.Function:
			res = append(res, a)
		}
	}
	// arguments of a target-package type passed to sort: Len/Less/Swap
	if pkg == "sort" {
		for _, a := range cc.Args {
			t := a.Type()
			if mi, ok := a.(*ssa.MakeInterface); ok {
				t = mi.X.Type()
			}
			ms := g.p.SSAProg.MethodSets.MethodSet(t)
			for _, n := range []string{"Len", "Less", "Swap"} {
				if sel := ms.Lookup(g.p.Types, n); sel != nil {
					res = append(res, g.p.SSAProg.MethodValue(sel))
				} else if sel := ms.Lookup(nil, n); sel != nil {
					res = append(res, g.p.SSAProg.MethodValue(sel))
				}
			}
		}
	}
	switch pkg {
	case "encoding/json":
		switch sc.Name() {
		case "Marshal", "MarshalIndent", "Encode":
			for _, a := range cc.Args {
				res = append(res, g.methodsOfValue(a, true, "MarshalJSON", "MarshalText")...)
			}
		case "Unmarshal", "Decode":
			// decoding into interface-typed positions creates only basic
			// values, so only statically visible types can be called back
			for _, a := range cc.Args {
				res = append(res, g.methodsOfValue(a, false, "UnmarshalJSON", "UnmarshalText")...)
			}
		}
	case "fmt":
		args := cc.Args
		// the variadic slice is built by the caller: look through it
		var vals []ssa.Value
		onlyTypeVerbs := false
		for i, a := range args {
			if s, ok := constString(a); ok && i < 2 {
				if verbs := fmtVerbs(s); verbs != "" && strings.Trim(verbs, "Tp") == "" {
					onlyTypeVerbs = true
				}
			}
			vals = append(vals, variadicElems(a)...)
		}
		if !onlyTypeVerbs {
			for _, a := range vals {
				res = append(res, g.methodsOfValue(a, true, "String", "Error", "Format", "GoString")...)
			}
		}
	}
	return res
}

// Callees returns the in-target callees of a call instruction.
func (g *callGraph) Callees(c ssa.CallInstruction) []*ssa.Function { return g.callees[c] }

// Externals returns the resolved callees outside the target package.
func (g *callGraph) Externals(c ssa.CallInstruction) []*ssa.Function { return g.externals[c] }

// Reachable returns every target-package function reachable from the roots.
func (g *callGraph) Reachable(roots ...*ssa.Function) []*ssa.Function {
	seen := map[*ssa.Function]bool{}
	var order []*ssa.Function
	var visit func(f *ssa.Function)
	visit = func(f *ssa.Function) {
		if f == nil || seen[f] {
			return
		}
		seen[f] = true
		order = append(order, f)
		for _, t := range g.out[f] {
			visit(t)
		}
		// anonymous functions defined inside are reachable when referenced;
		// MakeClosure operands are handled by resolve (callbacks / dynamic).
		for _, b := range f.Blocks {
			for _, ins := range b.Instrs {
				if mc, ok := ins.(*ssa.MakeClosure); ok {
					visit(unwrapSynthetic(mc.Fn.(*ssa.Function)))
				}
			}
		}
	}
	for _, r := range roots {
		visit(r)
	}
	sort.Slice(order, func(i, j int) bool { return funcName(order[i]) < funcName(order[j]) })
	return order
}

// fmtVerbs returns the verb letters of a format string.
func fmtVerbs(f string) string {
	var out []byte
	for i := 0; i < len(f); i++ {
		if f[i] != '%' {
			continue
		}
		i++
		for i < len(f) && strings.IndexByte("+-# 0123456789.[]*", f[i]) >= 0 {
			i++
		}
		if i < len(f) && f[i] != '%' {
			out = append(out, f[i])
		}
	}
	return string(out)
}

// variadicElems returns the values stored into a freshly built variadic
// slice (new [n]any; store each; slice), or the value itself.
func variadicElems(a ssa.Value) []ssa.Value {
	sl, ok := a.(*ssa.Slice)
	if !ok {
		return []ssa.Value{a}
	}
	al, ok := sl.X.(*ssa.Alloc)
	if !ok {
		return []ssa.Value{a}
	}
	var out []ssa.Value
	for _, ref := range referrers(al) {
		ia, ok := ref.(*ssa.IndexAddr)
		if !ok {
			continue
		}
		for _, r2 := range referrers(ia) {
			if st, ok := r2.(*ssa.Store); ok && st.Addr == ia {
				out = append(out, st.Val)
			}
		}
	}
	if len(out) == 0 {
		return []ssa.Value{a}
	}
	return out
}

// methodsOfValue returns the target-package methods with one of the given
// names that a reflective consumer may call on v: methods of every named type
// reachable through v's static type; if an interface-typed position is
// reachable and openIface is set, every method so named in the package.
func (g *callGraph) methodsOfValue(v ssa.Value, openIface bool, names ...string) []*ssa.Function {
	for {
		if ci, ok := v.(*ssa.ChangeInterface); ok {
			v = ci.X
			continue
		}
		break
	}
	if isNilConst(v) {
		return nil
	}
	t := v.Type()
	if mi, ok := v.(*ssa.MakeInterface); ok {
		t = mi.X.Type()
	}
	var res []*ssa.Function
	seen := map[types.Type]bool{}
	open := false
	var walk func(t types.Type)
	walk = func(t types.Type) {
		if t == nil || seen[t] {
			return
		}
		seen[t] = true
		for _, tt := range []types.Type{t, types.NewPointer(t)} {
			ms := g.p.SSAProg.MethodSets.MethodSet(tt)
			for _, n := range names {
				if sel := ms.Lookup(nil, n); sel != nil {
					if fn := g.p.SSAProg.MethodValue(sel); fn != nil {
						res = append(res, unwrapSynthetic(fn))
					}
				}
			}
		}
		switch u := t.Underlying().(type) {
		case *types.Pointer:
			walk(u.Elem())
		case *types.Slice:
			walk(u.Elem())
		case *types.Array:
			walk(u.Elem())
		case *types.Map:
			walk(u.Key())
			walk(u.Elem())
		case *types.Struct:
			for i := 0; i < u.NumFields(); i++ {
				walk(u.Field(i).Type())
			}
		case *types.Interface:
			if u.NumMethods() == 0 {
				open = true
			} else {
				// only target-package types that implement the interface
				for _, n := range names {
					for _, fn := range g.methodsImplementingAny(u, n) {
						res = append(res, fn)
					}
				}
			}
		}
	}
	walk(t)
	if open && openIface {
		res = append(res, g.methodsNamed(names...)...)
	}
	var in []*ssa.Function
	for _, f := range res {
		if g.p.inTarget(f) {
			in = append(in, f)
		}
	}
	return dedupFuncs(in)
}

// methodsImplementingAny is like methodsImplementing but for a method name
// that need not belong to the interface itself.
func (g *callGraph) methodsImplementingAny(iface *types.Interface, name string) []*ssa.Function {
	var res []*ssa.Function
	for _, t := range g.recvTypes {
		if !types.Implements(t, iface) {
			continue
		}
		ms := g.p.SSAProg.MethodSets.MethodSet(t)
		if sel := ms.Lookup(nil, name); sel != nil {
			if fn := g.p.SSAProg.MethodValue(sel); fn != nil {
				res = append(res, unwrapSynthetic(fn))
			}
		}
	}
	return dedupFuncs(res)
}
