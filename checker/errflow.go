package main

// R4: error discipline.
//  (a) every call whose callee returns an error has that error examined or
//      propagated (compared with nil, returned, wrapped or passed on);
//  (b) in functions returning (T, error), every return is either (value, nil)
//      or (empty, non-nil error).

import (
	"fmt"
	"go/token"
	"go/types"
	"sort"
	"strings"

	"golang.org/x/tools/go/ssa"
)

func isErrorType(t types.Type) bool {
	if nt, ok := t.(*types.Named); ok && nt.Obj().Pkg() == nil && nt.Obj().Name() == "error" {
		return true
	}
	return false
}

// errUsed: the error value (followed through phis and stores to local
// variables) reaches a nil comparison, a return, or a call argument.
func errUsed(v ssa.Value, seen map[ssa.Value]bool) bool {
	if seen[v] {
		return false
	}
	seen[v] = true
	for _, ref := range referrers(v) {
		switch x := ref.(type) {
		case *ssa.BinOp:
			if x.Op == token.EQL || x.Op == token.NEQ {
				return true
			}
		case *ssa.Return:
			return true
		case *ssa.Phi:
			if errUsed(x, seen) {
				return true
			}
		case *ssa.MakeInterface:
			if errUsed(x, seen) {
				return true
			}
		case *ssa.ChangeInterface:
			if errUsed(x, seen) {
				return true
			}
		case *ssa.Store:
			// stored into a local variable: any load of it that is used
			if al, ok := x.Addr.(*ssa.Alloc); ok && x.Val == v {
				for _, r2 := range referrers(al) {
					if ld, ok := r2.(*ssa.UnOp); ok && errUsed(ld, seen) {
						return true
					}
				}
			} else if x.Val == v {
				return true // stored somewhere visible
			}
		case ssa.CallInstruction:
			return true
		case *ssa.Panic:
			return true
		case *ssa.TypeAssert:
			return true
		case *ssa.Extract:
			if errUsed(x, seen) {
				return true
			}
		case *ssa.If:
			return true
		}
	}
	return false
}

// marshalSafe: json.Marshal of a value of this static type cannot fail
// (only strings, booleans, integers, and maps/slices/structs/pointers of those).
func marshalSafe(t types.Type, seen map[types.Type]bool) bool {
	if seen[t] {
		return true
	}
	seen[t] = true
	if nt, ok := t.(*types.Named); ok && nt.Obj().Pkg() != nil {
		switch nt.Obj().Pkg().Path() + "." + nt.Obj().Name() {
		case "time.Time":
			return false // year outside [0,9999] fails
		case "encoding/json.RawMessage":
			return false // must be valid JSON
		}
	}
	switch u := t.Underlying().(type) {
	case *types.Basic:
		return u.Info()&(types.IsString|types.IsBoolean|types.IsInteger) != 0
	case *types.Slice:
		return marshalSafe(u.Elem(), seen)
	case *types.Array:
		return marshalSafe(u.Elem(), seen)
	case *types.Pointer:
		return marshalSafe(u.Elem(), seen)
	case *types.Map:
		if kb, ok := u.Key().Underlying().(*types.Basic); !ok || kb.Info()&types.IsString == 0 {
			return false
		}
		return marshalSafe(u.Elem(), seen)
	case *types.Struct:
		for i := 0; i < u.NumFields(); i++ {
			if !marshalSafe(u.Field(i).Type(), seen) {
				return false
			}
		}
		return true
	}
	return false
}

type errException struct {
	fn, callee, why string
}

// checkErrDrops applies R4(a) to the given functions.
func checkErrDrops(p *Prog, r *Report, fns []*ssa.Function, exceptions []errException) int {
	n := 0
	for _, f := range fns {
		eachInstr(f, func(ins ssa.Instruction) {
			c, ok := ins.(*ssa.Call)
			if !ok {
				return
			}
			sig := c.Common().Signature()
			res := sig.Results()
			if res == nil || res.Len() == 0 {
				return
			}
			last := res.At(res.Len() - 1).Type()
			if !isErrorType(last) {
				return
			}
			n++
			calleeName := "?"
			if sc := c.Common().StaticCallee(); sc != nil {
				calleeName = strings.TrimPrefix(fullName(sc), targetPkgPath+".")
			} else if c.Common().IsInvoke() {
				calleeName = c.Common().Method.Name()
			}
			key := funcName(f) + ":" + p.describe(c)
			var errVal ssa.Value
			if res.Len() == 1 {
				errVal = c
			} else {
				for _, ref := range referrers(c) {
					if ex, ok := ref.(*ssa.Extract); ok && ex.Index == res.Len()-1 {
						errVal = ex
					}
				}
			}
			if errVal != nil && errUsed(errVal, map[ssa.Value]bool{}) {
				r.ok("R4.err-checked", key, p.pos(c.Pos()), "error of "+calleeName+" is examined or propagated")
				return
			}
			// tuple returned as a whole: return f()
			if res.Len() > 1 {
				for _, ref := range referrers(c) {
					if _, ok := ref.(*ssa.Return); ok {
						r.ok("R4.err-checked", key, p.pos(c.Pos()), "result tuple of "+calleeName+" is returned as is")
						return
					}
				}
			}
			// discharged exceptions
			if calleeName == "encoding/json.Marshal" && len(c.Common().Args) == 1 {
				a := c.Common().Args[0]
				t := a.Type()
				if mi, ok := a.(*ssa.MakeInterface); ok {
					t = mi.X.Type()
				}
				if marshalSafe(t, map[types.Type]bool{}) {
					r.ok("R4.err-checked", key, p.pos(c.Pos()), "error of json.Marshal ignored, but the operand's static type ("+typeStr(t)+") contains only strings, booleans, integers and containers of them: encoding cannot fail")
					return
				}
			}
			// documented never to fail: the write methods of strings.Builder and
			// bytes.Buffer always return a nil error
			if strings.HasPrefix(calleeName, "strings.(*Builder).Write") || strings.HasPrefix(calleeName, "bytes.(*Buffer).Write") {
				r.ok("R4.err-checked", key, p.pos(c.Pos()), "error of "+calleeName+" ignored: documented to be always nil")
				return
			}
			for _, e := range exceptions {
				if e.fn == funcName(f) && e.callee == calleeName {
					r.ok("R4.err-checked", key, p.pos(c.Pos()), "error of "+calleeName+" ignored: "+e.why)
					return
				}
			}
			r.bad("R4.err-dropped", key, p.pos(c.Pos()), "the error returned by "+calleeName+" is never examined nor propagated")
		})
	}
	return n
}

// checkReturnExclusive applies R4(b) to f, which must return (T, error).
func checkReturnExclusive(p *Prog, r *Report, f *ssa.Function) int {
	res := f.Signature.Results()
	if res == nil || res.Len() != 2 || !isErrorType(res.At(1).Type()) {
		return 0
	}
	n := 0
	eachInstr(f, func(ins ssa.Instruction) {
		ret, ok := ins.(*ssa.Return)
		if !ok || len(ret.Results) != 2 {
			return
		}
		n++
		val, errv := ret.Results[0], ret.Results[1]
		key := funcName(f) + ":" + p.describe(ret)
		ek := errKind(errv, ret)
		if e0, ok := val.(*ssa.Extract); ok {
			if e1, ok := errv.(*ssa.Extract); ok && e0.Tuple == e1.Tuple && e0.Index == 0 && e1.Index == 1 && ek != "nil" && ek != "nonnil" {
				ek = "tuple"
			}
		}
		vk := valKind(val)
		switch {
		case ek == "tuple":
			r.ok("R4.exclusive-return", key, p.pos(ret.Pos()), "returns a callee's (value, error) pair unchanged")
		case ek == "nil" && vk != "empty":
			r.ok("R4.exclusive-return", key, p.pos(ret.Pos()), "(value, nil)")
		case ek == "nil" && vk == "empty":
			r.bad("R4.exclusive-return", key, p.pos(ret.Pos()), "returns no result and no error")
		case ek == "nonnil" && vk == "empty":
			r.ok("R4.exclusive-return", key, p.pos(ret.Pos()), "(no result, error)")
		case ek == "nonnil":
			r.bad("R4.exclusive-return", key, p.pos(ret.Pos()), "returns a result together with a non-nil error")
		default:
			r.bad("R4.exclusive-return", key, p.pos(ret.Pos()), fmt.Sprintf("cannot tell whether the returned error is nil (error operand %s, value %s)", errv.Name(), vk))
		}
	})
	return n
}

func errKind(e ssa.Value, at ssa.Instruction) string {
	if isNilConst(e) {
		return "nil"
	}
	if _, ok := e.(*ssa.MakeInterface); ok {
		return "nonnil"
	}
	if ex, ok := e.(*ssa.Extract); ok {
		// part of a tuple returned whole?
		if c, ok := ex.Tuple.(*ssa.Call); ok {
			_ = c
			for _, ef := range expandFacts(factsAt(at.Block())) {
				if b, ok := ef.Cond.(*ssa.BinOp); ok && (b.Op == token.NEQ || b.Op == token.EQL) {
					if (b.X == e && isNilConst(b.Y)) || (b.Y == e && isNilConst(b.X)) {
						if (b.Op == token.NEQ) == ef.Truth {
							return "nonnil"
						}
						return "nil"
					}
				}
			}
			return "tuple?"
		}
	}
	for _, ef := range expandFacts(factsAt(at.Block())) {
		if b, ok := ef.Cond.(*ssa.BinOp); ok && (b.Op == token.NEQ || b.Op == token.EQL) {
			if (b.X == e && isNilConst(b.Y)) || (b.Y == e && isNilConst(b.X)) {
				if (b.Op == token.NEQ) == ef.Truth {
					return "nonnil"
				}
				return "nil"
			}
		}
	}
	if c, ok := e.(*ssa.Call); ok {
		// a constructor of the library's Error type / fmt.Errorf / errors.New
		if sc := c.Common().StaticCallee(); sc != nil {
			switch fullName(sc) {
			case "fmt.Errorf", "errors.New":
				return "nonnil"
			}
			// a local closure or package helper that only builds an error: every
			// return of it is itself a non-nil error
			if len(sc.Blocks) > 0 && sc.Signature.Results().Len() == 1 && (sc.Parent() != nil || (sc.Pkg != nil && sc.Pkg.Pkg.Path() == targetPkgPath)) {
				all, nr := true, 0
				eachInstr(sc, func(ins ssa.Instruction) {
					if ret, ok := ins.(*ssa.Return); ok && len(ret.Results) == 1 {
						nr++
						if _, isCall := ret.Results[0].(*ssa.Call); isCall && ret.Results[0] == ssa.Value(c) {
							all = false
						} else if errKindDepth(ret.Results[0], ret, 1) != "nonnil" {
							all = false
						}
					}
				})
				if all && nr > 0 {
					return "nonnil"
				}
			}
		}
	}
	return "?"
}

// errKindDepth bounds the look into error-building helpers.
func errKindDepth(e ssa.Value, at ssa.Instruction, depth int) string {
	if depth > 2 {
		return "?"
	}
	if isNilConst(e) {
		return "nil"
	}
	if _, ok := e.(*ssa.MakeInterface); ok {
		return "nonnil"
	}
	if c, ok := e.(*ssa.Call); ok {
		if sc := c.Common().StaticCallee(); sc != nil {
			switch fullName(sc) {
			case "fmt.Errorf", "errors.New":
				return "nonnil"
			}
		}
	}
	return "?"
}

func valKind(v ssa.Value) string {
	if isNilConst(v) {
		return "empty"
	}
	if c, ok := v.(*ssa.Const); ok {
		if c.Value == nil {
			return "empty"
		}
		return "value"
	}
	// zero-valued or empty composite literal: load of a local with no stores
	// of data, or a slice of a zero-length array
	switch x := v.(type) {
	case *ssa.UnOp:
		if al, ok := x.X.(*ssa.Alloc); ok && x.Op == token.MUL {
			stores := 0
			for _, ref := range referrers(al) {
				switch y := ref.(type) {
				case *ssa.Store:
					stores++
					_ = y
				case *ssa.FieldAddr:
					for _, r2 := range referrers(y) {
						if _, ok := r2.(*ssa.Store); ok {
							stores++
						}
					}
				case *ssa.UnOp, *ssa.DebugRef:
				default:
					stores++ // the address escapes (passed to a call, boxed, …): it may be written
				}
			}
			if stores == 0 {
				return "empty"
			}
		}
	case *ssa.Slice:
		if al, ok := x.X.(*ssa.Alloc); ok {
			if at, ok := deref(al.Type()).Underlying().(*types.Array); ok && at.Len() == 0 {
				return "empty"
			}
		}
	case *ssa.ChangeType:
		return valKind(x.X)
	case *ssa.MakeInterface:
		return valKind(x.X)
	}
	return "value"
}

// mustPassEdge: every path from the function entry to `target` takes a branch
// whose (condition, outcome) satisfies okCond. Conditions that are phis of
// booleans (the SSA form of && / || in switch cases) are resolved per
// predecessor, and branches whose resolved condition is a constant are pruned.
func mustPassEdge(f *ssa.Function, target *ssa.BasicBlock, okCond func(cond ssa.Value, truth bool) bool) bool {
	return mustPassEdgeP(f, target, okCond, nil)
}

// intBranchDecider: decides integer comparisons from the facts that dominate
// the branch (difference-bound prover).
func intBranchDecider(bf *boundsFn) func(ifi *ssa.If) (bool, bool) {
	return func(ifi *ssa.If) (bool, bool) {
		bo, ok := ifi.Cond.(*ssa.BinOp)
		if !ok {
			return false, false
		}
		bt, ok := bo.X.Type().Underlying().(*types.Basic)
		if !ok || bt.Info()&types.IsInteger == 0 {
			return false, false
		}
		xa, xo := bf.atom(bo.X)
		ya, yo := bf.atom(bo.Y)
		// prove cond or its negation
		holds := func(op token.Token) bool {
			switch op {
			case token.LSS:
				return bf.prove(xa, xo+1, ya, yo, ifi, nil)
			case token.LEQ:
				return bf.prove(xa, xo, ya, yo, ifi, nil)
			case token.GTR:
				return bf.prove(ya, yo+1, xa, xo, ifi, nil)
			case token.GEQ:
				return bf.prove(ya, yo, xa, xo, ifi, nil)
			case token.EQL:
				return bf.prove(xa, xo, ya, yo, ifi, nil) && bf.prove(ya, yo, xa, xo, ifi, nil)
			case token.NEQ:
				return bf.prove(xa, xo+1, ya, yo, ifi, nil) || bf.prove(ya, yo+1, xa, xo, ifi, nil)
			}
			return false
		}
		if holds(bo.Op) {
			return true, true
		}
		if holds(negateCmp(bo.Op)) {
			return true, false
		}
		return false, false
	}
}

// mustPassEdgeP additionally prunes branches that the dominating integer
// facts contradict (decide returns known, value).
func mustPassEdgeP(f *ssa.Function, target *ssa.BasicBlock, okCond func(cond ssa.Value, truth bool) bool, decide func(ifi *ssa.If) (bool, bool)) bool {
	return mustPassEdgeStart(f.Blocks[0], target, okCond, decide)
}

// mustPassEdgeFrom: the same question for the paths that start in block start
// (used for "every trip round a loop").
func mustPassEdgeFrom(start, target *ssa.BasicBlock, okCond func(cond ssa.Value, truth bool) bool) bool {
	return mustPassEdgeStart(start, target, okCond, nil)
}

func mustPassEdgeStart(start, target *ssa.BasicBlock, okCond func(cond ssa.Value, truth bool) bool, decide func(ifi *ssa.If) (bool, bool)) bool {
	// A path remembers the outcome of the comparisons it has taken since the
	// last back edge (an acyclic stretch executes every instruction at most
	// once, so an identical comparison of the same SSA operands must come out
	// the same way again): branches that contradict it are infeasible. This
	// sees through `if idx < 0` after a search loop `for idx < 0 && …`, and
	// through found-flags.
	type node struct {
		b     *ssa.BasicBlock
		pred  *ssa.BasicBlock
		known string
	}
	cmpKey := func(cond ssa.Value) (string, bool, bool) { // key, polarity flipped?, ok
		bo, ok := cond.(*ssa.BinOp)
		if !ok {
			return "", false, false
		}
		switch bo.Op {
		case token.EQL, token.LSS, token.GTR:
			return fmt.Sprintf("%s|%s|%s", bo.Op, valKey(bo.X), valKey(bo.Y)), false, true
		case token.NEQ:
			return fmt.Sprintf("%s|%s|%s", token.EQL, valKey(bo.X), valKey(bo.Y)), true, true
		case token.GEQ:
			return fmt.Sprintf("%s|%s|%s", token.LSS, valKey(bo.X), valKey(bo.Y)), true, true
		case token.LEQ:
			return fmt.Sprintf("%s|%s|%s", token.GTR, valKey(bo.X), valKey(bo.Y)), true, true
		}
		return "", false, false
	}
	lookup := func(known, key string) (bool, bool) {
		for _, part := range strings.Split(known, ";") {
			if strings.HasPrefix(part, key+"=") {
				return part[len(key)+1:] == "T", true
			}
		}
		return false, false
	}
	extend := func(known, key string, val bool) string {
		if _, had := lookup(known, key); had {
			return known
		}
		v := "F"
		if val {
			v = "T"
		}
		parts := []string{}
		if known != "" {
			parts = strings.Split(known, ";")
		}
		parts = append(parts, key+"="+v)
		sort.Strings(parts)
		if len(parts) > 6 {
			return known // keep the state space small
		}
		return strings.Join(parts, ";")
	}
	seen := map[node]bool{}
	work := []node{{start, nil, ""}}
	steps := 0
	push := func(from *ssa.BasicBlock, to *ssa.BasicBlock, known string) {
		if to.Dominates(from) {
			known = "" // back edge: values are recomputed
		}
		work = append(work, node{to, from, known})
	}
	for len(work) > 0 {
		n := work[len(work)-1]
		work = work[:len(work)-1]
		if seen[n] {
			continue
		}
		seen[n] = true
		steps++
		if steps > 200000 {
			return false
		}
		if n.b == target {
			return false
		}
		last := n.b.Instrs[len(n.b.Instrs)-1]
		ifi, isIf := last.(*ssa.If)
		if !isIf || n.b.Succs[0] == n.b.Succs[1] {
			for _, s := range n.b.Succs {
				push(n.b, s, n.known)
			}
			continue
		}
		cond := ifi.Cond
		if phi, ok := cond.(*ssa.Phi); ok && phi.Block() == n.b && n.pred != nil {
			for i, p := range n.b.Preds {
				if p == n.pred {
					cond = phi.Edges[i]
				}
			}
		}
		if decide != nil && cond == ifi.Cond {
			if known, val := decide(ifi); known {
				idx := 1
				if val {
					idx = 0
				}
				if !okCondN(okCond, cond, val) {
					push(n.b, n.b.Succs[idx], n.known)
				}
				continue
			}
		}
		key, flipped, isCmp := cmpKey(cond)
		for i, s := range n.b.Succs {
			truth := i == 0
			if cb, isConst := constBool(cond); isConst {
				if cb != truth {
					continue // infeasible
				}
				push(n.b, s, n.known)
				continue
			}
			known := n.known
			if isCmp {
				val := truth != flipped
				if prev, had := lookup(known, key); had && prev != val {
					continue // contradicts an outcome taken earlier on this path
				}
				known = extend(known, key, val)
			}
			if okCondN(okCond, cond, truth) {
				continue
			}
			push(n.b, s, known)
		}
	}
	return true
}

// valKey identifies an operand: constants by spelling (distinct *ssa.Const objects may denote the
// same value): their spelling is part of a comparison's key.
func valKey(v ssa.Value) string {
	if c, ok := v.(*ssa.Const); ok {
		return "#" + c.String()
	}
	return fmt.Sprintf("%p", v)
}

// mustPassInstr: every feasible path from the entry of f to target executes
// an instruction accepted by pass. Paths are pruned with the nil-ness of SSA
// values learnt from earlier branches on the same path (v == nil / v != nil
// tested twice).
func mustPassInstr(f *ssa.Function, target ssa.Instruction, pass func(ins ssa.Instruction) bool) bool {
	type state struct {
		b     *ssa.BasicBlock
		known string
	}
	seen := map[state]bool{}
	ok := true
	var walk func(b *ssa.BasicBlock, known map[ssa.Value]bool, depth int)
	enc := func(m map[ssa.Value]bool) string {
		var parts []string
		for v, isNil := range m {
			parts = append(parts, fmt.Sprintf("%s=%v", v.Name(), isNil))
		}
		sort.Strings(parts)
		return strings.Join(parts, ",")
	}
	walk = func(b *ssa.BasicBlock, known map[ssa.Value]bool, depth int) {
		if !ok || depth > 300 {
			return
		}
		// facts about phis of this block are stale on entry
		for _, ins := range b.Instrs {
			if phi, isPhi := ins.(*ssa.Phi); isPhi {
				delete(known, phi)
			} else {
				break
			}
		}
		st := state{b, enc(known)}
		if seen[st] {
			return
		}
		seen[st] = true
		for _, ins := range b.Instrs {
			if ins == target {
				ok = false
				return
			}
			if pass(ins) {
				return
			}
		}
		last := b.Instrs[len(b.Instrs)-1]
		ifi, isIf := last.(*ssa.If)
		if !isIf {
			for _, s := range b.Succs {
				walk(s, copyKnown(known), depth+1)
			}
			return
		}
		// nil test?
		var tested ssa.Value
		nilOnTrue := false
		for _, ef := range expandFacts([]edgeFact{{Cond: ifi.Cond, Truth: true}}) {
			if bo, isB := ef.Cond.(*ssa.BinOp); isB && (bo.Op == token.EQL || bo.Op == token.NEQ) {
				for _, pr := range [][2]ssa.Value{{bo.X, bo.Y}, {bo.Y, bo.X}} {
					if isNilConst(pr[1]) {
						tested = pr[0]
						nilOnTrue = (bo.Op == token.EQL) == ef.Truth
					}
				}
			}
		}
		for i, s := range b.Succs {
			k2 := copyKnown(known)
			if tested != nil {
				isNil := nilOnTrue == (i == 0)
				if prev, have := known[tested]; have && prev != isNil {
					continue // infeasible
				}
				k2[tested] = isNil
			}
			walk(s, k2, depth+1)
		}
	}
	walk(f.Blocks[0], map[ssa.Value]bool{}, 0)
	return ok
}

func copyKnown(m map[ssa.Value]bool) map[ssa.Value]bool {
	n := make(map[ssa.Value]bool, len(m))
	for k, v := range m {
		n[k] = v
	}
	return n
}

// okCondN asks okCond about a branch outcome and about its complementary
// reading (x != y false is x == y true), so that guard clauses written either
// way are recognised.
func okCondN(okCond func(cond ssa.Value, truth bool) bool, cond ssa.Value, truth bool) bool {
	if okCond(cond, truth) {
		return true
	}
	// through negation
	if u, ok := cond.(*ssa.UnOp); ok && u.Op == token.NOT {
		return okCondN(okCond, u.X, !truth)
	}
	if bo, ok := cond.(*ssa.BinOp); ok && bo.Block() != nil {
		if cop, ok := complementOp[bo.Op]; ok {
			return okCond(complementOf(bo, cop), !truth)
		}
	}
	return false
}

// throughValidators widens an edge predicate: an edge also counts when it is
// the "no error" outcome of a test on the error result of a small helper every
// nil-error return of which lies behind an edge that counts (so a fact
// established inside a decode-and-validate helper is seen by its callers).
func throughValidators(ok func(cond ssa.Value, truth bool) bool) func(cond ssa.Value, truth bool) bool {
	memo := map[*ssa.Function]int{} // 0 unknown, 1 in progress / no, 2 yes
	var wide func(cond ssa.Value, truth bool) bool
	validates := func(g *ssa.Function) bool {
		switch memo[g] {
		case 1:
			return false
		case 2:
			return true
		}
		memo[g] = 1
		res := g.Signature.Results()
		if res == nil || res.Len() == 0 || !isErrorType(res.At(res.Len()-1).Type()) {
			return false
		}
		n := 0
		for _, b := range g.Blocks {
			ret, isRet := b.Instrs[len(b.Instrs)-1].(*ssa.Return)
			if !isRet || len(ret.Results) == 0 {
				continue
			}
			if !isNilConst(ret.Results[len(ret.Results)-1]) {
				continue
			}
			n++
			if !mustPassEdge(g, b, wide) {
				return false
			}
		}
		if n == 0 {
			return false
		}
		memo[g] = 2
		return true
	}
	wide = func(cond ssa.Value, truth bool) bool {
		if ok(cond, truth) {
			return true
		}
		for _, ef := range expandFacts([]edgeFact{{Cond: cond, Truth: truth}}) {
			bo, isB := ef.Cond.(*ssa.BinOp)
			if !isB || (bo.Op != token.EQL && bo.Op != token.NEQ) {
				continue
			}
			for _, pr := range [][2]ssa.Value{{bo.X, bo.Y}, {bo.Y, bo.X}} {
				if !isNilConst(pr[1]) || (bo.Op == token.EQL) != ef.Truth {
					continue
				}
				ex, isEx := pr[0].(*ssa.Extract)
				if !isEx {
					continue
				}
				c, isCall := ex.Tuple.(*ssa.Call)
				if !isCall {
					continue
				}
				g := c.Common().StaticCallee()
				if g == nil || g.Blocks == nil || !smallHelper(g) || ex.Index != g.Signature.Results().Len()-1 {
					continue
				}
				if validates(g) {
					return true
				}
			}
		}
		return false
	}
	return wide
}

// checkErrStops (R4.err-stops): for every call of a decoder (a function whose name
// contains Unmarshal: encoding/json.Unmarshal, Attr.UnmarshalToType, the package's own
// unmarshalers) in f (f returns
// (..., error)), the error case of that call cannot reach a return whose error
// result is the constant nil. The walk starts in the block of the call, follows
// every edge, except that at a branch on "<error of this call, possibly merged
// with others in a phi> ==/!= nil" it follows only the non-nil edge. An error
// that is examined but does not stop the function (a shadowed err, a test whose
// only effect is to skip a statement) is reported with the call and the return.
func checkErrStops(p *Prog, r *Report, f *ssa.Function, rule string) int {
	res := f.Signature.Results()
	if res == nil || res.Len() == 0 || !isErrorType(res.At(res.Len()-1).Type()) {
		return 0
	}
	n := 0
	eachInstr(f, func(ins ssa.Instruction) {
		c, ok := ins.(*ssa.Call)
		if !ok {
			return
		}
		cres := c.Common().Signature().Results()
		if cres == nil || cres.Len() == 0 || !isErrorType(cres.At(cres.Len()-1).Type()) {
			return
		}
		var errVal ssa.Value
		if cres.Len() == 1 {
			errVal = c
		} else {
			for _, ref := range referrers(c) {
				if ex, ok := ref.(*ssa.Extract); ok && ex.Index == cres.Len()-1 {
					errVal = ex
				}
			}
		}
		if errVal == nil || len(referrers(errVal)) == 0 {
			return // dropped altogether: R4.err-dropped's business
		}
		// decoders only: the calls whose failure means "the input is refused"
		if sc := c.Common().StaticCallee(); sc == nil || !strings.Contains(funcName(sc), "Unmarshal") {
			return
		}
		derived := map[ssa.Value]bool{errVal: true}
		for changed := true; changed; {
			changed = false
			eachInstr(f, func(i2 ssa.Instruction) {
				phi, ok := i2.(*ssa.Phi)
				if !ok || derived[phi] {
					return
				}
				for _, e := range phi.Edges {
					if derived[e] {
						derived[phi] = true
						changed = true
						return
					}
				}
			})
		}
		errEdge := func(cond ssa.Value) int { // successor index taken when the error is non-nil, -1 if not a test of it
			b, ok := cond.(*ssa.BinOp)
			if !ok || (b.Op != token.NEQ && b.Op != token.EQL) {
				return -1
			}
			if !(derived[b.X] && isNilConst(b.Y) || derived[b.Y] && isNilConst(b.X)) {
				return -1
			}
			if b.Op == token.NEQ {
				return 0
			}
			return 1
		}
		n++
		calleeName := "?"
		if sc := c.Common().StaticCallee(); sc != nil {
			calleeName = strings.TrimPrefix(fullName(sc), targetPkgPath+".")
		} else if c.Common().IsInvoke() {
			calleeName = c.Common().Method.Name()
		}
		key := funcName(f) + ":" + p.describe(c)
		seen := map[*ssa.BasicBlock]bool{}
		work := []*ssa.BasicBlock{c.Block()}
		var offending *ssa.Return
		for len(work) > 0 && offending == nil {
			b := work[len(work)-1]
			work = work[:len(work)-1]
			if seen[b] {
				continue
			}
			seen[b] = true
			if len(b.Instrs) == 0 {
				continue
			}
			switch last := b.Instrs[len(b.Instrs)-1].(type) {
			case *ssa.Return:
				if len(last.Results) > 0 && isNilConst(last.Results[len(last.Results)-1]) {
					offending = last
				}
			case *ssa.If:
				if e := errEdge(last.Cond); e >= 0 {
					work = append(work, b.Succs[e])
				} else {
					work = append(work, b.Succs...)
				}
			default:
				work = append(work, b.Succs...)
			}
		}
		if offending != nil {
			r.bad(rule, key, p.pos(c.Pos()), fmt.Sprintf("when %s fails, %s can still return success (return at %s): no branch on that error leads away from the successful return, so an input the decoder refused is accepted", calleeName, funcName(f), p.pos(offending.Pos())))
		} else {
			r.ok(rule, key, p.pos(c.Pos()), "the error case of "+calleeName+" never reaches a successful return")
		}
	})
	return n
}
