package main

import (
	"fmt"
	"go/token"
	"go/types"
	"sort"
	"strings"

	"golang.org/x/tools/go/ssa"
)

func init() { register("C18", checkC18) }

// mutableShare: sharing a value of this static type between two objects lets
// one of them change what the other reads.
func mutableShare(ts string) (bool, string) {
	switch {
	case ts == "":
		return true, "a value of unknown static type"
	case strings.HasPrefix(ts, "func("):
		return false, "a func value (immutable)"
	case strings.HasPrefix(ts, "[]"), strings.HasPrefix(ts, "map["):
		return true, "a " + ts
	case strings.HasPrefix(ts, "*[]"), strings.HasPrefix(ts, "*map["):
		return true, "a " + ts
	case strings.HasPrefix(ts, "*"):
		switch strings.TrimPrefix(ts, "*") {
		case "string", "int", "int8", "int16", "int32", "int64", "uint", "uint8", "uint16", "uint32", "uint64", "bool", "time.Time":
			return false, "a pointer to an immutable scalar (pointee sharing of nullable scalars is outside the property's mutation set)"
		}
		return true, "a " + ts
	case ts == "interface{}" || ts == "any":
		return true, "a value of unknown dynamic type"
	}
	switch ts {
	case "string", "int", "int8", "int16", "int32", "int64", "uint", "uint8", "uint16", "uint32", "uint64", "bool", "time.Time", "float32", "float64":
		return false, "an immutable " + ts
	}
	return true, "a " + ts
}

type aliasHit struct {
	from, to string
	types    []string
}

// aliasReach: locations rooted at parameter `root` that are reachable from the
// function's return values through stored references, with the static types
// of the stores that created the link.
func aliasReach(s *Summary, root string) []aliasHit {
	var hits []aliasHit
	seen := map[string]bool{}
	var work []string
	for _, r := range s.rets {
		for l := range r {
			work = append(work, untag(l))
		}
	}
	// expand to every explicit location of the reached objects
	for len(work) > 0 {
		l := work[len(work)-1]
		work = work[:len(work)-1]
		if seen[l] {
			continue
		}
		seen[l] = true
		if rootOf(l) == root {
			continue
		}
		for loc, ts := range s.pts {
			if rootOf(loc) != rootOf(l) {
				continue
			}
			for t := range ts {
				t = untag(t)
				if rootOf(t) == root {
					hits = append(hits, aliasHit{from: loc, to: t, types: s.EdgeTypes(loc, t)})
				} else {
					work = append(work, t)
				}
			}
		}
		for e := range s.copies {
			if rootOf(e.dst) == rootOf(l) {
				if rootOf(e.src) == root {
					hits = append(hits, aliasHit{from: e.dst, to: e.src, types: []string{"struct-copy"}})
				} else {
					work = append(work, e.src)
				}
			}
		}
	}
	sort.Slice(hits, func(i, j int) bool { return hits[i].from+hits[i].to < hits[j].from+hits[j].to })
	return hits
}

func checkC18(p *Prog, r *Report) {
	r.rule("C18.wrapper-new: Wrapper.New wraps reflect.New(<wrapped type>).Interface(), a zero value, never the wrapped value itself")
	checkWrapperNew(p, r, "C18")
	r.rule("R9 fresh copy (mod/alias analysis): no memory of the source is reachable from the object returned by SoftResource.Copy / SoftResource.New / Type.Copy through a stored slice, map, pointer to a struct/slice/map or a value of unknown type; func values and pointers to immutable scalars are exempt with the reason recorded")
	r.rule("R1 switch coverage: copyData has an arm for each of the 28 Go types of the kind table and for []string (a type without an arm is dropped from the copy)")
	r.rule("C18.wrapper-copy: Wrapper.Copy builds the copy from a freshly allocated struct, sets the ID from the source's ID, ranges over all Attrs() and Rels() of the source and Sets each under the name it read; values of the mutable kinds ([]byte, *[]byte) and to-many ID lists are replaced by fresh copies (make + copy) before they are stored")
	r.rule("C18.soft-copy: the object returned by SoftResource.Copy takes its Type from Type.Copy of the source's type, its id from the source's id and its data from the data-copy helper applied to the source's data; SoftResource.New takes its Type from Type.Copy")
	r.rule("C18.type-copy: Type.Copy stores every entry of both maps of the source into fresh maps under the same key, and copies Name and NewFunc")
	r.rule("C18.set-replaces: no reflect setter reachable from Wrapper.Set / SetID writes through a struct field (field.Elem(), reflect.Indirect(field)): a field is set by replacing what the struct holds, which is what keeps the pointers to nullable scalars that Wrapper.Copy shares harmless")
	r.assume("MetaHolder implementations need not deep-copy meta (documented); reflect.New yields fresh memory")
	r.notCovered("pointee sharing of nullable scalar attributes (*string etc.): the property lists slices, not pointees")
	r.notCovered("value equality of the copy with its source beyond the plumbing above (C17/C01)")

	checkSetReplaces(p, r)
	r.rule("C18.wrap-fresh-structure: every store into Wrapper.attrs / Wrapper.rels stores a map made in the storing function, so the wrappers Copy and New produce through Wrap own their field maps")
	checkWrapFreshStructure(p, r)
	h := newHeap(p)
	// ---- R9 on the non-reflective copies
	for _, name := range []string{"(*SoftResource).Copy", "(*SoftResource).New", "(Type).Copy"} {
		f := p.Fn(name)
		if f == nil {
			r.fail("anchor %s not found", name)
			continue
		}
		for _, g := range p.cg.Reachable(f) {
			r.fn(funcName(g))
		}
		sum := h.sums[f]
		hits := aliasReach(sum, "P0")
		bad := 0
		for _, hit := range hits {
			ts := hit.types
			if len(ts) == 0 {
				ts = []string{""}
			}
			for _, t := range ts {
				mut, what := mutableShare(t)
				key := fmt.Sprintf("%s:%s->%s:%s", name, hit.from, hit.to, t)
				if mut {
					bad++
					r.bad("R9.fresh-copy", key, p.pos(f.Pos()), fmt.Sprintf("the object returned by %s shares %s with its source: %s of the result refers to %s of the receiver, so a later change through one of the two is visible through the other", name, what, hit.from, hit.to))
				} else {
					r.ok("R9.fresh-copy", key, p.pos(f.Pos()), "shares "+what)
				}
			}
		}
		if bad == 0 {
			r.ok("R9.fresh-copy", name, p.pos(f.Pos()), fmt.Sprintf("%d references into the source found, none to mutable memory", len(hits)))
		}
	}
	// positive control: the analysis must see an alias when there is one
	if f := p.Fn("(*Type).New"); f != nil {
		if len(aliasReach(h.sums[f], "P0")) == 0 {
			r.fail("positive control failed: (*Type).New returns a SoftResource that points to its receiver, but no alias was found")
		} else {
			r.count("positive_controls", 1)
		}
	}

	// ---- R1 on copyData
	kt := buildKindTable(p, newReport("scratch", "quick"))
	var cd *ssa.Function
	if f := p.Fn("(*SoftResource).Copy"); f != nil {
		eachInstr(f, func(ins ssa.Instruction) {
			if c, ok := ins.(*ssa.Call); ok {
				if g := c.Common().StaticCallee(); g != nil && p.inTarget(g) && g.Signature.Params().Len() == 1 {
					if _, isMap := g.Signature.Params().At(0).Type().Underlying().(*types.Map); isMap {
						cd = g
					}
				}
			}
		})
	}
	if cd == nil {
		r.fail("the data-copy helper (func(map[string]any) map[string]any) called by SoftResource.Copy was not found")
	} else {
		// the switch operand is the range value of the parameter map
		var operand ssa.Value
		eachInstr(cd, func(ins ssa.Instruction) {
			if ta, ok := ins.(*ssa.TypeAssert); ok && ta.CommaOk && operand == nil {
				operand = ta.X
			}
		})
		if operand == nil {
			// the per-value switch may live in a helper (any) -> (any, bool) whose
			// first result the loop stores under the same key
			var h *ssa.Function
			var hcall *ssa.Call
			eachInstr(cd, func(ins ssa.Instruction) {
				if c, ok := ins.(*ssa.Call); ok {
					if g := c.Common().StaticCallee(); g != nil && g.Blocks != nil && p.inTarget(g) && g.Name() != "" && g.Name()[0] >= 'a' && g.Name()[0] <= 'z' && g.Signature.Results().Len() == 2 && len(c.Common().Args) == 1 {
						h, hcall = g, c
					}
				}
			})
			if h != nil {
				eachInstr(h, func(ins ssa.Instruction) {
					if ta, ok := ins.(*ssa.TypeAssert); ok && ta.CommaOk && operand == nil {
						operand = ta.X
					}
				})
			}
			storesResult := false
			if hcall != nil {
				eachInstr(cd, func(ins ssa.Instruction) {
					if mu, ok := ins.(*ssa.MapUpdate); ok {
						if ex, ok := mu.Value.(*ssa.Extract); ok && ex.Tuple == ssa.Value(hcall) && ex.Index == 0 {
							storesResult = true
						}
					}
				})
			}
			if operand == nil || !storesResult || operand != ssa.Value(h.Params[0]) {
				r.fail("no type switch found in %s", funcName(cd))
			} else {
				r.fn(funcName(h))
				cases := kt.checkSwitchCoverage(r, h, operand, funcName(cd), []string{"[]string"}, "a value of that type is silently dropped from the copy", 20)
				checkCopyArmsRet(p, r, cd, h, cases)
			}
		} else {
			cases := kt.checkSwitchCoverage(r, cd, operand, funcName(cd), []string{"[]string"}, "a value of that type is silently dropped from the copy", 20)
			// each arm stores under the same key a value derived from the arm's binding (or a fresh copy of it)
			checkCopyArms(p, r, cd, cases)
		}
	}

	checkSoftCopyPlumbing(p, r)
	checkTypeCopy(p, r)
	checkWrapperCopy(p, r, kt)
}

// checkCopyArms: in each arm of the data-copy switch the value stored into the
// new map is the arm's value for immutable kinds and a fresh make+copy for
// slices and pointers to slices.
func checkCopyArms(p *Prog, r *Report, cd *ssa.Function, cases map[string]*ssa.TypeAssert) {
	var names []string
	for n := range cases {
		names = append(names, n)
	}
	sort.Strings(names)
	for _, ts := range names {
		ta := cases[ts]
		// the arm: blocks dominated by the true edge of the ok test
		var okv, val ssa.Value
		for _, ref := range referrers(ta) {
			if ex, isEx := ref.(*ssa.Extract); isEx {
				if ex.Index == 1 {
					okv = ex
				} else {
					val = ex
				}
			}
		}
		if okv == nil {
			continue
		}
		var arm *ssa.BasicBlock
		for _, ref := range referrers(okv) {
			if ifi, isIf := ref.(*ssa.If); isIf {
				arm = ifi.Block().Succs[0]
			}
		}
		if arm == nil {
			continue
		}
		stored := 0
		good := true
		why := ""
		eachInstr(cd, func(ins ssa.Instruction) {
			mu, isMU := ins.(*ssa.MapUpdate)
			if !isMU || !arm.Dominates(mu.Block()) {
				return
			}
			stored++
			v := mu.Value
			if mi, isMI := v.(*ssa.MakeInterface); isMI {
				v = mi.X
			}
			mut, _ := mutableShare(ts)
			if !mut {
				// the arm's binding, or - when several immutable kinds share one
				// arm - the switch operand itself (the very same value)
				if v != val && v != ta.X && mu.Value != ta.X {
					good, why = false, "stores something other than the value of the arm"
				}
				return
			}
			// must be fresh: a MakeSlice (possibly behind &local) that a copy() filled from the arm's value; or a nil of the type
			if !freshCopyOf(v, val) {
				good, why = false, "stores the source's own "+ts+" (or something not made by make+copy from it)"
			}
		})
		if stored == 0 {
			good, why = false, "the arm stores nothing"
		}
		r.decide(good, "R9.fresh-copy", funcName(cd)+":arm "+ts, p.pos(ta.Pos()), "stores the value (immutable kind) or a fresh make+copy of it",
			"in the "+ts+" arm of "+funcName(cd)+": "+why+"; the copy and its source then share the slice")
	}
}

// freshCopyOf: v is a slice made by make and filled by copy(v, src) where src
// derives from orig; or the address of a local holding such a slice; or nil.
func freshCopyOf(v, orig ssa.Value) bool {
	switch x := v.(type) {
	case *ssa.Const:
		return x.Value == nil
	case *ssa.MakeSlice:
		for _, ref := range referrers(x) {
			if c, ok := ref.(*ssa.Call); ok {
				if b, ok := c.Call.Value.(*ssa.Builtin); ok && b.Name() == "copy" && c.Call.Args[0] == ssa.Value(x) {
					src := c.Call.Args[1]
					if src == orig {
						return true
					}
					if ld, ok := src.(*ssa.UnOp); ok && ld.Op == token.MUL && ld.X == orig {
						return true
					}
					if derivesFromValue(src, orig) {
						return true
					}
				}
			}
		}
		return filledByCopy(x)
	case *ssa.Alloc:
		// &nv where nv was assigned a fresh copy
		for _, ref := range referrers(x) {
			if st, ok := ref.(*ssa.Store); ok && st.Addr == ssa.Value(x) {
				if !freshCopyOf(st.Val, orig) {
					return false
				}
			}
		}
		return true
	case *ssa.Phi:
		for k, e := range x.Edges {
			if c, isC := e.(*ssa.Const); isC && c.Value == nil && orig != nil {
				// a nil merged into the copy: only on an edge where the source is nil
				// (otherwise the copy loses a value the source has)
				pred := x.Block().Preds[k]
				fs := factsAt(pred)
				if ifi, isIf := pred.Instrs[len(pred.Instrs)-1].(*ssa.If); isIf && pred.Succs[0] != pred.Succs[1] {
					fs = append(fs, edgeFact{Cond: ifi.Cond, Truth: pred.Succs[0] == x.Block(), From: pred})
				}
				nilSrc := false
				for _, ef := range expandFacts(fs) {
					if bo, isB := ef.Cond.(*ssa.BinOp); isB && (bo.Op == token.EQL || bo.Op == token.NEQ) {
						if ((bo.X == orig && isNilConst(bo.Y)) || (bo.Y == orig && isNilConst(bo.X))) && (bo.Op == token.EQL) == ef.Truth {
							nilSrc = true
						}
					}
				}
				if !nilSrc {
					return false
				}
				continue
			}
			if !freshCopyOf(e, orig) {
				return false
			}
		}
		return true
	case *ssa.ChangeType:
		return freshCopyOf(x.X, orig)
	case *ssa.Call:
		// a clone helper of the package: every result is a fresh make+copy of its parameter
		if g := x.Common().StaticCallee(); g != nil && smallHelper(g) && len(g.Params) == 1 && len(x.Common().Args) == 1 {
			n := 0
			for _, b := range g.Blocks {
				if ret, ok := b.Instrs[len(b.Instrs)-1].(*ssa.Return); ok && len(ret.Results) == 1 {
					n++
					if ret.Results[0] == ssa.Value(g.Params[0]) && factSaysNil(b, g.Params[0]) {
						continue // the nil value is handed back as it is
					}
					if !freshCopyOf(ret.Results[0], g.Params[0]) {
						return false
					}
				}
			}
			if n == 0 {
				return false
			}
			a := x.Common().Args[0]
			return a == orig || derivesFromValue(a, orig)
		}
	}
	return false
}

func derivesFromValue(v, orig ssa.Value) bool {
	for i := 0; i < 6; i++ {
		if v == orig {
			return true
		}
		switch x := v.(type) {
		case *ssa.UnOp:
			v = x.X
		case *ssa.TypeAssert:
			v = x.X
		case *ssa.Extract:
			v = x.Tuple
		case *ssa.ChangeType:
			v = x.X
		case *ssa.MakeInterface:
			v = x.X
		case *ssa.Phi:
			for _, e := range x.Edges {
				if derivesFromValue(e, orig) {
					return true
				}
			}
			return false
		default:
			return false
		}
	}
	return false
}

// storesInto returns, for a composite literal / new object whose address is
// returned, the values stored per field.
func fieldStores(alloc ssa.Value) map[string]ssa.Value {
	out := map[string]ssa.Value{}
	for _, ref := range referrers(alloc) {
		fa, ok := ref.(*ssa.FieldAddr)
		if !ok {
			continue
		}
		_, name := fieldRef(fa.X, fa.Field)
		for _, r2 := range referrers(fa) {
			if st, ok := r2.(*ssa.Store); ok && st.Addr == ssa.Value(fa) {
				out[name] = st.Val
			}
		}
	}
	return out
}

func checkSoftCopyPlumbing(p *Prog, r *Report) {
	typeCopy := p.Fn("(Type).Copy")
	for _, name := range []string{"(*SoftResource).Copy", "(*SoftResource).New"} {
		f := p.Fn(name)
		if f == nil {
			continue
		}
		recv := f.Params[0]
		eachInstr(f, func(ins ssa.Instruction) {
			ret, ok := ins.(*ssa.Return)
			if !ok || len(ret.Results) != 1 {
				return
			}
			obj := stripValue(ret.Results[0])
			al, ok := obj.(*ssa.Alloc)
			if !ok {
				r.bad("C18.soft-copy", name+":result", p.pos(ret.Pos()), "the result is not a freshly allocated SoftResource")
				return
			}
			fs := fieldStores(al)
			// Type = &local where local = Type.Copy(*recv.Type)
			okType := false
			if tv, ok := fs["Type"]; ok {
				if tal, ok := tv.(*ssa.Alloc); ok {
					for _, ref := range referrers(tal) {
						if st, ok := ref.(*ssa.Store); ok && st.Addr == ssa.Value(tal) {
							if c, _ := callOf(st.Val); c != nil && c.Common().StaticCallee() == typeCopy {
								// argument is the receiver's type
								a := c.Common().Args[0]
								if base, fl, ok := fieldLoad(derefLoad(a)); ok && fl == "Type" && base == ssa.Value(recv) {
									okType = true
								}
							}
						}
					}
				}
			}
			r.decide(okType, "C18.soft-copy", name+":Type", p.pos(ret.Pos()), "Type is the address of a Type.Copy of the receiver's type",
				"the new resource's Type is not a copy of the source's type made by Type.Copy: the two resources share their type (adding or removing a field of one changes the other)")
			if name == "(*SoftResource).Copy" {
				idv, ok := fs["id"]
				okID := false
				if ok {
					if base, fl, ok := fieldLoad(idv); ok && fl == "id" && base == ssa.Value(recv) {
						okID = true
					}
				}
				r.decide(okID, "C18.soft-copy", name+":id", p.pos(ret.Pos()), "id is the receiver's id", "the copy does not take its ID from the source")
				dv, ok := fs["data"]
				okData := false
				if ok {
					if c, _ := callOf(dv); c != nil && len(c.Common().Args) == 1 {
						if base, fl, ok := fieldLoad(c.Common().Args[0]); ok && fl == "data" && base == ssa.Value(recv) {
							okData = true
						}
					}
				}
				r.decide(okData, "C18.soft-copy", name+":data", p.pos(ret.Pos()), "data is the data-copy helper applied to the receiver's data", "the copy's values are not produced by the data-copy helper from the source's values")
			}
		})
	}
}

// derefLoad: for `*p` returns p's defining load chain target (the loaded pointer value).
func derefLoad(v ssa.Value) ssa.Value {
	if u, ok := v.(*ssa.UnOp); ok && u.Op == token.MUL {
		return u.X
	}
	return v
}

func checkTypeCopy(p *Prog, r *Report) {
	f := p.Fn("(Type).Copy")
	if f == nil {
		r.fail("anchor (Type).Copy not found")
		return
	}
	// each map field: a MapUpdate m[k] = v inside a range over the receiver's map with k, v the range variables, m a fresh map stored in the result
	n := 0
	for _, fld := range []string{"Attrs", "Rels"} {
		good := false
		eachInstr(f, func(ins ssa.Instruction) {
			mu, ok := ins.(*ssa.MapUpdate)
			if !ok {
				return
			}
			// destination: load of result.fld
			_, dfl, ok := fieldLoad(mu.Map)
			if !ok || dfl != fld {
				return
			}
			k, okk := mu.Key.(*ssa.Extract)
			v, okv := mu.Value.(*ssa.Extract)
			if !okk || !okv || k.Tuple != v.Tuple || k.Index != 1 || v.Index != 2 {
				return
			}
			nx, ok := k.Tuple.(*ssa.Next)
			if !ok {
				return
			}
			rg, ok := nx.Iter.(*ssa.Range)
			if !ok {
				return
			}
			if _, sfl, ok := fieldLoad(rg.X); ok && sfl == fld {
				good = true
			}
		})
		n++
		r.decide(good, "C18.type-copy", "(Type).Copy:"+fld, p.pos(f.Pos()), "every entry of "+fld+" is stored into the new map under its own key",
			"Type.Copy does not copy every entry of "+fld+" into the new type under the same key")
	}
	// Name and NewFunc
	eachInstr(f, func(ins ssa.Instruction) {
		ret, ok := ins.(*ssa.Return)
		if !ok {
			return
		}
		al, ok := derefLoad(ret.Results[0]).(*ssa.Alloc)
		if !ok {
			return
		}
		fs := fieldStores(al)
		for _, fld := range []string{"Name", "NewFunc"} {
			v, ok := fs[fld]
			good := false
			if ok {
				if _, fl, ok := fieldLoad(v); ok && fl == fld {
					good = true
				}
			}
			n++
			r.decide(good, "C18.type-copy", "(Type).Copy:"+fld, p.pos(ret.Pos()), fld+" is taken from the receiver", "Type.Copy does not carry over "+fld)
		}
	})
	r.floor("Type.Copy field obligations", n, 4)
}

// checkWrapperCopy implements C18.wrapper-copy.
func checkWrapperCopy(p *Prog, r *Report, kt *kindTable) {
	f := p.Fn("(*Wrapper).Copy")
	if f == nil {
		r.fail("anchor (*Wrapper).Copy not found")
		return
	}
	r.fn(funcName(f))
	recv := f.Params[0]
	// the new wrapper: result of Wrap(reflect.New(...).Interface())
	var nw *ssa.Call
	eachInstr(f, func(ins ssa.Instruction) {
		if c, ok := ins.(*ssa.Call); ok {
			if g := c.Common().StaticCallee(); g != nil && funcName(g) == "Wrap" {
				nw = c
			}
		}
	})
	okFresh := false
	if nw != nil {
		// argument derives from reflect.New
		a := stripValue(nw.Common().Args[0])
		if c, _ := callOf(a); c != nil {
			if g := c.Common().StaticCallee(); g != nil && fullName(g) == "reflect.(Value).Interface" {
				if c2, _ := callOf(c.Common().Args[0]); c2 != nil {
					if g2 := c2.Common().StaticCallee(); g2 != nil && fullName(g2) == "reflect.New" {
						okFresh = true
					}
				}
			}
		}
	}
	r.decide(okFresh, "C18.wrapper-copy", "Copy:fresh-struct", p.pos(f.Pos()), "the copy wraps a struct allocated by reflect.New",
		"Wrapper.Copy does not build the copy on a freshly allocated struct (it reuses the source's value or description)")
	if nw == nil {
		return
	}
	// every return returns that wrapper
	eachInstr(f, func(ins ssa.Instruction) {
		if ret, ok := ins.(*ssa.Return); ok {
			r.decide(stripValue(ret.Results[0]) == ssa.Value(nw), "C18.wrapper-copy", "Copy:returns-new", p.pos(ret.Pos()), "returns the new wrapper", "Wrapper.Copy returns something other than the wrapper it built")
		}
	})
	// ID
	okID := false
	eachInstr(f, func(ins ssa.Instruction) {
		c, ok := ins.(*ssa.Call)
		if !ok {
			return
		}
		g := c.Common().StaticCallee()
		if g == nil {
			return
		}
		switch funcName(g) {
		case "(*Wrapper).SetID":
			if c.Common().Args[0] == ssa.Value(nw) {
				if c2, _ := callOf(c.Common().Args[1]); c2 != nil {
					if g2 := c2.Common().StaticCallee(); g2 != nil && funcName(g2) == "(*Wrapper).GetID" && c2.Common().Args[0] == ssa.Value(recv) {
						okID = true
					}
				}
			}
		case "(*Wrapper).Set":
			if c.Common().Args[0] == ssa.Value(nw) {
				if s, ok := constString(c.Common().Args[1]); ok && s == "id" {
					okID = true
				}
			}
		}
	})
	r.decide(okID, "C18.wrapper-copy", "Copy:id", p.pos(f.Pos()), "the copy's ID is set from the source's ID", "Wrapper.Copy does not copy the ID: the copy of a wrapped struct has an empty ID")

	// Set calls on the new wrapper: name read == name written; loops over Attrs() and Rels() of the receiver
	nSets := 0
	sawAttrs, sawRels := false, false
	eachInstr(f, func(ins ssa.Instruction) {
		c, ok := ins.(*ssa.Call)
		if !ok {
			return
		}
		g := c.Common().StaticCallee()
		if g == nil || funcName(g) != "(*Wrapper).Set" || c.Common().Args[0] != ssa.Value(nw) {
			return
		}
		if s, ok := constString(c.Common().Args[1]); ok && s == "id" {
			return
		}
		nSets++
		key := c.Common().Args[1]
		base, fld, ok := fieldLoad(key)
		if !ok {
			r.bad("C18.wrapper-copy", "Copy:"+p.describe(c), p.pos(c.Pos()), "the field name passed to Set is not the name of the attribute/relationship being copied")
			return
		}
		// base is the range value of w.Attrs() / w.Rels()
		src := rangeSource(base)
		switch {
		case fld == "Name" && src == "Attrs":
			sawAttrs = true
		case fld == "FromName" && src == "Rels":
			sawRels = true
		default:
			r.bad("C18.wrapper-copy", "Copy:"+p.describe(c), p.pos(c.Pos()), "Set is not called with the name of the element of Attrs()/Rels() being visited")
			return
		}
		// the value: derived from w.Get(<same name>)
		val := c.Common().Args[2]
		okVal, why := wrapperCopyValue(val, recv, key, kt)
		r.decide(okVal, "C18.wrapper-copy", "Copy:"+p.describe(c), p.pos(c.Pos()), why, why)
	})
	r.decide(sawAttrs && sawRels, "C18.wrapper-copy", "Copy:covers-attrs-and-rels", p.pos(f.Pos()), "both the attributes and the relationships of the source are copied",
		"Wrapper.Copy does not copy both the attributes and the relationships of its source")
	r.floor("Set calls in Wrapper.Copy", nSets, 1)
}

// rangeSource: v is the value variable of `for _, x := range w.Attrs()` / Rels().
func rangeSource(v ssa.Value) string {
	// value variables are spilled to a local: follow alloc stores
	if al, ok := v.(*ssa.Alloc); ok {
		for _, ref := range referrers(al) {
			if st, ok := ref.(*ssa.Store); ok && st.Addr == ssa.Value(al) {
				v = st.Val
			}
		}
	}
	ex, ok := v.(*ssa.Extract)
	if !ok || ex.Index != 2 {
		return ""
	}
	nx, ok := ex.Tuple.(*ssa.Next)
	if !ok {
		return ""
	}
	rg, ok := nx.Iter.(*ssa.Range)
	if !ok {
		return ""
	}
	if c, _ := callOf(rg.X); c != nil {
		if g := c.Common().StaticCallee(); g != nil {
			return g.Name()
		}
	}
	return ""
}

// wrapperCopyValue: the value handed to Set is w.Get(name) for immutable
// kinds, and a fresh make+copy for the mutable ones.
func wrapperCopyValue(val ssa.Value, recv *ssa.Parameter, nameArg ssa.Value, kt *kindTable) (bool, string) {
	isGet := func(v ssa.Value) bool {
		c, _ := callOf(v)
		if c == nil {
			return false
		}
		g := c.Common().StaticCallee()
		return g != nil && funcName(g) == "(*Wrapper).Get" && c.Common().Args[0] == ssa.Value(recv)
	}
	// collect the origins of val
	var origins []ssa.Value
	seen := map[ssa.Value]bool{}
	var walk func(v ssa.Value)
	walk = func(v ssa.Value) {
		if seen[v] {
			return
		}
		seen[v] = true
		switch x := v.(type) {
		case *ssa.Phi:
			for _, e := range x.Edges {
				walk(e)
			}
		case *ssa.MakeInterface:
			origins = append(origins, x)
		default:
			origins = append(origins, v)
		}
	}
	walk(val)
	var get ssa.Value
	for _, o := range origins {
		if isGet(o) {
			get = o
		}
	}
	// the Get behind a value handed to a clone helper
	getBehind := func(v ssa.Value) ssa.Value {
		for i := 0; i < 6 && v != nil; i++ {
			if isGet(v) {
				return v
			}
			switch x := v.(type) {
			case *ssa.TypeAssert:
				v = x.X
			case *ssa.Extract:
				v = x.Tuple
			case *ssa.ChangeType:
				v = x.X
			default:
				return nil
			}
		}
		return nil
	}
	for _, o := range origins {
		if isGet(o) {
			continue
		}
		// cloneX(w.Get(name)): a helper from any to any that passes immutable
		// kinds through and replaces every mutable kind by a fresh copy
		if hc, isCall := o.(*ssa.Call); isCall {
			if h := hc.Common().StaticCallee(); h != nil && h.Blocks != nil && smallHelper(h) && len(h.Params) == 1 && len(hc.Common().Args) == 1 && isGet(hc.Common().Args[0]) {
				if ok, why := anyCloneHelperOK(h, kt); !ok {
					return false, why
				}
				continue
			}
		}
		mi, ok := o.(*ssa.MakeInterface)
		if !ok {
			return false, "a value of unknown origin is stored in the copy"
		}
		var behind ssa.Value
		if hc, isCall := mi.X.(*ssa.Call); isCall && len(hc.Common().Args) == 1 {
			behind = getBehind(hc.Common().Args[0])
		}
		ts := fmtTypeString(mi.X.Type())
		mut, _ := mutableShare(ts)
		if !mut {
			continue
		}
		// a mutable kind: must be a fresh copy of the asserted Get value
		var orig ssa.Value
		if get != nil {
			orig = get
		} else if behind != nil {
			orig = behind
		}
		if !freshCopyFromGet(mi.X, recv) && (orig == nil || !freshCopyOf(mi.X, orig)) {
			return false, "a " + ts + " taken from the source is stored in the copy without make+copy: the two structs share it"
		}
	}
	if get != nil {
		// the raw Get value flows through for the remaining kinds: the type switch must have caught every mutable kind
		need := map[string]bool{}
		for _, t := range kt.allTypes() {
			ts := fmtTypeString(t)
			if mut, _ := mutableShare(ts); mut {
				need[ts] = true
			}
		}
		cases := typeSwitchCases(get.(ssa.Instruction).Parent(), get)
		for ts := range need {
			if _, ok := cases[ts]; !ok {
				return false, "the value read from the source is stored as is, and no arm replaces a " + ts + " by a copy: the two structs share it"
			}
		}
	}
	return true, "immutable kinds are passed on, mutable ones are replaced by make+copy"
}

// freshCopyFromGet: v is (a phi of nil-preserving) make+copy whose source is an
// assertion of w.Get(...).
func freshCopyFromGet(v ssa.Value, recv *ssa.Parameter) bool {
	ok := true
	var walk func(v ssa.Value, depth int, facts []edgeFact)
	walk = func(v ssa.Value, depth int, facts []edgeFact) {
		if depth > 5 {
			ok = false
			return
		}
		switch x := v.(type) {
		case *ssa.Phi:
			for k, e := range x.Edges {
				pred := x.Block().Preds[k]
				fs := factsAt(pred)
				if ifi, isIf := pred.Instrs[len(pred.Instrs)-1].(*ssa.If); isIf && pred.Succs[0] != pred.Succs[1] {
					fs = append(fs, edgeFact{Cond: ifi.Cond, Truth: pred.Succs[0] == x.Block(), From: pred})
				}
				walk(e, depth+1, fs)
			}
		case *ssa.MakeSlice:
			if !filledByCopy(x) {
				ok = false
			}
		case *ssa.Alloc:
			for _, ref := range referrers(x) {
				if st, isS := ref.(*ssa.Store); isS && st.Addr == ssa.Value(x) {
					walk(st.Val, depth+1, factsAt(st.Block()))
				}
			}
		case *ssa.TypeAssert:
			// the original value: allowed only where it is known to be nil (the
			// nil branch of a guarded copy)
			nilHere := false
			for _, ef := range expandFacts(facts) {
				if bo, isB := ef.Cond.(*ssa.BinOp); isB && (bo.Op == token.NEQ || bo.Op == token.EQL) {
					if ((bo.X == ssa.Value(x) && isNilConst(bo.Y)) || (bo.Y == ssa.Value(x) && isNilConst(bo.X))) && (bo.Op == token.EQL) == ef.Truth {
						nilHere = true
					}
				}
			}
			if !nilHere {
				ok = false
			}
		case *ssa.Const:
			if x.Value != nil {
				ok = false
			}
		case *ssa.Extract:
			ok = false
		default:
			ok = false
		}
	}
	walk(v, 0, nil)
	return ok
}

// filledByCopy: the made slice is the destination of a copy(), directly or
// through the local variable it was stored in.
func filledByCopy(x *ssa.MakeSlice) bool {
	isCopyDst := func(v ssa.Value) bool {
		for _, ref := range referrers(v) {
			if c, isC := ref.(*ssa.Call); isC {
				if b, isB := c.Call.Value.(*ssa.Builtin); isB && b.Name() == "copy" && c.Call.Args[0] == v {
					return true
				}
			}
		}
		return false
	}
	if isCopyDst(x) {
		return true
	}
	for _, ref := range referrers(x) {
		if st, ok := ref.(*ssa.Store); ok && st.Val == ssa.Value(x) {
			if al, ok := st.Addr.(*ssa.Alloc); ok {
				for _, r2 := range referrers(al) {
					if ld, ok := r2.(*ssa.UnOp); ok && isCopyDst(ld) {
						return true
					}
				}
			}
		}
	}
	return false
}

// checkCopyArmsRet: the same as checkCopyArms for a per-value helper
// (any) -> (any, bool): in each arm of its switch the value returned with
// true is the arm's value for immutable kinds and a fresh make+copy for
// slices and pointers to slices.
func checkCopyArmsRet(p *Prog, r *Report, cd, h *ssa.Function, cases map[string]*ssa.TypeAssert) {
	var names []string
	for n := range cases {
		names = append(names, n)
	}
	sort.Strings(names)
	for _, ts := range names {
		ta := cases[ts]
		var okv, val ssa.Value
		for _, ref := range referrers(ta) {
			if ex, isEx := ref.(*ssa.Extract); isEx {
				if ex.Index == 1 {
					okv = ex
				} else {
					val = ex
				}
			}
		}
		if okv == nil {
			continue
		}
		var arm *ssa.BasicBlock
		for _, ref := range referrers(okv) {
			if ifi, isIf := ref.(*ssa.If); isIf {
				arm = ifi.Block().Succs[0]
			}
		}
		if arm == nil {
			continue
		}
		stored := 0
		good := true
		why := ""
		eachInstr(h, func(ins ssa.Instruction) {
			ret, isRet := ins.(*ssa.Return)
			if !isRet || len(ret.Results) != 2 || !arm.Dominates(ret.Block()) {
				return
			}
			if cb, isC := constBool(ret.Results[1]); !isC || !cb {
				return
			}
			stored++
			v := ret.Results[0]
			if mi, isMI := v.(*ssa.MakeInterface); isMI {
				v = mi.X
			}
			mut, _ := mutableShare(ts)
			if !mut {
				if v != val && v != ta.X && ret.Results[0] != ta.X {
					good, why = false, "yields something other than the value of the arm"
				}
				return
			}
			if !freshCopyOf(v, val) {
				good, why = false, "yields the source's own "+ts+" (or something not made by make+copy from it)"
			}
		})
		if stored == 0 {
			good, why = false, "the arm yields nothing"
		}
		r.decide(good, "R9.fresh-copy", funcName(cd)+":arm "+ts, p.pos(ta.Pos()), "stores the value (immutable kind) or a fresh make+copy of it",
			"in the "+ts+" arm of "+funcName(h)+": "+why+"; the copy and its source then share the slice")
	}
}

// factSaysNil: block b is only reached when v == nil held.
func factSaysNil(b *ssa.BasicBlock, v ssa.Value) bool {
	for _, ef := range expandFacts(factsAt(b)) {
		bo, ok := ef.Cond.(*ssa.BinOp)
		if !ok || (bo.Op != token.EQL && bo.Op != token.NEQ) {
			continue
		}
		if ((bo.X == v && isNilConst(bo.Y)) || (bo.Y == v && isNilConst(bo.X))) && (bo.Op == token.EQL) == ef.Truth {
			return true
		}
	}
	return false
}

// anyCloneHelperOK: h is func(v any) any; every value it returns is v itself
// (then h's type switch on v has an arm for every mutable kind of the kind
// table, so only immutable kinds - or nil slices - flow through) or a fresh
// make+copy of the asserted value.
func anyCloneHelperOK(h *ssa.Function, kt *kindTable) (bool, string) {
	prm := h.Params[0]
	raw := false
	n := 0
	bad := ""
	eachInstr(h, func(ins ssa.Instruction) {
		ret, ok := ins.(*ssa.Return)
		if !ok || len(ret.Results) != 1 {
			return
		}
		n++
		for _, o := range originsNoBox(ret.Results[0]) {
			if o == ssa.Value(prm) {
				raw = true
				continue
			}
			mi, ok := o.(*ssa.MakeInterface)
			if !ok {
				bad = "the clone helper " + funcName(h) + " returns a value of unknown origin"
				continue
			}
			ts := fmtTypeString(mi.X.Type())
			if mut, _ := mutableShare(ts); mut && !freshCopyOf(mi.X, prm) {
				bad = "the clone helper " + funcName(h) + " returns a " + ts + " that is not a make+copy of the source's: the two structs share it"
			}
		}
	})
	if bad != "" {
		return false, bad
	}
	if n == 0 {
		return false, "the clone helper " + funcName(h) + " has no return"
	}
	if raw {
		cases := typeSwitchCases(h, prm)
		for _, t := range kt.allTypes() {
			ts := fmtTypeString(t)
			if mut, _ := mutableShare(ts); mut {
				if _, ok := cases[ts]; !ok {
					return false, "the clone helper " + funcName(h) + " passes the source's value through and no arm replaces a " + ts + " by a copy: the two structs share it"
				}
			}
		}
	}
	return true, ""
}

// checkSetReplaces: Wrapper.Copy hands the source's pointers to nullable
// scalars (*string, *int, ...) to the copy; the two stay independent only
// because setting a field replaces the pointer held by the struct. No reflect
// setter on the Set path may therefore write THROUGH a field (field.Elem(),
// reflect.Indirect(field)).
func checkSetReplaces(p *Prog, r *Report) {
	var roots []*ssa.Function
	for _, n := range []string{"(*Wrapper).Set", "(*Wrapper).SetID"} {
		if f := p.Fn(n); f != nil {
			roots = append(roots, f)
		}
	}
	if len(roots) == 0 {
		r.fail("anchor (*Wrapper).Set not found")
		return
	}
	isFieldCall := func(v ssa.Value) bool {
		c, _ := callOf(v)
		if c == nil || c.Common().StaticCallee() == nil {
			return false
		}
		switch fullName(c.Common().StaticCallee()) {
		case "reflect.(Value).Field", "reflect.(Value).FieldByName", "reflect.(Value).FieldByIndex", "reflect.(Value).FieldByNameFunc":
			return true
		}
		return false
	}
	var through func(v ssa.Value, depth int) bool
	through = func(v ssa.Value, depth int) bool {
		if depth > 4 {
			return false
		}
		for _, o := range originsDeep(v) {
			c, _ := callOf(o)
			if c == nil || c.Common().StaticCallee() == nil || len(c.Common().Args) == 0 {
				continue
			}
			switch fullName(c.Common().StaticCallee()) {
			case "reflect.(Value).Elem", "reflect.Indirect":
				for _, o2 := range originsDeep(c.Common().Args[0]) {
					if isFieldCall(o2) || through(o2, depth+1) {
						return true
					}
				}
			}
		}
		return false
	}
	n := 0
	for _, f := range p.cg.Reachable(roots...) {
		if f.Pkg != roots[0].Pkg {
			continue
		}
		eachInstr(f, func(ins ssa.Instruction) {
			c, ok := ins.(*ssa.Call)
			if !ok || c.Common().StaticCallee() == nil || len(c.Common().Args) == 0 {
				return
			}
			fn := fullName(c.Common().StaticCallee())
			if !strings.HasPrefix(fn, "reflect.(Value).Set") {
				return
			}
			n++
			r.decide(!through(c.Common().Args[0], 0), "C18.set-replaces", funcName(f)+":"+p.describe(c), p.pos(c.Pos()), "the setter replaces what the struct field holds",
				"this setter writes through the pointer held by a struct field instead of replacing it: Wrapper.Copy gives the copy the source's pointers to nullable scalars, so setting the attribute on one of the two changes the other")
		})
	}
	r.floor("reflect setters on the Wrapper's Set path", n, 2)
}

// checkWrapFreshStructure: every Wrapper owns the maps that describe its
// fields. A store into Wrapper.attrs / Wrapper.rels stores a map made in the
// storing function (never one taken from another wrapper, a type or a
// package-level cache), so Copy and New - which go through Wrap - cannot
// share them with their source.
func checkWrapFreshStructure(p *Prog, r *Report) {
	n := 0
	for _, f := range p.Funcs {
		eachInstr(f, func(ins ssa.Instruction) {
			st, ok := ins.(*ssa.Store)
			if !ok {
				return
			}
			fa, ok := st.Addr.(*ssa.FieldAddr)
			if !ok {
				return
			}
			o, fl := fieldRef(fa.X, fa.Field)
			if o != "Wrapper" || (fl != "attrs" && fl != "rels") {
				return
			}
			n++
			good := true
			for _, v := range origins(st.Val) {
				if mk, ok := v.(*ssa.MakeMap); ok && mk.Parent() == f {
					continue
				}
				// or the result of a package function that returns nothing but
				// maps it made itself (a builder of the structure)
				fresh := false
				if c, idx := callOf(v); c != nil && !c.Common().IsInvoke() {
					if g := c.Common().StaticCallee(); g != nil && g.Pkg == f.Pkg && g.Blocks != nil {
						if idx < 0 {
							idx = 0
						}
						fresh = true
						nRet := 0
						for _, b := range g.Blocks {
							ret, ok := b.Instrs[len(b.Instrs)-1].(*ssa.Return)
							if !ok || idx >= len(ret.Results) {
								continue
							}
							nRet++
							for _, rv := range origins(ret.Results[idx]) {
								if mk, ok := rv.(*ssa.MakeMap); !ok || mk.Parent() != g {
									fresh = false
								}
							}
						}
						if nRet == 0 {
							fresh = false
						}
					}
				}
				if !fresh {
					good = false
				}
			}
			r.decide(good, "C18.wrap-fresh-structure", funcName(f)+":"+p.describe(st), p.pos(st.Pos()), "stores a map made here (or by a builder that returns only maps it made)",
				"a Wrapper's "+fl+" map is not a map made for this wrapper: wrappers of the same struct type (a resource and its copy, or a New instance) share it, so removing or adding a field through one changes what the other reports and marshals")
		})
	}
	r.floor("stores into Wrapper.attrs / Wrapper.rels", n, 2)
}
