package main

import (
	"fmt"
	"go/token"
	"go/types"
	"sort"
	"strings"

	"golang.org/x/tools/go/ssa"
)

func init() { register("C11", checkC11) }

var c11Entries = []string{"MarshalDocument", "MarshalResource", "MarshalCollection", "(*URL).String"}

func checkC11(p *Prog, r *Report) {
	r.rule("R7 order-insensitive traversal: in every function reachable from the marshalers, each loop over a source without a meaningful order (a map; a to-many ID list; a field-selection or relationship-data list; the included list; any slice whose order was inherited from one of those by append-in-loop, copy or slicing) either runs on a value that a dominating sort has canonicalised, or is order-insensitive: nothing is carried from one iteration to the next except constant flags and a collecting append whose result is sorted (or only measured / searched) before any other use; stores go to objects made inside the iteration or to map entries keyed by the current element; no outer mutable object is handed to a callee that may write it; the loop is left early only right after an equality match with a loop-invariant value; no value computed inside is used after the loop")
	r.rule("C11.sort-canon: every sort that canonicalises such a source is sort.Strings, or sort.Slice whose comparator is one strict '<' between the same key expression of element i and of element j of the very slice being sorted (captured variables resolved to the enclosing function's locations)")
	r.rule("C11.write-inventory (R6 access-path mod analysis, the summaries used by C12): the complete set of pre-existing locations the four marshal entry points may write consists of the three canonicalising sorts, the document's own links[\"self\"], and the writes of (*SoftResource).check; every (*SoftResource) accessor that reads data or Type runs check first, so those writes cannot change what a later read returns")
	r.rule("C11.no-nondeterminism: no reachable function starts a goroutine, selects, or calls into time, math/rand, crypto/rand, os, runtime or unsafe; no pointer is converted to an integer")
	r.rule("R14: what is emitted is produced by encoding/json from maps (sorted keys), slices built by the loops above, and strings (decided by C03's provenance rule; contract: encoding/json is deterministic)")
	r.assume("a type's attribute/relationship maps are keyed by the element's own name (Attrs[k].Name == k, Rels[k].FromName == k) - the invariant AddAttr/AddRel/BuildType establish (C18/C20)")
	r.assume("included resources have distinct IDs when their order is to be irrelevant (the property's own domain); sort.Slice is not stable")
	r.notCovered("caller-supplied values whose encoding is address- or time-dependent (pointers inside Meta, custom MarshalJSON)")

	h := newHeap(p)
	fns := map[*ssa.Function]bool{}
	for _, e := range c11Entries {
		f := p.Fn(e)
		if f == nil {
			r.fail("anchor %s not found", e)
			return
		}
		for _, g := range p.cg.Reachable(f) {
			fns[g] = true
		}
	}
	var list []*ssa.Function
	for f := range fns {
		list = append(list, f)
	}
	sort.Slice(list, func(i, j int) bool { return funcName(list[i]) < funcName(list[j]) })
	oa := &orderAnalysis{p: p, r: r, tainted: map[*ssa.Function]bool{}}
	// functions whose result inherits a map's order (fixpoint over the small set)
	for changed := true; changed; {
		changed = false
		for _, f := range list {
			if !oa.tainted[f] && oa.resultTainted(f) {
				oa.tainted[f] = true
				changed = true
			}
		}
	}
	nLoops, nUnordered, nSorts := 0, 0, 0
	for _, f := range list {
		r.fn(funcName(f))
		a, b, c := oa.checkFunction(f)
		nLoops += a
		nUnordered += b
		nSorts += c
	}
	r.count("loops_seen", nLoops)
	r.floor("loops over unordered sources", nUnordered, 12)
	r.floor("canonicalising sorts", nSorts, 3)

	checkC11Writes(p, r, h)
	checkC11Sources(p, r, list)
}

// ---------------------------------------------------------------------------

type orderAnalysis struct {
	p       *Prog
	r       *Report
	tainted map[*ssa.Function]bool
	// parsers: leaving the loop by returning a non-nil error is accepted (which
	// error is reported may depend on the order; the successful result does not)
	allowErrExit bool
	rule         string
	// mapsOnly: only maps (and lists that inherited a map's order) count as unordered
	mapsOnly bool
}

type loopDesc struct {
	fn     *ssa.Function
	header *ssa.BasicBlock
	blocks map[*ssa.BasicBlock]bool
	kind   string // "map", "slice"
	src    ssa.Value
	next   *ssa.Next
	idx    ssa.Value
	what   string
}

// findLoops: the range loops and the counted loops over len(x) of f.
func findLoops(f *ssa.Function) []*loopDesc {
	var out []*loopDesc
	for _, b := range f.Blocks {
		loop := naturalLoop(b)
		if loop == nil {
			continue
		}
		ld := &loopDesc{fn: f, header: b, blocks: loop}
		for _, ins := range b.Instrs {
			if nx, ok := ins.(*ssa.Next); ok {
				if rg, ok := nx.Iter.(*ssa.Range); ok {
					ld.next = nx
					ld.src = rg.X
					if _, isMap := rg.X.Type().Underlying().(*types.Map); isMap {
						ld.kind = "map"
					} else {
						ld.kind = "string"
					}
				}
			}
		}
		if ld.kind == "" {
			if ifi, ok := b.Instrs[len(b.Instrs)-1].(*ssa.If); ok {
				if bo, ok := ifi.Cond.(*ssa.BinOp); ok && bo.Op == token.LSS {
					if c, _ := callOf(bo.Y); c != nil && builtinName(c.Common()) == "len" {
						if _, isSlice := c.Common().Args[0].Type().Underlying().(*types.Slice); isSlice {
							ld.kind = "slice"
							ld.src = c.Common().Args[0]
							ld.idx = bo.X
						}
					}
				}
			}
		}
		if ld.kind == "" {
			ld.kind = "other"
		}
		out = append(out, ld)
	}
	return out
}

// pathOf: a canonical access path for v with captured variables resolved to
// the enclosing function's variables.
func pathOf(v ssa.Value, depth int) string {
	if depth > 12 {
		return "…"
	}
	switch x := v.(type) {
	case *ssa.Parameter:
		return "param:" + x.Parent().Name() + "." + x.Name()
	case *ssa.Alloc:
		return fmt.Sprintf("local:%s.%s@%d", x.Parent().Name(), x.Comment, x.Pos())
	case *ssa.FreeVar:
		fn := x.Parent()
		for i, fv := range fn.FreeVars {
			if fv == x {
				if mc := closureOf(fn); mc != nil && i < len(mc.Bindings) {
					return pathOf(mc.Bindings[i], depth+1)
				}
			}
		}
		return "free:" + x.Name()
	case *ssa.UnOp:
		if x.Op == token.MUL {
			return "*" + pathOf(x.X, depth+1)
		}
		return x.Op.String() + pathOf(x.X, depth+1)
	case *ssa.FieldAddr:
		_, n := fieldRef(x.X, x.Field)
		return pathOf(x.X, depth+1) + ".&" + n
	case *ssa.Field:
		_, n := fieldRef(x.X, x.Field)
		return pathOf(x.X, depth+1) + "." + n
	case *ssa.IndexAddr:
		return pathOf(x.X, depth+1) + "[&" + pathOf(x.Index, depth+1) + "]"
	case *ssa.Lookup:
		return pathOf(x.X, depth+1) + "[" + pathOf(x.Index, depth+1) + "]"
	case *ssa.Const:
		return "const:" + x.String()
	case *ssa.TypeAssert:
		return pathOf(x.X, depth+1) + ".(" + typeStr(x.AssertedType) + ")"
	case *ssa.Extract:
		return pathOf(x.Tuple, depth+1) + "#" + fmt.Sprint(x.Index)
	case *ssa.Call:
		if x.Common().IsInvoke() {
			s := pathOf(x.Common().Value, depth+1) + "." + x.Common().Method.Name() + "("
			for _, a := range x.Common().Args {
				s += pathOf(a, depth+1) + ","
			}
			return s + ")"
		}
	}
	return fmt.Sprintf("val:%s.%s", parentName(v), v.Name())
}

func parentName(v ssa.Value) string {
	if f := v.Parent(); f != nil {
		return f.Name()
	}
	return ""
}

// closureOf: the MakeClosure instruction that creates fn in its parent.
func closureOf(fn *ssa.Function) *ssa.MakeClosure {
	par := fn.Parent()
	if par == nil {
		return nil
	}
	var out *ssa.MakeClosure
	eachInstr(par, func(ins ssa.Instruction) {
		if mc, ok := ins.(*ssa.MakeClosure); ok && mc.Fn == ssa.Value(fn) {
			out = mc
		}
	})
	return out
}

// unorderedSource: is the slice value v one whose element order carries no
// meaning (per the property's list), or inherited from a map?
func (oa *orderAnalysis) unorderedSource(v ssa.Value, seen map[ssa.Value]bool) (string, bool) {
	if seen[v] {
		return "", false
	}
	seen[v] = true
	isStrSlice := func(t types.Type) bool {
		s, ok := t.Underlying().(*types.Slice)
		if !ok {
			return false
		}
		b, ok := s.Elem().Underlying().(*types.Basic)
		return ok && b.Kind() == types.String
	}
	if oa.mapsOnly {
		switch v.(type) {
		case *ssa.Parameter, *ssa.Lookup, *ssa.TypeAssert, *ssa.Extract:
			return "", false
		}
	}
	switch x := v.(type) {
	case *ssa.Parameter:
		if funcName(x.Parent()) == "MarshalResource" && isStrSlice(x.Type()) {
			return "the field selection", true
		}
		// a list parameter of a small helper: unordered when some call site
		// passes an unordered list that it did not sort first
		if g := x.Parent(); g != nil && smallHelper(g) && g.Parent() == nil {
			idx := -1
			for i, q := range g.Params {
				if q == x {
					idx = i
				}
			}
			if idx >= 0 {
				for _, caller := range oa.p.Funcs {
					var hit string
					eachInstr(caller, func(ins ssa.Instruction) {
						c, ok := ins.(*ssa.Call)
						if !ok || c.Common().StaticCallee() != g || idx >= len(c.Common().Args) {
							return
						}
						a := c.Common().Args[idx]
						if w, un := oa.unorderedSource(a, seen); un && !oa.sortedBefore(a, c.Block(), c) {
							hit = w
						}
					})
					if hit != "" {
						return hit + " (passed to " + funcName(g) + ")", true
					}
				}
			}
		}
	case *ssa.Lookup:
		if isStrSlice(x.Type()) {
			return "a field-selection / relationship-data list (" + shorten(pathOf(x, 0)) + ")", true
		}
	case *ssa.TypeAssert:
		if isStrSlice(x.AssertedType) {
			if c, _ := callOf(x.X); c != nil && c.Common().IsInvoke() && c.Common().Method.Name() == "Get" {
				return "a to-many ID list", true
			}
		}
	case *ssa.Extract:
		if ta, ok := x.Tuple.(*ssa.TypeAssert); ok && x.Index == 0 {
			return oa.unorderedSource(ta, seen)
		}
	case *ssa.UnOp:
		if x.Op == token.MUL {
			if _, fl, ok := fieldLoad(x); ok && fl == "Included" && !oa.mapsOnly {
				return "the included list", true
			}
			// a local variable: whatever was stored in it
			if al, ok := x.X.(*ssa.Alloc); ok {
				for _, ref := range referrers(al) {
					if st, ok := ref.(*ssa.Store); ok && st.Addr == ssa.Value(al) {
						if w, ok := oa.unorderedSource(st.Val, seen); ok {
							return w, true
						}
					}
				}
			}
			if fv, ok := x.X.(*ssa.FreeVar); ok {
				fn := fv.Parent()
				for i, f2 := range fn.FreeVars {
					if f2 == fv {
						if mc := closureOf(fn); mc != nil {
							if al, ok := mc.Bindings[i].(*ssa.Alloc); ok {
								for _, ref := range referrers(al) {
									if st, ok := ref.(*ssa.Store); ok && st.Addr == ssa.Value(al) {
										if w, ok := oa.unorderedSource(st.Val, seen); ok {
											return w, true
										}
									}
								}
							}
						}
					}
				}
			}
		}
	case *ssa.Slice:
		return oa.unorderedSource(x.X, seen)
	case *ssa.MakeSlice:
		for _, ref := range referrers(x) {
			if c, ok := ref.(*ssa.Call); ok && builtinName(c.Common()) == "copy" && c.Common().Args[0] == ssa.Value(x) {
				if w, ok := oa.unorderedSource(c.Common().Args[1], seen); ok {
					return "a copy of " + w, true
				}
			}
		}
	case *ssa.Call:
		if sc := x.Common().StaticCallee(); sc != nil && oa.tainted[sc] {
			return "a list collected in map order by " + funcName(sc), true
		}
		if builtinName(x.Common()) == "append" {
			for _, a := range x.Common().Args {
				if w, ok := oa.unorderedSource(a, seen); ok {
					return w, true
				}
			}
		}
	case *ssa.Phi:
		// an accumulator fed inside a loop over an unordered source
		for _, ld := range findLoops(x.Parent()) {
			if ld.header == x.Block() {
				if ld.kind == "map" {
					return "a list collected in map order", true
				}
				if ld.kind == "slice" {
					if w, ok := oa.unorderedSource(ld.src, seen); ok && !oa.sortedBefore(ld.src, ld.header, nil) {
						return "a list collected from " + w, true
					}
				}
			}
		}
		for _, e := range x.Edges {
			if w, ok := oa.unorderedSource(e, seen); ok {
				return w, true
			}
		}
	}
	return "", false
}

// resultTainted: f returns a slice whose order is inherited from a map / an
// unordered source without being sorted.
func (oa *orderAnalysis) resultTainted(f *ssa.Function) bool {
	for _, b := range f.Blocks {
		ret, ok := b.Instrs[len(b.Instrs)-1].(*ssa.Return)
		if !ok {
			continue
		}
		for _, rv := range ret.Results {
			if _, isSlice := rv.Type().Underlying().(*types.Slice); !isSlice {
				continue
			}
			if _, un := oa.unorderedSource(rv, map[ssa.Value]bool{}); un && !oa.sortedBefore(rv, ret.Block(), ret) {
				return true
			}
		}
	}
	return false
}

// sortCalls: calls of sort.Strings / sort.Slice / sort.SliceStable in f.
func sortCalls(f *ssa.Function) []*ssa.Call {
	var out []*ssa.Call
	eachInstr(f, func(ins ssa.Instruction) {
		c, ok := ins.(*ssa.Call)
		if !ok {
			return
		}
		if calleeIs(c, "sort", "Strings") || calleeIs(c, "sort", "Slice") || calleeIs(c, "sort", "SliceStable") {
			out = append(out, c)
		}
	})
	return out
}

// sortedBefore: a sort of the same slice (same value or same access path)
// executes on every path to `at`.
func (oa *orderAnalysis) sortedBefore(v ssa.Value, blk *ssa.BasicBlock, at ssa.Instruction) bool {
	vp := pathOf(v, 0)
	type sortSite struct {
		c   *ssa.Call
		arg ssa.Value
	}
	var sites []sortSite
	for _, c := range sortCalls(blk.Parent()) {
		sites = append(sites, sortSite{c, unbox(c.Common().Args[0])})
	}
	// a package helper that sorts its parameter in place on every path
	eachInstr(blk.Parent(), func(ins ssa.Instruction) {
		c, ok := ins.(*ssa.Call)
		if !ok || c.Common().IsInvoke() {
			return
		}
		g := c.Common().StaticCallee()
		if g == nil || g.Blocks == nil || g.Pkg != blk.Parent().Pkg || g == blk.Parent() {
			return
		}
		for _, sc := range sortCalls(g) {
			sa := unbox(sc.Common().Args[0])
			if ld, isLd := sa.(*ssa.UnOp); isLd && ld.Op == token.MUL {
				// a parameter captured by the comparator lives in a cell
				if al, isAl := ld.X.(*ssa.Alloc); isAl {
					if sv := singleStore(al); sv != nil {
						sa = sv
					}
				}
			}
			prm, ok := sa.(*ssa.Parameter)
			if !ok {
				continue
			}
			always := true
			for _, b := range g.Blocks {
				if _, isRet := b.Instrs[len(b.Instrs)-1].(*ssa.Return); isRet && !sc.Block().Dominates(b) {
					always = false
				}
			}
			for k, q := range g.Params {
				if q == prm && always && k < len(c.Common().Args) {
					sites = append(sites, sortSite{c, unbox(c.Common().Args[k])})
				}
			}
		}
	})
	for _, site := range sites {
		c, arg := site.c, site.arg
		if arg != v && pathOf(arg, 0) != vp {
			continue
		}
		if c.Block() == blk {
			// same block: the sort comes first
			for _, ins := range blk.Instrs {
				if ins == ssa.Instruction(c) {
					return true
				}
				if ins == at {
					break
				}
			}
			continue
		}
		if c.Block().Dominates(blk) {
			return true
		}
	}
	return false
}

func (oa *orderAnalysis) checkFunction(f *ssa.Function) (nLoops, nUnordered, nSorts int) {
	p, r := oa.p, oa.r
	name := funcName(f)
	loops := findLoops(f)
	// binary searches presuppose a sorted list: an unordered source must have
	// been sorted first
	eachInstr(f, func(ins ssa.Instruction) {
		c, ok := ins.(*ssa.Call)
		if !ok || c.Common().StaticCallee() == nil {
			return
		}
		fn := fullName(c.Common().StaticCallee())
		if !(strings.HasPrefix(fn, "sort.Search") || fn == "sort.Find" || strings.HasPrefix(fn, "slices.BinarySearch")) {
			return
		}
		for _, a := range c.Common().Args {
			a = unbox(a)
			if _, isSlice := a.Type().Underlying().(*types.Slice); !isSlice {
				continue
			}
			if w, un := oa.unorderedSource(a, map[ssa.Value]bool{}); un {
				sorted := oa.sortedBefore(a, c.Block(), c)
				r.decide(sorted, oa.ruleName(), name+":binary-search:"+p.describe(c), p.pos(c.Pos()), "binary search on a list sorted before", "binary search on "+w+", which is not sorted first: whether a name is found depends on the order of the list")
			}
		}
	})
	// sorts
	for _, c := range sortCalls(f) {
		nSorts++
		oa.checkSort(c)
	}
	// interfering writes would invalidate "same access path" reasoning
	for _, ld := range loops {
		nLoops++
		switch ld.kind {
		case "map":
			ld.what = "map " + shorten(pathOf(ld.src, 0))
		case "slice":
			w, un := oa.unorderedSource(ld.src, map[ssa.Value]bool{})
			if !un {
				continue
			}
			ld.what = w
		default:
			continue
		}
		nUnordered++
		key := fmt.Sprintf("%s:loop over %s", name, ld.what)
		pos := p.pos(loopPos(ld))
		if ld.kind == "slice" && oa.sortedBefore(ld.src, ld.header, nil) {
			r.ok(oa.ruleName(), key, pos, "runs on a value canonicalised by a dominating sort")
			continue
		}
		why := oa.orderInsensitive(ld)
		r.decide(why == "", oa.ruleName(), key, pos, "order-insensitive body (keyed stores, constant flags, sorted collection, match-only exits)", "the result depends on the order of "+ld.what+": "+why)
	}
	return
}

func (oa *orderAnalysis) ruleName() string {
	if oa.rule != "" {
		return oa.rule
	}
	return "R7.order-insensitive"
}

// checkSort: C11.sort-canon for one sort call.
func (oa *orderAnalysis) checkSort(c *ssa.Call) {
	p, r := oa.p, oa.r
	f := c.Parent()
	key := funcName(f) + ":" + p.describe(c)
	if calleeIs(c, "sort", "Strings") {
		r.ok("C11.sort-canon", key, p.pos(c.Pos()), "sort.Strings: the total order on strings")
		return
	}
	arg := unbox(c.Common().Args[0])
	mc, ok := c.Common().Args[1].(*ssa.MakeClosure)
	if !ok {
		r.bad("C11.sort-canon", key, p.pos(c.Pos()), "the comparator is not a function literal: it cannot be read")
		return
	}
	less := mc.Fn.(*ssa.Function)
	var retv ssa.Value
	nret := 0
	for _, b := range less.Blocks {
		if ret, ok := b.Instrs[len(b.Instrs)-1].(*ssa.Return); ok {
			nret++
			retv = ret.Results[0]
		}
	}
	bo, isB := retv.(*ssa.BinOp)
	if nret != 1 || !isB || (bo.Op != token.LSS && bo.Op != token.GTR) {
		r.bad("C11.sort-canon", key, p.pos(less.Pos()), "the comparator is not a single strict comparison of one key: the order it defines may not be a strict weak order, so the sorted result can depend on the input order")
		return
	}
	// key expressions: same shape with i and j exchanged; indexed slice = the sorted one
	var indexed []ssa.Value
	var shape func(v ssa.Value, self *ssa.Parameter, depth int) string
	shape = func(v ssa.Value, self *ssa.Parameter, depth int) string {
		if depth > 12 {
			return "…"
		}
		switch x := v.(type) {
		case *ssa.Parameter:
			if x == self {
				return "$"
			}
			return "other-index:" + x.Name()
		case *ssa.IndexAddr:
			indexed = append(indexed, x.X)
			return "elem[" + shape(x.Index, self, depth+1) + "]"
		case *ssa.UnOp:
			return x.Op.String() + shape(x.X, self, depth+1)
		case *ssa.Call:
			s := "call:"
			if x.Common().IsInvoke() {
				s += shape(x.Common().Value, self, depth+1) + "." + x.Common().Method.Name()
			} else if sc := x.Common().StaticCallee(); sc != nil {
				s += fullName(sc)
			}
			for _, a := range x.Common().Args {
				s += "," + shape(a, self, depth+1)
			}
			return s
		case *ssa.TypeAssert:
			return shape(x.X, self, depth+1) + ".(" + typeStr(x.AssertedType) + ")"
		case *ssa.Field:
			_, n := fieldRef(x.X, x.Field)
			return shape(x.X, self, depth+1) + "." + n
		case *ssa.FieldAddr:
			_, n := fieldRef(x.X, x.Field)
			return shape(x.X, self, depth+1) + ".&" + n
		case *ssa.Const:
			return x.String()
		case *ssa.Extract:
			return shape(x.Tuple, self, depth+1) + "#" + fmt.Sprint(x.Index)
		}
		return pathOf(v, 0)
	}
	sx := shape(bo.X, less.Params[0], 0)
	sy := shape(bo.Y, less.Params[1], 0)
	if sx != sy || !strings.Contains(sx, "$") {
		r.bad("C11.sort-canon", key, p.pos(less.Pos()), "the comparator does not compare the same key of element i and of element j ("+shorten(sx)+" vs "+shorten(sy)+")")
		return
	}
	want := pathOf(arg, 0)
	for _, iv := range indexed {
		if pathOf(iv, 0) != want {
			r.bad("C11.sort-canon", key, p.pos(less.Pos()), "the comparator reads "+shorten(pathOf(iv, 0))+" while the slice being sorted is "+shorten(want)+": the elements are permuted by an order computed on another slice")
			return
		}
	}
	if len(indexed) < 2 {
		r.bad("C11.sort-canon", key, p.pos(less.Pos()), "the comparator does not index the sorted slice")
		return
	}
	// the key must tell apart elements that differ: a string glued together
	// from two variable parts without a separator does not (R8), also when it
	// is built by a small helper (a String() method of a key type)
	if bad, desc := nonInjectiveKey(bo.X, 0); bad {
		r.bad("C11.sort-canon", key, p.pos(less.Pos()), "the sort key is "+desc+": different elements can have equal keys (\"ab\"+\"c\" = \"a\"+\"bc\"; \"Tags\" and \"tags\" folded), they then keep their input order, so the output depends on it")
		return
	}
	r.ok("C11.sort-canon", key, p.pos(c.Pos()), "strict '<' on "+shorten(sx))
}

// orderInsensitive: "" when the loop's effect cannot depend on the iteration order.
func (oa *orderAnalysis) orderInsensitive(ld *loopDesc) string {
	p := oa.p
	f := ld.fn
	inLoop := func(v ssa.Value) bool {
		ins, ok := v.(ssa.Instruction)
		return ok && ins.Block() != nil && ld.blocks[ins.Block()] && ins.Block().Parent() == f
	}
	// early-exit tails: blocks only reachable through an exit edge that does not
	// leave from the header (the code between a match and the break)
	tails := map[*ssa.BasicBlock]bool{}
	var addTail func(b *ssa.BasicBlock)
	addTail = func(b *ssa.BasicBlock) {
		if tails[b] || ld.blocks[b] || len(b.Preds) != 1 {
			return
		}
		tails[b] = true
		for _, s := range b.Succs {
			addTail(s)
		}
	}
	for b := range ld.blocks {
		if b == ld.header {
			continue
		}
		for _, s := range b.Succs {
			if !ld.blocks[s] {
				addTail(s)
			}
		}
	}
	isElemDirect := func(v ssa.Value) bool {
		switch x := v.(type) {
		case *ssa.Extract:
			return ld.next != nil && x.Tuple == ssa.Value(ld.next) && x.Index >= 1
		case *ssa.UnOp:
			if ia, ok := x.X.(*ssa.IndexAddr); ok && x.Op == token.MUL && ld.kind == "slice" {
				return ia.Index == ld.idx && (ia.X == ld.src || pathOf(ia.X, 0) == pathOf(ld.src, 0))
			}
		}
		return false
	}
	// the loop variable of pre-1.22 range loops: one variable, assigned the
	// element at the top of every iteration and never read outside the loop
	loopVar := map[*ssa.Alloc]bool{}
	eachInstr(f, func(ins ssa.Instruction) {
		al, ok := ins.(*ssa.Alloc)
		if !ok || inLoop(al) {
			return
		}
		nSt := 0
		good := true
		var visit func(addr ssa.Value)
		visit = func(addr ssa.Value) {
			for _, ref := range referrers(addr) {
				if _, isDbg := ref.(*ssa.DebugRef); isDbg {
					continue
				}
				if ref.Block() == nil || !(ld.blocks[ref.Block()] || tails[ref.Block()]) {
					good = false
					continue
				}
				switch x := ref.(type) {
				case *ssa.Store:
					if x.Addr == addr && addr == ssa.Value(al) {
						nSt++
						if !isElemDirect(x.Val) || !(len(ld.header.Succs) > 0 && x.Block() == ld.header.Succs[0]) {
							good = false
						}
					} else if x.Addr == addr {
						good = false // a field of the variable is written
					} else {
						good = false // its address escapes
					}
				case *ssa.FieldAddr:
					visit(x)
				case *ssa.UnOp:
				default:
					good = false
				}
			}
		}
		visit(al)
		if good && nSt == 1 {
			loopVar[al] = true
		}
	})
	// invariant: the value is the same in every iteration
	var invariant func(v ssa.Value, depth int) bool
	invariant = func(v ssa.Value, depth int) bool {
		if depth > 10 {
			return false
		}
		if !inLoop(v) {
			if al, ok := v.(*ssa.Alloc); ok && loopVar[al] {
				return false
			}
			return true
		}
		switch x := v.(type) {
		case *ssa.UnOp:
			if x.Op != token.MUL {
				return invariant(x.X, depth+1)
			}
			// a load: the address is invariant and nothing in the loop stores to its variable
			base := x.X
			for {
				if fa, ok := base.(*ssa.FieldAddr); ok {
					base = fa.X
					continue
				}
				break
			}
			al, ok := base.(*ssa.Alloc)
			if !ok || inLoop(al) || loopVar[al] {
				return false
			}
			for _, ref := range referrers(al) {
				if st, isSt := ref.(*ssa.Store); isSt && ld.blocks[st.Block()] {
					return false
				}
			}
			return true
		case *ssa.FieldAddr:
			return invariant(x.X, depth+1)
		case *ssa.Field:
			return invariant(x.X, depth+1)
		}
		return false
	}
	// values derived from the current element
	var elemDerived func(v ssa.Value, depth int) bool
	elemDerived = func(v ssa.Value, depth int) bool {
		if depth > 10 || v == nil {
			return false
		}
		switch x := v.(type) {
		case *ssa.Extract:
			if x.Tuple == ssa.Value(ld.next) && ld.next != nil {
				return x.Index >= 1
			}
			return elemDerived(x.Tuple, depth+1)
		case *ssa.Field:
			return elemDerived(x.X, depth+1)
		case *ssa.FieldAddr:
			return elemDerived(x.X, depth+1)
		case *ssa.Lookup:
			return elemDerived(x.Index, depth+1)
		case *ssa.IndexAddr:
			if ld.kind == "slice" && x.Index == ld.idx && (x.X == ld.src || pathOf(x.X, 0) == pathOf(ld.src, 0)) {
				return true
			}
			return false
		case *ssa.UnOp:
			if x.Op == token.MUL {
				if isElemDirect(x) {
					return true
				}
				if al, ok := x.X.(*ssa.Alloc); ok && inLoop(al) {
					if sv := singleStore(al); sv != nil {
						return elemDerived(sv, depth+1)
					}
				}
				return elemDerived(x.X, depth+1)
			}
		case *ssa.Alloc:
			if loopVar[x] {
				return true
			}
			if inLoop(x) {
				if sv := singleStore(x); sv != nil {
					return elemDerived(sv, depth+1)
				}
			}
		case *ssa.MakeInterface:
			return elemDerived(x.X, depth+1)
		case *ssa.ChangeType:
			return elemDerived(x.X, depth+1)
		case *ssa.Slice:
			return elemDerived(x.X, depth+1)
		case *ssa.Convert:
			return elemDerived(x.X, depth+1)
		}
		return false
	}
	// uniqueGuard: the block runs only when the map key equals a constant, that is
	// in at most one iteration (map keys are unique)
	uniqueGuard := func(b *ssa.BasicBlock) bool {
		if ld.kind != "map" || ld.next == nil || len(ld.header.Succs) == 0 {
			return false
		}
		return mustPassEdgeFrom(ld.header.Succs[0], b, func(cond ssa.Value, truth bool) bool {
			bo, ok := cond.(*ssa.BinOp)
			if !ok || bo.Op != token.EQL || !truth {
				return false
			}
			for _, pr := range [][2]ssa.Value{{bo.X, bo.Y}, {bo.Y, bo.X}} {
				ex, isEx := pr[0].(*ssa.Extract)
				_, isC := pr[1].(*ssa.Const)
				if isEx && isC && ex.Tuple == ssa.Value(ld.next) && ex.Index == 1 {
					return true
				}
			}
			return false
		}) && b != ld.header.Succs[0]
	}
	// lazyInit: L = fresh empty map, executed only when L is nil
	lazyInit := func(st *ssa.Store) bool {
		if _, ok := st.Val.(*ssa.MakeMap); !ok {
			return false
		}
		want := pathOf(st.Addr, 0)
		for _, ef := range expandFacts(factsAt(st.Block())) {
			bo, ok := ef.Cond.(*ssa.BinOp)
			if !ok || bo.Op != token.EQL || !ef.Truth || !isNilConst(bo.Y) {
				continue
			}
			if ld2, ok := bo.X.(*ssa.UnOp); ok && ld2.Op == token.MUL && pathOf(ld2.X, 0) == want {
				return true
			}
		}
		return false
	}
	// the object a store / update goes to
	var baseOf func(v ssa.Value, depth int) ssa.Value
	baseOf = func(v ssa.Value, depth int) ssa.Value {
		if depth > 10 {
			return v
		}
		switch x := v.(type) {
		case *ssa.FieldAddr:
			return baseOf(x.X, depth+1)
		case *ssa.IndexAddr:
			return baseOf(x.X, depth+1)
		case *ssa.Slice:
			return baseOf(x.X, depth+1)
		case *ssa.UnOp:
			if x.Op == token.MUL {
				if al, ok := x.X.(*ssa.Alloc); ok {
					// the variable's content: where it was made
					if sv := singleStore(al); sv != nil {
						return baseOf(sv, depth+1)
					}
					return al
				}
			}
		case *ssa.MakeInterface:
			return baseOf(x.X, depth+1)
		case *ssa.ChangeType:
			return baseOf(x.X, depth+1)
		}
		return v
	}
	// header phis
	accum := map[*ssa.Phi]bool{}
	for _, ins := range ld.header.Instrs {
		phi, ok := ins.(*ssa.Phi)
		if !ok {
			break
		}
		if ld.kind == "slice" && usedOnlyAsIndex(phi, ld) {
			continue
		}
		if ld.kind == "slice" && ssa.Value(phi) == ld.idx {
			counted := true
			for i, e := range phi.Edges {
				if !ld.blocks[ld.header.Preds[i]] {
					continue
				}
				bo, ok := e.(*ssa.BinOp)
				if !ok || bo.Op != token.ADD || bo.X != ssa.Value(phi) {
					counted = false
				} else if k, ok := constInt(bo.Y); !ok || k != 1 {
					counted = false
				}
			}
			if counted {
				continue
			}
		}
		// constant flags
		allConst := true
		for i, e := range phi.Edges {
			if !ld.blocks[ld.header.Preds[i]] {
				continue
			}
			if _, isC := e.(*ssa.Const); !isC && e != ssa.Value(phi) {
				allConst = false
			}
		}
		if allConst {
			continue
		}
		// collecting append
		isAcc := true
		for i, e := range phi.Edges {
			if !ld.blocks[ld.header.Preds[i]] {
				continue
			}
			if !isAppendChainOf(e, phi, 0) {
				isAcc = false
			}
		}
		if isAcc {
			accum[phi] = true
			continue
		}
		return "the value of " + describeValue(p, phi) + " is carried from one iteration to the next"
	}
	// the collected list must be canonicalised (or only measured / searched) afterwards
	for phi := range accum {
		if why := oa.collectedUseOK(phi, ld); why != "" {
			return why
		}
	}
	// body effects
	var bad string
	for b := range ld.blocks {
		for _, ins := range b.Instrs {
			if bad != "" {
				break
			}
			switch x := ins.(type) {
			case *ssa.Store:
				if al, ok := x.Addr.(*ssa.Alloc); ok && loopVar[al] {
					continue
				}
				if al, ok := x.Addr.(*ssa.Alloc); ok && !inLoop(al) && isAppendToVar(x.Val, al, 0) {
					// a collecting variable (a slice captured by a closure lives in memory)
					if why := oa.collectedVarUseOK(al, ld); why != "" {
						bad = why
					}
					continue
				}
				base := baseOf(x.Addr, 0)
				if inLoop(base) {
					continue
				}
				if uniqueGuard(x.Block()) || lazyInit(x) {
					continue
				}
				if cb, isC := x.Val.(*ssa.Const); isC && cb != nil {
					// a constant flag in a spilled variable
					if _, isAl := base.(*ssa.Alloc); isAl {
						continue
					}
				}
				bad = "a store to " + shorten(pathOf(x.Addr, 0)) + " (" + p.pos(x.Pos()) + ") outlives the iteration"
			case *ssa.MapUpdate:
				base := baseOf(x.Map, 0)
				if inLoop(base) {
					continue
				}
				if elemDerived(x.Key, 0) || uniqueGuard(x.Block()) {
					continue
				}
				bad = "the map entry " + p.describe(x) + " (" + p.pos(x.Pos()) + ") is not keyed by the current element and the map outlives the iteration: what one iteration stores is seen by the next"
			case *ssa.Call:
				if uniqueGuard(x.Block()) {
					continue
				}
				if why := oa.callNeutral(x, ld, inLoop, baseOf, elemDerived); why != "" {
					bad = why
				}
			case *ssa.Go, *ssa.Defer, *ssa.Send:
				bad = fmt.Sprintf("%T inside the loop", ins)
			}
		}
	}
	if bad != "" {
		return bad
	}
	// exits
	for b := range ld.blocks {
		for _, s := range b.Succs {
			if ld.blocks[s] || b == ld.header {
				continue
			}
			// early exit: only right after an equality match of the element with an invariant
			matched := false
			facts := factsAtWithin(b, ld)
			if ifi, isIf := b.Instrs[len(b.Instrs)-1].(*ssa.If); isIf && b.Succs[0] != b.Succs[1] {
				facts = append(facts, edgeFact{Cond: ifi.Cond, Truth: b.Succs[0] == s, From: b})
			}
			for _, ef := range expandFacts(facts) {
				bo, ok := ef.Cond.(*ssa.BinOp)
				if !ok || !((bo.Op == token.EQL && ef.Truth) || (bo.Op == token.NEQ && !ef.Truth)) {
					continue
				}
				for _, pr := range [][2]ssa.Value{{bo.X, bo.Y}, {bo.Y, bo.X}} {
					if elemDerived(pr[0], 0) && invariant(pr[1], 0) {
						matched = true
					}
				}
			}
			if !matched && oa.allowErrExit && onlyErrorReturns(s, ld.blocks, map[*ssa.BasicBlock]bool{}) {
				continue
			}
			if !matched {
				return "the loop is left early at " + p.pos(b.Instrs[len(b.Instrs)-1].Pos()) + " without an equality match: which element stops it depends on the order"
			}
			// phis at the exit target may only receive constants from this edge
			for _, ins := range s.Instrs {
				phi, ok := ins.(*ssa.Phi)
				if !ok {
					break
				}
				for i, pb := range s.Preds {
					if pb == b {
						if _, isC := phi.Edges[i].(*ssa.Const); !isC && inLoop(phi.Edges[i]) {
							return "a value computed in the loop leaves it through the early exit"
						}
					}
				}
			}
		}
	}
	// the code between a match and the break may use the matched value, not its position
	for tb := range tails {
		for _, ins := range tb.Instrs {
			for _, op := range ins.Operands(nil) {
				if *op == nil {
					continue
				}
				if ld.idx != nil && (*op == ld.idx) {
					return "the position of the matching element is used after the match (" + p.pos(ins.Pos()) + ")"
				}
				if phi, ok := (*op).(*ssa.Phi); ok && phi.Block() == ld.header && !isBoolConstCarrier(phi) {
					return "a value carried by the loop is used after the match (" + p.pos(ins.Pos()) + ")"
				}
			}
		}
	}
	// values computed in the loop and used after it
	for b := range ld.blocks {
		for _, ins := range b.Instrs {
			v, ok := ins.(ssa.Value)
			if !ok {
				continue
			}
			if phi, isPhi := ins.(*ssa.Phi); isPhi && b == ld.header {
				if accum[phi] {
					continue
				}
				// constant flags may be read after the loop
				continue
			}
			for _, ref := range referrers(v) {
				if ref.Block() != nil && !ld.blocks[ref.Block()] {
					if tails[ref.Block()] && v != ld.idx {
						continue // the matched element (equal for every match) used before the break
					}
					if isBoolConstCarrier(v) {
						continue
					}
					// fresh objects made inside and stored by key are reached through the map, not through v
					return "the value " + describeValue(p, v) + " computed inside the loop is used after it (" + p.pos(ref.Pos()) + ")"
				}
			}
		}
	}
	return ""
}

func isBoolConstCarrier(v ssa.Value) bool {
	phi, ok := v.(*ssa.Phi)
	if !ok {
		return false
	}
	for _, e := range phi.Edges {
		if _, isC := e.(*ssa.Const); !isC {
			if !isBoolConstCarrier2(e, phi) {
				return false
			}
		}
	}
	return true
}

func isBoolConstCarrier2(e ssa.Value, self *ssa.Phi) bool {
	if e == ssa.Value(self) {
		return true
	}
	if phi, ok := e.(*ssa.Phi); ok {
		for _, x := range phi.Edges {
			if _, isC := x.(*ssa.Const); !isC && x != ssa.Value(self) && x != ssa.Value(phi) {
				return false
			}
		}
		return true
	}
	return false
}

func describeValue(p *Prog, v ssa.Value) string {
	if ins, ok := v.(ssa.Instruction); ok {
		if phi, isPhi := v.(*ssa.Phi); isPhi && phi.Comment != "" {
			return phi.Comment
		}
		return p.describe(ins)
	}
	return v.Name()
}

// factsAtWithin: branch outcomes inside the loop that hold when control is in b.
func factsAtWithin(b *ssa.BasicBlock, ld *loopDesc) []edgeFact {
	var out []edgeFact
	for _, f := range factsAt(b) {
		if f.From != nil && ld.blocks[f.From] {
			out = append(out, f)
		}
	}
	// b itself ends in the If that leaves the loop
	return out
}

// inLoopDeep: v is computed inside the loop from the element (not invariant).
func inLoopDeep(v ssa.Value, ld *loopDesc) bool {
	ins, ok := v.(ssa.Instruction)
	if !ok || ins.Block() == nil {
		return false
	}
	if !ld.blocks[ins.Block()] {
		return false
	}
	// a value defined in an enclosing loop's body but outside this loop is invariant here
	return true
}

func usedOnlyAsIndex(phi *ssa.Phi, ld *loopDesc) bool {
	// the rotated range index: phi [-1, phi+1] with the loop's index being phi+1
	if bo, ok := ld.idx.(*ssa.BinOp); ok && bo.Op == token.ADD && bo.X == ssa.Value(phi) {
		if k, ok := constInt(bo.Y); ok && k == 1 {
			for i, e := range phi.Edges {
				if ld.blocks[ld.header.Preds[i]] && e != ld.idx {
					return false
				}
			}
			return true
		}
	}
	return false
}

// isAppendChainOf: v = append(append(acc, …), …) with acc the phi.
func isAppendChainOf(v ssa.Value, acc *ssa.Phi, depth int) bool {
	if depth > 8 {
		return false
	}
	if v == ssa.Value(acc) {
		return true
	}
	switch x := v.(type) {
	case *ssa.Call:
		if builtinName(x.Common()) == "append" {
			return isAppendChainOf(x.Common().Args[0], acc, depth+1)
		}
	case *ssa.Phi:
		for _, e := range x.Edges {
			if !isAppendChainOf(e, acc, depth+1) {
				return false
			}
		}
		return true
	}
	return false
}

// isAppendToVar: v = append(append(*al, …), …).
func isAppendToVar(v ssa.Value, al *ssa.Alloc, depth int) bool {
	if depth > 8 {
		return false
	}
	switch x := v.(type) {
	case *ssa.UnOp:
		return x.Op == token.MUL && x.X == ssa.Value(al)
	case *ssa.Call:
		if builtinName(x.Common()) == "append" {
			return isAppendToVar(x.Common().Args[0], al, depth+1)
		}
	}
	return false
}

// collectedVarUseOK: the slice variable al collects elements in the loop; every
// read of it after the loop is a sort, a measurement, or comes after a sort of it.
func (oa *orderAnalysis) collectedVarUseOK(al *ssa.Alloc, ld *loopDesc) string {
	p := oa.p
	for _, ref := range referrers(al) {
		ld2, ok := ref.(*ssa.UnOp)
		if !ok || ld2.Op != token.MUL || ld.blocks[ld2.Block()] {
			if _, isMC := ref.(*ssa.MakeClosure); isMC {
				continue // captured by a comparator: decided by C11.sort-canon
			}
			if st, isSt := ref.(*ssa.Store); isSt && st.Addr == ssa.Value(al) {
				continue
			}
			if _, isDbg := ref.(*ssa.DebugRef); isDbg {
				continue
			}
			if ok {
				continue
			}
			return "the collecting variable " + al.Comment + " is used in an unrecognised way at " + p.pos(ref.Pos())
		}
		// loads before the loop (initial value) are not reads of the collected list
		if ld2.Block().Dominates(ld.header) && ld2.Block() != ld.header {
			continue
		}
		uses := referrers(ld2)
		for i := 0; i < len(uses); i++ {
			if mi, isMI := uses[i].(*ssa.MakeInterface); isMI {
				uses = append(uses, referrers(mi)...)
			}
		}
		for _, use := range uses {
			if _, isMI := use.(*ssa.MakeInterface); isMI {
				continue
			}
			if c, isCall := use.(*ssa.Call); isCall {
				if calleeIs(c, "sort", "Strings") || calleeIs(c, "sort", "Slice") {
					continue
				}
				if n := builtinName(c.Common()); n == "len" || n == "cap" {
					continue
				}
			}
			if _, isDbg := use.(*ssa.DebugRef); isDbg {
				continue
			}
			if !oa.sortedBefore(ld2, use.Block(), use) {
				return "the list collected in " + al.Comment + " is used at " + p.pos(use.Pos()) + " before being sorted"
			}
		}
	}
	return ""
}

// collectedUseOK: after the loop, the collected list is sorted before any use
// other than len/cap, or is only returned (the function is then tainted and
// its callers are checked), or only searched by order-insensitive loops.
func (oa *orderAnalysis) collectedUseOK(phi *ssa.Phi, ld *loopDesc) string {
	return oa.collectedUseOKRec(phi, ld, map[*ssa.Phi]bool{phi: true})
}

func (oa *orderAnalysis) collectedUseOKRec(phi *ssa.Phi, ld *loopDesc, seenPhi map[*ssa.Phi]bool) string {
	p := oa.p
	var sorts []*ssa.Call
	var others []ssa.Instruction
	for _, ref := range referrers(phi) {
		if ref.Block() != nil && ld.blocks[ref.Block()] {
			continue
		}
		switch x := ref.(type) {
		case *ssa.Call:
			if calleeIs(x, "sort", "Strings") || calleeIs(x, "sort", "Slice") {
				sorts = append(sorts, x)
				continue
			}
			if n := builtinName(x.Common()); n == "len" || n == "cap" {
				continue
			}
		case *ssa.Return:
			continue // tainted result: callers are checked
		case *ssa.DebugRef:
			continue
		case *ssa.Phi:
			// handed on to a further collecting loop: its own uses decide
			if x != phi && !seenPhi[x] {
				seenPhi[x] = true
				var ld2 *loopDesc
				for _, cand := range findLoops(x.Parent()) {
					if cand.header == x.Block() {
						ld2 = cand
					}
				}
				if ld2 == nil {
					ld2 = &loopDesc{fn: x.Parent(), blocks: map[*ssa.BasicBlock]bool{}}
				}
				if why := oa.collectedUseOKRec(x, ld2, seenPhi); why != "" {
					return why
				}
			}
			continue
		}
		others = append(others, ref)
	}
	for _, o := range others {
		ok := false
		for _, s := range sorts {
			if s.Block() == o.Block() {
				for _, ins := range s.Block().Instrs {
					if ins == ssa.Instruction(s) {
						ok = true
						break
					}
					if ins == o {
						break
					}
				}
			} else if s.Block().Dominates(o.Block()) {
				ok = true
			}
		}
		if !ok {
			// a further loop over it is checked on its own (the source is tainted);
			// anything else sees the map order
			if c, isCall := o.(*ssa.Call); isCall && builtinName(c.Common()) == "len" {
				continue
			}
			if _, isIdx := o.(*ssa.IndexAddr); isIdx {
				continue // element reads happen in a loop over it, which is checked as a loop over a tainted list
			}
			if mi, isMI := o.(*ssa.MakeInterface); isMI {
				// handed to json.Marshal etc.: the order is emitted
				_ = mi
			}
			return "the list collected in this loop is used at " + p.pos(o.Pos()) + " (" + p.describe(o) + ") before being sorted"
		}
	}
	return ""
}

// read-only standard-library callees (by package path prefix / name)
func stdReadOnly(full string) bool {
	for _, pre := range []string{"encoding/json.Marshal", "sort.Strings", "sort.Slice", "strings.", "net/url.QueryEscape", "net/url.PathEscape", "net/url.(Values).Get", "fmt.Sprint", "fmt.Sprintf", "fmt.Errorf", "errors.New", "strconv.", "reflect.", "bytes.Equal", "bytes.Compare", "unicode/utf8."} {
		if strings.HasPrefix(full, pre) {
			return true
		}
	}
	return false
}

// callNeutral: a call inside the loop must not let an outer mutable object be written.
func (oa *orderAnalysis) callNeutral(c *ssa.Call, ld *loopDesc, inLoop func(ssa.Value) bool, baseOf func(ssa.Value, int) ssa.Value, elemDerived func(ssa.Value, int) bool) string {
	p := oa.p
	cc := c.Common()
	if b := builtinName(cc); b != "" {
		switch b {
		case "len", "cap", "append", "min", "max", "new", "make":
			return ""
		case "delete":
			if inLoop(baseOf(cc.Args[0], 0)) || elemDerived(cc.Args[1], 0) {
				return ""
			}
			return "delete with a key that is not the current element (" + p.pos(c.Pos()) + ")"
		case "copy":
			if inLoop(baseOf(cc.Args[0], 0)) {
				return ""
			}
			return "copy into a slice that outlives the iteration (" + p.pos(c.Pos()) + ")"
		}
		return "builtin " + b + " inside the loop"
	}
	sc := cc.StaticCallee()
	if sc != nil && !p.inTarget(sc) && stdReadOnly(fullName(sc)) {
		return ""
	}
	// library callees and interface calls: the write inventory bounds what they
	// write to pre-existing memory; here only objects made by this function
	// outside the loop matter
	args := append([]ssa.Value{}, cc.Args...)
	if !cc.IsInvoke() && sc == nil {
		args = append(args, cc.Value)
	}
	if mc, ok := cc.Value.(*ssa.MakeClosure); ok {
		args = append(args, mc.Bindings...)
	}
	for _, a := range args {
		if !isRefType(a.Type()) {
			continue
		}
		base := baseOf(a, 0)
		switch base.(type) {
		case *ssa.MakeMap, *ssa.MakeSlice, *ssa.Alloc:
			if !inLoop(base) {
				return "the object " + shorten(pathOf(a, 0)) + ", made outside the loop, is handed to " + p.describe(c) + " (" + p.pos(c.Pos()) + "), which may write it"
			}
		}
	}
	if sc != nil && !p.inTarget(sc) {
		return "call of " + fullName(sc) + " (" + p.pos(c.Pos()) + "), which is not in the table of read-only library functions"
	}
	return ""
}

func isRefType(t types.Type) bool {
	switch t.Underlying().(type) {
	case *types.Pointer, *types.Map, *types.Slice, *types.Chan, *types.Signature, *types.Interface:
		return true
	}
	return false
}

// ---------------------------------------------------------------------------

// phasesOfCheck: SoftResource.check and the small helpers that are called by
// nothing but check and its phases (a normaliser split into steps).
func phasesOfCheck(p *Prog) map[*ssa.Function]bool {
	set := map[*ssa.Function]bool{}
	chk := p.Fn("(*SoftResource).check")
	if chk == nil {
		return set
	}
	set[chk] = true
	for changed := true; changed; {
		changed = false
		for _, g := range p.Funcs {
			if set[g] || !smallHelper(g) || g.Parent() != nil {
				continue
			}
			calls := p.cg.callers[g]
			if len(calls) == 0 {
				continue
			}
			all := true
			for _, c := range calls {
				if !set[c.Parent()] || c.Common().IsInvoke() || c.Common().StaticCallee() != g {
					all = false
				}
			}
			for _, vf := range p.cg.valueFuncs {
				if vf == g {
					all = false
				}
			}
			if all {
				set[g] = true
				changed = true
			}
		}
	}
	return set
}

func checkC11Writes(p *Prog, r *Report, h *Heap) {
	phases := phasesOfCheck(p)
	phaseNames := map[string]bool{}
	for g := range phases {
		phaseNames[funcName(g)] = true
	}
	n := 0
	for _, e := range c11Entries {
		f := p.Fn(e)
		mods := h.ModsOf(f)
		seenSort := map[string]bool{}
		for _, m := range mods {
			n++
			key := fmt.Sprintf("%s:%s:%s@%s:%s", e, m.Kind, m.Loc, m.Fn, p.pos(m.Pos))
			switch {
			case m.Fn == "(*SoftResource).check" || phaseNames[m.Fn]:
				r.ok("C11.write-inventory", key, p.pos(m.Pos), "normalisation by (*SoftResource).check")
			case m.Kind == "sort":
				seenSort[m.Fn] = true
				r.ok("C11.write-inventory", key, p.pos(m.Pos), "canonicalising sort (order of an order-irrelevant list)")
			case m.Kind == "mapupdate" && e == "MarshalDocument" && strings.HasPrefix(rootOf(m.Loc), "P0") && strings.Contains(m.Loc, ".Links") && strings.Contains(m.Desc, `"self"`):
				r.ok("C11.write-inventory", key, p.pos(m.Pos), "the document's own links map (self), not read from resources or URL")
			default:
				via := m.Via
				if via != "" {
					via = " via " + via
				}
				r.bad("C11.write-inventory", key, p.pos(m.Pos), fmt.Sprintf("%s writes %s (%s, %s)%s: %s - marshaling must not change what is later read from the resources or the URL", e, m.Loc, m.Kind, m.Typ, via, m.Desc))
			}
		}
	}
	r.floor("summarised writes of the marshalers", n, 20)
	if len(h.Unmodelled) > 0 {
		r.note(fmt.Sprintf("standard-library callees without a contract entry: %v", h.Unmodelled))
	}
	// every SoftResource accessor that reads data / Type runs check() first
	chk := p.Fn("(*SoftResource).check")
	if chk == nil {
		r.fail("anchor (*SoftResource).check not found")
		return
	}
	nAcc := 0
	for _, f := range p.Funcs {
		if !strings.HasPrefix(funcName(f), "(*SoftResource).") || f == chk || phases[f] || funcName(f) == "(*SoftResource).fields" || f.Parent() != nil {
			continue
		}
		if len(f.Params) == 0 {
			continue
		}
		recv := f.Params[0]
		var firstRead ssa.Instruction
		eachInstr(f, func(ins ssa.Instruction) {
			fa, ok := ins.(*ssa.FieldAddr)
			if !ok || fa.X != ssa.Value(recv) {
				return
			}
			_, fl := fieldRef(fa.X, fa.Field)
			if fl != "data" && fl != "Type" {
				return
			}
			for _, ref := range referrers(fa) {
				if u, ok := ref.(*ssa.UnOp); ok && u.Op == token.MUL {
					if firstRead == nil {
						firstRead = u
					}
					// every read must be preceded by check()
					okc := mustPassInstr(f, u, func(i2 ssa.Instruction) bool {
						c, ok := i2.(*ssa.Call)
						return ok && c.Common().StaticCallee() == chk && c.Common().Args[0] == ssa.Value(recv)
					})
					if !okc && smallHelper(f) && len(p.cg.callers[f]) > 0 {
						// a helper of an accessor: check() has run on the same receiver
						// before every call of it
						okc = true
						for _, cc := range p.cg.callers[f] {
							call, isCall := cc.(*ssa.Call)
							if !isCall || cc.Common().IsInvoke() || cc.Common().StaticCallee() != f || len(cc.Common().Args) == 0 {
								okc = false
								continue
							}
							arg := cc.Common().Args[0]
							if !mustPassInstr(cc.Parent(), call, func(i2 ssa.Instruction) bool {
								c, ok := i2.(*ssa.Call)
								return ok && c.Common().StaticCallee() == chk && c.Common().Args[0] == arg
							}) {
								okc = false
							}
						}
					}
					nAcc++
					r.decide(okc, "C11.write-inventory", "check-first:"+funcName(f)+":"+p.describe(u), p.pos(u.Pos()), "check() runs before this read", funcName(f)+" reads "+fl+" without running check() first: the normalisation done during marshaling would be observable through it")
				}
			}
		})
	}
	r.floor("SoftResource field reads preceded by check()", nAcc, 10)
}

func checkC11Sources(p *Prog, r *Report, fns []*ssa.Function) {
	banned := []string{"time.", "math/rand", "crypto/rand", "os.", "runtime.", "unsafe.", "sync/atomic"}
	n := 0
	for _, f := range fns {
		eachInstr(f, func(ins ssa.Instruction) {
			n++
			switch x := ins.(type) {
			case *ssa.Go, *ssa.Select:
				r.bad("C11.no-nondeterminism", funcName(f)+":"+p.describe(ins), p.pos(ins.Pos()), fmt.Sprintf("%T in a function reachable from the marshalers", ins))
			case *ssa.Call:
				if sc := x.Common().StaticCallee(); sc != nil && !p.inTarget(sc) {
					fn := fullName(sc)
					for _, b := range banned {
						if strings.HasPrefix(fn, b) {
							r.bad("C11.no-nondeterminism", funcName(f)+":"+p.describe(ins), p.pos(ins.Pos()), "call of "+fn+" in a function reachable from the marshalers: the output can differ from run to run")
						}
					}
				}
			case *ssa.Convert:
				if bt, ok := x.Type().Underlying().(*types.Basic); ok && bt.Kind() == types.Uintptr {
					r.bad("C11.no-nondeterminism", funcName(f)+":"+p.describe(ins), p.pos(ins.Pos()), "pointer converted to an integer")
				}
			}
		})
	}
	r.ok("C11.no-nondeterminism", "reachable-set", "-", fmt.Sprintf("%d instructions in %d functions inspected", n, len(fns)))
	r.floor("functions reachable from the marshalers", len(fns), 25)
}

// loopPos: a source position for the loop (range loops over slices have none on their header).
func loopPos(ld *loopDesc) token.Pos {
	if ld.next != nil {
		if rg, ok := ld.next.Iter.(*ssa.Range); ok && rg.Pos().IsValid() {
			return rg.Pos()
		}
	}
	var bs []*ssa.BasicBlock
	for b := range ld.blocks {
		bs = append(bs, b)
	}
	sort.Slice(bs, func(i, j int) bool { return bs[i].Index < bs[j].Index })
	for _, b := range bs {
		for _, ins := range b.Instrs {
			if ins.Pos().IsValid() {
				return ins.Pos()
			}
		}
	}
	return token.NoPos
}

// onlyErrorReturns: every path from b (outside the loop) ends in a return whose
// last result is a non-nil error, without re-entering the loop.
func onlyErrorReturns(b *ssa.BasicBlock, loop map[*ssa.BasicBlock]bool, seen map[*ssa.BasicBlock]bool) bool {
	if seen[b] {
		return true
	}
	seen[b] = true
	if loop[b] {
		return false
	}
	last := b.Instrs[len(b.Instrs)-1]
	if ret, ok := last.(*ssa.Return); ok {
		if len(ret.Results) == 0 {
			return false
		}
		e := ret.Results[len(ret.Results)-1]
		if !isErrorType(e.Type()) {
			return false
		}
		if _, isMI := e.(*ssa.MakeInterface); isMI {
			return true
		}
		if c, isC := e.(*ssa.Const); isC && c.Value == nil {
			return false
		}
		return errNonNilAt(e, b) || func() bool {
			if c, _ := callOf(e); c != nil {
				if sc := c.Common().StaticCallee(); sc != nil {
					n := fullName(sc)
					return n == "errors.New" || n == "fmt.Errorf"
				}
			}
			return false
		}()
	}
	if _, ok := last.(*ssa.Panic); ok {
		return true
	}
	if len(b.Succs) == 0 {
		return false
	}
	for _, s := range b.Succs {
		if !onlyErrorReturns(s, loop, seen) {
			return false
		}
	}
	return true
}

// nonInjectiveKey: v, or what a small helper it is the result of returns, is a
// non-injective concatenation.
func nonInjectiveKey(v ssa.Value, depth int) (bool, string) {
	if bad, desc := nonInjectiveConcat(v); bad {
		return true, "the concatenation " + desc + " of variable parts without a separator"
	}
	if depth > 2 {
		return false, ""
	}
	// a key folded by a function that maps different strings to the same one
	if c, _ := callOf(v); c != nil {
		if g := c.Common().StaticCallee(); g != nil && g.Pkg != nil && g.Pkg.Pkg.Path() == "strings" {
			switch g.Name() {
			case "ToLower", "ToUpper", "ToTitle", "Title", "TrimSpace", "Trim", "TrimLeft", "TrimRight", "TrimPrefix", "TrimSuffix", "TrimFunc", "Map", "Replace", "ReplaceAll", "ToValidUTF8":
				return true, "strings." + g.Name() + "(…) (a folding of the key)"
			}
		}
		if builtinName(c.Common()) == "len" {
			return true, "len(…) (a folding of the key)"
		}
		g := c.Common().StaticCallee()
		if g == nil && !c.Common().IsInvoke() {
			g = funcBoundTo(c.Common().Value)
		}
		if g != nil && g.Blocks != nil && g.Parent() != nil {
			for _, rv := range returnsOf(g) {
				if bad, desc := nonInjectiveKey(rv, depth+1); bad {
					return true, desc
				}
			}
		}
	}
	if c, _ := callOf(v); c != nil {
		if g := c.Common().StaticCallee(); g != nil && g.Blocks != nil && smallHelper(g) || (g != nil && g.Blocks != nil && g.Name() == "String" && g.Pkg != nil && g.Pkg.Pkg.Path() == targetPkgPath) {
			for _, rv := range returnsOf(g) {
				if bad, desc := nonInjectiveKey(rv, depth+1); bad {
					return true, desc
				}
			}
		}
	}
	return false, ""
}

// funcBoundTo resolves a func value called inside a closure to the function
// literal it holds: a captured local variable that is assigned exactly once,
// with a function literal.
func funcBoundTo(v ssa.Value) *ssa.Function {
	ld, ok := v.(*ssa.UnOp)
	if !ok || ld.Op != token.MUL {
		return nil
	}
	var cell ssa.Value = ld.X
	if fv, ok := cell.(*ssa.FreeVar); ok {
		fn := fv.Parent()
		idx := -1
		for i, q := range fn.FreeVars {
			if q == fv {
				idx = i
			}
		}
		par := fn.Parent()
		if par == nil || idx < 0 {
			return nil
		}
		cell = nil
		eachInstr(par, func(ins ssa.Instruction) {
			if mc, ok := ins.(*ssa.MakeClosure); ok && mc.Fn == ssa.Value(fn) && idx < len(mc.Bindings) {
				cell = mc.Bindings[idx]
			}
		})
	}
	al, ok := cell.(*ssa.Alloc)
	if !ok {
		return nil
	}
	sv := singleStore(al)
	switch x := sv.(type) {
	case *ssa.Function:
		return x
	case *ssa.MakeClosure:
		if f, ok := x.Fn.(*ssa.Function); ok {
			return f
		}
	}
	return nil
}
