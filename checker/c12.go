package main

import (
	"fmt"
	"go/types"
	"strings"

	"golang.org/x/tools/go/ssa"
)

func init() { register("C12", checkC12) }

// schemaOwnedType: the written location has the static type of memory that a
// schema shares with the Type copies it hands out.
func schemaOwnedType(typ string) bool {
	for _, s := range []string{"elem map[string]jsonapi.Attr", "elem map[string]jsonapi.Rel", "elem []jsonapi.Type", "field Schema."} {
		if strings.HasPrefix(typ, s) {
			return true
		}
	}
	return false
}

// readOnlyEntries are the operations property C12 lists as safe to run
// concurrently against one shared schema.
var c12Entries = []struct {
	fn   string
	role string // how the schema is reachable from the parameters
}{
	{"NewURLFromRaw", "schema"}, {"NewURL", "schema"}, {"NewSimpleURL", "none"}, {"NewParams", "schema"}, {"NewRequest", "schema"},
	{"UnmarshalDocument", "schema"}, {"UnmarshalResource", "schema"}, {"UnmarshalPartialResource", "schema"},
	{"UnmarshalCollection", "schema"}, {"UnmarshalIdentifier", "schema"}, {"UnmarshalIdentifiers", "schema"},
	{"(*Schema).GetType", "schema"}, {"(*Schema).HasType", "schema"}, {"(*Schema).Check", "schema"}, {"(*Schema).Rels", "schema"},
	{"(*Type).New", "typecopy"}, {"(*Type).Fields", "typecopy"}, {"(Type).Copy", "typecopy"}, {"(Type).Equal", "typecopy"},
	{"MarshalDocument", "owndoc"}, {"MarshalResource", "owndoc"}, {"MarshalCollection", "owndoc"},
	{"(*SoftResource).Get", "ownres"}, {"(*SoftResource).Set", "ownres"}, {"(*SoftResource).Attrs", "ownres"},
	{"(*SoftResource).Rels", "ownres"}, {"(*SoftResource).GetType", "ownres"}, {"(*SoftResource).Copy", "ownres"}, {"(*SoftResource).New", "ownres"},
	{"(*Wrapper).Get", "ownres"}, {"(*Wrapper).Set", "ownres"}, {"(*Wrapper).Attrs", "ownres"}, {"(*Wrapper).Rels", "ownres"},
	{"(*Wrapper).GetType", "ownres"}, {"(*Wrapper).Copy", "ownres"}, {"(*Wrapper).New", "ownres"},
	{"(*URL).String", "none"},
}

func checkC12(p *Prog, r *Report) {
	r.rule("R13.1 no-schema-write: for every listed read-only operation, the interprocedural write summary (R6: access-path mod analysis over go/ssa, callee summaries instantiated at call sites, interface calls resolved to both shipped implementations, NewFunc closures followed) contains no location rooted at a *Schema parameter/receiver")
	r.rule("R13.2 shared-map-write: no listed operation writes an element of a map[string]Attr / map[string]Rel / []Type or a field of Schema that exists before the call (such maps are shared between a schema and every Type copy GetType hands out); writes to maps created inside the call are not in the summary by construction")
	r.rule("R13.3 type-copy: (*Type).New and friends, run on the by-value copy GetType returns, write nothing reachable through a reference stored in that copy (Attrs/Rels maps, the Wrapper captured by BuildType's NewFunc)")
	r.rule("R13.4 no package-level state: no reachable write to a global or to memory of unknown origin")
	r.assume("user-supplied Resource/Collection implementations and hand-written NewFuncs are outside the analysis (the property speaks of the library's operations)")
	r.assume("A3: values boxed by reflect.Value.Interface() inside the Wrapper are plain structs/basic values, not library Resources")
	r.assume("a resource's *Type is never the address of an element of a shared schema's Types slice (GetType returns copies)")
	r.assume("reads by the standard library (reflect, encoding/json, sort on fresh slices) do not write their operands")
	r.notCovered("interleavings as such: race-freedom is concluded from read-only-ness via the Go memory model, no schedule is explored")
	r.notCovered("callers sharing their own documents/resources between goroutines")

	h := newHeap(p)
	nEntries := 0
	totalMods := 0
	for _, e := range c12Entries {
		f := p.Fn(e.fn)
		if f == nil {
			r.fail("anchor %s not found", e.fn)
			continue
		}
		nEntries++
		for _, g := range p.cg.Reachable(f) {
			r.fn(funcName(g))
		}
		schemaIdx := -1
		for i, prm := range f.Params {
			if pt, ok := prm.Type().(*types.Pointer); ok {
				if nt, ok := pt.Elem().(*types.Named); ok && nt.Obj().Name() == "Schema" {
					schemaIdx = i
				}
			}
		}
		if e.role == "schema" && schemaIdx < 0 {
			r.fail("%s has no *Schema parameter any more", e.fn)
			continue
		}
		mods := h.ModsOf(f)
		totalMods += len(mods)
		bad := 0
		report := func(rule string, m Mod, why string) {
			bad++
			via := m.Via
			if via != "" {
				via = " via " + via
			}
			r.bad(rule, fmt.Sprintf("%s:%s:%s@%s", e.fn, m.Kind, m.Loc, m.Fn), p.pos(m.Pos),
				fmt.Sprintf("%s: %s writes %s (%s, %s)%s: %s", why, e.fn, m.Loc, m.Kind, m.Typ, via, m.Desc))
		}
		for _, m := range mods {
			root := rootOf(m.Loc)
			switch {
			case strings.HasPrefix(root, "G:"):
				report("R13.4.global-write", m, "write to package-level state from a read-only operation")
			case root == "?":
				report("R13.4.unknown-write", m, "write to memory of unknown origin from a read-only operation (undecided counts as violation)")
			case schemaIdx >= 0 && root == fmt.Sprintf("P%d", schemaIdx):
				report("R13.1.schema-write", m, "write to schema-owned memory from a read-only operation")
			case schemaOwnedType(m.Typ) && (m.Kind == "mapupdate" || m.Kind == "delete" || m.Kind == "sort" || m.Kind == "store" || m.Kind == "append" || m.Kind == "copy"):
				if m.Kind == "store" && !strings.HasPrefix(m.Typ, "field Schema.") && !strings.HasPrefix(m.Typ, "elem []jsonapi.Type") {
					break
				}
				report("R13.2.shared-map-write", m, "write into a pre-existing attribute/relationship map or type list (shared with the schema through Type copies)")
			case e.role == "typecopy" && root == "P0" && strings.Contains(m.Loc, "*"):
				report("R13.3.type-copy-write", m, "write through a reference held by the Type copy (memory shared with the schema)")
			case strings.HasPrefix(m.Kind, "external:"):
				report("R13.4.unmodelled-external", m, "argument passed to a standard-library function with no contract entry (may write it)")
			}
		}
		if bad == 0 {
			r.ok("R13.read-only", e.fn, p.pos(f.Pos()), fmt.Sprintf("%d summarised writes, none to schema-owned, shared, global or unknown memory (role %s)", len(mods), e.role))
		}
	}
	r.floor("read-only entry points", nEntries, 30)
	r.count("summarised_writes_inspected", totalMods)
	if len(h.Unmodelled) > 0 {
		r.note(fmt.Sprintf("standard-library callees without a contract entry: %v", h.Unmodelled))
	}

	// positive control: the analysis must see the writes of the schema's
	// mutators (a summary that is empty for them would make R13.1 vacuous)
	for _, name := range []string{"(*Schema).AddType", "(*Schema).AddAttr", "(*Schema).RemoveType", "(*Type).AddAttr", "(*SoftResource).AddAttr"} {
		f := p.Fn(name)
		if f == nil {
			r.fail("control anchor %s not found", name)
			continue
		}
		seen := false
		for _, m := range h.ModsOf(f) {
			if rootOf(m.Loc) == "P0" {
				seen = true
			}
		}
		if !seen {
			r.fail("positive control failed: the mod analysis reports no receiver-rooted write for the mutator %s", name)
		} else {
			r.count("positive_controls", 1)
		}
	}
	_ = ssa.Function{}
}
