package main

import (
	"os"
	"fmt"
	"go/constant"
	"go/token"
	"go/types"
	"strings"

	"golang.org/x/tools/go/ssa"
)

func init() { register("C09", checkC09) }

func checkC09(p *Prog, r *Report) {
	r.rule("C09.id-field: Wrapper.SetID stores through FieldByName(\"ID\") of the wrapped value (the field Check validates by its Go name) and GetID reads the ID from the wrapped value on every call; the Wrapper keeps no ID of its own")
	checkWrapperID(p, r, "C09")
	r.rule("C09.check-complete: SoftResource.check, which every accessor runs first, cannot return before its zero-filling loops: the values Less and the filters fetch with Get are typed (shared with C17)")
	checkSoftCheckComplete(p, r, "C09")
	r.rule(r3RuleText)
	r.rule("R1 switch coverage: sortedResources.Less has an arm for each of the 28 Go types of the kind table")
	r.rule("C09.less-table (scenario evaluation of Less, per type x {a<b, a=b, a>b, nil patterns} x {ascending, descending}): with one attribute rule and the two values' comparisons decided by the scenario, Less returns (a<b) != descending when they differ, treats nil as smaller than any value, and on a tie moves on to the next rule and finally returns false (irreflexive); the id rule compares the two IDs as strings")
	r.rule("C09.bytes-lexicographic: a loop that compares a[i] with b[i] takes its back edge only where the two bytes are equal, returns a[i] < b[i] != descending inside, and compares the lengths after it")
	r.rule("R11 splice loops: the in-place filter re-examines the position the next element moved into")
	r.rule("C09.input-preserved (mod analysis): Range never stores into, sorts, copies over or appends onto the element list of the collection it is given")
	r.rule("C09.non-nil: every return of Range is the address of a local (never nil)")
	r.rule("C09.pipeline: on every path, ID selection precedes filtering, which precedes sorting, which precedes the page loop; the page loop starts at int(num*size) and runs while i < len and i < skip+int(size), and the page variable receives nothing but that loop's appends")
	r.rule("C09.impl-agreement: the two Resource implementations must use the same nil convention for nil pointer attributes (Less asserts the second value to the first value's type)")
	r.assume("collections hold resources of one type (the library's tests pin a panic for mixed collections); sorting rules name attributes of that type; number*size < 2^63")
	r.assume("Go's <, ==, time.Time Before/Equal and bytes.Compare are the natural total orders; sort.Sort sorts correctly given a strict weak order")
	r.notCovered("that the produced order equals the specified one as a value-level statement for all inputs (needs sort.Sort's semantics), duplicate IDs in ids, page arithmetic overflow")

	less := p.Fn("(sortedResources).Less")
	rng := p.Fn("Range")
	if less == nil || rng == nil {
		r.fail("anchors Range / (sortedResources).Less not found")
		return
	}

	pc := runR3(p, r, r3opts{entries: []string{"Range"}, explicit: map[string]string{
		"(*Wrapper).getField": "keys passed to Get are \"id\", sorting rules and filter fields: names of attributes/relationships of the collection's type (property domain; IsAllowed fetches a field only if Attrs()/Rels() contains it)",
	}, assumeGet: true, assumeFilter: true, floorSites: 150, floorFns: 20})

	// ---- Less: coverage and table
	kt := buildKindTable(p, newReport("scratch", "quick"))
	var operand ssa.Value
	eachInstr(less, func(ins ssa.Instruction) {
		if ta, ok := ins.(*ssa.TypeAssert); ok && ta.CommaOk && operand == nil {
			operand = ta.X
		}
	})
	if operand == nil {
		r.fail("no type switch in Less")
		return
	}
	cases := kt.checkSwitchCoverage(r, less, operand, funcName(less), nil, "sorting by an attribute of that type is silently a no-op", 25)

	nScen := 0
	for _, t := range kt.allTypes() {
		ts := fmtTypeString(t)
		if _, ok := cases[ts]; !ok {
			continue // reported by coverage
		}
		if ts == "[]uint8" {
			checkBytesLoop(p, r, less, cases[ts])
			continue
		}
		_, isPtr := t.Underlying().(*types.Pointer)
		type scen struct {
			ord        int
			anil, bnil bool
		}
		scens := []scen{{-1, false, false}, {0, false, false}, {1, false, false}}
		if isPtr {
			scens = append(scens, scen{-1, true, false}, scen{1, false, true}, scen{0, true, true})
		}
		for _, sc := range scens {
			for _, inverse := range []bool{false, true} {
				nScen++
				got, undecided := evalLess(p, less, t, sc.ord, sc.anil, sc.bnil, inverse, false)
				want := false
				if sc.ord != 0 {
					want = (sc.ord < 0) != inverse
				}
				key := fmt.Sprintf("Less:%s:%s:nil(%v,%v):desc=%v", ts, ordName(sc.ord, true), sc.anil, sc.bnil, inverse)
				if undecided != "" {
					r.bad("C09.less-table", key, p.pos(less.Pos()), "Less cannot be folded for this scenario: "+undecided)
					continue
				}
				good := len(got) == 1 && got[0] == fmt.Sprint(want)
				r.decide(good, "C09.less-table", key, p.pos(less.Pos()), fmt.Sprint(want),
					fmt.Sprintf("for %s values with %s (nil: %v,%v; descending=%v) Less returns %v, expected %v", ts, ordName(sc.ord, true), sc.anil, sc.bnil, inverse, got, want))
			}
		}
	}
	// the id rule
	for _, ord := range []int{-1, 0, 1} {
		for _, inverse := range []bool{false, true} {
			nScen++
			got, undecided := evalLess(p, less, types.Typ[types.String], ord, false, false, inverse, true)
			want := (ord < 0) != inverse
			key := fmt.Sprintf("Less:id-rule:%s:desc=%v", ordName(ord, true), inverse)
			if undecided != "" {
				r.bad("C09.less-table", key, p.pos(less.Pos()), "Less cannot be folded for the id rule: "+undecided)
				continue
			}
			// the id rule is final: equal ids give `false != inverse`; unique ids are the domain, so only ord != 0 is checked strictly
			if ord == 0 {
				r.ok("C09.less-table", key, p.pos(less.Pos()), "ids are unique in the property's domain")
				continue
			}
			r.decide(len(got) == 1 && got[0] == fmt.Sprint(want), "C09.less-table", key, p.pos(less.Pos()), fmt.Sprint(want),
				fmt.Sprintf("the id rule returns %v, expected %v", got, want))
		}
	}
	r.floor("Less scenarios", nScen, 100)

	// ---- implementation agreement (nil convention)
	impl := implReturningNilIface(p)
	r.decide(impl == "", "C09.impl-agreement", "Resource.Get:nil-convention", p.pos(less.Pos()),
		"no shipped implementation of Get returns the untyped nil interface",
		impl+" returns the untyped nil interface for a nil pointer attribute: Less finds no arm for it (no ordering among wrapped structs with nil values) and the assertion of the other value to *T panics when it is nil and the first is not")

	// ---- Range
	n := checkSpliceLoopsScope(p, r, pc, rng)
	r.count("splices in Range", n)

	h := newHeap(p)
	bad := 0
	for _, m := range h.ModsOf(rng) {
		if os.Getenv("DBGC09") != "" {
			fmt.Fprintf(os.Stderr, "MOD %s %s %s\n", m.Kind, m.Loc, m.Fn)
		}
		// the ID list and the sorting rules belong to the caller too: the next
		// page is usually asked for with the same slices
		if root := rootOf(m.Loc); (root == "P1" || root == "P3") && strings.Contains(m.Loc, "[]") {
			bad++
			r.bad("C09.input-preserved", fmt.Sprintf("Range:%s:%s@%s", m.Kind, m.Loc, m.Fn), p.pos(m.Pos),
				"Range writes into the list it was given as an argument ("+m.Kind+" of "+m.Loc+" in "+m.Fn+"): "+m.Desc+"; a later call with the same slice (the next page) selects or orders differently, so consecutive pages no longer partition the result")
			continue
		}
		if rootOf(m.Loc) != "P0" {
			continue
		}
		// the element list of the collection: P0*[] (Resources) / P0.col*[] (Soft/WrapperCollection)
		if (m.Loc == "P0*[]" || m.Loc == "P0.col*[]" || m.Loc == "P0*" || m.Loc == "P0.col") && m.Kind != "append" {
			bad++
			r.bad("C09.input-preserved", fmt.Sprintf("Range:%s:%s@%s", m.Kind, m.Loc, m.Fn), p.pos(m.Pos),
				"Range changes the element list of the collection it was given ("+m.Kind+" of "+m.Loc+" in "+m.Fn+" via "+m.Via+"): "+m.Desc)
		}
	}
	if bad == 0 {
		r.ok("C09.input-preserved", "Range", p.pos(rng.Pos()), "no write to the input collection's element list in the interprocedural write summary")
	}
	// positive control: Swap must be seen to write the list it sorts
	if sw := p.Fn("(sortedResources).Swap"); sw != nil {
		seen := false
		for _, m := range h.ModsOf(sw) {
			if m.Loc == "P0.col*[]" {
				seen = true
			}
		}
		if !seen {
			r.fail("positive control failed: the mod analysis does not see Swap writing the sorted list")
		}
	}

	// non-nil result
	eachInstr(rng, func(ins ssa.Instruction) {
		if ret, ok := ins.(*ssa.Return); ok && len(ret.Results) == 1 {
			v := stripValue(ret.Results[0])
			_, isAlloc := v.(*ssa.Alloc)
			r.decide(isAlloc, "C09.non-nil", "Range:"+p.describe(ret), p.pos(ret.Pos()), "returns the address of a local collection", "Range can return a nil (or non-local) collection")
		}
	})

	checkRangePipeline(p, r, rng, pc)
}

// evalLess evaluates Less with one rule for values of type t.
func evalLess(p *Prog, less *ssa.Function, t types.Type, ord int, anil, bnil, inverse, idRule bool) ([]string, string) {
	in := &interp{p: p, f: less, maxPaths: 400, inline: smallHelper}
	elem := t
	if pt, ok := t.Underlying().(*types.Pointer); ok {
		elem = pt.Elem()
	}
	mk := func(name string, isNil bool, c constant.Value) *aval {
		if isNil {
			return &aval{k: aIface, t: t, dyn: &aval{k: aNil, t: t}}
		}
		_, isPtr := t.Underlying().(*types.Pointer)
		if c != nil && !isPtr {
			return &aval{k: aIface, t: t, dyn: constv(c, t)}
		}
		d := symv(name, t)
		d.nonnil = true
		if c != nil {
			d.pt = constv(c, elem)
		}
		return &aval{k: aIface, t: t, dyn: d}
	}
	var ca, cb constant.Value
	if bt, ok := elem.Underlying().(*types.Basic); ok && bt.Info()&types.IsBoolean != 0 {
		// booleans: concrete values (false < true)
		switch ord {
		case -1:
			ca, cb = constant.MakeBool(false), constant.MakeBool(true)
		case 1:
			ca, cb = constant.MakeBool(true), constant.MakeBool(false)
		default:
			ca, cb = constant.MakeBool(true), constant.MakeBool(true)
		}
	}
	side := func(v *aval) int {
		switch strings.TrimPrefix(v.String(), "*") {
		case "a":
			return 1
		case "b":
			return 2
		}
		return 0
	}
	in.callHook = func(st *istate, c *ssa.Call, args []*aval) *aval {
		cc := c.Common()
		if cc.IsInvoke() && cc.Method.Name() == "Get" {
			recv := in.get(st, cc.Value).String()
			switch {
			case strings.HasSuffix(recv, ",i)"):
				return mk("a", anil, ca)
			case strings.HasSuffix(recv, ",j)"):
				return mk("b", bnil, cb)
			}
			return nil
		}
		sc := cc.StaticCallee()
		if sc == nil {
			return nil
		}
		switch fullName(sc) {
		case "strings.HasPrefix":
			return boolv(inverse)
		}
		if len(args) == 2 {
			sl, sr := side(args[0]), side(args[1])
			if sl != 0 && sr != 0 && sl != sr {
				cc := ord
				if sl == 2 {
					cc = -ord
				}
				switch fullName(sc) {
				case "time.(Time).Before":
					return boolv(cc < 0)
				case "time.(Time).After":
					return boolv(cc > 0)
				case "time.(Time).Equal":
					return boolv(cc == 0)
				case "bytes.Compare", "strings.Compare", "time.(Time).Compare":
					return constv(constant.MakeInt64(int64(cc)), types.Typ[types.Int])
				case "bytes.Equal":
					return boolv(cc == 0)
				}
			}
		}
		return nil
	}
	in.binopHook = func(st *istate, x *ssa.BinOp, l, rr *aval) *aval {
		// rule == "id"
		if s, ok := constString(x.Y); ok && s == "id" && (x.Op == token.EQL || x.Op == token.NEQ) {
			return boolv(idRule == (x.Op == token.EQL))
		}
		sl, sr := side(l), side(rr)
		if sl == 0 || sr == 0 || sl == sr {
			return nil
		}
		if isTimeType(x.X.Type()) {
			return nil // == on time.Time compares representation (zone, monotonic clock), not the instant
		}
		derefL, derefR := strings.HasPrefix(l.String(), "*"), strings.HasPrefix(rr.String(), "*")
		_, isPtr := t.Underlying().(*types.Pointer)
		if isPtr && !derefL && !derefR {
			// pointer identity of two distinct non-nil pointers
			switch x.Op {
			case token.EQL:
				return boolv(false)
			case token.NEQ:
				return boolv(true)
			}
			return nil
		}
		c := ord
		if sl == 2 {
			c = -ord
		}
		var res bool
		switch x.Op {
		case token.LSS:
			res = c < 0
		case token.LEQ:
			res = c <= 0
		case token.GTR:
			res = c > 0
		case token.GEQ:
			res = c >= 0
		case token.EQL:
			res = c == 0
		case token.NEQ:
			res = c != 0
		default:
			return nil
		}
		return boolv(res)
	}
	sval := structVal(map[string]*aval{"rules": symv("s.rules", nil), "col": symv("s.col", nil)})
	outs := in.run(map[*ssa.Parameter]*aval{less.Params[0]: sval, less.Params[1]: symv("i", types.Typ[types.Int]), less.Params[2]: symv("j", types.Typ[types.Int])})
	set := map[string]bool{}
	nReal := 0
	for _, o := range outs {
		if o.loop {
			continue
		}
		if o.panics {
			return nil, "a type assertion fails (panic)"
		}
		// only paths on which a rule was evaluated
		evaluated := false
		for _, c := range o.calls {
			if strings.Contains(c, "HasPrefix") {
				evaluated = true
			}
		}
		_ = evaluated
		if len(o.results) != 1 || o.results[0].k != aConst {
			s := "?"
			if len(o.results) == 1 {
				s = o.results[0].String()
			}
			return nil, "symbolic verdict " + shorten(s)
		}
		// the zero-rule path returns false: keep only paths that went through the loop body
		if len(o.path) <= 3 {
			continue
		}
		nReal++
		set[o.results[0].String()] = true
	}
	if nReal == 0 {
		return nil, "no path through the rule loop"
	}
	var out []string
	for s := range set {
		out = append(out, s)
	}
	return out, ""
}

// checkBytesLoop implements C09.bytes-lexicographic for the []byte arm.
func checkBytesLoop(p *Prog, r *Report, less *ssa.Function, ta *ssa.TypeAssert) {
	// find comparisons of elements a[i] ? b[i] inside the arm
	var arm *ssa.BasicBlock
	for _, ref := range referrers(ta) {
		if ex, ok := ref.(*ssa.Extract); ok && ex.Index == 1 {
			for _, r2 := range referrers(ex) {
				if ifi, ok := r2.(*ssa.If); ok {
					arm = ifi.Block().Succs[0]
				}
			}
		}
	}
	if arm == nil {
		r.fail("cannot locate the []byte arm of Less")
		return
	}
	isElem := func(v ssa.Value) bool {
		ld, ok := v.(*ssa.UnOp)
		if !ok || ld.Op != token.MUL {
			return false
		}
		_, ok = ld.X.(*ssa.IndexAddr)
		return ok
	}
	usesCompare := false
	var eqTest *ssa.If
	var ltRet *ssa.Return
	eachInstr(less, func(ins ssa.Instruction) {
		if !arm.Dominates(ins.Block()) {
			return
		}
		if c, ok := ins.(*ssa.Call); ok {
			if sc := c.Common().StaticCallee(); sc != nil && (fullName(sc) == "bytes.Compare" || fullName(sc) == "bytes.Equal") {
				usesCompare = true
			}
		}
		if ifi, ok := ins.(*ssa.If); ok {
			if bo, ok := ifi.Cond.(*ssa.BinOp); ok && bo.Op == token.EQL && isElem(bo.X) && isElem(bo.Y) {
				eqTest = ifi
			}
		}
		if ret, ok := ins.(*ssa.Return); ok {
			if bo, ok := ret.Results[0].(*ssa.BinOp); ok && bo.Op == token.NEQ {
				if lt, ok := bo.X.(*ssa.BinOp); ok && lt.Op == token.LSS && isElem(lt.X) && isElem(lt.Y) {
					ltRet = ret
				}
			}
		}
	})
	if usesCompare {
		// bytes.Compare is the whole lexicographic order (shorter prefix first):
		// a comparison of the two lengths next to it changes the order
		lenCmp := ""
		eachInstr(less, func(ins ssa.Instruction) {
			if !arm.Dominates(ins.Block()) {
				return
			}
			bo, ok := ins.(*ssa.BinOp)
			if !ok {
				return
			}
			isLen := func(v ssa.Value) bool {
				c, _ := callOf(v)
				return c != nil && builtinName(c.Common()) == "len"
			}
			if isLen(bo.X) && isLen(bo.Y) {
				lenCmp = p.describe(bo)
			}
		})
		r.decide(lenCmp == "", "C09.bytes-lexicographic", "Less:[]uint8", p.pos(ta.Pos()), "uses bytes.Compare / bytes.Equal",
			"next to bytes.Compare the []byte arm of Less also compares the two lengths ("+lenCmp+"): byte strings are then ordered by length first, not lexicographically")
		return
	}
	good := eqTest != nil && ltRet != nil
	why := "no element-wise loop found"
	if good {
		// the back edge (continue) is the true edge of a[i] == b[i]; the false edge leads to the < return
		tb, fb := eqTest.Block().Succs[0], eqTest.Block().Succs[1]
		good = blockReaches(tb, eqTest.Block(), true) && fb == ltRet.Block()
		why = "the loop continues only on equal bytes and returns a[i] < b[i] != descending on the first difference"
		// same index on both sides
		bo := eqTest.Cond.(*ssa.BinOp)
		ia := bo.X.(*ssa.UnOp).X.(*ssa.IndexAddr)
		ib := bo.Y.(*ssa.UnOp).X.(*ssa.IndexAddr)
		if ia.Index != ib.Index {
			good = false
		}
		lt := ltRet.Results[0].(*ssa.BinOp).X.(*ssa.BinOp)
		la := lt.X.(*ssa.UnOp).X.(*ssa.IndexAddr)
		lb := lt.Y.(*ssa.UnOp).X.(*ssa.IndexAddr)
		if la.X != ia.X || lb.X != ib.X || la.Index != ia.Index {
			good = false
		}
	}
	r.decide(good, "C09.bytes-lexicographic", "Less:[]uint8", p.pos(ta.Pos()), why,
		"the []byte arm of Less is not a lexicographic comparison: the loop must continue only while the bytes are equal and return the first strict inequality in the order (first value, second value)")
}

// checkRangePipeline implements C09.pipeline.
func checkRangePipeline(p *Prog, r *Report, rng *ssa.Function, pc *panicChecker) {
	var filterCall, sortCall *ssa.Call
	var pageAppends []*ssa.Call
	var selectAppends []*ssa.Call
	eachInstr(rng, func(ins ssa.Instruction) {
		c, ok := ins.(*ssa.Call)
		if !ok {
			return
		}
		if g := c.Common().StaticCallee(); g != nil {
			switch funcName(g) {
			case "(*Filter).IsAllowed":
				filterCall = c
			case "(sortedResources).Sort":
				sortCall = c
			default:
				// a stage may live in a small helper: the call of the helper stands for it
				if smallHelper(g) {
					eachInstr(g, func(i2 ssa.Instruction) {
						if c2, ok := i2.(*ssa.Call); ok && c2.Common().StaticCallee() != nil {
							switch funcName(c2.Common().StaticCallee()) {
							case "(*Filter).IsAllowed":
								filterCall = c
							case "(sortedResources).Sort":
								sortCall = c
							}
							// a sorting helper: hands a sortedResources to the sort package
							if fn := fullName(c2.Common().StaticCallee()); fn == "sort.Sort" || fn == "sort.Stable" {
								if len(c2.Common().Args) == 1 && structName(unbox(c2.Common().Args[0]).Type()) == "sortedResources" {
									sortCall = c
								}
							}
						}
					})
				}
			}
		}
		if b, ok := c.Call.Value.(*ssa.Builtin); ok && b.Name() == "append" {
			// which variable? page (a local Resources) or col.col (field)
			if _, fl, ok := fieldLoad(c.Call.Args[0]); ok && fl == "col" {
				if _, isSplice := stripValue(c.Call.Args[0]).(*ssa.Slice); !isSplice {
					selectAppends = append(selectAppends, c)
				}
			} else if ld, ok := c.Call.Args[0].(*ssa.UnOp); ok {
				if _, isAlloc := ld.X.(*ssa.Alloc); isAlloc {
					pageAppends = append(pageAppends, c)
				}
			} else if _, isSplice := stripValue(c.Call.Args[0]).(*ssa.Slice); !isSplice && len(c.Call.Args) == 2 {
				// a plain local list: classified by what is appended
				if elem := appendedElem(c); elem != nil {
					if ac, _ := callOf(elem); ac != nil && ac.Common().IsInvoke() && ac.Common().Method.Name() == "At" {
						selectAppends = append(selectAppends, c)
					}
				}
			}
		}
	})
	// stages that live in phase helpers working on plain lists: an append of an
	// element obtained from Collection.At is a selection append, an append of
	// list[i] (i a loop counter) is a page append; the instruction that stands
	// for the stage in Range is the call of the helper
	stageOf := map[*ssa.Call]ssa.Instruction{}
	for _, g := range stringHelpers(rng) {
		var callInRng *ssa.Call
		eachInstr(rng, func(ins ssa.Instruction) {
			if c, ok := ins.(*ssa.Call); ok && c.Common().StaticCallee() == g {
				callInRng = c
			}
		})
		if callInRng == nil {
			continue
		}
		eachInstr(g, func(ins ssa.Instruction) {
			c, ok := ins.(*ssa.Call)
			if !ok || builtinName(c.Common()) != "append" || len(c.Common().Args) != 2 {
				return
			}
			if _, isSplice := stripValue(c.Common().Args[0]).(*ssa.Slice); isSplice {
				return
			}
			elem := appendedElem(c)
			if elem == nil {
				return
			}
			if ac, _ := callOf(elem); ac != nil && ac.Common().IsInvoke() && ac.Common().Method.Name() == "At" {
				selectAppends = append(selectAppends, c)
				stageOf[c] = callInRng
				return
			}
			if ld, ok := elem.(*ssa.UnOp); ok && ld.Op == token.MUL {
				if ia, ok := ld.X.(*ssa.IndexAddr); ok {
					if _, isPhi := ia.Index.(*ssa.Phi); isPhi {
						pageAppends = append(pageAppends, c)
						stageOf[c] = callInRng
					}
				}
			}
		})
	}
	stage := func(c *ssa.Call) ssa.Instruction {
		if s, ok := stageOf[c]; ok {
			return s
		}
		return c
	}
	if filterCall == nil || sortCall == nil || len(pageAppends) == 0 || len(selectAppends) == 0 {
		r.bad("C09.pipeline", "Range:stages", p.pos(rng.Pos()), "cannot identify the four stages (selection appends, IsAllowed, Sort, page appends) in Range")
		return
	}
	// order: no path from a later stage back to an earlier one, and each earlier stage can reach the later
	okOrder := true
	for _, sa := range selectAppends {
		if reachableAvoiding(filterCall, stage(sa), nil) || reachableAvoiding(sortCall, stage(sa), nil) {
			okOrder = false
		}
	}
	if reachableAvoiding(sortCall, filterCall, nil) {
		okOrder = false
	}
	for _, pa := range pageAppends {
		if reachableAvoiding(stage(pa), sortCall, nil) || reachableAvoiding(stage(pa), filterCall, nil) {
			okOrder = false
		}
		// the sort call lies on every path to the page loop
		if !mustPassInstr(rng, stage(pa), func(ins ssa.Instruction) bool { return ins == ssa.Instruction(sortCall) }) {
			okOrder = false
		}
	}
	r.decide(okOrder, "C09.pipeline", "Range:order", p.pos(rng.Pos()), "selection, then filter, then sort, then page, on every path",
		"the stages of Range are not executed in the order ID selection, filter, sort, page on every path")
	// the page variable only ever receives the window loop's appends
	pageVars := map[*ssa.Alloc]bool{}
	for _, pa := range pageAppends {
		if ld, ok := pa.Call.Args[0].(*ssa.UnOp); ok {
			if al, ok := ld.X.(*ssa.Alloc); ok {
				pageVars[al] = true
			}
		}
	}
	for al := range pageVars {
		for _, ref := range referrers(al) {
			st, ok := ref.(*ssa.Store)
			if !ok || st.Addr != ssa.Value(al) {
				continue
			}
			good := isNilConst(st.Val)
			for _, pa := range pageAppends {
				if st.Val == ssa.Value(pa) {
					good = true
				}
			}
			r.decide(good, "C09.pipeline", "Range:page-store:"+p.describe(st), p.pos(st.Pos()), "the page is only extended by the window loop",
				"the page returned by Range is assigned a value other than the window loop's appends (a whole list, say): positions outside [num*size, (num+1)*size) are returned, so consecutive pages overlap")
		}
	}
	// the element appended to the page is col.col[i] with i the page-loop counter
	for _, pa := range pageAppends {
		bf := pc.bf(pa.Parent())
		key := "Range:" + p.describe(pa)
		// appended element
		var elem ssa.Value
		if s, ok := pa.Call.Args[1].(*ssa.Slice); ok {
			if al, ok := s.X.(*ssa.Alloc); ok {
				for _, ref := range referrers(al) {
					if ia, ok := ref.(*ssa.IndexAddr); ok {
						for _, r2 := range referrers(ia) {
							if st, ok := r2.(*ssa.Store); ok {
								elem = st.Val
							}
						}
					}
				}
			}
		}
		ld, ok := elem.(*ssa.UnOp)
		if !ok {
			r.bad("C09.pipeline", key, p.pos(pa.Pos()), "the page is not filled with elements of the sorted list")
			continue
		}
		ia, ok := ld.X.(*ssa.IndexAddr)
		if !ok {
			r.bad("C09.pipeline", key, p.pos(pa.Pos()), "the page is not filled with elements of the sorted list")
			continue
		}
		ctr, ok := ia.Index.(*ssa.Phi)
		if !ok {
			r.bad("C09.pipeline", key, p.pos(pa.Pos()), "the page loop does not use a simple counter")
			continue
		}
		// init = int(num*size); step +1; conditions i < len(list) and i < skip+int(size)
		initOK, stepOK := false, false
		var skip ssa.Value
		for _, e := range ctr.Edges {
			if cv, ok := e.(*ssa.Convert); ok {
				if mul, ok := cv.X.(*ssa.BinOp); ok && mul.Op == token.MUL {
					_, px := mul.X.(*ssa.Parameter)
					_, py := mul.Y.(*ssa.Parameter)
					if px && py {
						initOK = true
						skip = cv
					}
				}
			}
			if a, o := bf.atom(e); a == "v:"+ctr.Name() && o == 1 {
				stepOK = true
			}
		}
		condLen, condSize := false, false
		for _, ef := range expandFacts(factsAt(pa.Block())) {
			bo, ok := ef.Cond.(*ssa.BinOp)
			if !ok || !ef.Truth || bo.Op != token.LSS || bo.X != ssa.Value(ctr) {
				continue
			}
			if a, _ := bf.atom(bo.Y); strings.HasPrefix(a, "len:") {
				if la, lo := bf.lenAtom(ia.X); la == a && lo == 0 {
					condLen = true
				}
			}
			if add, ok := bo.Y.(*ssa.BinOp); ok && add.Op == token.ADD && skip != nil {
				if add.X == skip {
					if cv, ok := add.Y.(*ssa.Convert); ok {
						if _, isParam := cv.X.(*ssa.Parameter); isParam {
							condSize = true
						}
					}
				}
			}
		}
		good := initOK && stepOK && condLen && condSize
		r.decide(good, "C09.pipeline", key+":page-window", p.pos(pa.Pos()), "the page is list[num*size : min(len, num*size+size)]",
			fmt.Sprintf("the page loop is not 'for i := int(num*size); i < len(list) && i < skip+int(size); i++' (init ok=%v, step ok=%v, i<len ok=%v, i<skip+size ok=%v): the page window is wrong", initOK, stepOK, condLen, condSize))
	}
}

// appendedElem: the single element of append(xs, e).
func appendedElem(c *ssa.Call) ssa.Value {
	sl, ok := c.Common().Args[1].(*ssa.Slice)
	if !ok {
		return nil
	}
	al, ok := sl.X.(*ssa.Alloc)
	if !ok {
		return nil
	}
	var elem ssa.Value
	n := 0
	for _, ref := range referrers(al) {
		if ia, ok := ref.(*ssa.IndexAddr); ok {
			for _, r2 := range referrers(ia) {
				if st, ok := r2.(*ssa.Store); ok {
					elem = st.Val
					n++
				}
			}
		}
	}
	if n != 1 {
		return nil
	}
	return elem
}
