package main

// R3: inventory and discharge of every instruction that can panic in the
// functions reachable from an entry set.

import (
	"fmt"
	"go/token"
	"go/types"
	"sort"
	"strings"

	"golang.org/x/tools/go/ssa"
)

type panicSite struct {
	Fn     *ssa.Function
	Ins    ssa.Instruction
	Class  string // bounds | slice | assert | nilmap | nilderef | make | div | explicit | nilcall
	Key    string
	OK     bool
	Detail string
}

type panicChecker struct {
	p        *Prog
	fw       *fieldWrites
	bfs      map[*ssa.Function]*boundsFn
	nonEmpty *elemInvariant
	// functions whose every return value (first result) is a non-nil interface/pointer
	keyCount map[string]int
	// options
	assumeFilterTyped bool
	assumeGetTyped    bool   // accept x.(T) on the result of Resource.Get under the typing contract (C17)
	getNilUntyped     string // non-empty: name of an implementation whose Get may return the nil interface
	explicitTable     map[string]string
	notes             map[string]bool
}

func newPanicChecker(p *Prog) *panicChecker {
	pc := &panicChecker{p: p, fw: newFieldWrites(p), bfs: map[*ssa.Function]*boundsFn{}, keyCount: map[string]int{},
		explicitTable: map[string]string{}, notes: map[string]bool{}}
	pc.nonEmpty = newElemInvariant(p)
	return pc
}

func (pc *panicChecker) bf(f *ssa.Function) *boundsFn {
	if b, ok := pc.bfs[f]; ok {
		return b
	}
	b := newBoundsFn(pc.p, pc.fw, f)
	pc.bfs[f] = b
	return b
}

func (pc *panicChecker) key(class string, f *ssa.Function, ins ssa.Instruction) string {
	k := class + ":" + funcName(f) + ":" + pc.p.describe(ins)
	pc.keyCount[k]++
	if n := pc.keyCount[k]; n > 1 {
		k = fmt.Sprintf("%s#%d", k, n)
	}
	return k
}

// sites enumerates and decides all panic sites of f.
func (pc *panicChecker) sites(f *ssa.Function) []panicSite {
	var out []panicSite
	add := func(class string, ins ssa.Instruction, ok bool, detail string) {
		out = append(out, panicSite{Fn: f, Ins: ins, Class: class, Key: pc.key(class, f, ins), OK: ok, Detail: detail})
	}
	bf := pc.bf(f)
	for _, b := range f.Blocks {
		for _, ins := range b.Instrs {
			switch x := ins.(type) {
			case *ssa.Panic:
				add("explicit", x, false, "explicit panic("+pc.panicArg(x)+")")
			case *ssa.TypeAssert:
				if x.CommaOk {
					continue
				}
				ok, why := pc.assertSafe(f, x)
				add("assert", x, ok, why)
			case *ssa.IndexAddr:
				ok, why := pc.indexSafe(bf, x, x.X, x.Index)
				add("bounds", x, ok, why)
			case *ssa.Index:
				ok, why := pc.indexSafe(bf, x, x.X, x.Index)
				add("bounds", x, ok, why)
			case *ssa.Lookup:
				if _, isMap := x.X.Type().Underlying().(*types.Map); isMap {
					continue
				}
				ok, why := pc.indexSafe(bf, x, x.X, x.Index)
				add("bounds", x, ok, why)
			case *ssa.Slice:
				ok, why := pc.sliceSafe(bf, x)
				add("slice", x, ok, why)
			case *ssa.MapUpdate:
				ok, why := pc.mapNonNil(f, x)
				add("nilmap", x, ok, why)
			case *ssa.MakeSlice:
				ok, why := pc.makeSafe(bf, x)
				if ok && why == "const" {
					continue
				}
				add("make", x, ok, why)
			case *ssa.BinOp:
				switch x.Op {
				case token.QUO, token.REM:
					if bt, ok := x.Type().Underlying().(*types.Basic); ok && bt.Info()&types.IsInteger != 0 {
						if c, ok := constInt(x.Y); ok && c != 0 {
							continue
						}
						add("div", x, false, "integer division by a value not known to be non-zero")
					}
				case token.SHL, token.SHR:
					if bt, ok := x.Y.Type().Underlying().(*types.Basic); ok && bt.Info()&types.IsUnsigned == 0 {
						if c, ok := constInt(x.Y); ok && c >= 0 {
							continue
						}
						add("div", x, false, "shift by a signed count not known to be non-negative")
					}
				}
			case *ssa.UnOp:
				if x.Op != token.MUL {
					continue
				}
				if need, ok, why := pc.derefSafe(f, x, x.X); need {
					add("nilderef", x, ok, why)
				}
			case *ssa.FieldAddr:
				// p.f on a pointer that comes from a map/slice element, a call or a merge with nil
				if need, ok, why := pc.derefSafe(f, x, x.X); need {
					add("nilderef", x, ok, why)
				}
			case *ssa.Call:
				cc := x.Common()
				if cc.IsInvoke() {
					if need, ok, why := pc.invokeSafe(f, x); need {
						add("nilcall", x, ok, why)
					}
				}
			}
		}
	}
	return out
}

func (pc *panicChecker) panicArg(x *ssa.Panic) string {
	v := x.X
	if mi, ok := v.(*ssa.MakeInterface); ok {
		v = mi.X
	}
	if s, ok := constString(v); ok {
		return fmt.Sprintf("%q", s)
	}
	if b, ok := v.(*ssa.BinOp); ok {
		for _, leaf := range concatParts(b) {
			if s, ok := constString(leaf); ok {
				return fmt.Sprintf("%q+…", s)
			}
		}
	}
	if c, ok := v.(*ssa.Call); ok {
		if sc := c.Common().StaticCallee(); sc != nil && fullName(sc) == "fmt.Sprintf" {
			if s, ok := constString(c.Common().Args[0]); ok {
				return fmt.Sprintf("Sprintf(%q)", s)
			}
		}
	}
	return typeStr(v.Type())
}

// ---------------------------------------------------------------------------
// type assertions

func (pc *panicChecker) assertSafe(f *ssa.Function, x *ssa.TypeAssert) (bool, string) {
	// (a) every origin is a MakeInterface of exactly the asserted type
	all := true
	n := 0
	for _, o := range originsNoBox(x.X) {
		n++
		mi, ok := o.(*ssa.MakeInterface)
		if !ok || !assertOK(mi.X.Type(), x.AssertedType) {
			all = false
		}
	}
	if all && n > 0 {
		return true, "operand is always boxed from " + typeStr(x.AssertedType)
	}
	// (b) dominated by a comma-ok assertion / type switch case of the same value to the same type
	for _, ef := range factsAt(x.Block()) {
		if ex, ok := ef.Cond.(*ssa.Extract); ok && ex.Index == 1 && ef.Truth {
			if ta, ok := ex.Tuple.(*ssa.TypeAssert); ok && ta.X == x.X && assertOK(ta.AssertedType, x.AssertedType) {
				return true, "dominated by a successful comma-ok assertion to the same type"
			}
		}
	}
	// (b') a filter operand asserted to the type that a sibling operand was
	// just found to have (type switch on the resource value, then cval.(T)):
	// well-typed-filter domain of C10
	if pc.assumeFilterTyped {
		for _, ef := range factsAt(x.Block()) {
			if ex, ok := ef.Cond.(*ssa.Extract); ok && ex.Index == 1 && ef.Truth {
				if ta, ok := ex.Tuple.(*ssa.TypeAssert); ok && ta.X != x.X && types.Identical(ta.AssertedType, x.AssertedType) {
					if _, isParam := x.X.(*ssa.Parameter); isParam {
						pc.notes["assertions cval.(T) under a type-switch case T of the resource value are discharged by the well-typed-filter domain of C10"] = true
						return true, "filter value asserted to the type the resource value was found to have (well-typed filter)"
					}
				}
			}
		}
		if isFilterOperand(x.X) {
			pc.notes["assertions on Filter.Val / the fetched field value in IsAllowed are discharged by the well-typed-filter domain of C10 (and/or hold []*Filter, in/has hold string / []string)"] = true
			return true, "operand is a Filter's value or the field value fetched for it (well-typed filter)"
		}
	}
	// (c) the result of Resource.Get: typing contract of the Resource implementations
	if c, _ := callOf(x.X); c != nil && isResourceGet(c) {
		if pc.assumeGetTyped {
			if _, isPtr := x.AssertedType.Underlying().(*types.Pointer); isPtr && pc.getNilUntyped != "" {
				return false, "asserts a pointer type on the result of Resource.Get, but " + pc.getNilUntyped + " can return the untyped nil interface for a nil pointer field: the assertion panics"
			}
			pc.notes["assertions on Resource.Get results are discharged by the typing contract of the shipped implementations (id: string; to-one: string; to-many: []string; attribute: the kind's Go type — checked by C17/C01 rules)"] = true
			return true, "result of Resource.Get: typing contract (C17)"
		}
	}
	return false, "x.(T) without comma-ok on a value whose dynamic type is not established"
}

func assertOK(have, want types.Type) bool {
	if types.Identical(have, want) {
		return true
	}
	if it, ok := want.Underlying().(*types.Interface); ok {
		return types.Implements(have, it)
	}
	return false
}

// originsNoBox follows phis and interface-to-interface conversions but stops
// at MakeInterface (so the boxed static type stays visible).
func originsNoBox(v ssa.Value) []ssa.Value {
	seen := map[ssa.Value]bool{}
	var out []ssa.Value
	var walk func(v ssa.Value)
	walk = func(v ssa.Value) {
		if v == nil || seen[v] {
			return
		}
		seen[v] = true
		switch x := v.(type) {
		case *ssa.Phi:
			for _, e := range x.Edges {
				walk(e)
			}
		case *ssa.ChangeInterface:
			walk(x.X)
		default:
			out = append(out, v)
		}
	}
	walk(v)
	return out
}

// ---------------------------------------------------------------------------
// bounds

func (pc *panicChecker) indexSafe(bf *boundsFn, at ssa.Instruction, x, idx ssa.Value) (bool, string) {
	// arrays (and pointers to arrays) have constant length
	var n int64 = -1
	t := x.Type()
	if pt, ok := t.Underlying().(*types.Pointer); ok {
		t = pt.Elem()
	}
	if at2, ok := t.Underlying().(*types.Array); ok {
		n = at2.Len()
	}
	ia, io := bf.atom(idx)
	if n >= 0 {
		if ia == "0" && io >= 0 && io < n {
			return true, "constant index into fixed-size array"
		}
		lowOK := bf.prove("0", 0, ia, io, at, nil)
		hiOK := bf.prove(ia, io+1, "0", n, at, nil)
		return lowOK && hiOK, "array index"
	}
	if _, isParam := idx.(*ssa.Parameter); isParam && pc.sortCallback(bf.fn) {
		if ok, why := pc.sortIndexed(bf.fn, x); ok {
			return true, why
		}
	}
	lowOK := bf.prove("0", 0, ia, io, at, nil) || isUnsigned(idx.Type())
	hiOK := bf.proveIdx(ia, io, x, true, at)
	if !hiOK && ia == "0" && io == 0 {
		// x[0]: element-level invariant "elements of this list are non-empty strings"
		if pc.nonEmpty.holds(x, at) {
			hiOK = true
		}
	}
	if lowOK && hiOK {
		return true, fmt.Sprintf("0 <= %s%+d < len(%s) proved from dominating facts", ia, io, x.Name())
	}
	var miss []string
	if !lowOK {
		miss = append(miss, "index >= 0")
	}
	if !hiOK {
		miss = append(miss, "index < len")
	}
	return false, "cannot prove " + strings.Join(miss, " and ") + " for " + pc.p.describe(at)
}

func isUnsigned(t types.Type) bool {
	bt, ok := t.Underlying().(*types.Basic)
	return ok && bt.Info()&types.IsUnsigned != 0
}

func (pc *panicChecker) sliceSafe(bf *boundsFn, x *ssa.Slice) (bool, string) {
	// s[lo:hi]: 0 <= lo <= hi <= cap(s) (len for strings). We prove against len.
	var lenA string
	var lenO int64
	switch {
	case isSliceOrString(x.X.Type()):
		lenA, lenO = bf.lenAtom(x.X)
	default:
		if pt, ok := x.X.Type().Underlying().(*types.Pointer); ok {
			if at, ok := pt.Elem().Underlying().(*types.Array); ok {
				lenA, lenO = "0", at.Len()
			}
		}
	}
	if lenA == "" {
		return false, "unknown sliced operand"
	}
	loA, loO := "0", int64(0)
	if x.Low != nil {
		loA, loO = bf.atom(x.Low)
	}
	hiA, hiO := lenA, lenO
	if x.High != nil {
		hiA, hiO = bf.atom(x.High)
	}
	c1 := bf.prove("0", 0, loA, loO, x, nil) || (x.Low != nil && isUnsigned(x.Low.Type()))
	c2 := bf.prove(loA, loO, hiA, hiO, x, nil)
	c3 := bf.prove(hiA, hiO, lenA, lenO, x, nil)
	if c1 && c2 && c3 {
		return true, "0 <= lo <= hi <= len proved from dominating facts"
	}
	var miss []string
	if !c1 {
		miss = append(miss, "lo >= 0")
	}
	if !c2 {
		miss = append(miss, "lo <= hi")
	}
	if !c3 {
		miss = append(miss, "hi <= len")
	}
	return false, "cannot prove " + strings.Join(miss, ", ") + " for " + pc.p.describe(x)
}

func (pc *panicChecker) makeSafe(bf *boundsFn, x *ssa.MakeSlice) (bool, string) {
	_, lc := constInt(x.Len)
	_, cc := constInt(x.Cap)
	if lc && cc {
		return true, "const"
	}
	ok := true
	var why []string
	for _, v := range []ssa.Value{x.Len, x.Cap} {
		if _, c := constInt(v); c {
			continue
		}
		if pc.nonNegative(bf, v, x) {
			continue
		}
		ok = false
		why = append(why, "size "+v.Name()+" not known to be >= 0")
	}
	// len <= cap
	la, lo := bf.atom(x.Len)
	ca, co := bf.atom(x.Cap)
	if !bf.prove(la, lo, ca, co, x, nil) && !(la == "0" && lo == 0 && ok) {
		ok = false
		why = append(why, "len <= cap not proved")
	}
	if ok {
		return true, "make size is a sum of lengths / proved non-negative"
	}
	return false, strings.Join(why, "; ") + " in " + pc.p.describe(x)
}

// nonNegative: v is a sum of lengths and non-negative constants, or proved >= 0.
func (pc *panicChecker) nonNegative(bf *boundsFn, v ssa.Value, at ssa.Instruction) bool {
	if c, ok := constInt(v); ok {
		return c >= 0
	}
	if b, ok := v.(*ssa.BinOp); ok && b.Op == token.ADD {
		return pc.nonNegative(bf, b.X, at) && pc.nonNegative(bf, b.Y, at)
	}
	a, o := bf.atom(v)
	if strings.HasPrefix(a, "len:") && o >= 0 {
		return true
	}
	if c, ok := v.(*ssa.Call); ok {
		if bi, ok := c.Call.Value.(*ssa.Builtin); ok && bi.Name() == "len" {
			return true // len of a map or slice
		}
	}
	return bf.prove("0", 0, a, o, at, nil)
}

// ---------------------------------------------------------------------------
// nil maps

// mapNonNil: the map written by a MapUpdate is not nil.
func (pc *panicChecker) mapNonNil(f *ssa.Function, x *ssa.MapUpdate) (bool, string) {
	return pc.valueNonNil(f, x.Map, x, 0)
}

// valueNonNil: reference value v is non-nil at instruction `at`.
func (pc *panicChecker) valueNonNil(f *ssa.Function, v ssa.Value, at ssa.Instruction, depth int) (bool, string) {
	if depth > 6 {
		return false, "too deep"
	}
	// dominating nil test on the same SSA value
	for _, ef := range expandFacts(factsAt(at.Block())) {
		if b, ok := ef.Cond.(*ssa.BinOp); ok && (b.Op == token.EQL || b.Op == token.NEQ) {
			if (sameAssert(b.X, v) && isNilConst(b.Y)) || (sameAssert(b.Y, v) && isNilConst(b.X)) {
				if (b.Op == token.NEQ) == ef.Truth {
					return true, "dominated by a != nil test"
				}
			}
		}
	}
	switch x := v.(type) {
	case *ssa.MakeMap, *ssa.MakeSlice, *ssa.MakeChan, *ssa.Alloc, *ssa.MakeClosure, *ssa.MakeInterface, *ssa.FieldAddr, *ssa.IndexAddr, *ssa.Function:
		_ = x
		return true, "freshly created"
	case *ssa.Const:
		if x.Value == nil {
			return false, "nil constant"
		}
		return true, "constant"
	case *ssa.ChangeType:
		return pc.valueNonNil(f, x.X, at, depth+1)
	case *ssa.Slice:
		return true, "slice expression"
	case *ssa.Phi:
		for i, e := range x.Edges {
			pred := x.Block().Preds[i]
			if nonNilOnEdge(e, pred, x.Block()) {
				continue
			}
			if ok, _ := pc.valueNonNil(f, e, pred.Instrs[len(pred.Instrs)-1], depth+1); !ok {
				return false, "phi edge " + e.Name() + " may be nil"
			}
		}
		return true, "all phi edges non-nil"
	}
	// dominating nil test on the same SSA value
	for _, ef := range expandFacts(factsAt(at.Block())) {
		if b, ok := ef.Cond.(*ssa.BinOp); ok && (b.Op == token.EQL || b.Op == token.NEQ) {
			if (sameAssert(b.X, v) && isNilConst(b.Y)) || (sameAssert(b.Y, v) && isNilConst(b.X)) {
				if (b.Op == token.NEQ) == ef.Truth {
					return true, "dominated by a != nil test"
				}
			}
		}
	}
	// a load of a location that is established non-nil on every path
	if ld, ok := v.(*ssa.UnOp); ok && ld.Op == token.MUL {
		if pc.locNonNilAt(f, ld.X, ld) {
			return true, "location set to a fresh value / tested non-nil on every path, with no possibly-nil write in between"
		}
	}
	// result of a call whose every return is non-nil
	if c, idx := callOf(v); c != nil {
		if pc.callReturnsNonNil(c, idx, depth) {
			return true, "callee returns non-nil on every path"
		}
		// (value, error) pair with the error tested nil on every path to here
		if e := errorOf(c); e != nil && idx >= 0 && e != v {
			for _, ef := range expandFacts(factsAt(at.Block())) {
				if b, ok := ef.Cond.(*ssa.BinOp); ok && (b.Op == token.EQL || b.Op == token.NEQ) {
					if (b.X == e && isNilConst(b.Y)) || (b.Y == e && isNilConst(b.X)) {
						if (b.Op == token.EQL) == ef.Truth {
							return true, "the call's error was tested nil: (value, nil) / (nil, error) exclusivity"
						}
					}
				}
			}
		}
	}
	return false, "value " + v.Name() + " may be nil"
}

func nonNilOnEdge(v ssa.Value, pred, succ *ssa.BasicBlock) bool {
	facts := factsAt(pred)
	if ifi, ok := pred.Instrs[len(pred.Instrs)-1].(*ssa.If); ok && pred.Succs[0] != pred.Succs[1] {
		facts = append(facts, edgeFact{Cond: ifi.Cond, Truth: pred.Succs[0] == succ})
	}
	for _, ef := range expandFacts(facts) {
		if b, ok := ef.Cond.(*ssa.BinOp); ok && (b.Op == token.EQL || b.Op == token.NEQ) {
			if (b.X == v && isNilConst(b.Y)) || (b.Y == v && isNilConst(b.X)) {
				if (b.Op == token.NEQ) == ef.Truth {
					return true
				}
			}
		}
	}
	return false
}

func (pc *panicChecker) callReturnsNonNil(c *ssa.Call, idx int, depth int) bool {
	callees := pc.p.cg.Callees(c)
	if len(callees) == 0 || len(pc.p.cg.Externals(c)) > 0 {
		return false
	}
	if idx < 0 {
		idx = 0
	}
	for _, g := range callees {
		ok := true
		eachInstr(g, func(ins ssa.Instruction) {
			if r, isRet := ins.(*ssa.Return); isRet && idx < len(r.Results) {
				if good, _ := pc.valueNonNil(g, r.Results[idx], r, depth+2); !good {
					ok = false
				}
			}
		})
		if !ok {
			return false
		}
	}
	return true
}

// locNonNilAt: forward must-analysis. The location addr (a field address
// chain or a local variable) holds a non-nil value whenever control reaches
// `at`: on every path from the function entry there is a "gen" (a store of a
// non-nil value to the same location, the non-nil edge of a nil test of a load
// of it, or a call that establishes it) not followed by a "kill" (any other
// possible write to it).
func (pc *panicChecker) locNonNilAt(f *ssa.Function, addr ssa.Value, at ssa.Instruction) bool {
	type state int                   // 0 unknown(top for must = true initially), 1 nonnil, 2 maybe-nil
	in := map[*ssa.BasicBlock]bool{} // true = non-nil at block entry
	for _, b := range f.Blocks {
		in[b] = true
	}
	in[f.Blocks[0]] = pc.entryNonNil(f, addr)
	chain := chainAddrs(addr)
	// transfer through a block up to (excluding) stop
	transfer := func(b *ssa.BasicBlock, start bool, stop ssa.Instruction) (bool, bool) {
		cur := start
		for _, ins := range b.Instrs {
			if ins == stop {
				return cur, true
			}
			if st, ok := ins.(*ssa.Store); ok && sameAddr(st.Addr, addr) {
				good, _ := pc.valueNonNil(f, st.Val, st, 3)
				cur = good
				continue
			}
			// whole-struct store of a call result into the variable that holds the field
			if st, ok := ins.(*ssa.Store); ok {
				if fa, isFA := addr.(*ssa.FieldAddr); isFA && st.Addr == fa.X {
					if c, _ := callOf(st.Val); c != nil && pc.retFieldNonNil(c, fa.Field) {
						cur = true
						continue
					}
				}
			}
			if c, ok := ins.(ssa.CallInstruction); ok && pc.callEstablishes(c, addr) {
				cur = true
				continue
			}
			if pc.fw.mayWriteAddr(ins, addr) {
				cur = false
			}
			for _, link := range chain {
				if pc.fw.mayWriteAddr(ins, link) {
					// a store of a provably non-nil pointee keeps nothing: the new object's field is unknown
					cur = false
				}
			}
		}
		return cur, false
	}
	edgeGen := func(pred, succ *ssa.BasicBlock) bool {
		ifi, ok := pred.Instrs[len(pred.Instrs)-1].(*ssa.If)
		if !ok || pred.Succs[0] == pred.Succs[1] {
			return false
		}
		truth := pred.Succs[0] == succ
		for _, ef := range expandFacts([]edgeFact{{Cond: ifi.Cond, Truth: truth}}) {
			b, ok := ef.Cond.(*ssa.BinOp)
			if !ok || (b.Op != token.EQL && b.Op != token.NEQ) {
				continue
			}
			for _, pr := range [][2]ssa.Value{{b.X, b.Y}, {b.Y, b.X}} {
				if !isNilConst(pr[1]) {
					continue
				}
				if ld, ok := pr[0].(*ssa.UnOp); ok && ld.Op == token.MUL && sameAddr(ld.X, addr) && (b.Op == token.NEQ) == ef.Truth {
					// the load must still be current at the branch: no write between
					if ld.Block() == pred && !writesBetweenInBlock(pc.fw, ld, ifi, addr) {
						return true
					}
				}
			}
		}
		return false
	}
	for iter := 0; iter < 50; iter++ {
		changed := false
		for _, b := range f.Blocks {
			if b == f.Blocks[0] {
				continue
			}
			v := true
			for _, pred := range b.Preds {
				out, _ := transfer(pred, in[pred], nil)
				if !out && !edgeGen(pred, b) {
					v = false
				}
			}
			if len(b.Preds) == 0 {
				v = false
			}
			if in[b] != v {
				in[b] = v
				changed = true
			}
		}
		if !changed {
			break
		}
	}
	res, _ := transfer(at.Block(), in[at.Block()], at)
	return res
}

func writesBetweenInBlock(fw *fieldWrites, from, to ssa.Instruction, addr ssa.Value) bool {
	b := from.Block()
	started := false
	for _, ins := range b.Instrs {
		if ins == from {
			started = true
			continue
		}
		if ins == to {
			return false
		}
		if started && fw.mayWriteAddr(ins, addr) {
			return true
		}
	}
	return false
}

// callEstablishes: the call is to a method whose receiver is the base object
// of addr and which leaves the corresponding field non-nil on every return
// (e.g. sr.check() establishes sr.data, sr.Type, sr.Type.Attrs, sr.Type.Rels).
func (pc *panicChecker) callEstablishes(c ssa.CallInstruction, addr ssa.Value) bool {
	g := c.Common().StaticCallee()
	if g == nil || !pc.p.inTarget(g) || len(g.Params) == 0 || len(c.Common().Args) == 0 {
		return false
	}
	// express addr as a field path from the call's receiver argument
	path, ok := fieldPathFrom(addr, c.Common().Args[0])
	if !ok {
		return false
	}
	return pc.ensures(g, path, 0)
}

// fieldPathFrom: addr == &(((root.f1).f2)…) possibly through loads of pointer
// fields; returns the list of field indexes with -1 marking a load.
func fieldPathFrom(addr, root ssa.Value) ([]int, bool) {
	var path []int
	v := addr
	for i := 0; i < 8; i++ {
		if v == root {
			// reverse
			for l, r := 0, len(path)-1; l < r; l, r = l+1, r-1 {
				path[l], path[r] = path[r], path[l]
			}
			return path, true
		}
		switch x := v.(type) {
		case *ssa.FieldAddr:
			path = append(path, x.Field)
			v = x.X
		case *ssa.UnOp:
			if x.Op != token.MUL {
				return nil, false
			}
			path = append(path, -1)
			v = x.X
		default:
			return nil, false
		}
	}
	return nil, false
}

// ensures: on every return of g, the location receiver.path is non-nil.
func (pc *panicChecker) ensures(g *ssa.Function, path []int, depth int) bool {
	if depth > 2 {
		return false
	}
	// rebuild the address expression inside g: find an address value with that path from Params[0]
	var addr ssa.Value
	eachInstr(g, func(ins ssa.Instruction) {
		if addr != nil {
			return
		}
		if fa, ok := ins.(*ssa.FieldAddr); ok {
			if p2, ok := fieldPathFrom(fa, g.Params[0]); ok && equalInts(p2, path) {
				addr = fa
			}
		}
	})
	if addr == nil {
		return pc.ensuresByDelegation(g, path, depth)
	}
	ok := true
	nret := 0
	eachInstr(g, func(ins ssa.Instruction) {
		if r, isRet := ins.(*ssa.Return); isRet {
			nret++
			if !pc.locNonNilAt(g, addr, r) {
				ok = false
			}
		}
	})
	if ok && nret > 0 {
		return true
	}
	return pc.ensuresByDelegation(g, path, depth)
}

// ensuresByDelegation: g is a straight-line sequence of calls on its own
// receiver (a normaliser split into phases); one of them ensures the location
// and none of the later ones stores into that field.
func (pc *panicChecker) ensuresByDelegation(g *ssa.Function, path []int, depth int) bool {
	if len(g.Blocks) != 1 || len(g.Params) == 0 || len(path) == 0 {
		return false
	}
	// the field key of the location (owner type and field name of the last step)
	t := g.Params[0].Type()
	key := ""
	for _, step := range path {
		if step == -1 {
			pt, ok := t.Underlying().(*types.Pointer)
			if !ok {
				return false
			}
			t = pt.Elem()
			continue
		}
		st, ok := deref(t).Underlying().(*types.Struct)
		if !ok || step >= st.NumFields() {
			return false
		}
		owner := typeStr(deref(t))
		if nt, ok := deref(t).(*types.Named); ok {
			owner = nt.Obj().Name()
		}
		key = owner + "." + st.Field(step).Name()
		// the address of the field: type of a FieldAddr is pointer to the field type
		t = types.NewPointer(st.Field(step).Type())
	}
	if key == "" {
		return false
	}
	established := false
	for _, ins := range g.Blocks[0].Instrs {
		switch x := ins.(type) {
		case *ssa.Call:
			h := x.Common().StaticCallee()
			if h != nil && pc.p.inTarget(h) && len(x.Common().Args) > 0 && x.Common().Args[0] == ssa.Value(g.Params[0]) && h != g && pc.ensures(h, path, depth+1) {
				established = true
				continue
			}
			if established && pc.fw.callWrites(x, key) {
				established = false
			}
		case *ssa.Store:
			for _, k := range storeFieldKeys(x.Addr) {
				if k == key {
					established = false
				}
			}
		case *ssa.Return, *ssa.DebugRef:
		default:
			// anything else in a phase sequence is not expected
			if _, isVal := ins.(ssa.Value); !isVal {
				established = false
			}
		}
	}
	return established
}

func equalInts(a, b []int) bool {
	if len(a) != len(b) {
		return false
	}
	for i := range a {
		if a[i] != b[i] {
			return false
		}
	}
	return true
}

// ---------------------------------------------------------------------------
// nil dereference (restricted classes, see DESIGN)

// derefSafe reports (needs-obligation, ok, why) for a load through ptr.
func (pc *panicChecker) derefSafe(f *ssa.Function, at ssa.Instruction, ptr ssa.Value) (bool, bool, string) {
	switch x := ptr.(type) {
	case *ssa.Alloc, *ssa.FieldAddr, *ssa.IndexAddr, *ssa.Global, *ssa.FreeVar:
		return false, true, ""
	case *ssa.Parameter:
		// receivers and pointer parameters are non-nil by API precondition
		return false, true, ""
	case *ssa.UnOp:
		// pointer loaded from memory
		if x.Op == token.MUL {
			switch x.X.(type) {
			case *ssa.IndexAddr:
				// element of a slice of pointers
				ok, why := pc.valueNonNil(f, ptr, at, 0)
				return true, ok, "pointer element of a slice: " + why
			}
			// pointer fields: constructor invariants, not covered here
			return false, true, ""
		}
	case *ssa.Phi, *ssa.Extract, *ssa.Call, *ssa.Lookup, *ssa.TypeAssert, *ssa.Index:
		ok, why := pc.valueNonNil(f, ptr, at, 0)
		// range-over-slice element pointers come as Extract? no: only report real risks
		return true, ok, why
	}
	return false, true, ""
}

// invokeSafe: a method call on an interface value that may be the nil interface.
func (pc *panicChecker) invokeSafe(f *ssa.Function, c *ssa.Call) (bool, bool, string) {
	v := c.Common().Value
	// only values that come from Collection.At (documented to return nil out of
	// range) or from a phi/call that has a nil path are obligations
	if inner, _ := callOf(v); inner != nil && inner.Common().IsInvoke() && inner.Common().Method.Name() == "At" {
		ok, why := pc.atGuarded(f, inner)
		return true, ok, why
	}
	if phi, ok := v.(*ssa.Phi); ok {
		for _, e := range phi.Edges {
			if isNilConst(e) {
				ok, why := pc.valueNonNil(f, v, c, 0)
				return true, ok, why
			}
		}
	}
	return false, true, ""
}

// atGuarded: c.At(i) with 0 <= i < c.Len() established by dominating facts.
func (pc *panicChecker) atGuarded(f *ssa.Function, at *ssa.Call) (bool, string) {
	recv := at.Common().Value
	idx := at.Common().Args[0]
	bf := pc.bf(f)
	ia, io := bf.atom(idx)
	lowOK := bf.prove("0", 0, ia, io, at, nil)
	hiOK := false
	for _, ef := range expandFacts(factsAt(at.Block())) {
		b, ok := ef.Cond.(*ssa.BinOp)
		if !ok {
			continue
		}
		op := b.Op
		if !ef.Truth {
			op = negateCmp(op)
		}
		var lenSide, idxSide ssa.Value
		switch op {
		case token.LSS:
			idxSide, lenSide = b.X, b.Y
		case token.GTR:
			idxSide, lenSide = b.Y, b.X
		default:
			continue
		}
		lc, ok := lenSide.(*ssa.Call)
		if !ok || !lc.Common().IsInvoke() || lc.Common().Method.Name() != "Len" || lc.Common().Value != recv {
			continue
		}
		xa, xo := bf.atom(idxSide)
		if xa == ia && io <= xo {
			hiOK = true
		}
	}
	if lowOK && hiOK {
		return true, "Collection.At(i) with 0 <= i < Len() on the same collection (At is non-nil in range by the Collection contract)"
	}
	return false, "Collection.At(i) result used without establishing 0 <= i < Len(): At returns nil out of range and the method call panics"
}

// ---------------------------------------------------------------------------

// sortSites orders sites for stable output.
func sortSites(s []panicSite) {
	sort.SliceStable(s, func(i, j int) bool { return s[i].Key < s[j].Key })
}

// retFieldNonNil: every target-package callee of c returns a struct whose
// field `field` is non-nil on every return.
func (pc *panicChecker) retFieldNonNil(c *ssa.Call, field int) bool {
	callees := pc.p.cg.Callees(c)
	if len(callees) == 0 || len(pc.p.cg.Externals(c)) > 0 {
		return false
	}
	for _, g := range callees {
		ok := true
		n := 0
		eachInstr(g, func(ins ssa.Instruction) {
			r, isRet := ins.(*ssa.Return)
			if !isRet || len(r.Results) == 0 {
				return
			}
			n++
			ld, isLoad := r.Results[0].(*ssa.UnOp)
			if !isLoad {
				ok = false
				return
			}
			al, isAlloc := ld.X.(*ssa.Alloc)
			if !isAlloc {
				ok = false
				return
			}
			// find a FieldAddr(al, field) to name the location
			var fa *ssa.FieldAddr
			for _, ref := range referrers(al) {
				if x, isFA := ref.(*ssa.FieldAddr); isFA && x.Field == field {
					fa = x
				}
			}
			if fa == nil || !pc.locNonNilAt(g, fa, r) {
				ok = false
			}
		})
		if !ok || n == 0 {
			return false
		}
	}
	return true
}

// isResourceGet: a call of Get on the Resource interface or on one of its
// shipped implementations.
func isResourceGet(c *ssa.Call) bool {
	cc := c.Common()
	if cc.IsInvoke() {
		return cc.Method.Name() == "Get"
	}
	if sc := cc.StaticCallee(); sc != nil && sc.Name() == "Get" && sc.Signature.Recv() != nil {
		return true
	}
	return false
}

// isFilterOperand: the value is a load of Filter.Val, or a phi merging the
// results of Resource.Get (and boxed relationship values) in IsAllowed.
func isFilterOperand(v ssa.Value) bool {
	return isFilterOperandD(v, 0)
}

func isFilterOperandD(v ssa.Value, depth int) bool {
	if depth > 3 {
		return false
	}
	for _, o := range originsNoBox(v) {
		switch x := o.(type) {
		case *ssa.UnOp:
			if fa, ok := x.X.(*ssa.FieldAddr); ok {
				if owner, f := fieldRef(fa.X, fa.Field); owner == "Filter" && f == "Val" {
					continue
				}
			}
			return false
		case *ssa.MakeInterface:
			continue
		case *ssa.Call:
			if isResourceGet(x) {
				continue
			}
			// a small helper of the package that fetches the value: every result qualifies
			if g := x.Common().StaticCallee(); g != nil && smallHelper(g) && g.Signature.Results().Len() == 1 {
				okAll, n := true, 0
				for _, b := range g.Blocks {
					if ret, ok := b.Instrs[len(b.Instrs)-1].(*ssa.Return); ok {
						n++
						if !isFilterOperandD(ret.Results[0], depth+1) {
							okAll = false
						}
					}
				}
				if okAll && n > 0 {
					continue
				}
			}
			return false
		case *ssa.Const:
			continue
		default:
			return false
		}
	}
	return true
}

// sortCallback: every caller of f is a sort.* call (Less/Swap/Len of a
// sort.Interface, or the less closure of sort.Slice).
func (pc *panicChecker) sortCallback(f *ssa.Function) bool {
	callers := pc.p.cg.callers[f]
	if len(callers) == 0 {
		return false
	}
	for _, c := range callers {
		sc := c.Common().StaticCallee()
		if sc == nil || sc.Pkg == nil || sc.Pkg.Pkg.Path() != "sort" {
			return false
		}
	}
	return true
}

// sortIndexed: in a sort callback, the indexed slice is the one whose length
// the sort package was given: the field that the receiver's Len method
// measures, or the variable the sorted slice was read from (sort.Slice).
func (pc *panicChecker) sortIndexed(f *ssa.Function, x ssa.Value) (bool, string) {
	if field, ok := paramField(x, f); ok && f.Signature.Recv() != nil {
		return pc.lenMeasures(f, field), "sort.Interface contract: 0 <= i < Len(), and Len measures this field"
	}
	// less closure of sort.Slice(x, less): the indexed slice must be read
	// through the same access path from a captured variable as the sorted
	// argument is from the bound variable
	root, path := accessPath(x)
	fv, ok := root.(*ssa.FreeVar)
	if !ok {
		return false, ""
	}
	idx := -1
	for k, v := range f.FreeVars {
		if v == fv {
			idx = k
		}
	}
	if idx < 0 {
		return false, ""
	}
	for _, c := range pc.p.cg.callers[f] {
		args := c.Common().Args
		if len(args) != 2 {
			return false, ""
		}
		mc, ok := args[1].(*ssa.MakeClosure)
		if !ok || mc.Fn != ssa.Value(f) {
			return false, ""
		}
		r2, p2 := accessPath(stripValue(args[0]))
		if r2 != mc.Bindings[idx] || p2 != path {
			return false, ""
		}
	}
	return true, "sort.Slice contract: less is called with 0 <= i,j < len(x), and x is read through the captured variable (" + path + ")"
}

// accessPath: v = root followed by loads (*) and field selections.
func accessPath(v ssa.Value) (ssa.Value, string) {
	path := ""
	for i := 0; i < 10; i++ {
		switch x := v.(type) {
		case *ssa.UnOp:
			if x.Op != token.MUL {
				return v, path
			}
			path = "*" + path
			v = x.X
		case *ssa.FieldAddr:
			_, n := fieldRef(x.X, x.Field)
			path = "." + n + path
			v = x.X
		case *ssa.Field:
			_, n := fieldRef(x.X, x.Field)
			path = "." + n + path
			v = x.X
		default:
			return v, path
		}
	}
	return v, path
}

// lenMeasures: the receiver type's Len method returns len(recv.field).
func (pc *panicChecker) lenMeasures(f *ssa.Function, field int) bool {
	recv := f.Signature.Recv()
	if recv == nil {
		return false
	}
	ms := pc.p.SSAProg.MethodSets.MethodSet(recv.Type())
	sel := ms.Lookup(pc.p.Types, "Len")
	if sel == nil {
		sel = ms.Lookup(nil, "Len")
	}
	if sel == nil {
		return false
	}
	g := pc.p.SSAProg.MethodValue(sel)
	if g == nil || len(g.Blocks) != 1 {
		return false
	}
	ok := false
	eachInstr(g, func(ins ssa.Instruction) {
		r, isRet := ins.(*ssa.Return)
		if !isRet || len(r.Results) != 1 {
			return
		}
		lc, isCall := r.Results[0].(*ssa.Call)
		if !isCall {
			return
		}
		if b, isB := lc.Call.Value.(*ssa.Builtin); !isB || b.Name() != "len" {
			return
		}
		if fl, isPF := paramField(lc.Call.Args[0], g); isPF {
			ok = fl == field
		}
	})
	return ok
}

// sameAssert: identical values, or two assertions of the same operand to the
// same type (each evaluation yields the same pointer).
func sameAssert(a, b ssa.Value) bool {
	if a == b {
		return true
	}
	ta, ok1 := a.(*ssa.TypeAssert)
	tb, ok2 := b.(*ssa.TypeAssert)
	return ok1 && ok2 && !ta.CommaOk && !tb.CommaOk && ta.X == tb.X && types.Identical(ta.AssertedType, tb.AssertedType)
}

var entryBusy = map[*ssa.Function]bool{}

// entryNonNil: f is a small unexported helper that is only called directly, and
// at every call the location (a field path from the receiver) is already
// established non-nil in the caller - by the caller's own facts, or because an
// earlier call of the same straight-line phase sequence ensures it.
func (pc *panicChecker) entryNonNil(f *ssa.Function, addr ssa.Value) bool {
	if !smallHelper(f) || len(f.Params) == 0 || entryBusy[f] {
		return false
	}
	path, ok := fieldPathFrom(addr, f.Params[0])
	if !ok || len(path) == 0 {
		return false
	}
	calls := pc.p.cg.callers[f]
	if len(calls) == 0 {
		return false
	}
	for _, vf := range pc.p.cg.valueFuncs {
		if vf == f {
			return false
		}
	}
	entryBusy[f] = true
	defer func() { entryBusy[f] = false }()
	for _, c := range calls {
		call, isCall := c.(*ssa.Call)
		if !isCall || c.Common().IsInvoke() || c.Common().StaticCallee() != f || len(c.Common().Args) == 0 {
			return false
		}
		g := c.Parent()
		if g == nil || g == f {
			return false
		}
		recv := c.Common().Args[0]
		// (a) the caller has the address and knows it non-nil at the call
		var gaddr ssa.Value
		eachInstr(g, func(ins ssa.Instruction) {
			if gaddr != nil {
				return
			}
			if fa, ok := ins.(*ssa.FieldAddr); ok {
				if p2, ok := fieldPathFrom(fa, recv); ok && equalInts(p2, path) && before(fa, call) {
					gaddr = fa
				}
			}
		})
		if gaddr != nil && pc.locNonNilAt(g, gaddr, call) {
			continue
		}
		// (b) an earlier call in the same block, on the same receiver, ensures it
		established := false
		for _, ins := range call.Block().Instrs {
			if ins == ssa.Instruction(call) {
				break
			}
			if c0, ok := ins.(*ssa.Call); ok {
				h := c0.Common().StaticCallee()
				if h != nil && h != f && pc.p.inTarget(h) && len(c0.Common().Args) > 0 && c0.Common().Args[0] == recv && pc.ensures(h, path, 1) {
					established = true
					continue
				}
				if established && len(c0.Common().Args) > 0 && c0.Common().Args[0] == recv {
					// a later phase on the same receiver: it must ensure the location itself or leave the field alone
					if h != nil && pc.p.inTarget(h) && !pc.ensures(h, path, 1) && pc.writesPathField(h, f.Params[0].Type(), path) {
						established = false
					}
				}
			}
		}
		if !established {
			// (c) a dominating call on the same receiver ensures it and nothing
			// that can store into the field lies between it and this call
			eachInstr(g, func(ins ssa.Instruction) {
				c0, ok := ins.(*ssa.Call)
				if established || !ok || c0 == call || !before(c0, call) {
					return
				}
				h := c0.Common().StaticCallee()
				if h == nil || h == f || !pc.p.inTarget(h) || len(c0.Common().Args) == 0 || c0.Common().Args[0] != recv || !pc.ensures(h, path, 1) {
					return
				}
				killed := false
				eachInstr(g, func(i2 ssa.Instruction) {
					if killed || i2 == ssa.Instruction(c0) || i2 == ssa.Instruction(call) {
						return
					}
					writes := false
					switch y := i2.(type) {
					case *ssa.Store:
						writes = true
						_ = y
					case ssa.CallInstruction:
						h2 := y.Common().StaticCallee()
						if h2 == nil || !pc.p.inTarget(h2) {
							writes = pc.fw.unresolved(y)
						} else {
							writes = pc.writesPathField(h2, f.Params[0].Type(), path) && !pc.ensures(h2, path, 1)
						}
					}
					if writes {
						if st, isSt := i2.(*ssa.Store); isSt {
							writes = false
							for _, k := range storeFieldKeys(st.Addr) {
								if pc.pathKey(f.Params[0].Type(), path) == k {
									writes = true
								}
							}
						}
					}
					if writes && reachableAvoiding(c0, i2, c0) && reachableAvoiding(i2, call, c0) {
						killed = true
					}
				})
				if !killed {
					established = true
				}
			})
		}
		if !established {
			return false
		}
	}
	return true
}

// pathKey: the Owner.field key of the field a path from a receiver type ends in.
func (pc *panicChecker) pathKey(recvT types.Type, path []int) string {
	t := recvT
	key := ""
	for _, step := range path {
		if step == -1 {
			pt, ok := t.Underlying().(*types.Pointer)
			if !ok {
				return ""
			}
			t = pt.Elem()
			continue
		}
		st, ok := deref(t).Underlying().(*types.Struct)
		if !ok || step >= st.NumFields() {
			return ""
		}
		owner := typeStr(deref(t))
		if nt, ok := deref(t).(*types.Named); ok {
			owner = nt.Obj().Name()
		}
		key = owner + "." + st.Field(step).Name()
		t = types.NewPointer(st.Field(step).Type())
	}
	return key
}

// writesPathField: h (transitively) stores into the field the path ends in.
func (pc *panicChecker) writesPathField(h *ssa.Function, recvT types.Type, path []int) bool {
	t := recvT
	key := ""
	for _, step := range path {
		if step == -1 {
			pt, ok := t.Underlying().(*types.Pointer)
			if !ok {
				return true
			}
			t = pt.Elem()
			continue
		}
		st, ok := deref(t).Underlying().(*types.Struct)
		if !ok || step >= st.NumFields() {
			return true
		}
		owner := typeStr(deref(t))
		if nt, ok := deref(t).(*types.Named); ok {
			owner = nt.Obj().Name()
		}
		key = owner + "." + st.Field(step).Name()
		t = types.NewPointer(st.Field(step).Type())
	}
	if key == "" {
		return true
	}
	owner := key[:strings.Index(key, ".")]
	return pc.fw.trans[h][key] || pc.fw.trans[h][owner+".*"]
}
