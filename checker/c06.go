package main

import (
	"fmt"
	"go/token"
	"os"
	"go/types"
	"regexp"
	"strconv"
	"strings"

	"golang.org/x/tools/go/ssa"
)

func init() { register("C06", checkC06) }

var parseRe = regexp.MustCompile(`^(?:([a-z0-9]+)\()?strconv\.(ParseInt|ParseUint|Atoi)\(string\(data\)(?:, (\d+), (\d+))?\)#0\)?$`)

type decodeInfo struct {
	term    string
	conv    string // conversion applied to the parsed value ("" if none)
	parser  string
	base    int
	bitSize int // 0 = platform int
}

// intWidth returns the width in bits of a basic integer type for the GOARCH
// under analysis.
func intWidth(p *Prog, t types.Type) int {
	arch := p.GOARCH
	if arch == "" {
		arch = "amd64"
	}
	sz := types.SizesFor("gc", arch)
	return int(sz.Sizeof(t)) * 8
}

// decodeTerms evaluates UnmarshalToType for (kind, nullable) and returns the
// value terms of the successful paths, split into the null path and the rest,
// with the answers given to the question `string(data) == "null"`.
type decodeOutcome struct {
	term   string
	isNull string // "true" / "false" / "" (not asked)
	calls  []string
	val    *aval
}

func (kt *kindTable) decodeOutcomes(k int64, nullable bool) []decodeOutcome {
	f := kt.p.Fn("(Attr).UnmarshalToType")
	if f == nil {
		return nil
	}
	in := &interp{p: kt.p, f: f, inline: smallHelper}
	in.forkHook = func(st *istate, cond *aval, ifi *ssa.If) string {
		s := cond.String()
		if strings.Contains(s, `string(data) == "null"`) {
			return "is-null"
		}
		return ""
	}
	outs := in.run(map[*ssa.Parameter]*aval{f.Params[0]: attrStruct(k, nullable), f.Params[1]: symv("data", f.Params[1].Type())})
	var res []decodeOutcome
	for _, o := range outs {
		if o.ret == nil || len(o.results) != 2 || o.results[1].k != aNil {
			continue
		}
		v := o.results[0]
		d := decodeOutcome{calls: o.calls, val: v}
		for _, n := range o.notes {
			if strings.HasPrefix(n, "is-null=") {
				d.isNull = strings.TrimPrefix(n, "is-null=")
			}
		}
		switch {
		case v.k == aIface && v.dyn != nil && v.dyn.pt != nil:
			d.term = v.dyn.pt.String()
		case v.k == aIface && v.dyn != nil:
			d.term = v.dyn.String()
		default:
			d.term = v.String()
		}
		res = append(res, d)
	}
	return res
}

func checkC06(p *Prog, r *Report) {
	r.rule("C06.impl.* (imported from C17): SoftResource.Set and Wrapper.setField store exactly the value they are given and Get returns it as stored")
	nImpl := r.importRules(func(r2 *Report) { checkSoftGetSet(p, r2); checkWrapperGetSet(p, r2) }, "C06.impl", "C17.set-stores-given", "C17.get-returns-stored")
	r.floor("imported Get/Set obligations", nImpl, 4)
	r.rule("C06.partial-presence (imported from C13.presence): the partial function adds a relationship exactly when its object carries a data member (a null linkage included), so the relationships listed in an accepted payload are all held by the result")
	nPP := r.importRules(func(r2 *Report) { checkC13(p, r2) }, "C06.partial-presence", "C13.presence")
	r.floor("imported presence obligations", nPP, 1)
	r.rule("R2 integer decoding (scenario evaluation of Attr.UnmarshalToType, one scenario per integer kind x nullable): the stored value is parser(string(data), 10, B) converted to the kind's Go type of width W with the parser's signedness equal to the kind's and B <= W, so no accepted literal is truncated or reinterpreted (B >= W is C01's obligation); widths are those of the GOARCH under analysis")
	r.rule("C06.bool: a boolean attribute's value is a constant decided by comparing the raw bytes with the literals true and false only")
	r.rule("C06.to-many-emission: the loop of MarshalResource that writes a to-many relationship's identifiers extends the list on every iteration (re-marshaling reproduces every listed ID, repeated ones included)")
	r.rule("C06.null-gate: for a non-nullable kind no successful path exists on which the raw value was found to be the literal null (encoding/json treats null as a no-op, so such a path stores the zero value); for a nullable kind that path returns the kind's nil pointer")
	r.rule("C06.decode-call: string, time and bytes values are produced by encoding/json.Unmarshal(data, &v) into the very variable whose value (or address) is returned")
	r.rule("C06.fresh-linkage: the Identifier / Identifiers variable a relationship's data is decoded into is declared inside the loop over the payload's relationships (zeroed per relationship), so a null or id-less linkage cannot inherit the previous relationship's IDs")
	r.rule("C06.err-stops (R4.err-stops): in UnmarshalResource, UnmarshalPartialResource and UnmarshalDocument the error case of every decoder call (json.Unmarshal of the skeleton and of each linkage, UnmarshalToType, the nested unmarshalers) cannot reach a successful return: walking from the call and taking, at every branch on that error, the non-nil edge only, no return with a nil error is reachable - a linkage the decoder refused (a list where an object is expected) is never accepted with an empty relationship")
	nES := 0
	for _, name := range []string{"UnmarshalResource", "UnmarshalPartialResource", "UnmarshalDocument"} {
		if ef := p.Fn(name); ef != nil {
			nES += checkErrStops(p, r, ef, "C06.err-stops")
		} else {
			r.fail("anchor " + name + " not found")
		}
	}
	r.floor("decoder calls on the resource decoding paths", nES, 6)
	r.rule("C06.plumbing: UnmarshalResource sets id from the skeleton's ID as decoded, each attribute from the first result of UnmarshalToType on that attribute's raw value, each relationship from the decoded linkage's ID(s) in payload order, and calls Set nowhere else (absent fields keep the zero values of Type.New)")
	r.assume("strconv.ParseInt/ParseUint/Atoi accept exactly the base-10 literals that fit the given bit size and return them unchanged; encoding/json, time and base64 decode faithfully (standard-library contracts)")
	r.notCovered("negative zero, fractions and exponents (rejected by strconv, which the property permits); RFC 3339 and base64 fidelity; that re-marshaling reproduces the payload (C01)")

	kt := buildKindTable(p, newReport("scratch", "quick"))
	f := p.Fn("(Attr).UnmarshalToType")
	if f == nil {
		r.fail("anchor (Attr).UnmarshalToType not found")
		return
	}
	r.fn(funcName(f))
	nInt := 0
	for _, row := range kt.rows {
		bt, isBasic := row.Go.Underlying().(*types.Basic)
		for _, nullable := range []bool{false, true} {
			outs := kt.decodeOutcomes(row.Val, nullable)
			key := fmt.Sprintf("UnmarshalToType:%s:nullable=%v", row.Name, nullable)
			// ---- null gate
			nullSuccess := 0
			for _, o := range outs {
				if o.isNull == "true" {
					nullSuccess++
					if nullable {
						good := o.val.k == aIface && o.val.dyn != nil && o.val.dyn.k == aNil
						r.decide(good, "C06.null-gate", key+":null->nil", p.pos(f.Pos()), "null yields the kind's nil pointer", "for a nullable attribute the literal null does not yield a nil pointer: "+o.term)
					}
				}
			}
			if !nullable {
				r.decide(nullSuccess == 0, "C06.null-gate", key+":null-rejected", p.pos(f.Pos()), "no successful path accepts the literal null",
					"the literal null is accepted for a non-nullable "+row.Str+" attribute (encoding/json leaves the target untouched, so the zero value is stored)")
			} else if nullSuccess == 0 {
				r.bad("C06.null-gate", key+":null->nil", p.pos(f.Pos()), "a nullable attribute does not accept null")
			}
			// ---- value paths
			var vals []decodeOutcome
			for _, o := range outs {
				if o.isNull != "true" {
					vals = append(vals, o)
				}
			}
			if len(vals) == 0 {
				r.bad("C06.decode", key, p.pos(f.Pos()), "no successful decoding path")
				continue
			}
			switch {
			case isBasic && bt.Info()&types.IsInteger != 0:
				nInt++
				for _, o := range vals {
					m := parseRe.FindStringSubmatch(o.term)
					if m == nil {
						r.bad("R2.int-decode", key, p.pos(f.Pos()), "the stored value is not a strconv parse of the raw bytes with an optional conversion: "+o.term)
						continue
					}
					conv, parser := m[1], m[2]
					bits := 0
					if m[4] != "" {
						bits, _ = strconv.Atoi(m[4])
					}
					base := 10
					if m[3] != "" {
						base, _ = strconv.Atoi(m[3])
					}
					w := intWidth(p, row.Go)
					pw := bits
					if parser == "Atoi" || bits == 0 {
						pw = intWidth(p, types.Typ[types.Int])
					}
					signedKind := bt.Info()&types.IsUnsigned == 0
					signedParser := parser != "ParseUint"
					var why []string
					if base != 10 {
						why = append(why, fmt.Sprintf("base %d", base))
					}
					if signedKind != signedParser {
						why = append(why, "the parser's signedness differs from the kind's")
					}
					if pw > w {
						why = append(why, fmt.Sprintf("parsed with %d bits but stored in %d bits: a literal that does not fit is truncated instead of rejected", pw, w))
					}
					if conv != "" && conv != bt.Name() {
						why = append(why, "converted to "+conv)
					}
					r.decide(len(why) == 0, "R2.int-decode", key, p.pos(f.Pos()), fmt.Sprintf("%s(…, %d, %d bits) -> %s (%d bits)", parser, base, pw, bt.Name(), w),
						"integer decoding is not range-safe: "+strings.Join(why, "; ")+" ("+o.term+")")
				}
			case isBasic && bt.Info()&types.IsBoolean != 0:
				for _, o := range vals {
					good := o.term == "true" || o.term == "false"
					r.decide(good, "C06.bool", key+":"+o.term, p.pos(f.Pos()), "constant decided by literal comparison", "the boolean value is not decided by comparing the raw bytes with true/false: "+o.term+" (values such as 1, 0, T, f may be accepted)")
				}
				// the conditions consulted are only == "true" / != "false"
				okConds := true
				eachInstr(f, func(ins ssa.Instruction) {
					c, ok := ins.(*ssa.Call)
					if !ok {
						return
					}
					if sc := c.Common().StaticCallee(); sc != nil && fullName(sc) == "strconv.ParseBool" {
						okConds = false
					}
				})
				r.decide(okConds, "C06.bool", key+":no-ParseBool", p.pos(f.Pos()), "no lenient boolean parser is used", "strconv.ParseBool accepts 1, 0, t, f, T, F, TRUE, …: JSON values other than true and false are accepted")
			default:
				// string, time, bytes: json.Unmarshal(data, &v) and v returned
				for _, o := range vals {
					good := false
					for _, c := range o.calls {
						if strings.HasPrefix(c, "encoding/json.Unmarshal(data, &") {
							v := strings.TrimSuffix(strings.TrimPrefix(c, "encoding/json.Unmarshal(data, &"), ")")
							if isVarTerm(o.term, v) || isVarTerm(o.val.String(), v) {
								good = true
							}
						}
					}
					if os.Getenv("VERIF_DEBUG") != "" {
						fmt.Fprintf(os.Stderr, "DBG decode-call %s term=%s val=%s calls=%v\n", key, o.term, o.val, o.calls)
					}
					r.decide(good, "C06.decode-call", key, p.pos(f.Pos()), "decoded by encoding/json into the returned variable", "the stored value is not the variable encoding/json decoded the raw bytes into: "+o.term)
				}
			}
		}
	}
	r.floor("integer decode scenarios", nInt, 20)

	checkUnmarshalPlumbing(p, r, "C06")
	// re-marshaling reproduces the relationship linkage: every ID is written
	checkToManyEmission(p, r, "C06")
}

// checkUnmarshalPlumbing: shared by C01 and C06.
func checkUnmarshalPlumbing(p *Prog, r *Report, prefix string) {
	for _, name := range []string{"UnmarshalResource", "UnmarshalPartialResource"} {
		f := p.Fn(name)
		if f == nil {
			r.fail("anchor %s not found", name)
			continue
		}
		r.fn(name)
		// the relationships loop: range over <skeleton>.Relationships
		var relLoop map[*ssa.BasicBlock]bool
		var attrLoop map[*ssa.BasicBlock]bool
		// the loops may live in the function itself or in a phase helper that
		// receives the skeleton's member as an argument
		scope := append([]*ssa.Function{f}, stringHelpers(f)...)
		memberOf := func(g *ssa.Function, v ssa.Value) string {
			if _, fl, ok := fieldLoad(v); ok {
				return fl
			}
			if prm, ok := v.(*ssa.Parameter); ok && g != f {
				idx := -1
				for i, q := range g.Params {
					if q == prm {
						idx = i
					}
				}
				fl := ""
				eachInstr(f, func(i2 ssa.Instruction) {
					if c, ok := i2.(*ssa.Call); ok && c.Common().StaticCallee() == g && idx >= 0 && idx < len(c.Common().Args) {
						if _, f2, ok := fieldLoad(c.Common().Args[idx]); ok {
							fl = f2
						}
					}
				})
				return fl
			}
			return ""
		}
		for _, g := range scope {
			g := g
			eachInstr(g, func(ins ssa.Instruction) {
				rg, ok := ins.(*ssa.Range)
				if !ok {
					return
				}
				fl := memberOf(g, rg.X)
				for _, ref := range referrers(rg) {
					if nx, ok := ref.(*ssa.Next); ok {
						switch fl {
						case "Relationships":
							relLoop = naturalLoop(nx.Block())
						case "Attributes":
							attrLoop = naturalLoop(nx.Block())
						}
					}
				}
			})
		}
		if relLoop == nil || attrLoop == nil {
			r.bad(prefix+".plumbing", name+":loops", p.pos(f.Pos()), "cannot find the loops over the payload's attributes and relationships")
			continue
		}
		// the decoded skeleton is read, never written: what json.Unmarshal put
		// into it is what gets stored
		nSk := 0
		eachInstrOf(scope, func(ins ssa.Instruction) {
			st, ok := ins.(*ssa.Store)
			if !ok {
				return
			}
			fa, ok := st.Addr.(*ssa.FieldAddr)
			if !ok {
				return
			}
			if o, fl := fieldRef(fa.X, fa.Field); o == "resourceSkeleton" || o == "relationshipSkeleton" {
				nSk++
				r.bad(prefix+".plumbing", name+":skeleton-write:"+fl, p.pos(st.Pos()), "the decoded payload's "+fl+" is overwritten before it is used (trimmed, normalised, defaulted): the value that comes back is not the value that was sent")
			}
		})
		if nSk == 0 {
			r.ok(prefix+".plumbing", name+":skeleton-read-only", p.pos(f.Pos()), "no store into a field of the decoded skeleton")
		}
		// fresh linkage variables
		nLink := 0
		eachInstrOf(scope, func(ins ssa.Instruction) {
			c, ok := ins.(*ssa.Call)
			if !ok {
				return
			}
			sc := c.Common().StaticCallee()
			// a decode helper called from the loop: its decode targets are its own
			// locals, fresh on every call
			if sc != nil && relLoop[c.Block()] && smallHelper(sc) {
				eachInstr(sc, func(i2 ssa.Instruction) {
					c2, ok := i2.(*ssa.Call)
					if !ok || c2.Common().StaticCallee() == nil || fullName(c2.Common().StaticCallee()) != "encoding/json.Unmarshal" {
						return
					}
					if al, ok := stripValue(c2.Common().Args[1]).(*ssa.Alloc); ok {
						if tn := structName(al.Type()); tn == "Identifier" || tn == "Identifiers" {
							nLink++
							r.ok(prefix+".fresh-linkage", name+":"+funcName(sc)+":"+al.Comment, p.pos(c2.Pos()), "the decode target is a local of a helper called once per relationship")
						}
					}
				})
				return
			}
			if sc == nil || fullName(sc) != "encoding/json.Unmarshal" || !relLoop[c.Block()] {
				return
			}
			target := stripValue(c.Common().Args[1])
			al, ok := target.(*ssa.Alloc)
			if !ok {
				return
			}
			tn := structName(al.Type())
			if tn != "Identifier" && tn != "Identifiers" {
				return
			}
			nLink++
			r.decide(relLoop[al.Block()], prefix+".fresh-linkage", name+":"+al.Comment, p.pos(c.Pos()), "the decode target is declared (zeroed) inside the relationships loop",
				"the variable a relationship's linkage is decoded into lives outside the loop: when the data is null or lacks an id, encoding/json leaves it untouched and the relationship inherits the IDs of the relationship decoded before it (which one depends on map iteration order)")
		})
		r.floor(name+" linkage decode targets", nLink, 2)

		// Set calls: where and with what
		nSet := 0
		eachInstrOf(scope, func(ins ssa.Instruction) {
			c, ok := ins.(*ssa.Call)
			if !ok {
				return
			}
			nm := ""
			var args []ssa.Value
			if c.Common().IsInvoke() {
				nm, args = c.Common().Method.Name(), c.Common().Args
			} else if sc := c.Common().StaticCallee(); sc != nil && sc.Signature.Recv() != nil && p.inTarget(sc) {
				nm, args = sc.Name(), c.Common().Args[1:]
			}
			if nm != "Set" || len(args) != 2 {
				return
			}
			nSet++
			key := name + ":" + p.describe(c)
			if s, ok := constString(args[0]); ok && s == "id" {
				// value: the skeleton's ID as decoded
				good := false
				if mi, ok := args[1].(*ssa.MakeInterface); ok {
					if _, fl, ok := fieldLoad(mi.X); ok && fl == "ID" {
						good = true
					}
				}
				r.decide(good, prefix+".plumbing", key, p.pos(c.Pos()), "id is the skeleton's ID, unmodified", "the resource ID is not stored exactly as decoded from the payload (it is transformed on the way)")
				return
			}
			switch {
			case attrLoop[c.Block()]:
				// Set(attr.Name, val) with val = first result of attr.UnmarshalToType(v)
				good := false
				if ex, ok := args[1].(*ssa.Extract); ok && ex.Index == 0 {
					if uc, ok := ex.Tuple.(*ssa.Call); ok {
						if sc := uc.Common().StaticCallee(); sc != nil && funcName(sc) == "(Attr).UnmarshalToType" {
							// same attr as the name
							nb, nf, ok1 := fieldLoad(args[0])
							if ok1 && nf == "Name" {
								a0 := uc.Common().Args[0]
								if ld, ok := a0.(*ssa.UnOp); ok {
									a0 = ld.X
								}
								if a0 == nb || uc.Common().Args[0] == nb {
									good = true
								}
							}
						}
					}
				}
				r.decide(good, prefix+".plumbing", key, p.pos(c.Pos()), "attribute set from UnmarshalToType's result for the same attribute", "an attribute is not set with the value decoded by UnmarshalToType for that very attribute")
			case relLoop[c.Block()]:
				// value derives from the decoded Identifier(s)' ID
				good := relValueFromLinkage(args[1], relLoop)
				r.decide(good, prefix+".plumbing", key, p.pos(c.Pos()), "relationship set from the decoded linkage's ID(s) in order", "a relationship is not set from the IDs of its decoded linkage in payload order")
			default:
				r.bad(prefix+".plumbing", key, p.pos(c.Pos()), "Set is called outside the loops over the payload's members: a field absent from the payload does not keep its zero value")
			}
		})
		r.floor(name+" Set calls", nSet, 2)
	}
}

// relValueFromLinkage: v is iden.ID, or a slice filled by ids[i] = idens[i].ID
// over i (same index on both sides), with no other call touching it.
func relValueFromLinkage(v ssa.Value, loop map[*ssa.BasicBlock]bool) bool {
	// the first result of a decode helper every return of which is such a value
	if ex, isEx := v.(*ssa.Extract); isEx && ex.Index == 0 {
		if hc, isCall := ex.Tuple.(*ssa.Call); isCall {
			if g := hc.Common().StaticCallee(); g != nil && smallHelper(g) {
				n := 0
				for _, b := range g.Blocks {
					if ret, ok := b.Instrs[len(b.Instrs)-1].(*ssa.Return); ok && len(ret.Results) > 0 {
						n++
						if !relValueFromLinkage(ret.Results[0], nil) {
							return false
						}
					}
				}
				return n > 0
			}
		}
	}
	if phi, isPhi := v.(*ssa.Phi); isPhi {
		// one Set after the cardinality branches
		if len(phi.Edges) == 0 {
			return false
		}
		for _, e := range phi.Edges {
			if _, again := e.(*ssa.Phi); again || !relValueFromLinkage(e, loop) {
				return false
			}
		}
		return true
	}
	mi, ok := v.(*ssa.MakeInterface)
	if !ok {
		return false
	}
	x := mi.X
	if base, fl, ok := fieldLoad(x); ok && fl == "ID" {
		_, isAlloc := base.(*ssa.Alloc)
		return isAlloc && structName(base.Type()) == "Identifier"
	}
	// the projection may live in a helper (Identifiers.IDs): every result of
	// the callee is such a projection of its receiver, and the receiver here is
	// the decoded linkage variable
	if c, isCall := x.(*ssa.Call); isCall {
		g := c.Common().StaticCallee()
		if g == nil || g.Blocks == nil || len(c.Common().Args) != 1 || len(g.Params) != 1 {
			return false
		}
		if ld, ok := c.Common().Args[0].(*ssa.UnOp); !ok || ld.Op != token.MUL {
			return false
		} else if _, isAlloc := ld.X.(*ssa.Alloc); !isAlloc {
			return false
		}
		n := 0
		for _, b := range g.Blocks {
			ret, ok := b.Instrs[len(b.Instrs)-1].(*ssa.Return)
			if !ok {
				continue
			}
			n++
			ms, ok := ret.Results[0].(*ssa.MakeSlice)
			if !ok || !idProjection(ms, g.Params[0]) {
				return false
			}
		}
		return n > 0
	}
	ms, ok := x.(*ssa.MakeSlice)
	if !ok {
		return false
	}
	return idProjection(ms, nil)
}

// idProjection: ms is filled by ms[i] = src[i].ID for the same i and handed to
// nothing that could reorder it (src, when given, is the list projected).
func idProjection(ms *ssa.MakeSlice, src ssa.Value) bool {
	good := false
	for _, ref := range referrers(ms) {
		switch y := ref.(type) {
		case *ssa.IndexAddr:
			for _, r2 := range referrers(y) {
				st, ok := r2.(*ssa.Store)
				if !ok {
					continue
				}
				// st.Val = load of &idens[i].ID with the same i
				if ld, ok := st.Val.(*ssa.UnOp); ok && ld.Op == token.MUL {
					if fa, ok := ld.X.(*ssa.FieldAddr); ok {
						if _, fl := fieldRef(fa.X, fa.Field); fl == "ID" {
							if ia2, ok := fa.X.(*ssa.IndexAddr); ok && ia2.Index == y.Index && (src == nil || ia2.X == src) {
								good = true
								continue
							}
						}
					}
				}
				return false
			}
		case *ssa.MakeInterface, *ssa.Return:
		case ssa.CallInstruction:
			// the slice is handed to a function before being stored (sort, reverse, …)
			return false
		}
	}
	return good
}

func eachInstrOf(fns []*ssa.Function, fn func(ins ssa.Instruction)) {
	for _, g := range fns {
		eachInstr(g, fn)
	}
}

// isVarTerm: the term is the variable v, its address or a load of it.
func isVarTerm(term, v string) bool {
	return strings.TrimLeft(term, "*&") == v && strings.Contains(term, "&")
}
