package main

import (
	"fmt"
	"go/types"
	"strings"

	"golang.org/x/tools/go/ssa"
)

// Contract table for the standard library, used by the heap/mod analysis.
// One line of reason per entry.

// pure: the function does not write memory reachable from its arguments and
// its results do not alias them (results are fresh or immutable).
var purePkgs = map[string]string{
	"strings":         "operates on immutable strings; Split/Fields return fresh slices",
	"strconv":         "parses/formats into fresh strings",
	"unicode":         "pure predicates",
	"unicode/utf8":    "pure decoding helpers",
	"errors":          "New/Is/As/Unwrap do not write their arguments",
	"fmt":             "formatting reads its operands (String/Error callbacks are modelled by the call graph)",
	"time":            "Time values are immutable",
	"math":            "pure arithmetic",
	"net/http":        "StatusText is a table lookup",
	"encoding/base64": "EncodeToString/DecodeString return fresh data",
	"bytes":           "Compare/Equal/Index/HasPrefix/… only read their operands",
}

var pureFuncs = map[string]string{
	"encoding/json.Marshal":        "reads v (MarshalJSON callbacks modelled by the call graph); returns a fresh []byte",
	"encoding/json.MarshalIndent":  "same as Marshal",
	"encoding/json.Valid":          "reads",
	"net/url.Parse":                "returns a fresh *url.URL",
	"net/url.ParseRequestURI":      "returns a fresh *url.URL",
	"net/url.(*URL).Query":         "parses RawQuery into a fresh Values map",
	"net/url.(*URL).String":        "reads",
	"net/url.(Values).Get":         "reads",
	"net/url.(Values).Encode":      "reads",
	"net/url.PathUnescape":         "string to string",
	"net/url.QueryUnescape":        "string to string",
	"net/url.PathEscape":           "string to string",
	"net/url.QueryEscape":          "string to string",
	"net/url.ParseQuery":           "fresh map",
	"io/ioutil.ReadAll":            "returns a fresh []byte (consumes the reader, which is not library-owned state)",
	"io.ReadAll":                   "returns a fresh []byte",
	"reflect.DeepEqual":            "reads",
	"reflect.TypeOf":               "reads",
	"reflect.(StructTag).Get":      "string lookup",
	"reflect.(StructTag).Lookup":   "string lookup",
	"reflect.(Value).CanSet":       "reads",
	"reflect.(Value).CanAddr":      "reads",
	"reflect.(Value).IsNil":        "reads",
	"reflect.(Value).IsValid":      "reads",
	"reflect.(Value).IsZero":       "reads",
	"reflect.(Value).Kind":         "reads",
	"reflect.(Value).Len":          "reads",
	"reflect.(Value).NumField":     "reads",
	"reflect.(Value).String":       "reads",
	"reflect.(Value).Int":          "reads",
	"reflect.(Value).Uint":         "reads",
	"reflect.(Value).Bool":         "reads",
	"reflect.(Value).Type":         "reads",
	"sort.SearchStrings":           "reads",
	"sort.Search":                  "reads (callback)",
	"sort.StringsAreSorted":        "reads",
	"sort.SliceIsSorted":           "reads",
	"sort.IsSorted":                "reads",
	"slices.Contains":              "reads",
	"slices.Index":                 "reads",
	"slices.Equal":                 "reads",
	"slices.Clone":                 "fresh copy (shallow)",
	"maps.Clone":                   "fresh copy (shallow)",
	"internal/reflectlite.TypeOf":  "reads",
	"reflect.rtypeOf":              "reads",
	"net/http.init#2":              "package init",
	"unicode.init":                 "package init",
	"unsafe.init":                  "package init",
	"reflect.(*rtype).Field":       "reads",
	"reflect.(*rtype).FieldByName": "reads",
	"reflect.(*rtype).Name":        "reads",
	"reflect.(*rtype).String":      "reads",
}

// reflectSame: methods of reflect.Value whose result refers to (part of) the
// same underlying object as the receiver.
var reflectSame = map[string]bool{
	"Elem": true, "Field": true, "FieldByName": true, "FieldByIndex": true, "Index": true,
	"Addr": true, "Convert": true, "Slice": true, "MapIndex": true,
}

// reflectSet: methods of reflect.Value that write the underlying object.
var reflectSet = map[string]bool{
	"Set": true, "SetString": true, "SetInt": true, "SetUint": true, "SetBool": true, "SetFloat": true,
	"SetBytes": true, "SetLen": true, "SetMapIndex": true, "SetZero": true, "SetPointer": true, "SetCap": true,
}

// inPlaceSorters: functions that reorder the elements of their first argument.
var inPlaceSorters = map[string]string{
	"sort.Strings":          "sorts x in place",
	"sort.Ints":             "sorts x in place",
	"sort.Float64s":         "sorts x in place",
	"sort.Slice":            "sorts x in place",
	"sort.SliceStable":      "sorts x in place",
	"slices.Sort":           "sorts x in place",
	"slices.SortFunc":       "sorts x in place",
	"slices.SortStableFunc": "sorts x in place",
	"slices.Reverse":        "reverses x in place",
	"math/rand.Shuffle":     "permutes through the swap callback",
}

// closure of a set of aggregate-snapshot locations under struct-copy edges.
func (st *fnState) copyClosure(s locset) locset {
	out := locset{}
	var walk func(l string)
	walk = func(l string) {
		if !out.add(l) {
			return
		}
		for e := range st.copies {
			if e.dst == l {
				walk(e.src)
			}
		}
	}
	for l := range s {
		walk(l)
	}
	return out
}

func pkgOf(g *ssa.Function) string {
	if g.Pkg != nil {
		return g.Pkg.Pkg.Path()
	}
	if g.Object() != nil && g.Object().Pkg() != nil {
		return g.Object().Pkg().Path()
	}
	return ""
}

func (st *fnState) freshOpaque(c ssa.CallInstruction, i int) locset {
	return locset{fmt.Sprintf("U%s_%d", strings.TrimPrefix(st.callID(c), "c"), i): true}
}

func (st *fnState) external(c ssa.CallInstruction, g *ssa.Function, args []ssa.Value, res ssa.Value, nres int) {
	name := fullName(g)
	pkg := pkgOf(g)
	resType := func(i int) types.Type {
		r := g.Signature.Results()
		if r == nil || i >= r.Len() {
			return nil
		}
		return r.At(i).Type()
	}
	freshResults := func() {
		for i := 0; i < nres; i++ {
			if t := resType(i); t != nil && holdsRefs(t) {
				st.setResult(res, i, nres, st.freshOpaque(c, i))
			}
		}
	}

	// reflect.Value plumbing
	if pkg == "reflect" {
		recvIsValue := g.Signature.Recv() != nil && strings.HasSuffix(typeStr(g.Signature.Recv().Type()), "reflect.Value")
		switch {
		case name == "reflect.ValueOf" || name == "reflect.Indirect":
			st.setResult(res, 0, nres, st.get(args[0]))
			return
		case name == "reflect.New" || name == "reflect.Zero" || name == "reflect.MakeSlice" || name == "reflect.MakeMap":
			st.setResult(res, 0, nres, st.freshOpaque(c, 0))
			return
		case recvIsValue && reflectSame[g.Name()]:
			st.setResult(res, 0, nres, st.get(args[0]))
			return
		case recvIsValue && g.Name() == "Interface":
			out := locset{}
			for l := range st.get(args[0]) {
				l = untag(l)
				out.add("%" + l)
				deep := rootOf(l) + "~"
				out.add("%" + deep)
				for d := range st.deref(deep) {
					out.add("%" + untag(d))
				}
			}
			st.setResult(res, 0, nres, out)
			return
		case recvIsValue && reflectSet[g.Name()]:
			targets := st.get(args[0])
			for l := range targets {
				if externalLoc(l) {
					st.mod(l, "reflect."+g.Name(), c, "", funcName(st.fn), c.Pos(), st.h.p.describe(c), "reflect.Value")
				}
			}
			if len(args) > 1 && holdsRefs(args[1].Type()) {
				for d := range targets {
					st.addPts(rootOf(d)+"~", st.get(args[1]))
				}
			}
			return
		}
	}

	switch name {
	case "encoding/json.Unmarshal":
		// writes the pointee of v; nested references become fresh memory
		if len(args) >= 2 {
			targets := st.get(args[1])
			op := st.freshOpaque(c, 9)
			for l := range targets {
				if externalLoc(l) {
					st.mod(l, "unmarshal", c, "", funcName(st.fn), c.Pos(), st.h.p.describe(c), typeStr(args[1].Type()))
				}
				if l[0] == 'U' {
					continue
				}
				for o := range op {
					st.addCopy(l, o)
					st.addPts(l, locset{o: true})
				}
			}
		}
		freshResults()
		return
	}
	if why, ok := inPlaceSorters[name]; ok {
		_ = why
		if len(args) >= 1 {
			for l := range elemOf(st.get(args[0])) {
				if externalLoc(l) {
					st.mod(l, "sort", c, "", funcName(st.fn), c.Pos(), st.h.p.describe(c), sortedType(args[0]))
				}
			}
		}
		return
	}
	if name == "sort.Sort" || name == "sort.Stable" {
		// writes happen through the Swap callback, which is a target-package
		// callee of this call and is instantiated from its own summary
		return
	}
	if _, ok := pureFuncs[name]; ok {
		freshResults()
		return
	}
	if _, ok := purePkgs[pkg]; ok {
		freshResults()
		return
	}
	// unknown external: if it receives references, assume it may write them
	st.h.Unmodelled[name]++
	for _, a := range args {
		if holdsRefs(a.Type()) {
			for l := range st.get(a) {
				if externalLoc(l) {
					st.mod(l, "external:"+name, c, "", funcName(st.fn), c.Pos(), st.h.p.describe(c), typeStr(a.Type()))
					st.mod(rootOf(l)+"~", "external:"+name, c, "", funcName(st.fn), c.Pos(), st.h.p.describe(c), typeStr(a.Type()))
				}
			}
		}
	}
	for i := 0; i < nres; i++ {
		if t := resType(i); t != nil && holdsRefs(t) {
			out := st.freshOpaque(c, i)
			for _, a := range args {
				if holdsRefs(a.Type()) {
					out.addAll(st.get(a))
				}
			}
			st.setResult(res, i, nres, out)
		}
	}
}

// invokeExternal: an interface method with no implementation in the target
// package (reflect.Type, error, io.Reader…): results are opaque.
func (st *fnState) invokeExternal(c ssa.CallInstruction, args []ssa.Value, res ssa.Value, nres int) {
	cc := c.Common()
	sig := cc.Signature()
	for i := 0; i < nres; i++ {
		if sig.Results() != nil && i < sig.Results().Len() && holdsRefs(sig.Results().At(i).Type()) {
			st.setResult(res, i, nres, st.freshOpaque(c, i))
		}
	}
}

func sortedType(a ssa.Value) string {
	if mi, ok := a.(*ssa.MakeInterface); ok {
		return typeStr(mi.X.Type())
	}
	return typeStr(a.Type())
}
