package main

import (
	"go/token"
	"go/types"

	"golang.org/x/tools/go/ssa"
)

func init() { register("C05", checkC05) }

var e5 = []string{"UnmarshalDocument", "UnmarshalResource", "UnmarshalPartialResource", "UnmarshalCollection",
	"UnmarshalIdentifier", "UnmarshalIdentifiers", "NewRequest"}

// wrapperDelegation: explicit panics of the Wrapper's reflection plumbing are
// API-misuse panics; for values produced by the library they are unreachable
// given BuildType/Check (C20) and the kind table (C01).
var wrapperSitesDelegated = map[string]string{
	"Wrap":                "the reflection plumbing of Wrap is decided by C20 (precondition coverage by Check)",
	"(*Wrapper).getField": "decided by C20",
	"(*Wrapper).setField": "decided by C20",
}

var wrapperDelegation = map[string]string{
	"Wrap":                "documented refusal of values that are not (pointers to) structs accepted by Check; types with a NewFunc come from BuildType (A1), which ran Check on the same struct type (C20 decides that Check covers Wrap's preconditions)",
	"(*Wrapper).getField": "key is the name of an attribute/relationship of the wrapper's own type (non-empty and present: C20's precondition-coverage rule on Check)",
	"(*Wrapper).setField": "key is a field name of the type and the value has the Go type the kind table assigns (R1 unmarshal-type table); C20 decides that Check covers the rest",
}

func checkC05(p *Prog, r *Report) {
	r.rule("C05.id-field: Wrapper.SetID stores through FieldByName(\"ID\") of the wrapped value (the field Check validates by its Go name) and GetID reads the ID from the wrapped value on every call; the Wrapper keeps no ID of its own")
	checkWrapperID(p, r, "C05")
	r.rule("C05.type-lookup: Schema.GetType / HasType find a type by one exact equality test between a type's Name and the requested name and call nothing else (the comparison AddType uses to keep names unique)")
	checkTypeLookup(p, r, "C05")
	r.rule(r3RuleText)
	r.rule("R4a error discipline: every call in the reachable functions whose callee returns an error has that error compared with nil, returned, wrapped or passed on; listed exceptions carry a reason")
	r.rule("R4b result/error exclusivity: each return of the seven entry points is (value, nil), (nothing, non-nil error) or a callee's pair passed through")
	r.rule("C05.type-exists: every successful return of UnmarshalResource / UnmarshalPartialResource / UnmarshalIdentifier lies behind a branch that established that the payload's type is in the schema (Type.Name != \"\" on the GetType result, or HasType)")
	r.rule("R1 unmarshal-type table: for each of the 28 (kind, nullable) scenarios, scenario evaluation of Attr.UnmarshalToType shows that every successful return boxes exactly the Go type GetZeroValue defines for it")
	r.rule("C05.rel-typing: the value passed to Set for a relationship is a string under rel.ToOne and a []string otherwise")
	r.assume("A1: a schema Type with a non-nil NewFunc was produced by BuildType (the only store to Type.NewFunc in the package is checked to be in BuildType)")
	r.assume("A2: distinct supported Go field types have distinct reflect.Type.String()")
	r.assume("encoding/json, io and net/url return errors instead of panicking on malformed input (standard-library contract); stack/memory exhaustion on deeply nested input is not considered")
	r.notCovered("panics inside the standard library; resource exhaustion")
	r.notCovered("value-level correctness of decoded values (C06) and reflect semantics inside the Wrapper (delegated to C20)")
	r.notCovered("pointer fields loaded from memory (constructor invariants) are not nil-checked by R3")

	runR3(p, r, r3opts{entries: e5, explicit: wrapperDelegation, delegate: wrapperSitesDelegated, assumeGet: true, getNilImpl: implReturningNilIface(p), floorSites: 170, floorFns: 45})

	// A1: who stores Type.NewFunc
	nStores := 0
	for _, f := range p.Funcs {
		eachInstr(f, func(ins ssa.Instruction) {
			st, ok := ins.(*ssa.Store)
			if !ok {
				return
			}
			fa, ok := st.Addr.(*ssa.FieldAddr)
			if !ok {
				return
			}
			if o, n := fieldRef(fa.X, fa.Field); o == "Type" && n == "NewFunc" {
				nStores++
				okStore := funcName(f) == "BuildType" || funcName(f) == "(Type).Copy"
				if funcName(f) == "(Type).Equal" && isNilConst(st.Val) {
					okStore = true
				}
				r.decide(okStore, "C05.A1", "store Type.NewFunc in "+funcName(f), p.pos(st.Pos()),
					"NewFunc is only set by BuildType (and copied by Type.Copy)", "Type.NewFunc is assigned outside BuildType: assumption A1 (typed NewFuncs come from BuildType) no longer holds")
			}
		})
	}
	r.floor("stores to Type.NewFunc", nStores, 1)

	// R4
	var roots []*ssa.Function
	for _, e := range e5 {
		if f := p.Fn(e); f != nil {
			roots = append(roots, f)
		}
	}
	var scope []*ssa.Function
	for _, f := range p.cg.Reachable(roots...) {
		if _, skip := wrapperDelegation[funcName(f)]; skip {
			continue
		}
		scope = append(scope, f)
	}
	nErr := checkErrDrops(p, r, scope, []errException{
		{"UnmarshalPartialResource", "(*Type).AddAttr", "the attribute is the schema type's own definition (valid kind, non-empty name) and each map key occurs once, so AddAttr cannot fail (C13 checks the argument's provenance)"},
		{"UnmarshalPartialResource", "(*Type).AddRel", "the relationship is the schema type's own definition and each map key occurs once, so AddRel cannot fail (C13 checks the argument's provenance)"},
		{"(*Filter).UnmarshalJSON", "encoding/json.Unmarshal", "the raw value was already validated by the enclosing Unmarshal and the target is an empty interface"},
		{"(Link).MarshalJSON", "encoding/json.Marshal", "a string always encodes"},
		{"(Error).Error", "strconv.Atoi", "a non-numeric status yields 0, for which http.StatusText is empty; the next test handles it"},
	})
	r.floor("R4a error-returning calls", nErr, 20)
	nRet := 0
	for _, f := range roots {
		nRet += checkReturnExclusive(p, r, f)
	}
	r.floor("R4b returns", nRet, 25)

	// type existence
	for _, name := range []string{"UnmarshalResource", "UnmarshalPartialResource", "UnmarshalIdentifier"} {
		f := p.Fn(name)
		if f == nil {
			continue
		}
		checkTypeExists(p, r, f)
	}

	// the schema handed down by the entry points is the caller's own
	r.rule("C05.schema-threaded: every call in the reachable functions to a package function with a *Schema parameter passes a schema that is never the nil constant on any incoming edge (the nil schema is the identifier decoder's no-validation mode)")
	nSch := 0
	isSchemaPtr := func(t types.Type) bool {
		pt, ok := t.(*types.Pointer)
		return ok && structName(pt.Elem()) == "Schema"
	}
	for _, f := range scope {
		eachInstr(f, func(ins ssa.Instruction) {
			c, ok := ins.(ssa.CallInstruction)
			if !ok {
				return
			}
			g := c.Common().StaticCallee()
			if g == nil || g.Pkg != f.Pkg || c.Common().IsInvoke() {
				return
			}
			for _, a := range c.Common().Args {
				if !isSchemaPtr(a.Type()) {
					continue
				}
				nSch++
				good := true
				for _, o := range origins(a) {
					if isNilConst(o) {
						good = false
					}
				}
				r.decide(good, "C05.schema-threaded", funcName(f)+":"+p.describe(c.(ssa.Instruction)), p.pos(c.Pos()), "the schema argument is never nil by construction",
					"a nil schema reaches "+funcName(g)+" on some path: the type lookup is skipped and a type that is not in the schema is accepted")
			}
		})
	}
	r.floor("schema arguments threaded", nSch, 6)

	// R1
	kt := buildKindTable(p, r)
	kt.checkUnmarshalTypes(r)

	// relationship typing
	for _, name := range []string{"UnmarshalResource", "UnmarshalPartialResource"} {
		if f := p.Fn(name); f != nil {
			checkRelSetTyping(p, r, f)
		}
	}
}

// checkTypeExists: each return with a nil error is only reachable through an
// edge that establishes the existence of the payload's type.
func checkTypeExists(p *Prog, r *Report, f *ssa.Function) {
	okEdge := func(cond ssa.Value, truth bool) bool {
		for _, ef := range expandFacts([]edgeFact{{Cond: cond, Truth: truth}}) {
			switch c := ef.Cond.(type) {
			case *ssa.BinOp:
				// <GetType result>.Name != ""
				for _, pr := range [][2]ssa.Value{{c.X, c.Y}, {c.Y, c.X}} {
					if s, ok := constString(pr[1]); ok && s == "" && (c.Op == token.EQL || c.Op == token.NEQ) {
						if isNameOfGetType(pr[0]) && (c.Op == token.NEQ) == ef.Truth {
							return true
						}
					}
					// schema == nil: documented "no validation" mode
					if isNilConst(pr[1]) && (c.Op == token.EQL) == ef.Truth {
						if prm, ok := pr[0].(*ssa.Parameter); ok {
							if pt, ok := prm.Type().(*types.Pointer); ok && structName(pt.Elem()) == "Schema" {
								return true
							}
						}
					}
				}
			case *ssa.Call:
				if sc := c.Common().StaticCallee(); sc != nil && funcName(sc) == "(*Schema).HasType" && ef.Truth {
					return true
				}
			}
		}
		return false
	}
	n := 0
	eachInstr(f, func(ins ssa.Instruction) {
		ret, ok := ins.(*ssa.Return)
		if !ok || len(ret.Results) != 2 || !isNilConst(ret.Results[1]) {
			return
		}
		n++
		r.decide(mustPassEdge(f, ret.Block(), throughValidators(okEdge)), "C05.type-exists", funcName(f)+":"+p.describe(ret), p.pos(ret.Pos()),
			"every path to this successful return established that the type exists",
			"a successful return of "+funcName(f)+" is reachable without any test that the payload's type exists in the schema: an unknown type is accepted and comes back with a zero Type")
	})
	r.floor(funcName(f)+" successful returns", n, 1)
}

// isNameOfGetType: v reads field Name of a struct returned by Schema.GetType.
func isNameOfGetType(v ssa.Value) bool {
	base, f, ok := fieldLoad(v)
	if !ok || f != "Name" {
		return false
	}
	var fromGetType func(x ssa.Value) bool
	fromGetType = func(x ssa.Value) bool {
		// a result of a decode helper whose successful returns hand out the
		// GetType result at that position
		if ex, isEx := x.(*ssa.Extract); isEx {
			if hc, isCall := ex.Tuple.(*ssa.Call); isCall {
				if g := hc.Common().StaticCallee(); g != nil && g.Blocks != nil && smallHelper(g) {
					n := 0
					for _, b := range g.Blocks {
						ret, ok := b.Instrs[len(b.Instrs)-1].(*ssa.Return)
						if !ok || len(ret.Results) <= ex.Index {
							continue
						}
						if last := ret.Results[len(ret.Results)-1]; isErrorType(last.Type()) && !isNilConst(last) {
							continue
						}
						n++
						rv := ret.Results[ex.Index]
						if ld, ok := rv.(*ssa.UnOp); ok && ld.Op == token.MUL {
							if al, ok := ld.X.(*ssa.Alloc); ok {
								if sv := singleStore(al); sv != nil {
									rv = sv
								}
							}
						}
						if !fromGetType(rv) {
							return false
						}
					}
					return n > 0
				}
			}
		}
		c, _ := callOf(x)
		if c == nil {
			return false
		}
		sc := c.Common().StaticCallee()
		return sc != nil && funcName(sc) == "(*Schema).GetType"
	}
	if fromGetType(base) {
		return true
	}
	if al, ok := base.(*ssa.Alloc); ok {
		for _, ref := range referrers(al) {
			if st, ok := ref.(*ssa.Store); ok && st.Addr == ssa.Value(al) && fromGetType(st.Val) {
				return true
			}
		}
	}
	return false
}

// checkRelSetTyping: res.Set(rel.FromName, v): v is string on the ToOne edge,
// []string on the other.
func checkRelSetTyping(p *Prog, r *Report, f *ssa.Function) {
	n := 0
	eachInstr(f, func(ins ssa.Instruction) {
		c, ok := ins.(*ssa.Call)
		if !ok {
			return
		}
		name := ""
		var args []ssa.Value
		if c.Common().IsInvoke() {
			name = c.Common().Method.Name()
			args = c.Common().Args
		} else if sc := c.Common().StaticCallee(); sc != nil && sc.Signature.Recv() != nil {
			name = sc.Name()
			args = c.Common().Args[1:]
		}
		if name != "Set" || len(args) != 2 {
			return
		}
		_, fld, ok := fieldLoad(args[0])
		if !ok || fld != "FromName" {
			return
		}
		n++
		if phi, isPhi := args[1].(*ssa.Phi); isPhi {
			// one Set after the cardinality branches: each incoming value is
			// judged under the outcome that holds on its edge
			good, ne := true, 0
			detail := ""
			for k, e := range phi.Edges {
				emi, ok := e.(*ssa.MakeInterface)
				if !ok {
					good = false
					continue
				}
				ne++
				pred := phi.Block().Preds[k]
				facts := factsAt(pred)
				if ifi, ok := pred.Instrs[len(pred.Instrs)-1].(*ssa.If); ok && pred.Succs[0] != pred.Succs[1] {
					facts = append(facts, edgeFact{Cond: ifi.Cond, Truth: pred.Succs[0] == phi.Block(), From: pred})
				}
				one := 0
				for _, ef := range expandFacts(facts) {
					if _, fl, ok := fieldLoad(ef.Cond); ok && fl == "ToOne" {
						if ef.Truth {
							one = 1
						} else {
							one = -1
						}
					}
				}
				ts := fmtTypeString(emi.X.Type())
				if !((one == 1 && ts == "string") || (one == -1 && ts == "[]string")) {
					good = false
					detail = ts
				}
			}
			n += ne - 1
			r.decide(good && ne >= 2, "C05.rel-typing", funcName(f)+":"+p.describe(c), p.pos(c.Pos()), "the merged value is a string on the to-one edge and a []string on the other",
				"a relationship is set to a "+detail+" on the wrong cardinality branch (to-one must hold a string, to-many a []string)")
			return
		}
		mi, ok := args[1].(*ssa.MakeInterface)
		if !ok {
			// the value may come from a decode helper h(data, rel.ToOne): then h
			// returns a string on its toOne branch and a []string on the other
			if ex, isEx := args[1].(*ssa.Extract); isEx && ex.Index == 0 {
				if hc, isCall := ex.Tuple.(*ssa.Call); isCall {
					if g := hc.Common().StaticCallee(); g != nil && smallHelper(g) {
						pi := -1
						for i, a := range hc.Common().Args {
							if _, fl, ok := fieldLoad(a); ok && fl == "ToOne" && i < len(g.Params) {
								pi = i
							}
						}
						good, nret := pi >= 0, 0
						if pi >= 0 {
							for _, b := range g.Blocks {
								ret, ok := b.Instrs[len(b.Instrs)-1].(*ssa.Return)
								if !ok || len(ret.Results) == 0 {
									continue
								}
								nret++
								rmi, ok := ret.Results[0].(*ssa.MakeInterface)
								if !ok {
									good = false
									continue
								}
								one := 0
								for _, ef := range expandFacts(factsAt(b)) {
									if ef.Cond == ssa.Value(g.Params[pi]) {
										if ef.Truth {
											one = 1
										} else {
											one = -1
										}
									}
								}
								ts := fmtTypeString(rmi.X.Type())
								if !((one == 1 && ts == "string") || (one == -1 && ts == "[]string")) {
									good = false
								}
							}
						}
						n++ // the helper stands for both branches
						r.decide(good && nret >= 2, "C05.rel-typing", funcName(f)+":"+p.describe(c), p.pos(c.Pos()), "the decode helper returns a string under toOne and a []string otherwise",
							"the value comes from a helper that does not return a string on its to-one branch and a []string on the other")
						return
					}
				}
			}
			r.bad("C05.rel-typing", funcName(f)+":"+p.describe(c), p.pos(c.Pos()), "relationship value of unknown static type")
			return
		}
		toOne := 0 // 1 true edge, -1 false edge
		for _, ef := range expandFacts(factsAt(c.Block())) {
			if _, fl, ok := fieldLoad(ef.Cond); ok && fl == "ToOne" {
				if ef.Truth {
					toOne = 1
				} else {
					toOne = -1
				}
			}
		}
		ts := fmtTypeString(mi.X.Type())
		good := (toOne == 1 && ts == "string") || (toOne == -1 && ts == "[]string")
		r.decide(good, "C05.rel-typing", funcName(f)+":"+p.describe(c), p.pos(c.Pos()), "stores a "+ts+" on the matching cardinality branch",
			"a relationship is set to a "+ts+" on the wrong cardinality branch (to-one must hold a string, to-many a []string)")
	})
	r.floor(funcName(f)+" relationship Set calls", n, 2)
}
