package main

import (
	"fmt"
	"go/token"
	"go/types"
	"regexp"
	"sort"
	"strings"

	"golang.org/x/tools/go/ssa"
)

func init() { register("C13", checkC13) }

// A labelledPath is one complete path of an unmarshal function: the questions
// it asked (in order, with the answers taken), how it ended, and the calls it
// made on the resource being built.
type labelledPath struct {
	decisions []string          // "q=true" in order
	answer    map[string]string // question -> answer (last one wins is avoided: iteration-indexed)
	outcome   string            // "ok" | "error:<constructor>"
	effects   []string          // canonical Set / AddAttr / AddRel / sort calls in order
	notes     []string
}

var iterRe = regexp.MustCompile(`@\d+r(\d+)#\d`)
var regRe = regexp.MustCompile(`\bt\d+\b`)

// canon strips SSA register numbers that may differ between two functions.
var derefFieldRe = regexp.MustCompile(`\*&+([A-Za-z_][A-Za-z0-9_]*)\.`)

func canon(s string) string {
	s = derefFieldRe.ReplaceAllString(s, "$1.")
	s = iterRe.ReplaceAllString(s, "@$1")
	s = regRe.ReplaceAllString(s, "t")
	return s
}

// unmarshalQuestion names the question a non-folding branch asks.
func unmarshalQuestion(cond string) string {
	c := cond
	it := ""
	if m := iterRe.FindStringSubmatch(c); m != nil {
		it = "#" + m[1]
	}
	switch {
	case strings.Contains(c, "UnmarshalToType"):
		return "attr-decode-error" + it
	case strings.Contains(c, "encoding/json.Unmarshal(data"):
		return "skeleton-error"
	case strings.Contains(c, "encoding/json.Unmarshal(") && strings.Contains(c, ".Data"):
		return "linkage-decode-error" + it
	case strings.Contains(c, "typ.Name") || strings.Contains(c, "GETTYPE.Name"):
		return "type-missing"
	case strings.Contains(c, "len(") && strings.Contains(c, ".Data"):
		if strings.Contains(c, "== 0") || strings.Contains(c, "<= 0") || strings.Contains(c, "< 1") {
			return "!rel-has-data" + it // the negated question: the answer is inverted when read
		}
		return "rel-has-data" + it
	case strings.Contains(c, ".ToOne"):
		return "rel-to-one" + it
	case strings.Contains(c, "Lookup") && strings.Contains(c, ".Attrs"):
		return "attr-known" + it
	case strings.Contains(c, "Lookup") && strings.Contains(c, ".Rels"):
		return "rel-known" + it
	case strings.Contains(c, "NEXT-OK") && strings.Contains(c, ".Attributes"):
		return "more-attributes" + it
	case strings.Contains(c, "NEXT-OK") && strings.Contains(c, ".Relationships"):
		return "more-relationships" + it
	case strings.Contains(c, "MetaHolder"):
		return "is-meta-holder"
	case strings.Contains(c, "len(") || strings.Contains(c, " < "):
		return "loop:" + canon(c)
	}
	return "other:" + canon(c)
}

func explorePaths(p *Prog, f *ssa.Function) []labelledPath {
	in := &interp{p: p, f: f, maxPaths: 20000, maxVisit: 2, structuralNames: true, inline: func(g *ssa.Function) bool { return smallHelper(g) || funcName(g) == "(Identifiers).IDs" }}
	in.callHook = func(st *istate, c *ssa.Call, args []*aval) *aval {
		cc := c.Common()
		sc := cc.StaticCallee()
		name := ""
		if sc != nil {
			name = funcName(sc)
		} else if cc.IsInvoke() {
			name = "Resource." + cc.Method.Name()
		}
		switch name {
		case "(*Schema).GetType":
			return structVal(map[string]*aval{"Name": symv("GETTYPE.Name", nil), "Attrs": symv("typ.Attrs", nil), "Rels": symv("typ.Rels", nil), "NewFunc": symv("typ.NewFunc", nil)})
		case "Resource.Set", "(*SoftResource).Set", "(*Type).AddAttr", "(*Type).AddRel", "(*Type).New", "Resource.SetMeta":
			parts := []string{}
			for i, a := range args {
				if i == 0 && !cc.IsInvoke() {
					continue // receiver
				}
				parts = append(parts, canon(a.String()))
			}
			short := name[strings.LastIndex(name, ".")+1:]
			st.notes = append(st.notes, "effect:"+short+"("+strings.Join(parts, ", ")+")")
		}
		if sc != nil && sc.Pkg != nil && sc.Pkg.Pkg.Path() == "sort" {
			parts := []string{}
			for _, a := range args {
				parts = append(parts, canon(a.String()))
			}
			st.notes = append(st.notes, "effect:"+fullName(sc)+"("+strings.Join(parts, ", ")+")")
		}
		return nil
	}
	in.nextHook = func(st *istate, nx *ssa.Next, op *aval, k int) *aval {
		return symv(fmt.Sprintf("NEXT-OK(%s)@0r%d#0", op.String(), k), nil)
	}
	in.forkHook = func(st *istate, cond *aval, ifi *ssa.If) string {
		return unmarshalQuestion(cond.String())
	}
	params := map[*ssa.Parameter]*aval{}
	for _, prm := range f.Params {
		params[prm] = symv(prm.Name(), prm.Type())
	}
	outs := in.run(params)
	var paths []labelledPath
	for _, o := range outs {
		if o.loop || o.panics || o.ret == nil {
			continue
		}
		lp := labelledPath{answer: map[string]string{}}
		for _, n := range o.notes {
			switch {
			case strings.HasPrefix(n, "effect:"):
				lp.effects = append(lp.effects, strings.TrimPrefix(n, "effect:"))
			case strings.Contains(n, "="):
				lp.decisions = append(lp.decisions, n)
				i := strings.LastIndex(n, "=")
				q, v := n[:i], n[i+1:]
				if strings.HasPrefix(q, "!") {
					q = q[1:]
					switch v {
					case "true":
						v = "false"
					case "false":
						v = "true"
					}
				}
				lp.answer[q] = v
			}
		}
		// outcome
		e := o.results[len(o.results)-1]
		switch {
		case e.k == aNil:
			lp.outcome = "ok"
		default:
			s := e.String()
			if i := strings.Index(s, "("); i > 0 {
				s = s[:i]
			}
			// an error built by a local closure (or package helper) that only
			// calls one constructor is that constructor's error
			for _, af := range f.AnonFuncs {
				if af.Name() != s {
					continue
				}
				ctor, same := "", true
				eachInstr(af, func(ins ssa.Instruction) {
					ret, ok := ins.(*ssa.Return)
					if !ok || len(ret.Results) != 1 {
						return
					}
					v := ret.Results[0]
					if mi, ok := v.(*ssa.MakeInterface); ok {
						v = mi.X
					}
					c, _ := callOf(v)
					if c == nil || c.Common().StaticCallee() == nil {
						same = false
						return
					}
					n := c.Common().StaticCallee().Name()
					if ctor == "" {
						ctor = n
					} else if ctor != n {
						same = false
					}
				})
				if same && ctor != "" {
					s = ctor
				}
			}
			lp.outcome = "error:" + canon(s)
		}
		paths = append(paths, lp)
	}
	return paths
}

func compatible(a, b labelledPath) bool {
	for q, v := range a.answer {
		if w, ok := b.answer[q]; ok && w != v {
			return false
		}
	}
	return true
}

func checkC13(p *Prog, r *Report) {
	r.rule("C13.type-lookup: Schema.GetType / HasType find a type by one exact equality test between a type's Name and the requested name and call nothing else (the comparison AddType uses to keep names unique)")
	checkTypeLookup(p, r, "C13")
	r.rule("C13.err-stops (R4.err-stops, shared with C06): in both functions the error case of every decoder call (json.Unmarshal, UnmarshalToType) cannot reach a successful return (the same slip made in both functions - an error examined only to skip a statement - leaves accept-agreement satisfied)")
	for _, name := range []string{"UnmarshalResource", "UnmarshalPartialResource"} {
		if ef := p.Fn(name); ef != nil {
			checkErrStops(p, r, ef, "C13.err-stops")
		}
	}
	r.rule("C13.accept-agreement (labelled path comparison): every complete path of UnmarshalPartialResource and of UnmarshalResource is explored with loops unrolled once and each non-folding branch named by the question it asks (skeleton decode error, type missing, attribute known, attribute decode error, relationship known, relationship has data, to-one, linkage decode error); two paths, one of each function, whose answers do not contradict each other must end the same way (success, or an error built by the same constructor)")
	r.rule("C13.same-values: on non-contradicting successful paths the two functions perform the same Set calls (same field name term, same value term) and no additional call reorders or rewrites a value (e.g. a sort) in only one of them")
	r.rule("C13.presence: in the partial function AddAttr is called only with the schema type's own attribute found for the payload key, AddRel only with the schema type's own relationship and only on paths that answered 'relationship has data' with yes for that relationship; the new type gets its name from the schema type and nothing else from it")
	r.rule("C13.fresh-linkage / C13.plumbing (shared with C01/C06): in both functions the variables a relationship's linkage is decoded into are declared inside the loop over the relationships, and the values handed to Set are the decoded ones")
	r.rule("C13.impl.* (imported from C17): SoftResource.Set and Wrapper.setField store exactly the value they are given and Get returns it as stored, so the value a partial resource reports for a field is the one the full resource holds")
	r.rule("R4a: the discarded errors of AddAttr/AddRel are justified by C13.presence (arguments are the schema's own definitions, map keys are unique)")
	r.assume("both functions decode with encoding/json into the same skeleton type; decode calls with the same argument terms yield the same values")
	r.notCovered("value equality with full unmarshaling beyond the shared decode calls (C06 decides the decoders)")

	r.rule("C13.add-cannot-fail: every error return of Type.AddAttr / Type.AddRel is guarded only by tests of an empty name, an empty target type, an invalid kind or a name already taken (the reasons a schema's own definition added once per key cannot meet); UnmarshalPartialResource discards these errors")
	checkAddCannotFail(p, r)
	full, part := p.Fn("UnmarshalResource"), p.Fn("UnmarshalPartialResource")
	if full == nil || part == nil {
		r.fail("anchors UnmarshalResource / UnmarshalPartialResource not found")
		return
	}
	r.fn(funcName(full))
	r.fn(funcName(part))
	// the plumbing both functions share (fresh linkage variables per relationship,
	// values passed to Set as decoded): a field reported by the partial function
	// must carry the value full unmarshaling gives it, which presupposes that
	// neither lets one relationship's linkage leak into the next
	checkUnmarshalPlumbing(p, r, "C13")
	// the partial function stores into a SoftResource, the full one into the
	// type's own implementation: both must keep the value they are given as is
	nImp := r.importRules(func(r2 *Report) { checkSoftGetSet(p, r2); checkWrapperGetSet(p, r2) }, "C13.impl", "C17.set-stores-given", "C17.get-returns-stored")
	r.floor("imported Get/Set obligations", nImp, 4)
	fp, pp := explorePaths(p, full), explorePaths(p, part)
	r.floor("complete paths of UnmarshalResource", len(fp), 20)
	r.floor("complete paths of UnmarshalPartialResource", len(pp), 20)
	r.count("path_pairs_compared", len(fp)*len(pp))

	// accept agreement + same values
	type mismatch struct{ what, detail string }
	found := map[string]mismatch{}
	nCompat := 0
	for _, a := range fp {
		for _, b := range pp {
			if !compatible(a, b) {
				continue
			}
			nCompat++
			if a.outcome != b.outcome {
				k := "outcome:" + a.outcome + " vs " + b.outcome
				if _, ok := found[k]; !ok {
					found[k] = mismatch{"C13.accept-agreement", fmt.Sprintf("with answers %v full unmarshaling ends with %s, but with answers %v partial unmarshaling ends with %s", a.decisions, a.outcome, b.decisions, b.outcome)}
				}
				continue
			}
			if a.outcome != "ok" {
				continue
			}
			// same values: the Set calls (and value-rewriting calls) must agree
			fa := filterEffects(a.effects, "Set(", "sort.")
			fb := filterEffects(b.effects, "Set(", "sort.")
			// partial sets the id through the literal, full through Set("id", …): ignore that one
			fa = dropPrefix(fa, `Set("id"`)
			if strings.Join(fa, ";") != strings.Join(fb, ";") && sameQuestions(a, b) {
				k := "values:" + strings.Join(fa, ";") + " vs " + strings.Join(fb, ";")
				if _, ok := found[k]; !ok {
					found[k] = mismatch{"C13.same-values", fmt.Sprintf("on the same answers %v full unmarshaling performs %v and partial unmarshaling %v", a.decisions, fa, fb)}
				}
			}
		}
	}
	r.floor("compatible path pairs", nCompat, 20)
	if len(found) == 0 {
		r.ok("C13.accept-agreement", "UnmarshalResource~UnmarshalPartialResource", p.pos(part.Pos()), fmt.Sprintf("%d compatible path pairs end the same way", nCompat))
		r.ok("C13.same-values", "UnmarshalResource~UnmarshalPartialResource", p.pos(part.Pos()), "same Set calls on every pair of successful paths with the same answers")
	}
	var keys []string
	for k := range found {
		keys = append(keys, k)
	}
	sort.Strings(keys)
	for i, k := range keys {
		if i >= 6 {
			break
		}
		r.bad(found[k].what, shorten(k), p.pos(part.Pos()), found[k].detail)
	}

	// presence
	nAdd := 0
	for _, b := range pp {
		for i, e := range b.effects {
			switch {
			case strings.HasPrefix(e, "AddRel("):
				nAdd++
				// the decisions taken before this effect: reconstruct from notes order is lost; use the answer for the iteration named in the argument
				it := ""
				if m := regexp.MustCompile(`@(\d+)`).FindStringSubmatch(e); m != nil {
					it = "#" + m[1]
				}
				ok := b.answer["rel-has-data"+it] == "true" && b.answer["rel-known"+it] == "true"
				if !ok {
					r.bad("C13.presence", "AddRel-without-data", p.pos(part.Pos()), fmt.Sprintf("a path adds a relationship to the partial type (%s) although the payload's relationship object carried no data member (answers %v)", e, b.decisions))
					return
				}
				if !strings.Contains(e, "Lookup") || !strings.Contains(e, "typ.Rels") {
					r.bad("C13.presence", "AddRel-argument", p.pos(part.Pos()), "the relationship added to the partial type is not the schema type's own definition: "+e)
					return
				}
			case strings.HasPrefix(e, "AddAttr("):
				nAdd++
				it := ""
				if m := regexp.MustCompile(`@(\d+)`).FindStringSubmatch(e); m != nil {
					it = "#" + m[1]
				}
				if b.answer["attr-known"+it] != "true" {
					r.bad("C13.presence", "AddAttr-unknown", p.pos(part.Pos()), "an attribute is added to the partial type on a path where it was not found in the schema type: "+e)
					return
				}
				if !strings.Contains(e, "Lookup") || !strings.Contains(e, "typ.Attrs") {
					r.bad("C13.presence", "AddAttr-argument", p.pos(part.Pos()), "the attribute added to the partial type is not the schema type's own definition: "+e)
					return
				}
			}
			_ = i
		}
		// every successful path with has-data=true adds the relationship and sets it
		if b.outcome == "ok" {
			for q, v := range b.answer {
				if strings.HasPrefix(q, "rel-has-data") && v == "true" {
					it := strings.TrimPrefix(q, "rel-has-data")
					n := strings.TrimPrefix(it, "#")
					has := false
					for _, e := range b.effects {
						if strings.HasPrefix(e, "AddRel(") && strings.Contains(e, "@"+n) {
							has = true
						}
					}
					if !has {
						r.bad("C13.presence", "AddRel-missing", p.pos(part.Pos()), fmt.Sprintf("a successful path does not add a relationship whose object carried data (answers %v)", b.decisions))
						return
					}
				}
			}
		}
	}
	r.floor("AddAttr/AddRel effects on explored paths", nAdd, 4)
	r.ok("C13.presence", "UnmarshalPartialResource:adds", p.pos(part.Pos()), "AddAttr/AddRel occur only for fields found in the schema type, AddRel only when data is present, with the schema's own definitions")

	// the new type: Name from typ.Name, nothing else copied
	checkNewType(p, r, part)
}

func sameQuestions(a, b labelledPath) bool {
	sem := func(m map[string]string) map[string]bool {
		out := map[string]bool{}
		for q := range m {
			if strings.HasPrefix(q, "loop:") || strings.HasPrefix(q, "other:") || q == "is-meta-holder" {
				continue
			}
			out[q] = true
		}
		return out
	}
	sa, sb := sem(a.answer), sem(b.answer)
	if len(sa) != len(sb) {
		return false
	}
	for q := range sa {
		if !sb[q] {
			return false
		}
	}
	return true
}

func filterEffects(es []string, prefixes ...string) []string {
	var out []string
	for _, e := range es {
		for _, p := range prefixes {
			if strings.HasPrefix(e, p) {
				out = append(out, e)
			}
		}
	}
	return out
}

func dropPrefix(es []string, prefix string) []string {
	var out []string
	for _, e := range es {
		if !strings.HasPrefix(e, prefix) {
			out = append(out, e)
		}
	}
	return out
}

func checkNewType(p *Prog, r *Report, part *ssa.Function) {
	var nt *ssa.Alloc
	eachInstr(part, func(ins ssa.Instruction) {
		if al, ok := ins.(*ssa.Alloc); ok && structName(al.Type()) == "Type" && al.Comment == "newType" {
			nt = al
		}
	})
	if nt == nil {
		// any Type-typed local whose address is stored into the result's Type field
		eachInstr(part, func(ins ssa.Instruction) {
			st, ok := ins.(*ssa.Store)
			if !ok {
				return
			}
			if fa, ok := st.Addr.(*ssa.FieldAddr); ok {
				if o, f := fieldRef(fa.X, fa.Field); o == "SoftResource" && f == "Type" {
					if al, ok := st.Val.(*ssa.Alloc); ok {
						nt = al
					}
				}
			}
		})
	}
	if nt == nil {
		r.bad("C13.presence", "new-type", p.pos(part.Pos()), "the partial resource is not given a fresh Type local to the function")
		return
	}
	whole := false
	for _, ref := range referrers(nt) {
		if st, ok := ref.(*ssa.Store); ok && st.Addr == ssa.Value(nt) {
			whole = true
		}
	}
	fs := fieldStores(nt)
	okName := false
	if v, ok := fs["Name"]; ok {
		if base, fl, ok := fieldLoad(v); ok && fl == "Name" && isNameOfGetType(v) {
			_ = base
			okName = true
		}
	}
	_, hasAttrs := fs["Attrs"]
	_, hasRels := fs["Rels"]
	r.decide(!whole && okName && !hasAttrs && !hasRels, "C13.presence", "new-type", p.pos(nt.Pos()),
		"the new type starts with the schema type's name and no fields",
		"the partial type is not built from scratch with only the schema type's name (it copies the whole type or its field maps): fields that are not in the payload are reported")
	_ = token.ADD
}

// checkAddCannotFail: UnmarshalPartialResource discards the errors of
// Type.AddAttr / Type.AddRel; that is sound only while those functions refuse
// nothing but an empty name, an empty target type, an invalid kind or a name
// that is already taken. Every branch outcome that guards one of their error
// returns must be one of those tests.
func checkAddCannotFail(p *Prog, r *Report) {
	n := 0
	for _, name := range []string{"(*Type).AddAttr", "(*Type).AddRel"} {
		f := p.Fn(name)
		if f == nil || len(f.Params) < 2 {
			r.bad("C13.add-cannot-fail", name+":missing", "", "anchor "+name+" not found")
			continue
		}
		arg := f.Params[1]
		// field of the argument (through the spill of a by-value parameter)
		argField := func(v ssa.Value) string {
			base, fl, ok := fieldLoad(v)
			if !ok {
				return ""
			}
			for _, o := range origins(base) {
				if o == ssa.Value(arg) {
					return fl
				}
				if al, ok := o.(*ssa.Alloc); ok {
					if sv := singleStore(al); sv == ssa.Value(arg) {
						return fl
					}
				}
				if ld, ok := o.(*ssa.UnOp); ok && ld.Op == token.MUL {
					if al, ok := ld.X.(*ssa.Alloc); ok && singleStore(al) == ssa.Value(arg) {
						return fl
					}
				}
			}
			return ""
		}
		nameField := map[string]bool{"Name": true, "FromName": true}
		emptyOK := map[string]bool{"Name": true, "FromName": true, "ToType": true}
		recognised := func(ef edgeFact) (bool, string) {
			switch c := ef.Cond.(type) {
			case *ssa.BinOp:
				if c.Op != token.EQL && c.Op != token.NEQ {
					return true, "" // ordering tests: loop bounds and the like
				}
				if _, isIface := c.X.Type().Underlying().(*types.Interface); isIface {
					return true, ""
				}
				if isNilConst(c.X) || isNilConst(c.Y) {
					return true, ""
				}
				for _, pr := range [][2]ssa.Value{{c.X, c.Y}, {c.Y, c.X}} {
					if s, ok := constString(pr[1]); ok && s == "" {
						if fl := argField(pr[0]); emptyOK[fl] {
							return true, ""
						}
						if hc, _ := callOf(pr[0]); hc != nil {
							if g := hc.Common().StaticCallee(); g != nil && g.Name() == "GetAttrTypeString" {
								return true, ""
							}
						}
						return false, "an emptiness test on something other than the name, the target type or the kind's spelling"
					}
				}
				fx, fy := argField(c.X), argField(c.Y)
				_, kx := c.X.(*ssa.Const)
				_, ky := c.Y.(*ssa.Const)
				if (fx != "" && ky) || (fy != "" && kx) {
					return false, "a comparison of the definition's field " + fx + fy + " with a fixed value"
				}
				switch {
				case fx != "" && fy != "":
					return false, "a comparison between two fields of the definition itself (" + fx + ", " + fy + ")"
				case nameField[fx] || nameField[fy]:
					return true, "" // the name against an existing entry
				case fx != "" || fy != "":
					return false, "a test of the definition's field " + fx + fy
				}
				if _, isStruct := c.X.Type().Underlying().(*types.Struct); isStruct {
					return false, "a comparison of whole definitions (every field, not the name)"
				}
				if bt, isB := c.X.Type().Underlying().(*types.Basic); isB && bt.Info()&types.IsString != 0 {
					for _, side := range []ssa.Value{c.X, c.Y} {
						if hc, _ := callOf(side); hc != nil && builtinName(hc.Common()) == "" {
							return false, "a comparison of computed strings (" + p.describe(hc) + "), not of the names as they are"
						}
					}
				}
				return true, ""
			case *ssa.Call:
				g := c.Common().StaticCallee()
				if g == nil || builtinName(c.Common()) != "" {
					return true, ""
				}
				if g.Pkg != f.Pkg {
					if g.Signature.Results().Len() == 1 {
						if bt, ok := g.Signature.Results().At(0).Type().Underlying().(*types.Basic); ok && bt.Kind() == types.Bool {
							return false, "a test by " + fullName(g) + " (not the exact comparison of names)"
						}
					}
					return true, ""
				}
				if sum := existsPredicate(g); sum != nil {
					if nameField[sum.elemField] {
						return true, ""
					}
					return false, "a search helper that does not compare names"
				}
				hasLoop := false
				for _, b := range g.Blocks {
					if naturalLoop(b) != nil {
						hasLoop = true
					}
				}
				if hasLoop {
					return false, "the search helper " + funcName(g) + ", which is not a plain scan comparing an existing name with the new one"
				}
				return true, "" // a loop-free predicate: its tests are judged one by one after expansion
			}
			return true, ""
		}
		for _, b := range f.Blocks {
			ret, ok := b.Instrs[len(b.Instrs)-1].(*ssa.Return)
			if !ok || len(ret.Results) != 1 || isNilConst(ret.Results[0]) {
				continue
			}
			n++
			good, why := true, ""
			for _, ef := range expandFacts(factsAt(b)) {
				if ok, w := recognised(ef); !ok {
					good, why = false, w
				}
			}
			r.decide(good, "C13.add-cannot-fail", funcName(f)+":"+p.describe(ret), p.pos(ret.Pos()), "refusal guarded only by empty-name / empty-type / invalid-kind / name-taken tests",
				funcName(f)+" refuses a definition on "+why+": a field definition taken from the schema type can be refused, and UnmarshalPartialResource discards that error, so the field is silently missing from the partial resource")
		}
	}
	r.floor("AddAttr/AddRel refusals", n, 5)
}
