package main

// Element-level invariant "every element of this []string is a non-empty
// string" (needed to discharge rule[0] on sorting rules, which are produced by
// parseCommaList and stored in SimpleURL.SortingRules).
//
// The invariant is established by a who-writes argument over the whole
// package: every value ever stored into the field (or appended to the local
// list) is an empty list, an append of proven non-empty elements, or the
// result of a function all of whose returned lists have the property.

import (
	"go/token"
	"go/types"

	"golang.org/x/tools/go/ssa"
)

type elemInvariant struct {
	p     *Prog
	fw    *fieldWrites
	memo  map[ssa.Value]int // 0 unknown, 1 in progress/true, 2 false
	fmemo map[string]int
	bfs   map[*ssa.Function]*boundsFn
	Used  map[string]bool // field invariants relied upon
}

func newElemInvariant(p *Prog) *elemInvariant {
	return &elemInvariant{p: p, fw: newFieldWrites(p), memo: map[ssa.Value]int{}, fmemo: map[string]int{}, bfs: map[*ssa.Function]*boundsFn{}, Used: map[string]bool{}}
}

func (ei *elemInvariant) bf(f *ssa.Function) *boundsFn {
	if b, ok := ei.bfs[f]; ok {
		return b
	}
	b := newBoundsFn(ei.p, ei.fw, f)
	ei.bfs[f] = b
	return b
}

// holds: the string value x (indexed at position 0 at instruction at) is an
// element of a list with the non-empty-elements property.
func (ei *elemInvariant) holds(x ssa.Value, at ssa.Instruction) bool {
	return ei.strNonEmpty(x, at.Parent(), at, 0)
}

func (ei *elemInvariant) strNonEmpty(x ssa.Value, f *ssa.Function, at ssa.Instruction, depth int) bool {
	if depth > 8 {
		return false
	}
	if s, ok := constString(x); ok {
		return s != ""
	}
	// a dominating fact
	if at != nil {
		bf := ei.bf(f)
		la, lo := bf.lenAtom(x)
		if bf.prove("0", 1, la, lo, at, nil) {
			return true
		}
	}
	switch v := x.(type) {
	case *ssa.Phi:
		for i, e := range v.Edges {
			pred := v.Block().Preds[i]
			if !ei.strNonEmpty(e, f, pred.Instrs[len(pred.Instrs)-1], depth+1) {
				return false
			}
		}
		return true
	case *ssa.UnOp:
		if v.Op != token.MUL {
			return false
		}
		if ia, ok := v.X.(*ssa.IndexAddr); ok {
			return ei.sliceElemsNonEmpty(ia.X, f, depth+1)
		}
	case *ssa.Index:
		return ei.sliceElemsNonEmpty(v.X, f, depth+1)
	case *ssa.Extract:
		// range over a string slice via Next is not produced for slices
	case *ssa.Parameter:
		// a parameter of an unexported function whose address is never taken:
		// every call site in the package passes a non-empty string
		g := v.Parent()
		if g == nil || !smallHelper(g) || g.Parent() != nil {
			return false
		}
		idx := -1
		for i, q := range g.Params {
			if q == v {
				idx = i
			}
		}
		if idx < 0 {
			return false
		}
		nSites := 0
		for _, caller := range ei.p.Funcs {
			okAll := true
			eachInstr(caller, func(ins ssa.Instruction) {
				// the function used as a value: unknown callers
				for _, op := range ins.Operands(nil) {
					if *op == ssa.Value(g) {
						if c, isCall := ins.(ssa.CallInstruction); !isCall || c.Common().Value != ssa.Value(g) {
							okAll = false
						}
					}
				}
				c, ok := ins.(*ssa.Call)
				if !ok || c.Common().StaticCallee() != g {
					return
				}
				nSites++
				if !ei.strNonEmpty(c.Common().Args[idx], caller, c, depth+1) {
					okAll = false
				}
			})
			if !okAll {
				return false
			}
		}
		return nSites > 0
	}
	return false
}

// sliceElemsNonEmpty: every element of slice value s is a non-empty string.
func (ei *elemInvariant) sliceElemsNonEmpty(s ssa.Value, f *ssa.Function, depth int) bool {
	if depth > 12 {
		return false
	}
	switch ei.memo[s] {
	case 1:
		return true // coinductive: cycles through appends to the same list
	case 2:
		return false
	}
	ei.memo[s] = 1
	ok := ei.sliceElemsNonEmpty1(s, f, depth)
	if ok {
		ei.memo[s] = 1
	} else {
		ei.memo[s] = 2
	}
	return ok
}

func (ei *elemInvariant) sliceElemsNonEmpty1(s ssa.Value, f *ssa.Function, depth int) bool {
	sl, ok := s.Type().Underlying().(*types.Slice)
	if !ok {
		return false
	}
	if bt, ok := sl.Elem().Underlying().(*types.Basic); !ok || bt.Info()&types.IsString == 0 {
		return false
	}
	switch v := s.(type) {
	case *ssa.Const:
		return v.Value == nil // nil slice
	case *ssa.Parameter:
		// a list parameter of an unexported helper: every call site passes such a list
		g := v.Parent()
		if g == nil || !smallHelper(g) || g.Parent() != nil {
			return false
		}
		idx := -1
		for i, q := range g.Params {
			if q == v {
				idx = i
			}
		}
		nSites := 0
		for _, caller := range ei.p.Funcs {
			okAll := true
			eachInstr(caller, func(ins ssa.Instruction) {
				for _, op := range ins.Operands(nil) {
					if *op == ssa.Value(g) {
						if c, isCall := ins.(ssa.CallInstruction); !isCall || c.Common().Value != ssa.Value(g) {
							okAll = false
						}
					}
				}
				c, ok := ins.(*ssa.Call)
				if !ok || c.Common().StaticCallee() != g || idx < 0 {
					return
				}
				nSites++
				if !ei.sliceElemsNonEmpty(c.Common().Args[idx], caller, depth+1) {
					okAll = false
				}
			})
			if !okAll {
				return false
			}
		}
		return nSites > 0
	case *ssa.MakeSlice:
		if c, ok := constInt(v.Len); ok && c == 0 {
			return true
		}
		return false
	case *ssa.Slice:
		// slice of a fresh zero-length array (empty literal) or of a list with the property
		if al, ok := v.X.(*ssa.Alloc); ok {
			if at, ok := deref(al.Type()).Underlying().(*types.Array); ok {
				if at.Len() == 0 {
					return true
				}
				// literal with elements: every stored element must be non-empty
				good := true
				for _, ref := range referrers(al) {
					if ia, ok := ref.(*ssa.IndexAddr); ok {
						for _, r2 := range referrers(ia) {
							if st, ok := r2.(*ssa.Store); ok && st.Addr == ssa.Value(ia) {
								if !ei.strNonEmpty(st.Val, f, st, depth+1) {
									good = false
								}
							}
						}
					}
				}
				return good
			}
		}
		return ei.sliceElemsNonEmpty(v.X, f, depth+1)
	case *ssa.Phi:
		for _, e := range v.Edges {
			if !ei.sliceElemsNonEmpty(e, f, depth+1) {
				return false
			}
		}
		return true
	case *ssa.ChangeType:
		return ei.sliceElemsNonEmpty(v.X, f, depth+1)
	case *ssa.Call:
		cc := v.Common()
		if b, ok := cc.Value.(*ssa.Builtin); ok && b.Name() == "append" {
			if !ei.sliceElemsNonEmpty(cc.Args[0], f, depth+1) {
				return false
			}
			if len(cc.Args) == 1 {
				return true
			}
			return ei.sliceElemsNonEmpty(cc.Args[1], f, depth+1)
		}
		// a target-package function: every returned list has the property
		callees := ei.p.cg.Callees(v)
		if len(callees) == 0 || len(ei.p.cg.Externals(v)) > 0 {
			return false
		}
		for _, g := range callees {
			good := true
			eachInstr(g, func(ins ssa.Instruction) {
				if r, ok := ins.(*ssa.Return); ok && len(r.Results) >= 1 {
					if !ei.sliceElemsNonEmpty(r.Results[0], g, depth+1) {
						good = false
					}
				}
			})
			if !good {
				return false
			}
		}
		return true
	case *ssa.Field:
		o, name := fieldRef(v.X, v.Field)
		return ei.fieldInvariant(o, name)
	case *ssa.UnOp:
		if v.Op != token.MUL {
			return false
		}
		switch a := v.X.(type) {
		case *ssa.FieldAddr:
			o, name := fieldRef(a.X, a.Field)
			return ei.fieldInvariant(o, name)
		case *ssa.Alloc:
			// local list variable: every store to it has the property
			for _, ref := range referrers(a) {
				switch st := ref.(type) {
				case *ssa.Store:
					if st.Addr == ssa.Value(a) && !ei.sliceElemsNonEmpty(st.Val, f, depth+1) {
						return false
					}
				case *ssa.UnOp:
				default:
					if _, isCall := ref.(ssa.CallInstruction); isCall {
						return false
					}
				}
			}
			return true
		}
	}
	return false
}

// fieldInvariant: every store to Owner.field anywhere in the package stores a
// list with the property (the field is only ever written through such stores;
// by-value struct copies preserve it).
func (ei *elemInvariant) fieldInvariant(owner, field string) bool {
	key := owner + "." + field
	switch ei.fmemo[key] {
	case 1:
		return true
	case 2:
		return false
	}
	ei.fmemo[key] = 1
	ok := true
	nStores := 0
	for _, f := range ei.p.Funcs {
		eachInstr(f, func(ins ssa.Instruction) {
			st, isStore := ins.(*ssa.Store)
			if !isStore || !ok {
				return
			}
			if fa, isFA := st.Addr.(*ssa.FieldAddr); isFA {
				o, n := fieldRef(fa.X, fa.Field)
				if o == owner && n == field {
					nStores++
					if !ei.sliceElemsNonEmpty(st.Val, f, 1) {
						ok = false
					}
				}
			}
		})
		// json.Unmarshal into the struct would bypass the stores
		eachInstr(f, func(ins ssa.Instruction) {
			if c, isCall := ins.(ssa.CallInstruction); isCall {
				for _, g := range ei.p.cg.Externals(c) {
					if fullName(g) == "encoding/json.Unmarshal" && len(c.Common().Args) >= 2 {
						for _, k := range allFieldKeys(c.Common().Args[1]) {
							if k == owner+".*" {
								ok = false
							}
						}
					}
				}
			}
		})
	}
	if nStores == 0 {
		ok = false
	}
	if ok {
		ei.fmemo[key] = 1
		ei.Used[key] = true
	} else {
		ei.fmemo[key] = 2
	}
	return ok
}
