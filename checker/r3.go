package main

import (
	"fmt"
	"sort"
	"strings"

	"golang.org/x/tools/go/ssa"
)

// r3opts configures one application of the panic-site rule to an entry set.
type r3opts struct {
	entries []string
	// explicit: function name -> reason why its explicit panics are
	// discharged for this entry set (API-misuse panics whose precondition the
	// property's domain or another property's rules establish)
	explicit map[string]string
	// skipFns: functions whose sites are decided by another property's rules
	// and only counted here (name -> reason)
	delegate     map[string]string
	assumeGet    bool
	assumeFilter bool
	getNilImpl   string
	floorSites   int
	floorFns     int
}

// implReturningNilIface: an implementation of Resource.Get (through its
// helpers) that may return the untyped nil interface, or "".
func implReturningNilIface(p *Prog) string {
	for _, name := range []string{"(*Wrapper).getField", "(*Wrapper).Get"} {
		f := p.Fn(name)
		if f == nil {
			continue
		}
		found := false
		eachInstr(f, func(ins ssa.Instruction) {
			if r, ok := ins.(*ssa.Return); ok && len(r.Results) == 1 && isNilConst(r.Results[0]) {
				found = true
			}
		})
		if found {
			return name
		}
	}
	return ""
}

// runR3 enumerates and decides every panic site reachable from the entries.
func runR3(p *Prog, r *Report, o r3opts) *panicChecker {
	pc := newPanicChecker(p)
	pc.assumeGetTyped = o.assumeGet
	pc.assumeFilterTyped = o.assumeFilter
	pc.getNilUntyped = o.getNilImpl
	var roots []*ssa.Function
	for _, e := range o.entries {
		f := p.Fn(e)
		if f == nil {
			r.fail("anchor %s not found", e)
			continue
		}
		roots = append(roots, f)
	}
	fns := p.cg.Reachable(roots...)
	reachSet := map[*ssa.Function]bool{}
	for _, f := range fns {
		reachSet[f] = true
	}
	byClass := map[string]int{}
	n := 0
	for _, f := range fns {
		r.fn(funcName(f))
		if why, ok := o.delegate[funcName(f)]; ok {
			r.note("sites of " + funcName(f) + " are decided elsewhere: " + why)
			continue
		}
		if why, ok := explicitViaCallers(p, f, o.delegate, 0, reachSet); ok {
			r.note("sites of " + funcName(f) + " are decided elsewhere: " + why)
			continue
		}
		sites := pc.sites(f)
		sortSites(sites)
		for _, s := range sites {
			n++
			byClass[s.Class]++
			rule := "R3." + s.Class
			pos := p.pos(s.Ins.Pos())
			if s.Class == "explicit" {
				if why, ok := o.explicit[funcName(f)]; ok {
					r.ok(rule, strings.TrimPrefix(s.Key, "explicit:"), pos, s.Detail+": "+why)
				} else if why, ok := explicitViaCallers(p, f, o.explicit, 0, reachSet); ok {
					r.ok(rule, strings.TrimPrefix(s.Key, "explicit:"), pos, s.Detail+": "+why)
				} else {
					r.bad(rule, strings.TrimPrefix(s.Key, "explicit:"), pos, s.Detail+" is reachable from "+strings.Join(o.entries, ", "))
				}
				continue
			}
			key := s.Key[strings.Index(s.Key, ":")+1:]
			if s.OK {
				r.ok(rule, key, pos, s.Detail)
			} else {
				r.bad(rule, key, pos, s.Detail)
			}
		}
	}
	classes := make([]string, 0, len(byClass))
	for c := range byClass {
		classes = append(classes, fmt.Sprintf("%s=%d", c, byClass[c]))
	}
	sort.Strings(classes)
	r.note(fmt.Sprintf("R3 inventory over %d functions reachable from %v: %s", len(fns), o.entries, strings.Join(classes, " ")))
	r.floor("R3 panic sites", n, o.floorSites)
	r.floor("R3 reachable functions", len(fns), o.floorFns)
	for note := range pc.notes {
		r.assume(note)
	}
	for k := range pc.nonEmpty.Used {
		r.note("element invariant used: every element of " + k + " is a non-empty string (all stores to the field, package-wide, store lists with that property)")
	}
	for _, bf := range pc.bfs {
		for _, nt := range bf.notes {
			r.assume(nt)
		}
		for _, c := range bf.inv {
			r.note(funcName(bf.fn) + ": " + c.why)
		}
	}
	return pc
}

const r3RuleText = "R3 panic sites: every instruction reachable from the entry set that can panic (explicit panic, x.(T) without comma-ok, index, slice expression, write to a possibly nil map, make with computed size, integer division/shift, dereference of a pointer taken from a slice element / call result / phi with nil, method call on Collection.At's result) is enumerated from go/ssa and must be discharged: bounds by a difference-bound prover over dominating branch facts, definitional length facts, induction and checked loop invariants (bounds.go); nil-ness by a forward must-analysis with callee 'ensures' summaries; assertions by boxing provenance, dominating comma-ok tests or a named typing contract; explicit panics only by a per-property table with the reason. Anything undischarged is a violation."

// explicitViaCallers: f is a small unexported helper called directly and only
// by functions whose explicit panics are justified (a phase extracted from
// such a function): the justification carries over.
func explicitViaCallers(p *Prog, f *ssa.Function, explicit map[string]string, depth int, reach ...map[*ssa.Function]bool) (string, bool) {
	if depth > 2 || !smallHelper(f) || explicit == nil {
		return "", false
	}
	calls := p.cg.callers[f]
	if len(calls) == 0 {
		return "", false
	}
	for _, vf := range p.cg.valueFuncs {
		if vf == f {
			return "", false
		}
	}
	why := ""
	for _, c := range calls {
		if c.Common().IsInvoke() || c.Common().StaticCallee() != f || c.Parent() == nil {
			return "", false
		}
		g := c.Parent()
		if len(reach) > 0 && reach[0] != nil && !reach[0][g] {
			continue // a caller that the entry points under analysis cannot reach
		}
		w, ok := explicit[funcName(g)]
		if !ok {
			w, ok = explicitViaCallers(p, g, explicit, depth+1, reach...)
		}
		if !ok {
			return "", false
		}
		if why == "" {
			why = "(helper of " + funcName(g) + ") " + w
		}
	}
	return why, why != ""
}
