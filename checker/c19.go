package main

import (
	"go/constant"
	"go/token"
	"go/types"

	"golang.org/x/tools/go/ssa"
)

func init() { register("C19", checkC19) }

var e19 = []string{"(*SoftCollection).Add", "(*SoftCollection).Remove", "(*SoftCollection).At", "(*SoftCollection).Resource",
	"(*SoftCollection).Len", "(*SoftCollection).AddAttr", "(*SoftCollection).AddRel", "(*SoftCollection).SetType", "(*SoftCollection).GetType"}

func checkC19(p *Prog, r *Report) {
	r.rule("C19.type-validate (imported from C14.validate): Type.AddAttr / AddRel, through which the collection's type grows, store a definition only behind the non-empty-name, valid-kind / non-empty-target tests and a complete scan that compares the existing NAMES with the new name")
	nTV := r.importRules(func(r2 *Report) { checkC14(p, r2) }, "C19.type-validate", "C14.validate")
	r.floor("imported type validation obligations", nTV, 4)
	r.rule("C19.set-replaces (imported from C18): no reflect setter on the Wrapper's Set path writes through a pointer held by a struct field; the snapshot SoftCollection.Add takes of a wrapped resource holds the struct's own pointers to nullable scalars, which stay untouched only because Set replaces them")
	nSR := r.importRules(func(r2 *Report) { checkSetReplaces(p, r2) }, "C19.set-replaces", "C18.set-replaces")
	r.floor("imported set-replaces obligations", nSR, 2)
	r.rule(r3RuleText)
	r.rule("C19.who-writes: the element list SoftCollection.col is stored only by Add (as append(s.col, <one new element>)) and by Remove (as a splice of s.col), nowhere else in the package")
	r.rule("C19.snapshot: the element Add appends is a SoftResource allocated in Add (never the argument), whose id is the argument's Get(\"id\"), whose Type is the collection's *Type, and which receives, for every attribute and relationship of the argument (full range over Attrs() and Rels()), AddAttr/AddRel with the element and Set under the same name with the value read under that name")
	r.rule("C19.set-gate (shared with C01/C17): the Set that fills the snapshot stores an attribute value only when the kind and nullability of its Go type equal the attribute's, so only well-typed values reach a stored resource")
	r.rule("R11 + C19.remove-first: Remove splices out index i under the guard col[i].GetID() == id and returns at once (only the first match is removed)")
	r.rule("C19.collection-contract: Len returns the length of the backing list and At returns an element only for 0 <= i < len (all three Collection implementations; bounds decided by R3), nil otherwise")
	r.rule("C19.field-guard: SoftResource.AddAttr / AddRel store the new field only after a complete scan of the names of BOTH maps (attributes and relationships) found no equal name, so a stored resource never exposes two fields of one name")
	r.assume("the collection's Type has been set (property domain); non-nil receivers")
	r.notCovered("equivalence with a list model over arbitrary operation histories; aliasing of slice values handed to Set (the property speaks of later Set calls, which replace values)")

	nGate := r.importRules(func(r2 *Report) { kt := buildKindTable(p, r2); checkSetGate(p, r2, kt) }, "C19.set-gate", "R1.set-gate")
	r.floor("imported set-gate obligations", nGate, 1)

	pc := runR3(p, r, r3opts{entries: append(append([]string{}, e19...), "(*Resources).At", "(*Resources).Len", "(*WrapperCollection).At", "(*WrapperCollection).Len"),
		explicit: wrapperDelegation, delegate: wrapperSitesDelegated, assumeGet: true, getNilImpl: "", floorSites: 30, floorFns: 20})

	// ---- who writes SoftCollection.col
	nStores := 0
	for _, f := range p.Funcs {
		eachInstr(f, func(ins ssa.Instruction) {
			st, ok := ins.(*ssa.Store)
			if !ok {
				return
			}
			fa, ok := st.Addr.(*ssa.FieldAddr)
			if !ok {
				return
			}
			if o, n := fieldRef(fa.X, fa.Field); o != "SoftCollection" || n != "col" {
				return
			}
			nStores++
			fn := funcName(f)
			good := false
			why := "stored outside Add/Remove"
			c, _ := st.Val.(*ssa.Call)
			isAppend := c != nil && builtinName(c.Common()) == "append"
			switch fn {
			case "(*SoftCollection).Add":
				// append(load s.col, one-element varargs)
				if isAppend {
					_, fl, ok1 := fieldLoad(c.Call.Args[0])
					one := false
					if sl, ok := c.Call.Args[1].(*ssa.Slice); ok {
						if al, ok := sl.X.(*ssa.Alloc); ok {
							if at, ok := deref(al.Type()).Underlying().(*types.Array); ok && at.Len() == 1 {
								one = true
							}
						}
					}
					good = ok1 && fl == "col" && one
					why = "Add must append exactly one element to the end of the current list"
				}
			case "(*SoftCollection).Remove":
				if isAppend {
					bf := pc.bf(f)
					for _, s := range findSplices(bf) {
						if s.call == c {
							good = true
						}
					}
					why = "Remove must splice the current list"
				} else if sl, isSl := st.Val.(*ssa.Slice); isSl {
					// the truncation that completes a copy-shift removal
					bf := pc.bf(f)
					for _, s := range findSplices(bf) {
						if builtinName(s.call.Common()) == "copy" {
							la, lo := bf.atom(s.lo)
							ha, ho := bf.atom(s.hi)
							if la == ha && truncationAfter(bf, s.call, s.base, ho-lo) == sl {
								good = true
							}
						}
					}
					why = "Remove must splice the current list"
				}
			}
			r.decide(good, "C19.who-writes", fn+":"+p.describe(st), p.pos(st.Pos()), "list stored by "+fn+" in the expected form", "SoftCollection.col is written in an unexpected way: "+why)
		})
	}
	r.floor("stores to SoftCollection.col", nStores, 2)

	checkAddSnapshot(p, r)
	checkRemoveFirst(p, r, pc)
	checkCollectionContract(p, r)
	checkFieldGuard(p, r)
}

func checkAddSnapshot(p *Prog, r *Report) {
	f := p.Fn("(*SoftCollection).Add")
	if f == nil {
		r.fail("anchor (*SoftCollection).Add not found")
		return
	}
	recv, arg := f.Params[0], f.Params[1]
	// the appended element
	var elem ssa.Value
	allFresh := true
	eachInstr(f, func(ins ssa.Instruction) {
		c, ok := ins.(*ssa.Call)
		if !ok || builtinName(c.Common()) != "append" {
			return
		}
		if sl, ok := c.Call.Args[1].(*ssa.Slice); ok {
			if al, ok := sl.X.(*ssa.Alloc); ok {
				for _, ref := range referrers(al) {
					if ia, ok := ref.(*ssa.IndexAddr); ok {
						for _, r2 := range referrers(ia) {
							if st, ok := r2.(*ssa.Store); ok {
								if _, isA := st.Val.(*ssa.Alloc); !isA {
									allFresh = false
								}
								if elem == nil || allFresh {
									elem = st.Val
								}
							}
						}
					}
				}
			}
		}
	})
	// the element may be built by a small helper that receives the collection
	// and the resource: the snapshot rules then apply inside that helper
	if hc, ok := elem.(*ssa.Call); ok && !allFresh {
		if h := hc.Common().StaticCallee(); h != nil && h.Blocks != nil && smallHelper(h) {
			ri, ai := -1, -1
			for i, a := range hc.Common().Args {
				if a == ssa.Value(recv) {
					ri = i
				}
				if a == ssa.Value(arg) {
					ai = i
				}
			}
			var built ssa.Value
			same := true
			nret := 0
			eachInstr(h, func(ins ssa.Instruction) {
				if ret, ok := ins.(*ssa.Return); ok && len(ret.Results) == 1 {
					nret++
					if built == nil {
						built = ret.Results[0]
					} else if built != ret.Results[0] {
						same = false
					}
				}
			})
			if ri >= 0 && ai >= 0 && ri < len(h.Params) && ai < len(h.Params) && same && nret > 0 {
				if _, isA := built.(*ssa.Alloc); isA {
					f, recv, arg, elem, allFresh = h, h.Params[ri], h.Params[ai], built, true
					r.fn(funcName(h))
				}
			}
		}
	}
	sr, isAlloc := elem.(*ssa.Alloc)
	isAlloc = isAlloc && allFresh
	r.decide(isAlloc && structName(elem.Type()) == "SoftResource", "C19.snapshot", "Add:fresh-element", p.pos(f.Pos()),
		"the stored element is a SoftResource allocated inside Add", "Add can store something other than a SoftResource it allocated itself (e.g. the caller's own resource): later changes to that object alter the stored snapshot")
	if !isAlloc {
		return
	}
	// every path to the append passes through... simply: every append of an element uses that alloc (checked) and no phi
	fs := fieldStores(sr)
	// id
	okID := false
	if v, ok := fs["id"]; ok {
		if ta, ok := v.(*ssa.TypeAssert); ok {
			if c, _ := callOf(ta.X); c != nil && c.Common().IsInvoke() && c.Common().Method.Name() == "Get" && c.Common().Value == ssa.Value(arg) {
				if s, ok := constString(c.Common().Args[0]); ok && s == "id" {
					okID = true
				}
			}
		}
	}
	r.decide(okID, "C19.snapshot", "Add:id", p.pos(f.Pos()), "id = argument.Get(\"id\")", "the stored resource's ID is not taken from the added resource's Get(\"id\")")
	// Type
	okType := false
	if v, ok := fs["Type"]; ok {
		if base, fl, ok := fieldLoad(v); ok && fl == "Type" && base == ssa.Value(recv) {
			okType = true
		}
	}
	r.decide(okType, "C19.snapshot", "Add:Type", p.pos(f.Pos()), "Type = the collection's *Type", "the stored resource is not bound to the collection's type: later AddAttr/AddRel on the collection would not show through it")

	// per-field copies
	type seen struct{ add, set bool }
	got := map[string]*seen{"Attrs": {}, "Rels": {}}
	eachInstr(f, func(ins ssa.Instruction) {
		c, ok := ins.(*ssa.Call)
		if !ok {
			return
		}
		g := c.Common().StaticCallee()
		if g == nil || len(c.Common().Args) == 0 || c.Common().Args[0] != ssa.Value(sr) {
			return
		}
		switch funcName(g) {
		case "(*SoftResource).AddAttr", "(*SoftResource).AddRel":
			which := "Attrs"
			if funcName(g) == "(*SoftResource).AddRel" {
				which = "Rels"
			}
			a := c.Common().Args[1]
			if ld, ok := a.(*ssa.UnOp); ok {
				a = ld.X
			}
			if rangeSourceInvoke(a, arg) == which {
				got[which].add = true
			} else {
				r.bad("C19.snapshot", "Add:"+p.describe(c), p.pos(c.Pos()), "the field added to the collection's type is not the element of the argument's "+which+"() being visited")
			}
		case "(*SoftResource).Set":
			key := c.Common().Args[1]
			base, fld, ok := fieldLoad(key)
			if !ok {
				r.bad("C19.snapshot", "Add:"+p.describe(c), p.pos(c.Pos()), "Set is called with a name that is not the visited field's name")
				return
			}
			which := rangeSourceInvoke(base, arg)
			want := map[string]string{"Attrs": "Name", "Rels": "FromName"}[which]
			// value = arg.Get(<same name>) possibly asserted
			val := c.Common().Args[2]
			okVal := false
			for _, o := range origins(val) {
				if ta, ok := o.(*ssa.TypeAssert); ok {
					o = ta.X
				}
				if gc, _ := callOf(o); gc != nil && gc.Common().IsInvoke() && gc.Common().Method.Name() == "Get" && gc.Common().Value == ssa.Value(arg) {
					if b2, f2, ok := fieldLoad(gc.Common().Args[0]); ok && f2 == fld && b2 == base {
						okVal = true
					}
				}
			}
			good := which != "" && fld == want && okVal
			if good {
				got[which].set = true
			}
			r.decide(good, "C19.snapshot", "Add:"+p.describe(c), p.pos(c.Pos()), "Set(name, argument.Get(name)) for the visited "+which+" element",
				"a field of the stored snapshot is not set from the added resource's value under the same name")
		}
	})
	for _, which := range []string{"Attrs", "Rels"} {
		g := got[which]
		r.decide(g.add && g.set, "C19.snapshot", "Add:covers-"+which, p.pos(f.Pos()), "every element of "+which+"() is added to the type and copied",
			"Add does not both extend the collection's type with and copy the value of every element of the argument's "+which+"()")
	}
}

// rangeSourceInvoke: v is (the spill of) the value variable of a range over
// <arg>.Attrs() / <arg>.Rels() (interface calls).
func rangeSourceInvoke(v ssa.Value, arg *ssa.Parameter) string {
	if al, ok := v.(*ssa.Alloc); ok {
		for _, ref := range referrers(al) {
			if st, ok := ref.(*ssa.Store); ok && st.Addr == ssa.Value(al) {
				v = st.Val
			}
		}
	}
	ex, ok := v.(*ssa.Extract)
	if !ok || ex.Index != 2 {
		return ""
	}
	nx, ok := ex.Tuple.(*ssa.Next)
	if !ok {
		return ""
	}
	rg, ok := nx.Iter.(*ssa.Range)
	if !ok {
		return ""
	}
	c, _ := callOf(rg.X)
	if c == nil || !c.Common().IsInvoke() || c.Common().Value != ssa.Value(arg) {
		return ""
	}
	return c.Common().Method.Name()
}

func checkRemoveFirst(p *Prog, r *Report, pc *panicChecker) {
	f := p.Fn("(*SoftCollection).Remove")
	if f == nil {
		r.fail("anchor (*SoftCollection).Remove not found")
		return
	}
	n := checkSpliceLoopsScope(p, r, pc, f)
	r.count("splices in SoftCollection.Remove", n)
	bf := pc.bf(f)
	for _, s := range findSplices(bf) {
		la, lo := bf.atom(s.lo)
		ha, ho := bf.atom(s.hi)
		guard := false
		for _, ef := range expandFacts(factsAt(s.call.Block())) {
			bo, ok := ef.Cond.(*ssa.BinOp)
			if !ok || bo.Op != token.EQL || !ef.Truth {
				continue
			}
			for _, pr := range [][2]ssa.Value{{bo.X, bo.Y}, {bo.Y, bo.X}} {
				if pr[1] != ssa.Value(f.Params[1]) {
					continue
				}
				c, _ := callOf(pr[0])
				if c == nil || c.Common().StaticCallee() == nil || c.Common().StaticCallee().Name() != "GetID" {
					continue
				}
				if ld, ok := c.Common().Args[0].(*ssa.UnOp); ok {
					if ia, ok := ld.X.(*ssa.IndexAddr); ok {
						xa, xo := bf.atom(ia.Index)
						if xa == la && xo == lo && ha == la && ho == lo+1 {
							guard = true
						}
					}
				}
			}
		}
		if !guard && ha == la && ho == lo+1 {
			// the index may come from a search helper "index of the first element
			// with that ID, or -1"
			lo := s.lo
			if ex, ok := lo.(*ssa.Extract); ok && ex.Index == 0 {
				lo = ex.Tuple
			}
			if hc, ok := lo.(*ssa.Call); ok {
				if h := hc.Common().StaticCallee(); h != nil && smallHelper(h) {
					if j, ok := firstMatchIndex(h); ok && j < len(hc.Common().Args) && hc.Common().Args[j] == ssa.Value(f.Params[1]) {
						guard = true
					}
				}
			}
		}
		// "the first": the scan that finds the element runs from index 0 upwards
		if guard {
			asc := false
			if _, isCall := s.lo.(*ssa.Call); isCall {
				asc = true // a first-match helper: decided by firstMatchIndex
			}
			if ex, ok := s.lo.(*ssa.Extract); ok {
				if _, isCall := ex.Tuple.(*ssa.Call); isCall {
					asc = true
				}
			}
			for _, hd := range f.Blocks {
				l := naturalLoop(hd)
				if l == nil || !l[s.call.Block()] && !func() bool {
					for _, pb := range s.call.Block().Preds {
						if l[pb] {
							return true
						}
					}
					return false
				}() {
					continue
				}
				if st, sp := inductionOf(s.lo, l); st == 0 && sp == 1 {
					asc = true
				}
			}
			r.decide(asc, "C19.remove-first", "Remove:scan-ascending", p.pos(s.call.Pos()), "the scan runs from index 0 upwards", "the element to remove is searched from the end (or in another order): with duplicate IDs the element removed is not the first one")
		}
		r.decide(guard, "C19.remove-first", "Remove:"+p.describe(s.call), p.pos(s.call.Pos()), "removes exactly the element whose GetID() equals the argument",
			"the splice does not remove exactly the element whose ID was compared with the argument")
		// control leaves the function after the splice
		leaves := true
		for _, b := range f.Blocks {
			if b != s.call.Block() && blockReaches(s.call.Block(), b, false) {
				if _, isRet := b.Instrs[len(b.Instrs)-1].(*ssa.Return); !isRet || len(b.Instrs) > 1 {
					leaves = false
				}
			}
		}
		if _, isRet := s.call.Block().Instrs[len(s.call.Block().Instrs)-1].(*ssa.Return); isRet {
			leaves = true
		}
		r.decide(leaves, "C19.remove-first", "Remove:returns-after-first", p.pos(s.call.Pos()), "Remove returns right after the first removal", "Remove keeps scanning after a removal: every element with that ID is removed, not only the first")
	}
}

func checkCollectionContract(p *Prog, r *Report) {
	for _, tn := range []string{"Resources", "SoftCollection", "WrapperCollection"} {
		ln := p.Fn("(*" + tn + ").Len")
		at := p.Fn("(*" + tn + ").At")
		if ln == nil || at == nil {
			r.fail("Len/At of %s not found", tn)
			continue
		}
		// Len returns len(...)
		okLen := false
		eachInstr(ln, func(ins ssa.Instruction) {
			if ret, ok := ins.(*ssa.Return); ok && len(ret.Results) == 1 {
				if c, ok := ret.Results[0].(*ssa.Call); ok && builtinName(c.Common()) == "len" {
					okLen = true
				}
			}
		})
		r.decide(okLen, "C19.collection-contract", tn+".Len", p.pos(ln.Pos()), "returns len of the backing list", tn+".Len does not return the length of its backing list")
		// At: every return is nil or an element loaded under both bound facts
		okAt := true
		nElem := 0
		eachInstr(at, func(ins ssa.Instruction) {
			ret, ok := ins.(*ssa.Return)
			if !ok || len(ret.Results) != 1 {
				return
			}
			v := ret.Results[0]
			if isNilConst(v) {
				return
			}
			nElem++
			// element of the list at index == parameter
			o := stripValue(v)
			ld, ok := o.(*ssa.UnOp)
			if !ok {
				okAt = false
				return
			}
			ia, ok := ld.X.(*ssa.IndexAddr)
			if !ok || ia.Index != ssa.Value(at.Params[1]) {
				okAt = false
			}
		})
		r.decide(okAt && nElem >= 1, "C19.collection-contract", tn+".At", p.pos(at.Pos()), "returns the element at the requested index or nil", tn+".At returns something other than the element at the requested index (or nil)")
	}
}

func checkFieldGuard(p *Prog, r *Report) {
	fields := p.Fn("(*SoftResource).fields")
	if fields == nil {
		// the helper may be named differently: find the []string-returning callee of AddAttr
		if aa := p.Fn("(*SoftResource).AddAttr"); aa != nil {
			eachInstr(aa, func(ins ssa.Instruction) {
				if c, ok := ins.(*ssa.Call); ok {
					if g := c.Common().StaticCallee(); g != nil && p.inTarget(g) && g.Signature.Results().Len() == 1 && fmtTypeString(g.Signature.Results().At(0).Type()) == "[]string" {
						fields = g
					}
				}
			})
		}
	}
	if fields != nil {
		// fields() appends names from both maps
		both := map[string]bool{}
		eachInstr(fields, func(ins ssa.Instruction) {
			if rg, ok := ins.(*ssa.Range); ok {
				if _, fl, ok := fieldLoad(rg.X); ok {
					both[fl] = true
				}
			}
			if c, ok := ins.(*ssa.Call); ok && builtinName(c.Common()) == "len" {
				_ = c
			}
		})
		r.decide(both["Attrs"] && both["Rels"], "C19.field-guard", funcName(fields)+":both-maps", p.pos(fields.Pos()), "lists the names of attributes and relationships", "the field-name list does not cover both the attributes and the relationships of the type")
	}
	for _, name := range []string{"(*SoftResource).AddAttr", "(*SoftResource).AddRel"} {
		f := p.Fn(name)
		if f == nil {
			r.fail("anchor %s not found", name)
			continue
		}
		nStores := 0
		eachInstr(f, func(ins ssa.Instruction) {
			var mu ssa.Instruction
			if m, ok := ins.(*ssa.MapUpdate); ok {
				mu = m
			} else if c, ok := ins.(*ssa.Call); ok {
				// a delegation to the type's own AddAttr / AddRel stores the field too
				if g := c.Common().StaticCallee(); g != nil && (funcName(g) == "(*Type).AddAttr" || funcName(g) == "(*Type).AddRel") {
					mu = c
				}
			}
			if mu == nil {
				return
			}
			nStores++
			// dominated by the completion of a loop over fields() comparing names with return on match
			good := false
			for _, b := range f.Blocks {
				loop := naturalLoop(b)
				if loop == nil || loop[mu.Block()] || !b.Dominates(mu.Block()) {
					continue
				}
				overFields := false
				cmp := false
				exitsOK := true
				for x := range loop {
					for _, i2 := range x.Instrs {
						if ia, ok := i2.(*ssa.IndexAddr); ok {
							if c, _ := callOf(ia.X); c != nil && fields != nil && c.Common().StaticCallee() == fields {
								overFields = true
							}
						}
						if bo, ok := i2.(*ssa.BinOp); ok && bo.Op == token.EQL {
							if _, fl, ok := fieldLoad(bo.Y); ok && (fl == "Name" || fl == "FromName") {
								cmp = true
							}
							if _, fl, ok := fieldLoad(bo.X); ok && (fl == "Name" || fl == "FromName") {
								cmp = true
							}
						}
					}
					for _, s := range x.Succs {
						if !loop[s] && x != b {
							if _, isRet := s.Instrs[len(s.Instrs)-1].(*ssa.Return); !isRet {
								exitsOK = false
							}
						}
					}
				}
				if overFields && cmp && !exitsOK {
					// a found-flag instead of the early return: still every path to
					// the store takes the scan's exhaustion edge (the flag's merge is
					// resolved per predecessor, so the path through the break is
					// seen to skip the store)
					if hif, ok := b.Instrs[len(b.Instrs)-1].(*ssa.If); ok && loop[b.Succs[0]] != loop[b.Succs[1]] {
						exhaustTruth := !loop[b.Succs[0]]
						exitsOK = mustPassEdge(f, mu.Block(), func(cond ssa.Value, truth bool) bool {
							return cond == hif.Cond && truth == exhaustTruth
						})
					}
				}
				if overFields && cmp && exitsOK {
					good = true
				}
			}
			if !good && fields != nil {
				// or behind the negative answer of a membership helper that scans
				// fields() completely for the new field's name
				for _, ef := range expandFacts(factsAt(mu.Block())) {
					hc, ok := ef.Cond.(*ssa.Call)
					if !ok || ef.Truth {
						continue
					}
					if np, ok := scansBothFieldMaps(hc.Common().StaticCallee()); ok && np < len(hc.Common().Args) {
						// a membership helper that walks the attribute map and the
						// relationship map itself
						if _, fl, ok := fieldLoad(hc.Common().Args[np]); ok && (fl == "Name" || fl == "FromName") {
							good = true
						}
						continue
					}
					sum := existsPredicate(hc.Common().StaticCallee())
					if sum == nil || sum.collField != "call:"+funcName(fields) || sum.elemField != "" || sum.nameParam >= len(hc.Common().Args) {
						continue
					}
					if _, fl, ok := fieldLoad(hc.Common().Args[sum.nameParam]); ok && (fl == "Name" || fl == "FromName") {
						good = true
					}
				}
			}
			r.decide(good, "C19.field-guard", name+":"+p.describe(mu), p.pos(mu.Pos()), "stored only after a complete scan of all field names found no equal name",
				"a field is stored without a complete scan of the names of both attributes and relationships: a resource can end up with two fields of one name")
		})
		r.floor("field stores in "+name, nStores, 1)
	}
}

// firstMatchIndex: h scans a list from index 0 upwards and returns the index
// of the first element whose GetID() equals its parameter j (every other
// return is a negative constant).
func firstMatchIndex(h *ssa.Function) (int, bool) {
	j := -1
	n := 0
	for _, b := range h.Blocks {
		ret, ok := b.Instrs[len(b.Instrs)-1].(*ssa.Return)
		if !ok || len(ret.Results) < 1 || len(ret.Results) > 2 {
			continue
		}
		if len(ret.Results) == 2 {
			// (index, found): the constant false marks the not-found returns
			c, ok := ret.Results[1].(*ssa.Const)
			if !ok || c.Value == nil || c.Value.Kind() != constant.Bool {
				return 0, false
			}
			if !constant.BoolVal(c.Value) {
				continue
			}
		} else if cv, ok := constInt(ret.Results[0]); ok {
			if cv >= 0 {
				return 0, false
			}
			continue
		}
		n++
		v := ret.Results[0]
		// the counted loop
		okLoop := false
		for _, hd := range h.Blocks {
			l := naturalLoop(hd)
			if l == nil || !l[b] && !func() bool {
				for _, pb := range b.Preds {
					if l[pb] {
						return true
					}
				}
				return false
			}() {
				continue
			}
			if st, sp := inductionOf(v, l); st == 0 && sp == 1 {
				okLoop = true
			}
		}
		if !okLoop {
			return 0, false
		}
		matched := mustPassEdge(h, b, func(cond ssa.Value, truth bool) bool {
			bo, ok := cond.(*ssa.BinOp)
			if !ok || bo.Op != token.EQL || !truth {
				return false
			}
			for _, pr := range [][2]ssa.Value{{bo.X, bo.Y}, {bo.Y, bo.X}} {
				prm, ok := pr[1].(*ssa.Parameter)
				if !ok {
					continue
				}
				c, _ := callOf(pr[0])
				if c == nil || c.Common().StaticCallee() == nil || c.Common().StaticCallee().Name() != "GetID" {
					continue
				}
				ld, ok := c.Common().Args[0].(*ssa.UnOp)
				if !ok {
					continue
				}
				ia, ok := ld.X.(*ssa.IndexAddr)
				if !ok || ia.Index != v {
					continue
				}
				for k, q := range h.Params {
					if q == prm {
						if j == -1 || j == k {
							j = k
							return true
						}
					}
				}
			}
			return false
		})
		if !matched {
			return 0, false
		}
	}
	return j, n > 0 && j >= 0
}

// scansBothFieldMaps: h is a boolean helper that returns false only after both
// a range over a Type's Attrs map (comparing each Name with one parameter) and
// a range over its Rels map (comparing each FromName with the same parameter)
// were exhausted, and true only on such a match. It returns the index of the
// name parameter.
func scansBothFieldMaps(h *ssa.Function) (int, bool) {
	if h == nil || h.Blocks == nil || !smallHelper(h) || h.Signature.Results().Len() != 1 {
		return 0, false
	}
	if bt, ok := h.Signature.Results().At(0).Type().Underlying().(*types.Basic); !ok || bt.Kind() != types.Bool {
		return 0, false
	}
	type scan struct {
		ld   *loopDesc
		name int
	}
	var scans = map[string]*scan{}
	for _, ld := range findLoops(h) {
		if ld.kind != "map" || ld.next == nil {
			continue
		}
		_, fl, ok := fieldLoad(ld.src)
		if !ok || (fl != "Attrs" && fl != "Rels") {
			continue
		}
		want := "Name"
		if fl == "Rels" {
			want = "FromName"
		}
		np := -1
		for b := range ld.blocks {
			for _, ins := range b.Instrs {
				bo, ok := ins.(*ssa.BinOp)
				if !ok || bo.Op != token.EQL {
					continue
				}
				for _, pr := range [][2]ssa.Value{{bo.X, bo.Y}, {bo.Y, bo.X}} {
					prm, isP := pr[1].(*ssa.Parameter)
					if !isP {
						continue
					}
					if _, f2, ok := fieldLoad(pr[0]); ok && f2 == want {
						for i, q := range h.Params {
							if q == prm {
								np = i
							}
						}
					}
				}
			}
		}
		if np >= 0 {
			scans[fl] = &scan{ld, np}
		}
	}
	a, okA := scans["Attrs"]
	b, okB := scans["Rels"]
	if !okA || !okB || a.name != b.name {
		return 0, false
	}
	exhausted := func(ld *loopDesc) func(cond ssa.Value, truth bool) bool {
		return func(cond ssa.Value, truth bool) bool {
			ex, ok := cond.(*ssa.Extract)
			return ok && ex.Index == 0 && ex.Tuple == ssa.Value(ld.next) && !truth
		}
	}
	n := 0
	for _, blk := range h.Blocks {
		ret, ok := blk.Instrs[len(blk.Instrs)-1].(*ssa.Return)
		if !ok {
			continue
		}
		cb, isC := constBool(ret.Results[0])
		if !isC {
			return 0, false
		}
		if cb {
			continue
		}
		n++
		if !mustPassEdge(h, blk, exhausted(a.ld)) || !mustPassEdge(h, blk, exhausted(b.ld)) {
			return 0, false
		}
	}
	return a.name, n > 0
}
