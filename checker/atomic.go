package main

// R12: all-or-nothing edits. On every CFG path from the entry of an edit
// method to a return that may carry a non-nil error, no instruction has
// written memory that existed before the call.
//
// Writes are taken from the mod analysis (heap.go): a store / map update /
// delete / append whose target may be a pre-existing location, or a call whose
// instantiated summary contains such a write. A call to a callee that is
// itself all-or-nothing and returns an error is treated path-sensitively:
// along the err != nil edge it has written nothing, along err == nil it has.

import (
	"fmt"
	"go/token"

	"golang.org/x/tools/go/ssa"
)

type atomicChecker struct {
	p      *Prog
	h      *Heap
	atomic map[*ssa.Function]bool // functions established (or being established) as all-or-nothing
}

// writesExternal: does ins (by itself) possibly write pre-existing memory?
func (ac *atomicChecker) writesExternal(f *ssa.Function, ins ssa.Instruction) (bool, string) {
	st := ac.h.states[f]
	if st == nil {
		return true, "no heap state"
	}
	ext := func(ls locset) (bool, string) {
		for l := range ls {
			if externalLoc(l) {
				return true, l
			}
		}
		return false, ""
	}
	switch x := ins.(type) {
	case *ssa.Store:
		if ok, l := ext(st.get(x.Addr)); ok {
			return true, "store to " + l
		}
	case *ssa.MapUpdate:
		if ok, l := ext(elemOf(st.get(x.Map))); ok {
			return true, "map update of " + l
		}
	case ssa.CallInstruction:
		cc := x.Common()
		if b, ok := cc.Value.(*ssa.Builtin); ok {
			switch b.Name() {
			case "delete", "clear", "copy":
				if ok, l := ext(elemOf(st.get(cc.Args[0]))); ok {
					return true, b.Name() + " on " + l
				}
			}
			return false, ""
		}
		var args []ssa.Value
		if cc.IsInvoke() {
			args = append(args, cc.Value)
		}
		args = append(args, cc.Args...)
		for _, g := range ac.p.cg.Callees(x) {
			sum := ac.h.sums[g]
			if sum == nil {
				continue
			}
			act := st.actualsFor(x, g, args)
			for _, m := range sum.mods {
				if m.Kind == "append" {
					continue // append by itself changes nothing visible unless its result is stored
				}
				for l := range st.rename(x, m.Loc, act, "q") {
					if externalLoc(l) {
						return true, "call to " + funcName(g) + " writes " + l
					}
				}
			}
		}
		for _, g := range ac.p.cg.Externals(x) {
			n := fullName(g)
			if _, ok := inPlaceSorters[n]; ok && len(cc.Args) > 0 {
				if ok, l := ext(elemOf(st.get(cc.Args[0]))); ok {
					return true, n + " on " + l
				}
			}
			if n == "encoding/json.Unmarshal" && len(cc.Args) > 1 {
				if ok, l := ext(st.get(cc.Args[1])); ok {
					return true, n + " into " + l
				}
			}
		}
	}
	return false, ""
}

type atomicViolation struct {
	ret   *ssa.Return
	write ssa.Instruction
	why   string
}

// check explores f and returns the write-before-error paths.
func (ac *atomicChecker) check(f *ssa.Function) []atomicViolation {
	var out []atomicViolation
	type key struct {
		b     *ssa.BasicBlock
		dirty ssa.Instruction
		tent  string
	}
	seen := map[key]bool{}
	reported := map[*ssa.Return]bool{}
	type tentative struct {
		call ssa.Instruction
		why  string
	}
	var walk func(b *ssa.BasicBlock, dirty ssa.Instruction, dirtyWhy string, tent []tentative, depth int)
	walk = func(b *ssa.BasicBlock, dirty ssa.Instruction, dirtyWhy string, tent []tentative, depth int) {
		tk := ""
		for _, t := range tent {
			tk += fmt.Sprintf("%p;", t.call)
		}
		k := key{b, dirty, tk}
		if seen[k] || depth > 400 {
			return
		}
		seen[k] = true
		for _, ins := range b.Instrs {
			switch x := ins.(type) {
			case *ssa.Return:
				// does this return carry a possibly non-nil error?
				n := len(x.Results)
				if n == 0 {
					return
				}
				e := x.Results[n-1]
				if !isErrorType(e.Type()) || isNilConst(e) {
					return
				}
				d, why := dirty, dirtyWhy
				// a tentative call whose error is the one returned has written nothing if that error is non-nil
				for _, t := range tent {
					if v, ok := t.call.(ssa.Value); ok && errorOf(v) == e {
						continue
					}
					if d == nil {
						d, why = t.call, t.why
					}
				}
				if d != nil && !reported[x] {
					reported[x] = true
					out = append(out, atomicViolation{ret: x, write: d, why: why})
				}
				return
			case *ssa.If:
				// err != nil on a tentative call?
				t2, f2 := tent, tent
				dT, dTw, dF, dFw := dirty, dirtyWhy, dirty, dirtyWhy
				for _, ef := range expandFacts([]edgeFact{{Cond: x.Cond, Truth: true}}) {
					bo, ok := ef.Cond.(*ssa.BinOp)
					if !ok || (bo.Op != token.EQL && bo.Op != token.NEQ) {
						continue
					}
					for _, pr := range [][2]ssa.Value{{bo.X, bo.Y}, {bo.Y, bo.X}} {
						if !isNilConst(pr[1]) {
							continue
						}
						for i, t := range tent {
							v, ok := t.call.(ssa.Value)
							if !ok || errorOf(v) != pr[0] {
								continue
							}
							rest := append(append([]tentative{}, tent[:i]...), tent[i+1:]...)
							nonNilOnTrue := (bo.Op == token.NEQ) == ef.Truth
							if nonNilOnTrue {
								t2 = rest // error: nothing written
								f2 = rest
								if dF == nil {
									dF, dFw = t.call, t.why
								}
							} else {
								f2 = rest
								t2 = rest
								if dT == nil {
									dT, dTw = t.call, t.why
								}
							}
						}
					}
				}
				walk(b.Succs[0], dT, dTw, t2, depth+1)
				walk(b.Succs[1], dF, dFw, f2, depth+1)
				return
			case *ssa.Jump:
				walk(b.Succs[0], dirty, dirtyWhy, tent, depth+1)
				return
			case *ssa.Panic:
				return
			default:
				w, why := ac.writesExternal(f, ins)
				if !w {
					continue
				}
				// a call to an all-or-nothing callee that returns an error is tentative
				if c, ok := ins.(*ssa.Call); ok && ac.calleesAtomic(c) && errorOf(c) != nil {
					tent = append(append([]tentative{}, tent...), tentative{c, why})
					continue
				}
				if dirty == nil {
					dirty, dirtyWhy = ins, why
				}
			}
		}
	}
	walk(f.Blocks[0], nil, "", nil, 0)
	return out
}

// errorOf returns the SSA value holding the error result of call value v.
func errorOf(v ssa.Value) ssa.Value {
	c, ok := v.(*ssa.Call)
	if !ok {
		return nil
	}
	res := c.Common().Signature().Results()
	if res == nil || res.Len() == 0 || !isErrorType(res.At(res.Len()-1).Type()) {
		return nil
	}
	if res.Len() == 1 {
		return c
	}
	for _, ref := range referrers(c) {
		if ex, ok := ref.(*ssa.Extract); ok && ex.Index == res.Len()-1 {
			return ex
		}
	}
	return nil
}

func (ac *atomicChecker) calleesAtomic(c *ssa.Call) bool {
	callees := ac.p.cg.Callees(c)
	if len(callees) == 0 {
		return false
	}
	for _, g := range callees {
		if !ac.atomic[g] {
			return false
		}
	}
	return true
}
