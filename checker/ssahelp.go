package main

import (
	"fmt"
	"go/ast"
	"go/constant"
	"go/token"
	"go/types"
	"strings"

	"golang.org/x/tools/go/ast/astutil"
	"golang.org/x/tools/go/ssa"
)

// ---------------------------------------------------------------------------
// source descriptors

// exprAt returns the source text (types.ExprString) of the smallest
// expression of kind want that starts/ends around pos; "" if none.
func (p *Prog) enclosing(pos token.Pos) []ast.Node {
	if !pos.IsValid() {
		return nil
	}
	f := p.files[p.Fset.Position(pos).Filename]
	if f == nil {
		return nil
	}
	path, _ := astutil.PathEnclosingInterval(f, pos, pos)
	return path
}

// describe renders an instruction as a stable, human-readable construct name
// derived from the source expression it was built from (never a line number).
func (p *Prog) describe(ins ssa.Instruction) string {
	pos := ins.Pos()
	if v, ok := ins.(ssa.Value); ok && !pos.IsValid() {
		_ = v
	}
	path := p.enclosing(pos)
	want := func(n ast.Node) bool {
		switch ins.(type) {
		case *ssa.IndexAddr, *ssa.Index, *ssa.Lookup:
			if ie, ok := n.(*ast.IndexExpr); ok {
				return ie.Lbrack == pos || true
			}
			if _, ok := n.(*ast.RangeStmt); ok {
				return true
			}
		case *ssa.Slice:
			_, ok := n.(*ast.SliceExpr)
			return ok
		case *ssa.TypeAssert:
			_, ok := n.(*ast.TypeAssertExpr)
			if ok {
				return true
			}
			_, ok = n.(*ast.TypeSwitchStmt)
			return ok
		case *ssa.Call, *ssa.Defer, *ssa.Go:
			_, ok := n.(*ast.CallExpr)
			return ok
		case *ssa.MapUpdate, *ssa.Store:
			switch n.(type) {
			case *ast.AssignStmt, *ast.IncDecStmt, *ast.KeyValueExpr, *ast.CompositeLit:
				return true
			}
		case *ssa.UnOp:
			switch n.(type) {
			case *ast.StarExpr, *ast.SelectorExpr, *ast.UnaryExpr:
				return true
			}
		case *ssa.FieldAddr, *ssa.Field:
			_, ok := n.(*ast.SelectorExpr)
			return ok
		case *ssa.MakeSlice, *ssa.MakeMap:
			_, ok := n.(*ast.CallExpr)
			return ok
		case *ssa.BinOp:
			_, ok := n.(*ast.BinaryExpr)
			return ok
		case *ssa.Convert, *ssa.ChangeType:
			_, ok := n.(*ast.CallExpr)
			return ok
		case *ssa.Panic:
			_, ok := n.(*ast.CallExpr)
			return ok
		}
		return false
	}
	for _, n := range path {
		if want(n) {
			return nodeString(n)
		}
	}
	for _, n := range path {
		if e, ok := n.(ast.Expr); ok {
			return nodeString(e)
		}
	}
	return strings.TrimSpace(ins.String())
}

func nodeString(n ast.Node) string {
	switch n := n.(type) {
	case *ast.KeyValueExpr:
		return shorten(types.ExprString(n.Key) + ": " + types.ExprString(n.Value))
	case ast.Expr:
		return shorten(types.ExprString(n))
	case *ast.AssignStmt:
		var l, r []string
		for _, e := range n.Lhs {
			l = append(l, types.ExprString(e))
		}
		for _, e := range n.Rhs {
			r = append(r, types.ExprString(e))
		}
		return shorten(strings.Join(l, ", ") + " " + n.Tok.String() + " " + strings.Join(r, ", "))
	case *ast.IncDecStmt:
		return types.ExprString(n.X) + n.Tok.String()
	case *ast.RangeStmt:
		return "range " + shorten(types.ExprString(n.X))
	case *ast.TypeSwitchStmt:
		return "type-switch"
	}
	return fmt.Sprintf("%T", n)
}

func shorten(s string) string {
	s = strings.Join(strings.Fields(s), " ")
	if len(s) > 90 {
		s = s[:87] + "..."
	}
	return s
}

// ---------------------------------------------------------------------------
// iteration

func eachInstr(f *ssa.Function, fn func(ins ssa.Instruction)) {
	for _, b := range f.Blocks {
		for _, ins := range b.Instrs {
			fn(ins)
		}
	}
}

// ---------------------------------------------------------------------------
// constants

func constInt(v ssa.Value) (int64, bool) {
	c, ok := v.(*ssa.Const)
	if !ok || c.Value == nil {
		return 0, false
	}
	if c.Value.Kind() != constant.Int {
		return 0, false
	}
	n, exact := constant.Int64Val(c.Value)
	return n, exact
}

func constString(v ssa.Value) (string, bool) {
	c, ok := v.(*ssa.Const)
	if !ok || c.Value == nil || c.Value.Kind() != constant.String {
		return "", false
	}
	return constant.StringVal(c.Value), true
}

func isNilConst(v ssa.Value) bool {
	c, ok := v.(*ssa.Const)
	return ok && c.Value == nil
}

func constBool(v ssa.Value) (bool, bool) {
	c, ok := v.(*ssa.Const)
	if !ok || c.Value == nil || c.Value.Kind() != constant.Bool {
		return false, false
	}
	return constant.BoolVal(c.Value), true
}

// ---------------------------------------------------------------------------
// control facts

// An edgeFact is a branch condition known to have a fixed outcome whenever
// control is in a given block.
type edgeFact struct {
	Cond  ssa.Value
	Truth bool
	From  *ssa.BasicBlock // the block ending in the If
}

// factsAt returns the branch outcomes that hold on every path into block b:
// for each If block D and successor S such that S's only predecessor is D and
// S dominates b, the condition has S's polarity.
func factsAt(b *ssa.BasicBlock) []edgeFact {
	var out []edgeFact
	for x := b; x != nil; x = x.Idom() {
		if len(x.Preds) != 1 {
			continue
		}
		d := x.Preds[0]
		ifi, ok := d.Instrs[len(d.Instrs)-1].(*ssa.If)
		if !ok {
			continue
		}
		if d.Succs[0] == d.Succs[1] {
			continue
		}
		out = append(out, edgeFact{Cond: ifi.Cond, Truth: d.Succs[0] == x, From: d})
	}
	return out
}

var complementOp = map[token.Token]token.Token{
	token.EQL: token.NEQ, token.NEQ: token.EQL,
	token.LSS: token.GEQ, token.GEQ: token.LSS,
	token.GTR: token.LEQ, token.LEQ: token.GTR,
}

var complementCache = map[*ssa.BinOp]*ssa.BinOp{}

// complementOf returns a synthetic comparison with the complementary operator
// over the same operands (it belongs to no block; only Op, X and Y are
// meaningful). One instance per original, so that facts stay comparable.
func complementOf(bo *ssa.BinOp, op token.Token) *ssa.BinOp {
	if c, ok := complementCache[bo]; ok {
		return c
	}
	c := &ssa.BinOp{Op: op, X: bo.X, Y: bo.Y}
	complementCache[bo] = c
	return c
}

// expandFacts decomposes facts through boolean negation (UnOp !) and through
// the phis go/ssa builds for && and || in value position (switch cases):
// a true && chain means every conjunct is true, a false || chain that every
// disjunct is false.
func expandFacts(fs []edgeFact) []edgeFact {
	var out []edgeFact
	seen := map[edgeFact]bool{}
	var add func(f edgeFact, depth int)
	add = func(f edgeFact, depth int) {
		for {
			u, ok := f.Cond.(*ssa.UnOp)
			if ok && u.Op == token.NOT {
				f = edgeFact{Cond: u.X, Truth: !f.Truth, From: f.From}
				continue
			}
			break
		}
		if seen[f] || depth > 8 {
			return
		}
		seen[f] = true
		out = append(out, f)
		// a comparison known false is its complement known true: consumers look
		// for "x == y is true" and must also see "x != y is false" (guard clauses)
		if bo, ok := f.Cond.(*ssa.BinOp); ok && !f.Truth && bo.Block() != nil {
			if cop, ok := complementOp[bo.Op]; ok {
				nb := complementOf(bo, cop)
				nf := edgeFact{Cond: nb, Truth: true, From: f.From}
				if !seen[nf] {
					seen[nf] = true
					out = append(out, nf)
				}
			}
		}
		phi, ok := f.Cond.(*ssa.Phi)
		if !ok {
			return
		}
		// edges that are the constant !Truth cannot have been taken
		var live []int
		for i, e := range phi.Edges {
			if cb, isC := constBool(e); isC && cb != f.Truth {
				continue
			}
			live = append(live, i)
		}
		if len(live) != 1 {
			return
		}
		i := live[0]
		pred := phi.Block().Preds[i]
		add(edgeFact{Cond: phi.Edges[i], Truth: f.Truth, From: f.From}, depth+1)
		// the predecessor was reached: what holds on every path into it
		for _, pf := range factsAt(pred) {
			add(edgeFact{Cond: pf.Cond, Truth: pf.Truth, From: f.From}, depth+1)
		}
	}
	for _, f := range fs {
		add(f, 0)
	}
	return out
}

// ---------------------------------------------------------------------------
// instruction-level reachability

type ipos struct {
	b *ssa.BasicBlock
	i int
}

func instrPos(ins ssa.Instruction) ipos {
	b := ins.Block()
	for i, x := range b.Instrs {
		if x == ins {
			return ipos{b, i}
		}
	}
	return ipos{b, -1}
}

// reachableAvoiding reports whether execution can go from just after `from`
// to `to` without executing `avoid` (avoid may be nil).
func reachableAvoiding(from, to, avoid ssa.Instruction) bool {
	fp, tp := instrPos(from), instrPos(to)
	var ap ipos
	if avoid != nil {
		ap = instrPos(avoid)
	}
	// scan the rest of from's block
	scan := func(b *ssa.BasicBlock, start int) (hit bool, blocked bool) {
		for i := start; i < len(b.Instrs); i++ {
			if avoid != nil && ap.b == b && ap.i == i {
				return false, true
			}
			if tp.b == b && tp.i == i {
				return true, false
			}
		}
		return false, false
	}
	if hit, blocked := scan(fp.b, fp.i+1); hit {
		return true
	} else if blocked {
		return false
	}
	seen := map[*ssa.BasicBlock]bool{}
	work := append([]*ssa.BasicBlock{}, fp.b.Succs...)
	for len(work) > 0 {
		b := work[len(work)-1]
		work = work[:len(work)-1]
		if seen[b] {
			continue
		}
		seen[b] = true
		hit, blocked := scan(b, 0)
		if hit {
			return true
		}
		if blocked {
			continue
		}
		work = append(work, b.Succs...)
	}
	return false
}

// blockReaches reports whether block a can reach block b (a == b counts only
// through a cycle unless refl is set).
func blockReaches(a, b *ssa.BasicBlock, refl bool) bool {
	if refl && a == b {
		return true
	}
	seen := map[*ssa.BasicBlock]bool{}
	work := append([]*ssa.BasicBlock{}, a.Succs...)
	for len(work) > 0 {
		x := work[len(work)-1]
		work = work[:len(work)-1]
		if seen[x] {
			continue
		}
		seen[x] = true
		if x == b {
			return true
		}
		work = append(work, x.Succs...)
	}
	return false
}

// ---------------------------------------------------------------------------
// value helpers

// stripValue removes value-preserving wrappers.
func stripValue(v ssa.Value) ssa.Value {
	for {
		switch x := v.(type) {
		case *ssa.ChangeType:
			v = x.X
		case *ssa.ChangeInterface:
			v = x.X
		case *ssa.MakeInterface:
			v = x.X
		default:
			return v
		}
	}
}

// origins follows phis, value-preserving conversions and interface boxing
// back to the set of defining values.
func origins(v ssa.Value) []ssa.Value {
	seen := map[ssa.Value]bool{}
	var out []ssa.Value
	var walk func(v ssa.Value)
	walk = func(v ssa.Value) {
		if v == nil || seen[v] {
			return
		}
		seen[v] = true
		switch x := v.(type) {
		case *ssa.Phi:
			for _, e := range x.Edges {
				walk(e)
			}
		case *ssa.ChangeType:
			walk(x.X)
		case *ssa.ChangeInterface:
			walk(x.X)
		case *ssa.MakeInterface:
			walk(x.X)
		default:
			out = append(out, v)
		}
	}
	walk(v)
	return out
}

// callOf returns the call instruction and static callee of a value that is a
// call result (directly or through Extract).
func callOf(v ssa.Value) (*ssa.Call, int) {
	switch x := v.(type) {
	case *ssa.Call:
		return x, -1
	case *ssa.Extract:
		if c, ok := x.Tuple.(*ssa.Call); ok {
			return c, x.Index
		}
	}
	return nil, -1
}

// calleeIs reports whether the call statically targets pkgpath.name
// (name may be "(*T).M" / "(T).M" for methods, or plain for functions).
func calleeIs(c ssa.CallInstruction, pkgpath, name string) bool {
	sc := c.Common().StaticCallee()
	if sc == nil {
		return false
	}
	return fullName(sc) == pkgpath+"."+name
}

// fullName is pkgpath.Name for functions and pkgpath.(*T).M for methods.
func fullName(f *ssa.Function) string {
	pkg := ""
	if f.Pkg != nil {
		pkg = f.Pkg.Pkg.Path()
	} else if f.Object() != nil && f.Object().Pkg() != nil {
		pkg = f.Object().Pkg().Path()
	}
	return pkg + "." + funcName(f)
}

// isBuiltinCall returns the builtin's name if c calls a builtin.
func builtinName(c *ssa.CallCommon) string {
	if b, ok := c.Value.(*ssa.Builtin); ok {
		return b.Name()
	}
	return ""
}

func typeStr(t types.Type) string {
	return types.TypeString(t, func(p *types.Package) string { return p.Name() })
}

// deref returns the element type of a pointer type (or t itself).
func deref(t types.Type) types.Type {
	if p, ok := t.Underlying().(*types.Pointer); ok {
		return p.Elem()
	}
	return t
}

// fieldName returns "T.f" for a FieldAddr/Field.
func fieldRef(x ssa.Value, field int) (owner string, name string) {
	t := deref(x.Type())
	st, ok := t.Underlying().(*types.Struct)
	if !ok {
		return typeStr(t), fmt.Sprint(field)
	}
	on := typeStr(t)
	if nt, ok := t.(*types.Named); ok {
		on = nt.Obj().Name()
	}
	return on, st.Field(field).Name()
}

// referrers returns a value's referrers (nil-safe).
func referrers(v ssa.Value) []ssa.Instruction {
	r := v.Referrers()
	if r == nil {
		return nil
	}
	return *r
}

// naturalLoop returns the blocks of the natural loop with header h (h plus
// every block that can reach a back-edge source without passing through h),
// or nil if h is not a loop header.
func naturalLoop(h *ssa.BasicBlock) map[*ssa.BasicBlock]bool {
	var latches []*ssa.BasicBlock
	for _, p := range h.Preds {
		if h.Dominates(p) {
			latches = append(latches, p)
		}
	}
	if len(latches) == 0 {
		return nil
	}
	loop := map[*ssa.BasicBlock]bool{h: true}
	work := append([]*ssa.BasicBlock{}, latches...)
	for len(work) > 0 {
		b := work[len(work)-1]
		work = work[:len(work)-1]
		if loop[b] {
			continue
		}
		loop[b] = true
		work = append(work, b.Preds...)
	}
	return loop
}

// ---------------------------------------------------------------------------
// summaries of small search helpers

// An existsSummary describes a function "is there an element of <collection>
// whose name equals <parameter>": it returns true only right after such an
// equality held and false only after the whole collection was scanned.
type existsSummary struct {
	nameParam int       // index of the parameter compared with the elements
	collParam int       // index of the slice parameter scanned (-1: a field of the receiver)
	collField string    // field of the receiver scanned (collParam == -1)
	elemField string    // "" when the elements themselves are compared, else the field (Name, FromName)
	eq        *ssa.BinOp // the comparison
}

var existsCache = map[*ssa.Function]*existsSummary{}
var existsDone = map[*ssa.Function]bool{}

func existsPredicate(fn *ssa.Function) *existsSummary {
	if existsDone[fn] {
		return existsCache[fn]
	}
	existsDone[fn] = true
	if fn == nil || fn.Blocks == nil || fn.Signature.Results().Len() != 1 {
		return nil
	}
	if bt, ok := fn.Signature.Results().At(0).Type().Underlying().(*types.Basic); !ok || bt.Kind() != types.Bool {
		return nil
	}
	var sum *existsSummary
	isMatch := func(cond ssa.Value, truth bool) bool {
		bo, ok := cond.(*ssa.BinOp)
		if !ok || bo.Op != token.EQL || !truth {
			return false
		}
		for _, pr := range [][2]ssa.Value{{bo.X, bo.Y}, {bo.Y, bo.X}} {
			prm, ok := pr[1].(*ssa.Parameter)
			if !ok {
				continue
			}
			np := -1
			for i, q := range fn.Params {
				if q == prm {
					np = i
				}
			}
			// the element side
			elem := pr[0]
			fld := ""
			if b, f, ok := fieldLoad(elem); ok {
				if _, isIA := b.(*ssa.IndexAddr); isIA {
					elem, fld = b, f
				} else if al, isAl := b.(*ssa.Alloc); isAl {
					if sv := singleStore(al); sv != nil {
						if ld, ok := sv.(*ssa.UnOp); ok {
							if ia, ok := ld.X.(*ssa.IndexAddr); ok {
								elem, fld = ia, f
							}
						}
					}
				} else if ld, isLd := b.(*ssa.UnOp); isLd {
					if ia, ok := ld.X.(*ssa.IndexAddr); ok {
						elem, fld = ia, f
					}
				}
			}
			var ia *ssa.IndexAddr
			switch e := elem.(type) {
			case *ssa.IndexAddr:
				ia = e
			case *ssa.UnOp:
				ia, _ = e.X.(*ssa.IndexAddr)
			}
			var coll ssa.Value
			if ia != nil {
				coll = ia.X
			} else if b, f, ok := fieldLoad(pr[0]); ok {
				// an entry of a map that is being ranged over: m[k] with k the
				// range key, or the range value itself
				if m := rangedMapEntry(b); m != nil {
					coll, fld = m, f
				}
			}
			if coll == nil {
				continue
			}
			s := &existsSummary{nameParam: np, collParam: -1, elemField: fld, eq: bo}
			if cp, ok := coll.(*ssa.Parameter); ok {
				for i, q := range fn.Params {
					if q == cp {
						s.collParam = i
					}
				}
			} else if _, f, ok := fieldLoad(coll); ok {
				s.collField = f
			} else if c, _ := callOf(coll); c != nil && c.Common().StaticCallee() != nil {
				// the list is computed by a function of the package (e.g. fields())
				s.collField = "call:" + funcName(c.Common().StaticCallee())
			} else {
				continue
			}
			if sum == nil {
				sum = s
			}
			return sum.nameParam == s.nameParam && sum.collParam == s.collParam && sum.collField == s.collField && sum.elemField == s.elemField
		}
		return false
	}
	for _, b := range fn.Blocks {
		ret, ok := b.Instrs[len(b.Instrs)-1].(*ssa.Return)
		if !ok {
			continue
		}
		type src struct {
			val ssa.Value
			blk *ssa.BasicBlock
		}
		srcs := []src{{ret.Results[0], b}}
		if phi, ok := ret.Results[0].(*ssa.Phi); ok && phi.Block() == b {
			srcs = nil
			for i, e := range phi.Edges {
				srcs = append(srcs, src{e, b.Preds[i]})
			}
		}
		for _, s := range srcs {
			cb, isC := constBool(s.val)
			if !isC {
				return nil
			}
			if cb {
				if !mustPassEdge(fn, s.blk, isMatch) {
					return nil
				}
			} else {
				// false only outside the scanning loop
				for _, h := range fn.Blocks {
					if l := naturalLoop(h); l != nil && l[s.blk] {
						return nil
					}
				}
			}
		}
	}
	if sum == nil {
		return nil
	}
	// the scanning loop is left only by exhaustion or by returning true
	for _, h := range fn.Blocks {
		l := naturalLoop(h)
		if l == nil || !l[sum.eq.Block()] {
			continue
		}
		for x := range l {
			for _, s := range x.Succs {
				if l[s] || x == h {
					continue
				}
				ok := false
				if ifi, isIf := x.Instrs[len(x.Instrs)-1].(*ssa.If); isIf && ifi.Cond == ssa.Value(sum.eq) && x.Succs[0] == s {
					ok = true
				}
				if !ok {
					return nil
				}
			}
		}
	}
	existsCache[fn] = sum
	return sum
}

// originsDeep is origins that also looks into the small unexported helpers of
// the package: a result of such a helper stands for what its returns carry at
// that position (the values are then values of the helper, whose parameters
// keep their own identity).
func originsDeep(v ssa.Value) []ssa.Value {
	seen := map[ssa.Value]bool{}
	var out []ssa.Value
	var walk func(v ssa.Value, depth int)
	walk = func(v ssa.Value, depth int) {
		for _, o := range origins(v) {
			if seen[o] {
				continue
			}
			seen[o] = true
			c, idx := callOf(o)
			if c != nil && depth < 3 {
				if g := c.Common().StaticCallee(); g != nil && g.Blocks != nil && smallHelper(g) {
					if idx < 0 {
						idx = 0
					}
					n := 0
					for _, b := range g.Blocks {
						if ret, ok := b.Instrs[len(b.Instrs)-1].(*ssa.Return); ok && idx < len(ret.Results) {
							n++
							walk(ret.Results[idx], depth+1)
						}
					}
					if n > 0 {
						continue
					}
				}
			}
			out = append(out, o)
		}
	}
	walk(v, 0)
	return out
}

// rangedMapEntry: v is an entry of a map under a range loop over that map -
// m[k] with k the key handed out by the range, or the value handed out by the
// range. It returns the map (nil otherwise).
func rangedMapEntry(v ssa.Value) ssa.Value {
	rangeOf := func(x ssa.Value, idx int) ssa.Value {
		ex, ok := x.(*ssa.Extract)
		if !ok || ex.Index != idx {
			return nil
		}
		nx, ok := ex.Tuple.(*ssa.Next)
		if !ok {
			return nil
		}
		rg, ok := nx.Iter.(*ssa.Range)
		if !ok {
			return nil
		}
		if _, isMap := rg.X.Type().Underlying().(*types.Map); !isMap {
			return nil
		}
		return rg.X
	}
	if m := rangeOf(v, 2); m != nil {
		return m
	}
	lk, ok := v.(*ssa.Lookup)
	if !ok {
		return nil
	}
	m := rangeOf(lk.Index, 1)
	if m == nil {
		return nil
	}
	if m == lk.X {
		return m
	}
	b1, f1, ok1 := fieldLoad(m)
	b2, f2, ok2 := fieldLoad(lk.X)
	if ok1 && ok2 && f1 == f2 && b1 == b2 {
		return m
	}
	return nil
}
