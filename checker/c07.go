package main

import (
	"fmt"
	"go/constant"
	"go/token"
	"go/types"
	"strings"

	"golang.org/x/tools/go/ssa"
)

func init() { register("C07", checkC07) }

// NewRequest runs the same three URL functions on r.URL before it touches the
// body; its body handling belongs to C05.
var e7 = []string{"NewURLFromRaw", "NewSimpleURL", "NewURL", "NewParams"}

func checkC07(p *Prog, r *Report) {
	r.rule("C07.type-lookup: Schema.GetType / HasType find a type by one exact equality test between a type's Name and the requested name and call nothing else (the comparison AddType uses to keep names unique)")
	checkTypeLookup(p, r, "C07")
	r.rule(r3RuleText)
	r.rule("R11 splice loops: " + "after X = append(X[:a], X[b:]...) inside a loop over the removed index, the loop must leave, count downwards, or continue at an index <= a (so the element that moved down is examined)")
	r.rule("R8b prefix pruning: strings.HasPrefix between two items of a list whose items are later split on a delimiter must test the shorter item followed by that delimiter")
	r.rule("R4 error discipline and (value, nil) / (nothing, error) returns for NewURLFromRaw, NewURL, NewParams")
	r.rule("C07.collection-detection: the to-one/to-many question for a relationship URL is answered by the relationship named by the last fragment, looked up in the type named by the first fragment")
	r.rule("C07.fields-default: every write to params.Fields outside the defaulting loop (which replaces an empty selection by all fields of the type) is followed by that loop on every path to the successful return")
	r.rule("C07.fields-fresh: a list stored into Params.Fields inside a loop traces back (through append, reslice, merges) to an allocation made inside that loop or to the entry's own previous value, never to a slice carried over from the previous type")
	r.rule("C07.fields-dup-check: the duplicate-field error of NewParams is guarded by a test on elements of the very list stored in Params.Fields (two of its elements equal, or a per-element occurrence count of it above one)")
	r.rule("C07.sort-name-tests: in the loop over the caller's sorting rules the comparison with \"id\" and the comparisons with the attribute names are applied to one and the same value (the rule stripped of its dash), so every valid rule is kept")
	r.rule("C07.member-append: in NewParams every string appended to a result list is a constant, or is guarded by an equality with \"id\", with an attribute name of the schema type, or with an element of Type.Fields(), or comes from a list built that way")
	r.rule("C07.include-chain: wherever the type for the next word of an inclusion path is looked up from <rel>.ToType, the same loop stores into <rel> the relationship found in the current type's Rels map, on a path back to that lookup (the walk advances along the chain of relationships)")
	r.rule("C07.id-total: the list stored in Params.SortingRules contains \"id\" on every path (an append of the constant, or a flag that is only set where a rule equal to \"id\" was appended)")
	r.rule("C07.type-exists: NewURL returns a URL only behind a test that the first path fragment names a schema type; every key written to Params.Fields is the resource type, a schema relationship's target type, or a name tested with GetType")
	r.assume("SimpleURL values passed to NewURL/NewParams come from NewSimpleURL (the property quantifies over raw URL strings); the element invariant on SimpleURL.SortingRules is established by a package-wide who-writes check")
	r.assume("net/url returns errors rather than panicking on malformed input")
	r.notCovered("that pruned inclusion paths are exactly the maximal ones, uniqueness of sorting rules, and the values net/url produces")

	pc := runR3(p, r, r3opts{entries: e7, explicit: wrapperDelegation, delegate: wrapperSitesDelegated, assumeGet: true, getNilImpl: implReturningNilIface(p), floorSites: 90, floorFns: 12})

	np := p.Fn("NewParams")
	if np == nil {
		r.fail("anchor NewParams not found")
		return
	}
	// R11
	nSpl := 0
	for _, name := range []string{"NewParams"} {
		nSpl += checkSpliceLoopsScope(p, r, pc, p.Fn(name))
	}
	r.count("splices in NewParams", nSpl) // no floor: a rewrite without splices is legitimate; detection ability is calibrated by the seeded variants

	// R8b
	checkPrefixPruning(p, r, pc, np)

	// R4
	var roots []*ssa.Function
	for _, e := range []string{"NewURLFromRaw", "NewSimpleURL", "NewURL", "NewParams"} {
		if f := p.Fn(e); f != nil {
			roots = append(roots, f)
		}
	}
	var scope []*ssa.Function
	for _, f := range p.cg.Reachable(roots...) {
		scope = append(scope, f)
	}
	nErr := checkErrDrops(p, r, scope, []errException{
		{"(*Filter).UnmarshalJSON", "encoding/json.Unmarshal", "the raw value was already validated by the enclosing Unmarshal and the target is an empty interface"},
		{"(Error).Error", "strconv.Atoi", "a non-numeric status yields 0, for which http.StatusText is empty; the next test handles it"},
	})
	r.floor("R4a error-returning calls", nErr, 8)
	for _, e := range []string{"NewURLFromRaw", "NewURL", "NewParams"} {
		if f := p.Fn(e); f != nil {
			checkReturnExclusive(p, r, f)
		}
	}

	checkIncludeChain(p, r, np)
	checkMemberAppends(p, r, np)
	checkSortNameTests(p, r, np)
	checkFieldsDefault(p, r, "C07")
	checkFieldsFresh(p, r, "C07")
	checkFieldsDupCheck(p, r, "C07")
	checkCollectionDetection(p, r, np)
	r.rule("C07.rel-fragment: NewURL looks the relationship of a relationship URL up under the last path fragment (or a fixed position under the test that the path has exactly that many fragments), the fragment NewParams uses for the collection question")
	checkRelFragment(p, r)
	checkIDTotal(p, r, np)
	checkURLTypeExists(p, r)
}

// checkPrefixPruning implements R8b.
func checkPrefixPruning(p *Prog, r *Report, pc *panicChecker, f0 *ssa.Function) {
	scope := append([]*ssa.Function{f0}, stringHelpers(f0)...)
	// separators used to split items of a string list in the function and the
	// phase helpers it calls
	seps := map[string]bool{}
	eachInstrOf(scope, func(ins ssa.Instruction) {
		if c, ok := ins.(*ssa.Call); ok {
			if sc := c.Common().StaticCallee(); sc != nil && fullName(sc) == "strings.Split" {
				if s, ok := constString(c.Common().Args[1]); ok {
					seps[s] = true
				}
			}
		}
	})
	n := 0
	for _, f := range scope {
		n += checkPrefixPruning1(p, r, pc, f, seps)
	}
	r.floor("prefix tests between list items", n, 1)
}

func checkPrefixPruning1(p *Prog, r *Report, pc *panicChecker, f *ssa.Function, seps map[string]bool) int {
	bf := pc.bf(f)
	n := 0
	eachInstr(f, func(ins ssa.Instruction) {
		c, ok := ins.(*ssa.Call)
		if !ok {
			return
		}
		sc := c.Common().StaticCallee()
		if sc == nil || fullName(sc) != "strings.HasPrefix" {
			return
		}
		a, b := c.Common().Args[0], c.Common().Args[1]
		elemOf := func(v ssa.Value) ssa.Value {
			if ld, ok := v.(*ssa.UnOp); ok && ld.Op == token.MUL {
				if ia, ok := ld.X.(*ssa.IndexAddr); ok {
					return bf.find(ia.X)
				}
			}
			return nil
		}
		la := elemOf(a)
		if la == nil {
			return
		}
		// second operand: a list item, or item + separator
		var item ssa.Value = b
		sep := ""
		if bo, ok := b.(*ssa.BinOp); ok && bo.Op == token.ADD {
			if s, ok := constString(bo.Y); ok {
				item, sep = bo.X, s
			}
		}
		lb := elemOf(item)
		if lb == nil || !sameListVar(la, lb) {
			return
		}
		n++
		good := sep != "" && seps[sep]
		r.decide(good, "R8b.prefix-pruning", funcName(f)+":"+p.describe(c), p.pos(c.Pos()),
			"the shorter item is compared together with the delimiter "+sep,
			"an item of the list is pruned when another item merely starts with the same characters (no delimiter in the test): \"author\" is dropped in favour of \"authors\" although it is not a prefix of that path")
	})
	return n
}

// sameListVar: both values are versions of the same slice variable (equal, or
// connected through phis / splices of each other).
func sameListVar(a, b ssa.Value) bool {
	if a == b {
		return true
	}
	reach := func(from, to ssa.Value) bool {
		seen := map[ssa.Value]bool{}
		var walk func(v ssa.Value) bool
		walk = func(v ssa.Value) bool {
			if v == to {
				return true
			}
			if v == nil || seen[v] {
				return false
			}
			seen[v] = true
			switch x := v.(type) {
			case *ssa.Phi:
				for _, e := range x.Edges {
					if walk(e) {
						return true
					}
				}
			case *ssa.Slice:
				return walk(x.X)
			case *ssa.Call:
				if bi, ok := x.Call.Value.(*ssa.Builtin); ok && bi.Name() == "append" {
					for _, arg := range x.Call.Args {
						if walk(arg) {
							return true
						}
					}
				}
			case *ssa.ChangeType:
				return walk(x.X)
			}
			return false
		}
		return walk(from)
	}
	return reach(a, b) || reach(b, a)
}

// derivesFrom: x is e, or e with a prefix stripped (a slice of e), possibly merged by phis.
func derivesFrom(x, e ssa.Value, depth int) bool {
	if x == e {
		return true
	}
	if depth > 4 {
		return false
	}
	switch v := x.(type) {
	case *ssa.Phi:
		for _, ed := range v.Edges {
			if !derivesFrom(ed, e, depth+1) {
				return false
			}
		}
		return len(v.Edges) > 0
	case *ssa.Slice:
		return derivesFrom(v.X, e, depth+1)
	case *ssa.Call:
		// strings.TrimPrefix(x, "<one character>") strips at most that one character
		if calleeIs(v, "strings", "TrimPrefix") && len(v.Common().Args) == 2 {
			if s, ok := constString(v.Common().Args[1]); ok && len(s) == 1 {
				return derivesFrom(v.Common().Args[0], e, depth+1)
			}
		}
		// a small helper of the package, every result of which is its own
		// argument or a slice of it (a "strip the dash" helper)
		if g := v.Common().StaticCallee(); g != nil && smallHelper(g) && len(g.Params) == 1 && len(v.Common().Args) == 1 {
			all := true
			n := 0
			for _, b := range g.Blocks {
				if ret, ok := b.Instrs[len(b.Instrs)-1].(*ssa.Return); ok && len(ret.Results) == 1 {
					n++
					if !derivesFrom(ret.Results[0], g.Params[0], depth+1) {
						all = false
					}
				}
			}
			if all && n > 0 {
				return derivesFrom(v.Common().Args[0], e, depth+1)
			}
		}
	}
	return false
}

// isSchemaName: v is an attribute name of a schema type (the Name field of an
// Attr taken from a map[string]Attr), a relationship name, or an element of
// the result of Type.Fields().
func isSchemaName(v ssa.Value) bool {
	if base, f, ok := fieldLoad(v); ok && (f == "Name" || f == "FromName") {
		t := deref(base.Type())
		if nt, ok := t.(*types.Named); ok && (nt.Obj().Name() == "Attr" || nt.Obj().Name() == "Rel") {
			return true
		}
	}
	if ld, ok := v.(*ssa.UnOp); ok && ld.Op == token.MUL {
		if ia, ok := ld.X.(*ssa.IndexAddr); ok {
			if c, _ := callOf(ia.X); c != nil {
				if sc := c.Common().StaticCallee(); sc != nil && funcName(sc) == "(*Type).Fields" {
					return true
				}
			}
		}
	}
	return false
}

// guardedMember: at block b, some dominating equality relates (a derivative
// of) e to "id" or to a schema name.
func guardedMember(e ssa.Value, b *ssa.BasicBlock) (bool, string) {
	if s, ok := constString(e); ok {
		return true, "constant " + s
	}
	if isSchemaName(e) {
		return true, "a name read from the schema type"
	}
	for _, ef := range expandFacts(factsAt(b)) {
		bo, ok := ef.Cond.(*ssa.BinOp)
		if !ok || bo.Op != token.EQL || !ef.Truth {
			continue
		}
		for _, pr := range [][2]ssa.Value{{bo.X, bo.Y}, {bo.Y, bo.X}} {
			if !derivesFrom(pr[0], e, 0) {
				continue
			}
			if s, ok := constString(pr[1]); ok && s == "id" {
				return true, "guarded by == \"id\""
			}
			if isSchemaName(pr[1]) {
				return true, "guarded by equality with a name of the schema type"
			}
		}
	}
	return false, ""
}

// checkSortNameTests: in the loop over the caller's sorting rules, the test
// against "id" and the test against the attribute names look at the same
// value (the rule without its leading dash), so "-id" is recognised exactly
// like "-name".
func checkSortNameTests(p *Prog, r *Report, f *ssa.Function) {
	n := 0
	for _, ld := range findLoops(f) {
		if ld.kind != "slice" {
			continue
		}
		if _, fl, ok := fieldLoad(ld.src); !ok || fl != "SortingRules" {
			continue
		}
		var tested []ssa.Value
		var where []ssa.Instruction
		// the natural loop plus the blocks of its early exits
		blocks := map[*ssa.BasicBlock]bool{}
		for b := range ld.blocks {
			blocks[b] = true
		}
		for b := range blocks {
			for _, ins := range b.Instrs {
				bo, ok := ins.(*ssa.BinOp)
				if !ok || bo.Op != token.EQL {
					continue
				}
				for _, pr := range [][2]ssa.Value{{bo.X, bo.Y}, {bo.Y, bo.X}} {
					s, isC := constString(pr[1])
					if (isC && s == "id") || isSchemaName(pr[1]) {
						tested = append(tested, pr[0])
						where = append(where, bo)
					}
				}
			}
		}
		if len(tested) < 2 {
			continue
		}
		n++
		same := true
		for _, t := range tested[1:] {
			if t != tested[0] {
				same = false
			}
		}
		r.decide(same, "C07.sort-name-tests", "NewParams:sorting-loop", p.pos(where[0].Pos()), "\"id\" and the attribute names are tested against the same dash-stripped rule",
			"the test against \"id\" and the test against the attribute names look at different values: a valid descending rule (-id or -name) is not recognised and is dropped")
	}
	r.floor("sorting loops with name tests", n, 1)
}

// checkMemberAppends: every string appended in f is a member by construction.
func checkMemberAppends(p *Prog, r *Report, f *ssa.Function) {
	n := 0
	guardedLists := map[ssa.Value]bool{}
	type app struct {
		c    *ssa.Call
		elem []ssa.Value
		list ssa.Value // variadic list argument, if any
	}
	var apps []app
	eachInstr(f, func(ins ssa.Instruction) {
		c, ok := ins.(*ssa.Call)
		if !ok {
			return
		}
		b, ok := c.Call.Value.(*ssa.Builtin)
		if !ok || b.Name() != "append" || len(c.Call.Args) != 2 {
			return
		}
		sl, ok := c.Type().Underlying().(*types.Slice)
		if !ok {
			return
		}
		if bt, ok := sl.Elem().Underlying().(*types.Basic); !ok || bt.Info()&types.IsString == 0 {
			return
		}
		a := app{c: c}
		if s, ok := c.Call.Args[1].(*ssa.Slice); ok {
			if al, ok := s.X.(*ssa.Alloc); ok {
				if _, isArr := deref(al.Type()).Underlying().(*types.Array); isArr {
					for _, ref := range referrers(al) {
						if ia, ok := ref.(*ssa.IndexAddr); ok {
							for _, r2 := range referrers(ia) {
								if st, ok := r2.(*ssa.Store); ok {
									a.elem = append(a.elem, st.Val)
								}
							}
						}
					}
					apps = append(apps, a)
					return
				}
			}
		}
		a.list = c.Call.Args[1]
		apps = append(apps, a)
	})
	// first pass: element appends
	status := map[*ssa.Call]bool{}
	for _, a := range apps {
		if a.list != nil {
			continue
		}
		ok := true
		why := ""
		for _, e := range a.elem {
			g, w := guardedMember(e, a.c.Block())
			if !g {
				ok = false
			}
			why = w
		}
		if !ok {
			// an in-place compaction: the list appended to starts as L[:0] and
			// every appended element is an element of L itself - a sub-list of
			// L, whose elements are validated where L's are
			if l := compactionSource(a.c.Call.Args[0], 0); l != nil {
				all := len(a.elem) > 0
				for _, e := range a.elem {
					ld, isLd := e.(*ssa.UnOp)
					if !isLd || ld.Op != token.MUL {
						all = false
						continue
					}
					ia, isIA := ld.X.(*ssa.IndexAddr)
					if !isIA || !sameListVar(stripValue(ia.X), l) {
						all = false
					}
				}
				if all {
					ok, why = true, "an element of the list that is being compacted in place"
				}
			}
		}
		status[a.c] = ok
		n++
		r.decide(ok, "C07.member-append", funcName(f)+":"+p.describe(a.c), p.pos(a.c.Pos()), "appended element: "+why,
			"a string is appended to a result list without a guard that it is \"id\" or a field/attribute name of the schema type")
		if ok {
			guardedLists[a.c] = true
		}
	}
	// second pass: appends of whole lists: the list must be a splice of the
	// same variable or built only from guarded appends
	for _, a := range apps {
		if a.list == nil {
			continue
		}
		n++
		src := stripValue(a.list)
		ok := sameListVar(stripValue(a.c.Call.Args[0]), src) || listBuiltFrom(src, status, 0)
		if !ok {
			// a clone of one of the parsed URL's own lists (append(nil, su.X...)):
			// its elements are validated later like those of a make+copy clone
			base := a.c.Call.Args[0]
			if cst, isC := base.(*ssa.Const); isC && cst.Value == nil {
				if b2, _, okf := fieldLoad(src); okf && strings.HasSuffix(typeStr(deref(b2.Type())), "SimpleURL") {
					ok = true
				}
			}
		}
		r.decide(ok, "C07.member-append", funcName(f)+":"+p.describe(a.c), p.pos(a.c.Pos()), "appends a list that is a part of the same list or was built from guarded elements",
			"a list of unknown provenance is appended to a result list")
	}
	r.floor("string appends in NewParams", n, 6)
}

// listBuiltFrom: the slice value is made only of guarded appends / make / splices.
func listBuiltFrom(v ssa.Value, status map[*ssa.Call]bool, depth int) bool {
	if depth > 8 {
		return true
	}
	switch x := v.(type) {
	case *ssa.MakeSlice:
		return true
	case *ssa.Slice:
		return listBuiltFrom(x.X, status, depth+1)
	case *ssa.Phi:
		for _, e := range x.Edges {
			if !listBuiltFrom(e, status, depth+1) {
				return false
			}
		}
		return true
	case *ssa.Call:
		if b, ok := x.Call.Value.(*ssa.Builtin); ok && b.Name() == "append" {
			if ok2, known := status[x]; known {
				return ok2 && listBuiltFrom(x.Call.Args[0], status, depth+1)
			}
			return listBuiltFrom(x.Call.Args[0], status, depth+1) && listBuiltFrom(stripValue(x.Call.Args[1]), status, depth+1)
		}
	case *ssa.Alloc:
		return true
	}
	return false
}

// checkIDTotal: the value stored into Params.SortingRules contains "id".
func checkIDTotal(p *Prog, r *Report, f *ssa.Function) {
	n := 0
	eachInstr(f, func(ins ssa.Instruction) {
		st, ok := ins.(*ssa.Store)
		if !ok {
			return
		}
		fa, ok := st.Addr.(*ssa.FieldAddr)
		if !ok {
			return
		}
		if o, fl := fieldRef(fa.X, fa.Field); o != "Params" || fl != "SortingRules" {
			return
		}
		// the empty literal of the constructor is not a collection URL's list
		if sl, ok := st.Val.(*ssa.Slice); ok {
			if al, ok := sl.X.(*ssa.Alloc); ok {
				if at, ok := deref(al.Type()).Underlying().(*types.Array); ok && at.Len() == 0 {
					return
				}
			}
		}
		n++
		ok2, why := containsID(st.Val, st.Block(), nil, 0)
		r.decide(ok2, "C07.id-total", funcName(f)+":"+p.describe(st), p.pos(st.Pos()), "the stored list contains \"id\" on every path: "+why,
			"the sorting rules of a collection URL may lack \"id\": "+why+" (the order they define is then not total)")
	})
	r.floor("stores to Params.SortingRules", n, 1)
}

// containsID: slice value v (as seen in block b, reached from pred) contains "id".
func containsID(v ssa.Value, b, pred *ssa.BasicBlock, depth int) (bool, string) {
	if depth > 10 {
		return false, "too deep"
	}
	switch x := v.(type) {
	case *ssa.Call:
		if bi, ok := x.Call.Value.(*ssa.Builtin); ok && bi.Name() == "append" {
			// an appended constant "id"
			if s, ok := x.Call.Args[1].(*ssa.Slice); ok {
				if al, ok := s.X.(*ssa.Alloc); ok {
					for _, ref := range referrers(al) {
						if ia, ok := ref.(*ssa.IndexAddr); ok {
							for _, r2 := range referrers(ia) {
								if st, ok := r2.(*ssa.Store); ok {
									if cs, ok := constString(st.Val); ok && cs == "id" {
										return true, "append of the constant \"id\""
									}
								}
							}
						}
					}
				}
			}
			return containsID(x.Call.Args[0], x.Block(), nil, depth+1)
		}
	case *ssa.Phi:
		for i, e := range x.Edges {
			p := x.Block().Preds[i]
			if idFlagTrueOnEdge(p, x.Block()) {
				continue
			}
			if ok, why := containsID(e, p, nil, depth+1); !ok {
				return false, "on the path through block " + p.String() + ": " + why
			}
		}
		return true, "every merged path appends \"id\" or carries the id-found flag"
	}
	// a flag fact in the current block
	for _, ef := range expandFacts(factsAt(b)) {
		if isIDFlag(ef.Cond) && ef.Truth {
			return true, "dominated by the id-found flag"
		}
	}
	return false, "no append of \"id\" and no id-found flag"
}

func idFlagTrueOnEdge(pred, succ *ssa.BasicBlock) bool {
	facts := factsAt(pred)
	if ifi, ok := pred.Instrs[len(pred.Instrs)-1].(*ssa.If); ok && pred.Succs[0] != pred.Succs[1] {
		facts = append(facts, edgeFact{Cond: ifi.Cond, Truth: pred.Succs[0] == succ})
	}
	for _, ef := range expandFacts(facts) {
		if ef.Truth && isIDFlag(ef.Cond) {
			return true
		}
	}
	return false
}

// isIDFlag: a boolean phi that becomes true only on an edge from a block in
// which a rule equal to "id" (after stripping '-') was appended.
func isIDFlag(v ssa.Value) bool {
	if lk, ok := v.(*ssa.Lookup); ok && !lk.CommaOk {
		// the names for which a rule was kept are collected in a local set:
		// set["id"] is the id-found flag if "id" can only get into the set
		// where a rule equal to "id" was appended
		if s, ok := constString(lk.Index); ok && s == "id" {
			return idSetFlag(lk.X)
		}
		return false
	}
	phi, ok := v.(*ssa.Phi)
	if !ok {
		return false
	}
	seen := map[*ssa.Phi]bool{}
	var check func(ph *ssa.Phi) bool
	check = func(ph *ssa.Phi) bool {
		if seen[ph] {
			return true
		}
		seen[ph] = true
		sawTrue := false
		for i, e := range ph.Edges {
			if cb, isC := constBool(e); isC {
				if !cb {
					continue
				}
				sawTrue = true
				pred := ph.Block().Preds[i]
				// pred (or a dominator) established rule == "id" and appended
				okFact := false
				for _, ef := range expandFacts(factsAt(pred)) {
					if bo, ok := ef.Cond.(*ssa.BinOp); ok && bo.Op == token.EQL && ef.Truth {
						if s, ok := constString(bo.Y); ok && s == "id" {
							okFact = true
						}
						if s, ok := constString(bo.X); ok && s == "id" {
							okFact = true
						}
					}
				}
				hasAppend := false
				for _, ins := range pred.Instrs {
					if c, ok := ins.(*ssa.Call); ok {
						if bi, ok := c.Call.Value.(*ssa.Builtin); ok && bi.Name() == "append" {
							hasAppend = true
						}
					}
				}
				if !okFact || !hasAppend {
					return false
				}
				continue
			}
			if inner, ok := e.(*ssa.Phi); ok {
				if !check(inner) {
					return false
				}
				continue
			}
			return false
		}
		_ = sawTrue
		return true
	}
	return check(phi)
}

// checkURLTypeExists: NewURL's successful returns pass a GetType(...).Name
// test; the keys of Params.Fields are schema types.
func checkURLTypeExists(p *Prog, r *Report) {
	f := p.Fn("NewURL")
	if f == nil {
		r.fail("anchor NewURL not found")
		return
	}
	okCond := func(cond ssa.Value, truth bool) bool {
		for _, ef := range expandFacts([]edgeFact{{Cond: cond, Truth: truth}}) {
			if bo, ok := ef.Cond.(*ssa.BinOp); ok && (bo.Op == token.EQL || bo.Op == token.NEQ) {
				for _, pr := range [][2]ssa.Value{{bo.X, bo.Y}, {bo.Y, bo.X}} {
					if s, ok := constString(pr[1]); ok && s == "" && isNameOfGetType(pr[0]) && (bo.Op == token.NEQ) == ef.Truth {
						return true
					}
				}
			}
		}
		return false
	}
	n := 0
	eachInstr(f, func(ins ssa.Instruction) {
		ret, ok := ins.(*ssa.Return)
		if !ok || len(ret.Results) != 2 || !isNilConst(ret.Results[1]) {
			return
		}
		n++
		r.decide(mustPassEdgeP(f, ret.Block(), okCond, intBranchDecider(newBoundsFn(p, newFieldWrites(p), f))), "C07.type-exists", "NewURL:"+p.describe(ret), p.pos(ret.Pos()),
			"every path to the successful return tested that the first fragment names a schema type",
			"NewURL can return a URL without testing that the resource type exists in the schema")
	})
	r.floor("NewURL successful returns", n, 1)

	np := p.Fn("NewParams")
	if np == nil {
		return
	}
	nk := 0
	eachInstr(np, func(ins ssa.Instruction) {
		mu, ok := ins.(*ssa.MapUpdate)
		if !ok {
			return
		}
		ld, ok := mu.Map.(*ssa.UnOp)
		if !ok {
			return
		}
		fa, ok := ld.X.(*ssa.FieldAddr)
		if !ok {
			return
		}
		if o, fl := fieldRef(fa.X, fa.Field); o != "Params" || fl != "Fields" {
			return
		}
		nk++
		key := mu.Key
		why := ""
		good := false
		switch {
		case isParamNamed(key, "resType"):
			good, why = true, "the URL's resource type (validated by NewURL)"
		case isRelToType(key):
			good, why = true, "the target type of a relationship read from the schema"
		default:
			// a name k with a dominating GetType(k).Name != "" test, or a key of
			// the map being completed (range over params.Fields itself)
			for _, ef := range expandFacts(factsAt(mu.Block())) {
				if bo, ok := ef.Cond.(*ssa.BinOp); ok && (bo.Op == token.EQL || bo.Op == token.NEQ) {
					for _, pr := range [][2]ssa.Value{{bo.X, bo.Y}, {bo.Y, bo.X}} {
						if s, ok := constString(pr[1]); ok && s == "" && (bo.Op == token.NEQ) == ef.Truth && isNameOfGetTypeOf(pr[0], key) {
							good, why = true, "guarded by GetType(key).Name != \"\""
						}
					}
				}
			}
			if !good && isRangeKeyOfField(key, "Params", "Fields") {
				good, why = true, "a key already present in Params.Fields"
			}
		}
		r.decide(good, "C07.type-exists", "NewParams:"+p.describe(mu), p.pos(mu.Pos()), "key of Params.Fields: "+why,
			"a field-selection entry is created for a name that was not checked to be a schema type")
	})
	r.floor("writes to Params.Fields", nk, 4)
}

func isParamNamed(v ssa.Value, name string) bool {
	prm, ok := v.(*ssa.Parameter)
	return ok && prm.Name() == name
}

func isRelToType(v ssa.Value) bool {
	base, f, ok := fieldLoad(v)
	if !ok || f != "ToType" {
		return false
	}
	return structName(base.Type()) == "Rel"
}

// isNameOfGetTypeOf: v reads .Name of the result of GetType(key).
func isNameOfGetTypeOf(v, key ssa.Value) bool {
	base, f, ok := fieldLoad(v)
	if !ok || f != "Name" {
		return false
	}
	match := func(x ssa.Value) bool {
		c, _ := callOf(x)
		if c == nil {
			return false
		}
		sc := c.Common().StaticCallee()
		return sc != nil && funcName(sc) == "(*Schema).GetType" && len(c.Common().Args) == 2 && c.Common().Args[1] == key
	}
	if match(base) {
		return true
	}
	if al, ok := base.(*ssa.Alloc); ok {
		for _, ref := range referrers(al) {
			if st, ok := ref.(*ssa.Store); ok && st.Addr == ssa.Value(al) && match(st.Val) {
				return true
			}
		}
	}
	return false
}

// isRangeKeyOfField: v is the key variable of a range over owner.field.
func isRangeKeyOfField(v ssa.Value, owner, field string) bool {
	ex, ok := v.(*ssa.Extract)
	if !ok || ex.Index != 1 {
		return false
	}
	nx, ok := ex.Tuple.(*ssa.Next)
	if !ok {
		return false
	}
	rg, ok := nx.Iter.(*ssa.Range)
	if !ok {
		return false
	}
	ld, ok := rg.X.(*ssa.UnOp)
	if !ok {
		return false
	}
	fa, ok := ld.X.(*ssa.FieldAddr)
	if !ok {
		return false
	}
	o, fl := fieldRef(fa.X, fa.Field)
	return o == owner && fl == field && !strings.Contains(o, " ")
}

// checkIncludeChain implements C07.include-chain.
func checkIncludeChain(p *Prog, r *Report, f0 *ssa.Function) {
	n := 0
	for _, f := range append([]*ssa.Function{f0}, stringHelpers(f0)...) {
		n += checkIncludeChain1(p, r, f)
	}
	r.floor("chain lookups GetType(rel.ToType) in loops", n, 2)
}

func checkIncludeChain1(p *Prog, r *Report, f *ssa.Function) int {
	isGetType := func(v ssa.Value) *ssa.Call {
		c, _ := callOf(v)
		if c == nil {
			return nil
		}
		if sc := c.Common().StaticCallee(); sc != nil && funcName(sc) == "(*Schema).GetType" {
			return c
		}
		return nil
	}
	// lookupOfRels: v is m[k] (or its value component) where m is the Rels map of a Type obtained from GetType
	lookupOfRels := func(v ssa.Value) bool {
		if ex, ok := v.(*ssa.Extract); ok && ex.Index == 0 {
			v = ex.Tuple
		}
		lk, ok := v.(*ssa.Lookup)
		if !ok {
			return false
		}
		base, fld, ok := fieldLoad(lk.X)
		if !ok || fld != "Rels" {
			return false
		}
		if isGetType(base) != nil {
			return true
		}
		if al, ok := base.(*ssa.Alloc); ok {
			for _, ref := range referrers(al) {
				if st, ok := ref.(*ssa.Store); ok && st.Addr == ssa.Value(al) && isGetType(st.Val) != nil {
					return true
				}
			}
		}
		return false
	}
	n := 0
	eachInstr(f, func(ins ssa.Instruction) {
		c, ok := ins.(*ssa.Call)
		if !ok {
			return
		}
		sc := c.Common().StaticCallee()
		if sc == nil || funcName(sc) != "(*Schema).GetType" {
			return
		}
		arg := c.Common().Args[1]
		base, fld, ok := fieldLoad(arg)
		if !ok || fld != "ToType" {
			return
		}
		v, ok := base.(*ssa.Alloc)
		if !ok || structName(v.Type()) != "Rel" {
			return
		}
		// only lookups inside loops matter (a chain walk)
		if !blockReaches(c.Block(), c.Block(), false) {
			return
		}
		n++
		good := false
		for _, ref := range referrers(v) {
			st, ok := ref.(*ssa.Store)
			if !ok || st.Addr != ssa.Value(v) || !lookupOfRels(st.Val) {
				continue
			}
			// the lookup is repeated in the very loop that advances the variable
			// (the innermost loop around the store), not once per path outside it
			if in := innermostLoop(st.Block()); in != nil && in[c.Block()] {
				good = true
			}
		}
		r.decide(good, "C07.include-chain", "NewParams:"+p.describe(c), p.pos(c.Pos()),
			"the relationship variable is advanced with the relationship found in the current type before the next lookup",
			"the type for the next word of an inclusion path is taken from a relationship variable that the loop never updates with the relationship it just found: every word is resolved against the same type, so valid nested paths are rejected and invalid ones accepted")
	})
	return n
}

// innermostLoop: the smallest natural loop of the function that contains b.
func innermostLoop(b *ssa.BasicBlock) map[*ssa.BasicBlock]bool {
	var best map[*ssa.BasicBlock]bool
	for _, h := range b.Parent().Blocks {
		l := naturalLoop(h)
		if l == nil || !l[b] {
			continue
		}
		if best == nil || len(l) < len(best) {
			best = l
		}
	}
	return best
}

// checkFieldsDefault: NewParams replaces every empty field selection by all
// the fields of the type in one loop over params.Fields; every other write to
// params.Fields (the entry created for the resource type, for included types
// and for the caller's fields[...] parameters, each of which can be or stay
// empty) must come before that loop on every path to the successful return,
// otherwise an empty selection survives (shared by C07 and C08).
func checkFieldsDefault(p *Prog, r *Report, prefix string) {
	f := p.Fn("NewParams")
	if f == nil {
		r.fail("anchor NewParams not found")
		return
	}
	isParamsFields := func(m ssa.Value) bool {
		base, fl, ok := fieldLoad(m)
		return ok && fl == "Fields" && strings.HasSuffix(typeStr(deref(base.Type())), "Params")
	}
	// the defaulting loop: a range over params.Fields whose body stores make+copy of Fields() under len(...) == 0
	var defHeader ssa.Instruction
	var defLoop map[*ssa.BasicBlock]bool
	for _, ld := range findLoops(f) {
		if ld.kind != "map" || !isParamsFields(ld.src) {
			continue
		}
		for b := range ld.blocks {
			for _, ins := range b.Instrs {
				mu, ok := ins.(*ssa.MapUpdate)
				if !ok || !isParamsFields(mu.Map) {
					continue
				}
				if _, isMake := mu.Value.(*ssa.MakeSlice); !isMake {
					continue
				}
				guarded := false
				for _, ef := range expandFacts(factsAt(b)) {
					bo, ok := ef.Cond.(*ssa.BinOp)
					if !ok || bo.Op != token.EQL || !ef.Truth {
						continue
					}
					if z, ok := constInt(bo.Y); ok && z == 0 {
						if c, _ := callOf(bo.X); c != nil && builtinName(c.Common()) == "len" {
							guarded = true
						}
					}
				}
				if guarded {
					defHeader = ld.header.Instrs[0]
					defLoop = ld.blocks
				}
			}
		}
	}
	if defHeader == nil {
		r.bad(prefix+".fields-default", "NewParams:default-loop", p.pos(f.Pos()), "the loop that replaces an empty field selection by all the fields of the type was not found")
		return
	}
	var okRet ssa.Instruction
	for _, b := range f.Blocks {
		if ret, ok := b.Instrs[len(b.Instrs)-1].(*ssa.Return); ok && len(ret.Results) == 2 && isNilConst(ret.Results[1]) {
			okRet = ret
		}
	}
	if okRet == nil {
		r.fail("NewParams has no successful return")
		return
	}
	n := 0
	eachInstr(f, func(ins ssa.Instruction) {
		mu, ok := ins.(*ssa.MapUpdate)
		if !ok || !isParamsFields(mu.Map) || defLoop[mu.Block()] {
			return
		}
		n++
		late := reachableAvoiding(mu, okRet, defHeader)
		r.decide(!late, prefix+".fields-default", "NewParams:"+p.describe(mu), p.pos(mu.Pos()), "the defaulting loop runs after this write on every path to the successful return",
			"this write to the field selections can happen after (or without) the loop that replaces empty selections by all fields: an empty selection survives, so the type's resources are marshaled without fields and String() prints an empty fields[...] parameter")
	})
	r.floor("writes to params.Fields before the defaulting loop", n, 3)
}

// checkCollectionDetection: for a relationship URL NewParams decides whether
// the target is a collection from the relationship named by the last path
// fragment, looked up in the type named by the FIRST fragment (the owner of
// the relationship), not in the target type.
func checkCollectionDetection(p *Prog, r *Report, f *ssa.Function) {
	n := 0
	eachInstrOf(append([]*ssa.Function{f}, stringHelpers(f)...), func(ins ssa.Instruction) {
		lk, ok := ins.(*ssa.Lookup)
		if !ok {
			return
		}
		base, fl, ok := fieldLoad(lk.X)
		if !ok || fl != "Rels" {
			return
		}
		// only the lookup whose ToOne decides the collection question: the key is the last fragment
		isFragment := func(v ssa.Value) (idxConst int64, last bool, ok bool) {
			ld, isLd := v.(*ssa.UnOp)
			if !isLd || ld.Op != token.MUL {
				return 0, false, false
			}
			ia, isIA := ld.X.(*ssa.IndexAddr)
			if !isIA {
				return 0, false, false
			}
			if _, f2, ok := fieldLoad(ia.X); !ok || f2 != "Fragments" {
				// or a helper's parameter that every call binds to the fragments
				prm, isPrm := ia.X.(*ssa.Parameter)
				if !isPrm || !paramBoundToField(p, prm, "Fragments") {
					return 0, false, false
				}
			}
			if k, isC := constInt(ia.Index); isC {
				return k, false, true
			}
			return 0, true, true
		}
		k, last, ok := isFragment(lk.Index)
		if !ok {
			return
		}
		n++
		if !last {
			// a fixed fragment: NewURL names the relationship by the last fragment
			// (/type/id/rel and /type/id/relationships/rel alike)
			r.bad("C07.collection-detection", "NewParams:"+p.describe(lk)+":last-fragment", p.pos(lk.Pos()), fmt.Sprintf("the collection question is answered from fragment %d instead of the last fragment: for /type/id/relationships/name (which NewURL accepts and reads from the last fragment) the relationship is not the one asked about, or the question is not asked at all, so a to-many relationship URL gets no sorting rules", k))
			return
		}
		// the type: GetType(<fragment 0>)
		var gt *ssa.Call
		if c, _ := callOf(base); c != nil {
			gt = c
		} else if al, isAl := base.(*ssa.Alloc); isAl {
			if sv := singleStore(al); sv != nil {
				gt, _ = callOf(sv)
			}
		}
		good := false
		if gt != nil && gt.Common().StaticCallee() != nil && funcName(gt.Common().StaticCallee()) == "(*Schema).GetType" {
			if k, last, ok := isFragment(gt.Common().Args[1]); ok && !last && k == 0 {
				good = true
			}
		}
		// the question is asked for every relationship URL (three fragments or
		// more, as NewURL reads them): no upper bound on the number of fragments
		// among the conditions under which the lookup is made
		capped := ""
		for _, ef := range expandFacts(factsAt(lk.Block())) {
			bo, ok := ef.Cond.(*ssa.BinOp)
			if !ok {
				continue
			}
			lenSide := func(v ssa.Value) bool {
				c, _ := callOf(v)
				if c == nil || builtinName(c.Common()) != "len" {
					return false
				}
				a := c.Common().Args[0]
				if _, fl, ok := fieldLoad(a); ok && fl == "Fragments" {
					return true
				}
				prm, isPrm := a.(*ssa.Parameter)
				return isPrm && paramBoundToField(p, prm, "Fragments")
			}
			op := bo.Op
			if !ef.Truth {
				op = negateCmp(op)
			}
			switch {
			case lenSide(bo.X) && (op == token.EQL || op == token.LSS || op == token.LEQ):
				capped = p.describe(bo)
			case lenSide(bo.Y) && (op == token.EQL || op == token.GTR || op == token.GEQ):
				capped = p.describe(bo)
			}
		}
		r.decide(capped == "", "C07.collection-detection", "NewParams:"+p.describe(lk)+":all-relationship-urls", p.pos(lk.Pos()), "asked for every path of three fragments or more",
			"the collection question is only asked under "+capped+": a longer relationship URL (which NewURL accepts) is treated as a single resource here, so it gets no sorting rules although it is a collection")
		r.decide(good, "C07.collection-detection", "NewParams:"+p.describe(lk), p.pos(lk.Pos()), "the relationship of the last fragment is looked up in the type of the first fragment", "whether a relationship URL denotes a collection is decided from a relationship looked up in a type other than the one named by the first path fragment: for a to-many relationship whose target has a to-one relationship of the same name the sorting rules are dropped")
	})
	r.floor("collection-detection lookups in NewParams", n, 1)
}

// checkFieldsFresh: the list stored for one type in Params.Fields is allocated
// while that type is being processed. Tracing the stored value back through
// append / reslice / merges must end in an allocation (or the entry's own
// previous value) inside the innermost loop around the store - never in a
// value carried from one iteration to the next, which would make the entries
// of two types share a backing array.
func checkFieldsFresh(p *Prog, r *Report, prefix string) {
	f := p.Fn("NewParams")
	if f == nil {
		r.fail("anchor NewParams not found")
		return
	}
	isParamsFields := func(m ssa.Value) bool {
		base, fl, ok := fieldLoad(m)
		return ok && fl == "Fields" && strings.HasSuffix(typeStr(deref(base.Type())), "Params")
	}
	n := 0
	eachInstr(f, func(ins ssa.Instruction) {
		mu, ok := ins.(*ssa.MapUpdate)
		if !ok || !isParamsFields(mu.Map) {
			return
		}
		// the outermost loop around the store whose iterations are the types:
		// the loop in which the key changes. Use every enclosing loop: an
		// allocation inside the innermost is inside all of them; a value carried
		// round the outermost (per-type) loop is the defect.
		var loops []map[*ssa.BasicBlock]bool
		for _, hd := range f.Blocks {
			if l := naturalLoop(hd); l != nil && l[mu.Block()] {
				loops = append(loops, l)
			}
		}
		if len(loops) == 0 {
			return
		}
		outer := loops[0]
		for _, l := range loops {
			if len(l) > len(outer) {
				outer = l
			}
		}
		n++
		seen := map[ssa.Value]bool{}
		var origin func(v ssa.Value, depth int) string
		origin = func(v ssa.Value, depth int) string {
			if depth > 30 || seen[v] {
				return ""
			}
			seen[v] = true
			switch x := v.(type) {
			case *ssa.Const:
				return ""
			case *ssa.MakeSlice:
				if !outer[x.Block()] {
					return "a slice made before the loop over the types (" + p.pos(x.Pos()) + ")"
				}
				return ""
			case *ssa.Alloc:
				if !outer[x.Block()] {
					return "an array allocated before the loop over the types (" + p.pos(x.Pos()) + ")"
				}
				return ""
			case *ssa.Slice:
				return origin(x.X, depth+1)
			case *ssa.Lookup:
				return "" // the entry's own previous value (or another map's: not shared with a sibling entry by this store)
			case *ssa.Extract:
				return ""
			case *ssa.Phi:
				for _, e := range x.Edges {
					if why := origin(e, depth+1); why != "" {
						return why
					}
				}
				return ""
			case *ssa.Call:
				if builtinName(x.Common()) == "append" {
					return origin(x.Common().Args[0], depth+1)
				}
				return "" // a function result: fresh unless the callee says otherwise (not followed)
			case *ssa.UnOp:
				if x.Op == token.MUL {
					if al, ok := x.X.(*ssa.Alloc); ok {
						// a spilled local: every value stored into it
						for _, ref := range referrers(al) {
							if st, ok := ref.(*ssa.Store); ok && st.Addr == ssa.Value(al) {
								if why := origin(st.Val, depth+1); why != "" {
									return why
								}
							}
						}
					}
				}
				return ""
			}
			return ""
		}
		why := origin(mu.Value, 0)
		r.decide(why == "", prefix+".fields-fresh", "NewParams:"+p.describe(mu), p.pos(mu.Pos()), "the stored list is allocated while its type is processed",
			"the list stored for a type in Params.Fields goes back to "+why+": the selections of two types share one backing array, and filling the second overwrites the first")
	})
	r.floor(prefix+": writes to params.Fields inside loops", n, 2)
}

// paramBoundToField: prm is a parameter of a small helper that is only called
// directly, and every call passes a load of the named field.
func paramBoundToField(p *Prog, prm *ssa.Parameter, field string) bool {
	g := prm.Parent()
	if g == nil || !smallHelper(g) {
		return false
	}
	idx := -1
	for i, q := range g.Params {
		if q == prm {
			idx = i
		}
	}
	calls := p.cg.callers[g]
	if idx < 0 || len(calls) == 0 {
		return false
	}
	for _, c := range calls {
		if c.Common().IsInvoke() || c.Common().StaticCallee() != g || idx >= len(c.Common().Args) {
			return false
		}
		if _, fl, ok := fieldLoad(c.Common().Args[idx]); !ok || fl != field {
			return false
		}
	}
	return true
}

// idSetFlag: m is a local map[string]bool; every store into it either has a key
// that is known to differ from "id" where it is made, or is made where the key
// equals "id" and a rule is appended in the same block.
func idSetFlag(m ssa.Value) bool {
	mk, ok := m.(*ssa.MakeMap)
	if !ok {
		return false
	}
	n := 0
	for _, ref := range referrers(mk) {
		mu, ok := ref.(*ssa.MapUpdate)
		if !ok {
			if _, isLk := ref.(*ssa.Lookup); isLk {
				continue
			}
			if _, isDbg := ref.(*ssa.DebugRef); isDbg {
				continue
			}
			return false
		}
		if cb, isC := constBool(mu.Value); !isC || !cb {
			return false
		}
		isID, notID := false, false
		if s, ok := constString(mu.Key); ok {
			isID, notID = s == "id", s != "id"
		}
		for _, ef := range expandFacts(factsAt(mu.Block())) {
			bo, ok := ef.Cond.(*ssa.BinOp)
			if !ok || bo.Op != token.EQL {
				continue
			}
			for _, pr := range [][2]ssa.Value{{bo.X, bo.Y}, {bo.Y, bo.X}} {
				if s, ok := constString(pr[1]); ok && s == "id" && pr[0] == mu.Key {
					if ef.Truth {
						isID = true
					} else {
						notID = true
					}
				}
			}
		}
		switch {
		case notID:
		case isID:
			hasAppend := false
			for _, ins := range mu.Block().Instrs {
				if c, ok := ins.(*ssa.Call); ok && builtinName(c.Common()) == "append" {
					hasAppend = true
				}
			}
			if !hasAppend {
				return false
			}
			n++
		default:
			return false
		}
	}
	return n > 0
}

// compactionSource: v is the running value of `kept := L[:0]; kept = append(kept, …)`;
// returns L.
func compactionSource(v ssa.Value, depth int) ssa.Value {
	if depth > 8 {
		return nil
	}
	switch x := v.(type) {
	case *ssa.Slice:
		if x.Low == nil && x.High != nil {
			if z, ok := constInt(x.High); ok && z == 0 {
				return stripValue(x.X)
			}
		}
	case *ssa.Phi:
		var found ssa.Value
		for _, e := range x.Edges {
			if l := compactionSource(e, depth+1); l != nil {
				found = l
			}
		}
		return found
	case *ssa.Call:
		if builtinName(x.Common()) == "append" {
			return compactionSource(x.Common().Args[0], depth+1)
		}
	}
	return nil
}

// checkFieldsDupCheck implements C07.fields-dup-check: the duplicate-field
// error of NewParams is raised by a test on the elements of the list that is
// stored in Params.Fields - two elements of it compared with each other, or an
// occurrence count kept per element of it and read back for an element of it.
func checkFieldsDupCheck(p *Prog, r *Report, prefix string) {
	f := p.Fn("NewParams")
	if f == nil {
		return
	}
	isParamsFields := func(m ssa.Value) bool {
		base, fl, ok := fieldLoad(m)
		return ok && fl == "Fields" && strings.HasSuffix(typeStr(deref(base.Type())), "Params")
	}
	// the lists stored into Params.Fields
	var stored []ssa.Value
	scope := append([]*ssa.Function{f}, stringHelpers(f)...)
	eachInstrOf(scope, func(ins ssa.Instruction) {
		if mu, ok := ins.(*ssa.MapUpdate); ok && isParamsFields(mu.Map) {
			stored = append(stored, mu.Value)
		}
	})
	isStored := func(l ssa.Value) bool {
		l = stripValue(l)
		if lk, ok := l.(*ssa.Lookup); ok && isParamsFields(lk.X) {
			return true
		}
		if ex, ok := l.(*ssa.Extract); ok {
			if lk, ok := ex.Tuple.(*ssa.Lookup); ok && isParamsFields(lk.X) {
				return true
			}
		}
		for _, s := range stored {
			if sameListVar(stripValue(s), l) || sameListVar(l, stripValue(s)) {
				return true
			}
		}
		return false
	}
	elemList := func(v ssa.Value) ssa.Value {
		ld, ok := v.(*ssa.UnOp)
		if !ok || ld.Op != token.MUL {
			return nil
		}
		ia, ok := ld.X.(*ssa.IndexAddr)
		if !ok {
			return nil
		}
		return ia.X
	}
	n := 0
	eachInstrOf(scope, func(ins ssa.Instruction) {
		c, ok := ins.(*ssa.Call)
		if !ok || c.Common().StaticCallee() == nil || c.Common().StaticCallee().Name() != "NewErrDuplicateFieldInFieldsParameter" {
			return
		}
		n++
		good := false
		for _, ef := range expandFacts(factsAt(c.Block())) {
			bo, ok := ef.Cond.(*ssa.BinOp)
			if !ok {
				continue
			}
			op := bo.Op
			if !ef.Truth {
				op = negateCmp(op)
			}
			// (a) two elements of the stored list are equal
			if op == token.EQL {
				la, lb := elemList(bo.X), elemList(bo.Y)
				if la != nil && lb != nil && isStored(la) && isStored(lb) {
					good = true
				}
			}
			// (b) the count kept for an element of the stored list exceeds one
			if op == token.GTR || op == token.GEQ {
				lkv := bo.X
				if ex, ok := lkv.(*ssa.Extract); ok {
					lkv = ex.Tuple
				}
				lk, ok := lkv.(*ssa.Lookup)
				if !ok {
					continue
				}
				kl := elemList(lk.Index)
				mk, isMk := lk.X.(*ssa.MakeMap)
				if kl == nil || !isMk || !isStored(kl) {
					continue
				}
				counted := true
				nUpd := 0
				for _, ref := range referrers(mk) {
					if mu, ok := ref.(*ssa.MapUpdate); ok {
						nUpd++
						ul := elemList(mu.Key)
						if ul == nil || !isStored(ul) {
							counted = false
						}
					}
				}
				if counted && nUpd > 0 {
					good = true
				}
			}
		}
		// (c) the verdict of a helper handed the stored list, whose every
		// "found" return sits under an equality of two elements of its list
		if !good {
			for _, ef := range expandFacts(factsAt(c.Block())) {
				if !ef.Truth {
					continue
				}
				v, idx := ef.Cond, 0
				if ex, ok := v.(*ssa.Extract); ok {
					v, idx = ex.Tuple, ex.Index
				}
				hc, ok := v.(*ssa.Call)
				if !ok {
					continue
				}
				g := hc.Common().StaticCallee()
				if g == nil || g.Pkg != f.Pkg || len(g.Blocks) == 0 || hc.Common().IsInvoke() {
					continue
				}
				for k, a := range hc.Common().Args {
					if k < len(g.Params) && isStringSlice(a.Type()) && isStored(a) && dupVerdictOf(g, g.Params[k], idx) {
						good = true
					}
				}
			}
		}
		r.decide(good, prefix+".fields-dup-check", "NewParams:"+p.describe(c), p.pos(c.Pos()), "the duplicate test is made on the elements of the list stored in Params.Fields",
			"the duplicate-field error is not raised by a test over the elements of the list that is stored as the type's field selection (another list is scanned): a repeated name (\"id\", say) can stay in the selection")
	})
	r.floor("duplicate-field error sites in NewParams", n, 1)
}

// dupVerdictOf reports whether result idx of g is true only where two elements
// of the list parameter were found equal.
func dupVerdictOf(g *ssa.Function, list *ssa.Parameter, idx int) bool {
	elemOf := func(v ssa.Value) bool {
		ld, ok := v.(*ssa.UnOp)
		if !ok || ld.Op != token.MUL {
			return false
		}
		ia, ok := ld.X.(*ssa.IndexAddr)
		return ok && stripValue(ia.X) == ssa.Value(list)
	}
	n := 0
	for _, b := range g.Blocks {
		ret, ok := b.Instrs[len(b.Instrs)-1].(*ssa.Return)
		if !ok || idx >= len(ret.Results) {
			continue
		}
		res := ret.Results[idx]
		if k, ok := res.(*ssa.Const); ok && k.Value != nil && k.Value.Kind() == constant.Bool {
			if !constant.BoolVal(k.Value) {
				continue
			}
			eq := false
			for _, ef := range expandFacts(factsAt(b)) {
				bo, ok := ef.Cond.(*ssa.BinOp)
				if !ok {
					continue
				}
				op := bo.Op
				if !ef.Truth {
					op = negateCmp(op)
				}
				if op == token.EQL && elemOf(bo.X) && elemOf(bo.Y) {
					eq = true
				}
			}
			if !eq {
				return false
			}
			n++
			continue
		}
		return false
	}
	return n > 0
}

// checkRelFragment: NewURL resolves the relationship of a relationship URL
// from the LAST path fragment - the fragment from which NewParams decides
// whether the URL denotes a collection (checkCollectionDetection). A lookup
// keyed by a fixed position agrees with it only under the test that the path
// has exactly that many fragments.
func checkRelFragment(p *Prog, r *Report) {
	f := p.Fn("NewURL")
	if f == nil {
		r.fail("anchor NewURL not found")
		return
	}
	isFrags := func(v ssa.Value) bool {
		if _, fl, ok := fieldLoad(v); ok && fl == "Fragments" {
			return true
		}
		prm, isPrm := v.(*ssa.Parameter)
		return isPrm && paramBoundToField(p, prm, "Fragments")
	}
	lenOfFrags := func(v ssa.Value) bool {
		c, _ := callOf(v)
		return c != nil && builtinName(c.Common()) == "len" && isFrags(c.Common().Args[0])
	}
	n := 0
	eachInstrOf(append([]*ssa.Function{f}, stringHelpers(f)...), func(ins ssa.Instruction) {
		lk, ok := ins.(*ssa.Lookup)
		if !ok {
			return
		}
		if _, fl, ok := fieldLoad(lk.X); !ok || fl != "Rels" {
			return
		}
		n++
		good, why := true, ""
		nFrag := 0
		for _, o := range originsDeep(lk.Index) {
			ld, isLd := o.(*ssa.UnOp)
			if !isLd || ld.Op != token.MUL {
				continue
			}
			ia, isIA := ld.X.(*ssa.IndexAddr)
			if !isIA || !isFrags(ia.X) {
				continue
			}
			nFrag++
			if k, isC := constInt(ia.Index); isC {
				exact := false
				for _, ef := range expandFacts(factsAt(ld.Block())) {
					bo, ok := ef.Cond.(*ssa.BinOp)
					if !ok {
						continue
					}
					op := bo.Op
					if !ef.Truth {
						op = negateCmp(op)
					}
					if op != token.EQL {
						continue
					}
					if c, isK := constInt(bo.Y); isK && c == k+1 && lenOfFrags(bo.X) {
						exact = true
					}
					if c, isK := constInt(bo.X); isK && c == k+1 && lenOfFrags(bo.Y) {
						exact = true
					}
				}
				if !exact {
					good, why = false, fmt.Sprintf("fragment %d on paths that may be longer", k)
				}
				continue
			}
			sub, isSub := ia.Index.(*ssa.BinOp)
			if isSub && sub.Op == token.SUB && lenOfFrags(sub.X) {
				if c, isK := constInt(sub.Y); isK && c == 1 {
					continue
				}
			}
			good, why = false, "a fragment at "+"index "+ia.Index.Name()
		}
		if nFrag == 0 {
			good, why = false, "a key that is not a path fragment"
		}
		r.decide(good, "C07.rel-fragment", "NewURL:"+p.describe(lk), p.pos(lk.Pos()), "the relationship is the one named by the last fragment",
			"NewURL resolves the relationship from "+why+", while NewParams decides from the last fragment whether the URL is a collection: the two can name different relationships, so a URL comes back as a collection without sorting rules (or the reverse)")
	})
	r.floor("relationship lookups in NewURL", n, 1)
}
