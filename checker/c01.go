package main

import (
	"fmt"
	"go/token"
	"go/types"
	"regexp"
	"sort"
	"reflect"
	"strconv"
	"strings"

	"golang.org/x/tools/go/ssa"
)

func init() { register("C01", checkC01) }

func checkC01(p *Prog, r *Report) {
	r.rule("C01.impl.* (imported from C17): SoftResource.Set and Wrapper.setField store exactly the value they are given and Get returns it as stored")
	nImpl := r.importRules(func(r2 *Report) { checkSoftGetSet(p, r2); checkWrapperGetSet(p, r2) }, "C01.impl", "C17.set-stores-given", "C17.get-returns-stored")
	r.floor("imported Get/Set obligations", nImpl, 4)
	r.rule("C01.inspectors-pure: BuildType, Wrap, Check, IDAndType and what they call in the package use no package-level variable that is modified at run time (no cache keyed by type or name): what they report for a struct depends on that struct alone")
	checkInspectorsPure(p, r, "C01")
	r.rule("C01.build-wrap (imported from C20.sibling-agreement): the Type BuildType builds for a struct (the schema's definition, under whose field names payloads are decoded) and the type its Wrapper reports and marshals under name every field alike")
	nBW := r.importRules(func(r2 *Report) { checkBuildWrapAgreement(p, r2) }, "C01.build-wrap", "C20.sibling-agreement")
	r.floor("imported build/wrap obligations", nBW, 1)
	r.rule("C01.check-complete: SoftResource.check, which Get runs before MarshalResource reads a soft resource's values, cannot return before its loops that zero-fill missing and drop stale fields (shared with C17)")
	checkSoftCheckComplete(p, r, "C01")
	r.rule("C01.type-lookup: Schema.GetType / HasType find a type by one exact equality test between a type's Name and the requested name and call nothing else (the comparison AddType uses to keep names unique)")
	checkTypeLookup(p, r, "C01")
	r.rule("R1 kind table: GetZeroValue defines one Go type per kind (and its pointer for nullable); GetAttrTypeString/GetAttrType are inverse and classify the %T spelling of each of the 28 types; scenario evaluation of Attr.UnmarshalToType for all 28 (kind, nullable) pairs shows every successful decode boxes exactly that type; SoftResource.Set's gate compares kind and nullability of fmt's %T of the value with the attribute")
	r.rule("R2' integer width: the bit size given to the strconv parser for kind K is at least the width of K's Go type (on the GOARCH under analysis), so no representable value is rejected; the parser's signedness matches")
	r.rule("C01.marshal-plumbing: MarshalResource stores under \"id\" the resource's Get(\"id\"), under \"type\" its GetType().Name, under each selected attribute's name the unmodified result of Get(that name), and builds each relationship identifier from Get(rel.FromName) (the string, or each element of the []string) and rel.ToType")
	r.rule("C01.nullness / C01.decoded-value (scenario evaluation of Attr.UnmarshalToType, 28 scenarios): on every successful path on which the raw value is not the literal null the result is not the kind's nil pointer, and for string, time and bytes kinds it is the variable encoding/json decoded the raw bytes into")
	r.rule("C01.unmarshal-plumbing: UnmarshalResource sets the id as decoded, each attribute from UnmarshalToType's result for that attribute, each relationship from its decoded linkage (declared per iteration) in payload order, and calls Set nowhere else")
	r.rule("C01.rejection-provenance (same 28 scenarios): every path of Attr.UnmarshalToType that returns an error either found the raw value to be the literal null or took the error of the kind's standard-library decoder applied to the raw bytes (for bool: compared the bytes with the literals true/false only); no other test of the raw bytes rejects a value")
	r.rule("R5 tags: every member MarshalResource writes that carries resource state (id, type, attributes, relationships; data; identifier id/type) has a same-named json tag on the skeleton struct UnmarshalResource decodes into")
	r.assume("encoding/json, strconv, time and encoding/base64 invert each other on every value of the 28 types (strings with HTML specials, sub-second zoned times, uint64 > 2^63): standard-library contracts; reflect.Value.Set stores the value it is given")
	r.notCovered("value-level equality after the round trip; a non-nil pointer to a nil byte slice (outside the domain)")

	kt := buildKindTable(p, r)
	kt.checkNameTables(r)
	kt.checkUnmarshalTypes(r)
	checkSetGate(p, r, kt)

	// R2': parser width >= kind width
	f := p.Fn("(Attr).UnmarshalToType")
	if f != nil {
		n := 0
		for _, row := range kt.rows {
			bt, ok := row.Go.Underlying().(*types.Basic)
			if !ok || bt.Info()&types.IsInteger == 0 {
				continue
			}
			for _, nullable := range []bool{false, true} {
				for _, o := range kt.decodeOutcomes(row.Val, nullable) {
					if o.isNull == "true" {
						continue
					}
					n++
					key := fmt.Sprintf("UnmarshalToType:%s:nullable=%v", row.Name, nullable)
					m := parseRe.FindStringSubmatch(o.term)
					if m == nil {
						r.bad("R2.int-width", key, p.pos(f.Pos()), "the stored value is not a strconv parse of the raw bytes: "+o.term)
						continue
					}
					parser := m[2]
					bits := 0
					if m[4] != "" {
						bits, _ = strconv.Atoi(m[4])
					}
					pw := bits
					if parser == "Atoi" || bits == 0 {
						pw = intWidth(p, types.Typ[types.Int])
					}
					w := intWidth(p, row.Go)
					signedKind := bt.Info()&types.IsUnsigned == 0
					good := pw >= w && signedKind == (parser != "ParseUint")
					r.decide(good, "R2.int-width", key, p.pos(f.Pos()), fmt.Sprintf("parsed with %d bits for a %d-bit %s", pw, w, bt.Name()),
						fmt.Sprintf("values of kind %s are parsed with %s and %d bits but the Go type %s has %d bits: values that the kind can hold (up to its maximum) are rejected when they come back from JSON", row.Str, parser, pw, bt.Name(), w))
				}
			}
		}
		r.floor("integer width scenarios", n, 20)
		// null-ness and value provenance for every kind: on a path where the
		// raw value is not the literal null, the result is never the kind's nil
		// pointer, and for string/time/bytes it is the variable encoding/json
		// decoded into
		nv := 0
		for _, row := range kt.rows {
			bt, isBasic := row.Go.Underlying().(*types.Basic)
			for _, nullable := range []bool{false, true} {
				key := fmt.Sprintf("UnmarshalToType:%s:nullable=%v", row.Name, nullable)
				for _, o := range kt.decodeOutcomes(row.Val, nullable) {
					if o.isNull == "true" {
						continue
					}
					nv++
					isNil := o.val != nil && ((o.val.k == aIface && o.val.dyn != nil && o.val.dyn.k == aNil) || o.val.k == aNil)
					r.decide(!isNil, "C01.nullness", key, p.pos(f.Pos()), "a value other than null never decodes to nil", "a value other than the literal null decodes to nil for kind "+row.Str+": a non-null value does not survive the round trip")
					if isNil || (isBasic && (bt.Info()&types.IsInteger != 0 || bt.Info()&types.IsBoolean != 0)) {
						continue
					}
					good := false
					for _, c := range o.calls {
						if strings.HasPrefix(c, "encoding/json.Unmarshal(data, &") {
							v := strings.TrimSuffix(strings.TrimPrefix(c, "encoding/json.Unmarshal(data, &"), ")")
							if isVarTerm(o.term, v) || isVarTerm(o.val.String(), v) {
								good = true
							}
						}
					}
					r.decide(good, "C01.decoded-value", key, p.pos(f.Pos()), "the result is the variable encoding/json decoded the raw bytes into", "the stored value is not the variable encoding/json decoded the raw bytes into: "+o.term)
				}
			}
		}
		r.floor("value decode scenarios", nv, 28)
	}

	checkRejectionProvenance(p, r, kt)
	checkMarshalPlumbing(p, r, "C01")
	checkUnmarshalPlumbing(p, r, "C01")
	checkResourceTags(p, r)
	r.rule("C01.read-nilness: no function on the Get/Set paths of Wrapper and SoftResource rebuilds a byte string by appending to a nil slice without a length guard (empty would become nil, i.e. null)")
	checkReadNilness(p, r)
}

func checkRejectionProvenance(p *Prog, r *Report, kt *kindTable) {
	f := p.Fn("(Attr).UnmarshalToType")
	if f == nil {
		return
	}
	n := 0
	for _, row := range kt.rows {
		bt, isBasic := row.Go.Underlying().(*types.Basic)
		isBool := isBasic && bt.Info()&types.IsBoolean != 0
		for _, nullable := range []bool{false, true} {
			outs, _ := kt.unmarshalOutcomes(row.Val, nullable)
			key := fmt.Sprintf("UnmarshalToType:%s:nullable=%v", row.Name, nullable)
			bad := ""
			for _, o := range outs {
				if o.ret == nil || len(o.results) != 2 || o.results[1].k == aNil {
					continue
				}
				n++
				justified := false
				onlyLiterals := true
				var conds []string
				for k, v := range o.decided {
					conds = append(conds, fmt.Sprintf("%s=%v", k, v))
					if !strings.Contains(k, "data") {
						continue
					}
					if strings.Contains(k, `string(data) == "null"`) {
						if v {
							justified = true
						}
						continue
					}
					if m := decoderErrRe.FindStringSubmatch(k); m != nil {
						if v == (m[1] == "!=") {
							justified = true
						}
						continue
					}
					if !literalCmpRe.MatchString(k) {
						onlyLiterals = false
					}
				}
				if !justified && isBool && onlyLiterals {
					justified = true
				}
				if !justified {
					sort.Strings(conds)
					bad = strings.Join(conds, ", ")
				}
			}
			r.decide(bad == "", "C01.rejection-provenance", key, p.pos(f.Pos()), "every rejection is the literal null or the standard-library decoder's own error",
				"a raw value of kind "+row.Str+" is rejected on a path on which it is neither the literal null nor refused by the kind's standard-library decoder ("+bad+"): values the kind can hold may not come back from their own JSON form")
		}
	}
	r.floor("rejection paths", n, 28)
}

var decoderErrRe = regexp.MustCompile(`^\((?:strconv|encoding/json|time|encoding/base64)\.\w+\(.*data.*\)(?:#\d+)? (!=|==) nil\)$`)
var literalCmpRe = regexp.MustCompile(`^\(string\(data\) (?:==|!=) "(?:true|false|null)"\)$`)

// checkSetGate: SoftResource.Set stores an attribute value iff
// GetAttrType(fmt.Sprintf("%T", v)) equals the attribute's (kind, nullable).
func checkSetGate(p *Prog, r *Report, kt *kindTable) {
	f := p.Fn("(*SoftResource).Set")
	if f == nil {
		r.fail("anchor (*SoftResource).Set not found")
		return
	}
	r.fn(funcName(f))
	// find data[key] = v under the facts attr.Type == typ && attr.Nullable == nullable where (typ, nullable) = GetAttrType(Sprintf("%T", v))
	good := false
	// the value given to Set, in Set itself or in a small helper it hands it to
	isGiven := func(v ssa.Value) bool {
		if v == ssa.Value(f.Params[2]) {
			return true
		}
		prm, ok := v.(*ssa.Parameter)
		if !ok || prm.Parent() == f || !smallHelper(prm.Parent()) {
			return false
		}
		g := prm.Parent()
		idx := -1
		for i, q := range g.Params {
			if q == prm {
				idx = i
			}
		}
		n := 0
		allGiven := true
		eachInstr(f, func(i2 ssa.Instruction) {
			if c, ok := i2.(*ssa.Call); ok && c.Common().StaticCallee() == g && idx >= 0 && idx < len(c.Common().Args) {
				n++
				if c.Common().Args[idx] != ssa.Value(f.Params[2]) {
					allGiven = false
				}
			}
		})
		return n > 0 && allGiven
	}
	eachInstrOf(append([]*ssa.Function{f}, stringHelpers(f)...), func(ins ssa.Instruction) {
		mu, ok := ins.(*ssa.MapUpdate)
		if !ok || !isGiven(mu.Value) {
			return
		}
		var kindEq, nullEq bool
		for _, ef := range expandFacts(factsAt(mu.Block())) {
			bo, ok := ef.Cond.(*ssa.BinOp)
			if !ok || bo.Op != token.EQL || !ef.Truth {
				continue
			}
			for _, pr := range [][2]ssa.Value{{bo.X, bo.Y}, {bo.Y, bo.X}} {
				_, fl, ok := fieldLoad(pr[0])
				if !ok {
					continue
				}
				ex, ok := pr[1].(*ssa.Extract)
				if !ok {
					continue
				}
				c, ok := ex.Tuple.(*ssa.Call)
				if !ok || c.Common().StaticCallee() == nil || c.Common().StaticCallee().Name() != "GetAttrType" {
					continue
				}
				// argument: fmt.Sprintf("%T", v)
				sc, _ := callOf(c.Common().Args[0])
				if sc == nil || sc.Common().StaticCallee() == nil || fullName(sc.Common().StaticCallee()) != "fmt.Sprintf" {
					continue
				}
				if s, ok := constString(sc.Common().Args[0]); !ok || s != "%T" {
					continue
				}
				if fl == "Type" && ex.Index == 0 {
					kindEq = true
				}
				if fl == "Nullable" && ex.Index == 1 {
					nullEq = true
				}
			}
		}
		if kindEq && nullEq {
			good = true
		}
	})
	// relationship values: stored only as a string under ToOne, as a []string otherwise
	nRel, relBad := 0, ""
	eachInstrOf(append([]*ssa.Function{f}, stringHelpers(f)...), func(ins ssa.Instruction) {
		mu, ok := ins.(*ssa.MapUpdate)
		if !ok || !isGiven(mu.Value) {
			return
		}
		if _, fl, ok := fieldLoad(mu.Map); !ok || fl != "data" {
			return
		}
		var toOne, isStr, isList int // 1 true, -1 false, 0 unknown
		attrGate := false
		for _, ef := range expandFacts(factsAt(mu.Block())) {
			if _, fl, ok := fieldLoad(ef.Cond); ok && fl == "ToOne" {
				if ef.Truth {
					toOne = 1
				} else {
					toOne = -1
				}
			}
			if ex, ok := ef.Cond.(*ssa.Extract); ok && ex.Index == 1 {
				if ta, ok := ex.Tuple.(*ssa.TypeAssert); ok && isGiven(ta.X) {
					val := -1
					if ef.Truth {
						val = 1
					}
					switch fmtTypeString(ta.AssertedType) {
					case "string":
						isStr = val
					case "[]string":
						isList = val
					}
				}
			}
			if bo, ok := ef.Cond.(*ssa.BinOp); ok && bo.Op == token.EQL && ef.Truth {
				if ex, ok := bo.Y.(*ssa.Extract); ok {
					if c, ok := ex.Tuple.(*ssa.Call); ok && c.Common().StaticCallee() != nil && c.Common().StaticCallee().Name() == "GetAttrType" {
						attrGate = true
					}
				}
				if ex, ok := bo.X.(*ssa.Extract); ok {
					if c, ok := ex.Tuple.(*ssa.Call); ok && c.Common().StaticCallee() != nil && c.Common().StaticCallee().Name() == "GetAttrType" {
						attrGate = true
					}
				}
			}
		}
		if attrGate {
			return
		}
		nRel++
		if !((toOne == 1 && isStr == 1) || (toOne == -1 && isList == 1)) {
			relBad = p.describe(mu)
		}
	})
	if nRel > 0 {
		r.decide(relBad == "", "R1.set-gate", "(*SoftResource).Set:relationship-gate", p.pos(f.Pos()), "a relationship value is stored only as a string under ToOne and as a []string otherwise",
			"SoftResource.Set stores a relationship value ("+relBad+") without having established that it is a string for a to-one and a []string for a to-many relationship: a value of another type reaches the resource")
	}
	r.decide(good, "R1.set-gate", "(*SoftResource).Set:attribute-gate", p.pos(f.Pos()), "a value is stored only when GetAttrType(%T of the value) equals the attribute's kind and nullability",
		"SoftResource.Set does not gate attribute values on both the kind and the nullability that GetAttrType derives from the value's Go type: a value of another type (e.g. *T for a non-nullable attribute) can be stored")
	_ = kt
}

// checkMarshalPlumbing: shared by C01 and C04.
func checkMarshalPlumbing(p *Prog, r *Report, prefix string) {
	checkToManyEmission(p, r, prefix)
	checkRelDataKey(p, r, prefix)
	f := p.Fn("MarshalResource")
	if f == nil {
		r.fail("anchor MarshalResource not found")
		return
	}
	r.fn(funcName(f))
	res := f.Params[0]
	isGetOn := func(v ssa.Value) (*ssa.Call, bool) {
		c, _ := callOf(v)
		if c == nil || !c.Common().IsInvoke() || c.Common().Method.Name() != "Get" || c.Common().Value != ssa.Value(res) {
			return nil, false
		}
		return c, true
	}
	seen := map[string]bool{}
	eachInstr(f, func(ins ssa.Instruction) {
		mu, ok := ins.(*ssa.MapUpdate)
		if !ok {
			return
		}
		mt := mu.Map.Type().Underlying().(*types.Map)
		elem := fmtTypeString(mt.Elem())
		ks, constKey := constString(mu.Key)
		switch {
		case constKey && ks == "id" && isEmptyIface(mt.Elem()):
			// resource id
			seen["id"] = true
			good := false
			if mi, ok := mu.Value.(*ssa.MakeInterface); ok {
				if ta, ok := mi.X.(*ssa.TypeAssert); ok {
					if c, ok := isGetOn(ta.X); ok {
						if s, ok := constString(c.Common().Args[0]); ok && s == "id" {
							good = true
						}
					}
				}
			}
			r.decide(good, prefix+".marshal-plumbing", "MarshalResource:id", p.pos(mu.Pos()), "id member is Get(\"id\")", "the id member is not the resource's Get(\"id\") as is")
		case constKey && ks == "type" && isEmptyIface(mt.Elem()):
			seen["type"] = true
			good := false
			if mi, ok := mu.Value.(*ssa.MakeInterface); ok {
				if base, fl, ok := fieldLoad(mi.X); ok && fl == "Name" {
					if c, _ := callOf(base); c != nil && c.Common().IsInvoke() && c.Common().Method.Name() == "GetType" && c.Common().Value == ssa.Value(res) {
						good = true
					}
					if al, ok := base.(*ssa.Alloc); ok {
						for _, ref := range referrers(al) {
							if st, ok := ref.(*ssa.Store); ok {
								if c, _ := callOf(st.Val); c != nil && c.Common().IsInvoke() && c.Common().Method.Name() == "GetType" {
									good = true
								}
							}
						}
					}
				}
			}
			r.decide(good, prefix+".marshal-plumbing", "MarshalResource:type", p.pos(mu.Pos()), "type member is GetType().Name", "the type member is not the resource's GetType().Name")
		case !constKey && isEmptyIface(mt.Elem()):
			// attrs[attr.Name] = r.Get(attr.Name)
			kb, kf, ok1 := fieldLoad(mu.Key)
			c, ok2 := isGetOn(mu.Value)
			good := false
			if ok1 && ok2 && kf == "Name" {
				if ab, af, ok := fieldLoad(c.Common().Args[0]); ok && af == "Name" && ab == kb {
					good = true
				}
			}
			seen["attr"] = true
			r.decide(good, prefix+".marshal-plumbing", "MarshalResource:attribute-value", p.pos(mu.Pos()), "attrs[name] = Get(name), unmodified", "an attribute member is not the unmodified result of Get for that attribute's name")
		case constKey && ks == "id" && elem == "string":
			// identifier id: Get(rel.FromName).(string) or an element of Get(rel.FromName).([]string)
			good := false
			v := mu.Value
			if ta, ok := v.(*ssa.TypeAssert); ok {
				if c, ok := isGetOn(ta.X); ok {
					if _, fl, ok := fieldLoad(c.Common().Args[0]); ok && fl == "FromName" {
						good = true
					}
				}
			}
			if ld, ok := v.(*ssa.UnOp); ok && ld.Op == token.MUL {
				if ia, ok := ld.X.(*ssa.IndexAddr); ok {
					if ta, ok := ia.X.(*ssa.TypeAssert); ok {
						if c, ok := isGetOn(ta.X); ok {
							if _, fl, ok := fieldLoad(c.Common().Args[0]); ok && fl == "FromName" {
								good = true
							}
						}
					}
				}
			}
			seen["ident-id"] = true
			r.decide(good, prefix+".marshal-plumbing", "MarshalResource:"+p.describe(mu), p.pos(mu.Pos()), "identifier id comes from Get(rel.FromName)", "a relationship identifier's id is not (an element of) Get(rel.FromName)")
		case constKey && ks == "type" && elem == "string":
			_, fl, ok := fieldLoad(mu.Value)
			seen["ident-type"] = true
			r.decide(ok && fl == "ToType", prefix+".marshal-plumbing", "MarshalResource:"+p.describe(mu), p.pos(mu.Pos()), "identifier type is rel.ToType", "a relationship identifier's type is not the relationship's target type (rel.ToType)")
		}
	})
	for _, k := range []string{"id", "type", "attr", "ident-id", "ident-type"} {
		if !seen[k] {
			r.bad(prefix+".marshal-plumbing", "MarshalResource:missing-"+k, p.pos(f.Pos()), "MarshalResource no longer writes the "+k+" member in a recognisable way")
		}
	}
}

// writerKeys: constant string keys of MapUpdates / map literals in f.
func writerKeys(f *ssa.Function) map[string]bool {
	out := map[string]bool{}
	eachInstr(f, func(ins ssa.Instruction) {
		if mu, ok := ins.(*ssa.MapUpdate); ok {
			if s, ok := constString(mu.Key); ok {
				out[s] = true
			}
		}
	})
	return out
}

// jsonTags returns the json tag names of a struct type declared in the package.
func jsonTags(p *Prog, name string) map[string]bool {
	out := map[string]bool{}
	nt := p.namedType(name)
	if nt == nil {
		return out
	}
	st, ok := nt.Underlying().(*types.Struct)
	if !ok {
		return out
	}
	for i := 0; i < st.NumFields(); i++ {
		tag := reflect.StructTag(st.Tag(i)).Get("json")
		if tag == "" {
			continue
		}
		out[strings.Split(tag, ",")[0]] = true
	}
	return out
}

func checkResourceTags(p *Prog, r *Report) {
	mr := p.Fn("MarshalResource")
	if mr == nil {
		return
	}
	wk := writerKeys(mr)
	n := 0
	for _, pair := range []struct {
		reader string
		keys   []string
	}{
		{"resourceSkeleton", []string{"id", "type", "attributes", "relationships"}},
		{"relationshipSkeleton", []string{"data"}},
		{"Identifier", []string{"id", "type"}},
	} {
		tags := jsonTags(p, pair.reader)
		for _, k := range pair.keys {
			n++
			r.decide(wk[k] && tags[k], "R5.tag-tables", pair.reader+":"+k, p.pos(mr.Pos()), "written by MarshalResource and read through the json tag of "+pair.reader,
				fmt.Sprintf("member %q: written=%v, tag on %s=%v — the writer's member name and the reader's tag disagree, so the member is lost on the way back", k, wk[k], pair.reader, tags[k]))
		}
	}
	r.floor("R5 resource members", n, 7)
}

// checkReadNilness: on the read and write paths of the two resource
// implementations no byte string is rebuilt by appending to a nil slice: that
// idiom turns an empty, non-nil byte string into nil, which encoding/json
// writes as null.
func checkReadNilness(p *Prog, r *Report) {
	var roots []*ssa.Function
	for _, n := range []string{"(*Wrapper).Get", "(*Wrapper).Set", "(*SoftResource).Get", "(*SoftResource).Set"} {
		if f := p.Fn(n); f != nil {
			roots = append(roots, f)
		}
	}
	nf := 0
	for _, f := range p.cg.Reachable(roots...) {
		if f.Pkg == nil || f.Pkg != roots[0].Pkg {
			continue
		}
		nf++
		eachInstr(f, func(ins ssa.Instruction) {
			c, ok := ins.(*ssa.Call)
			if !ok || builtinName(c.Common()) != "append" || len(c.Common().Args) != 2 {
				return
			}
			st, ok := c.Type().Underlying().(*types.Slice)
			if !ok {
				return
			}
			if b, ok := st.Elem().Underlying().(*types.Basic); !ok || b.Kind() != types.Uint8 {
				return
			}
			base := c.Common().Args[0]
			if !isNilConst(stripValue(base)) && !isNilConst(base) {
				return
			}
			if _, isConst := c.Common().Args[1].(*ssa.Const); isConst || len(referrers(c)) == 0 {
				return
			}
			guarded := false
			for _, ef := range expandFacts(factsAt(c.Block())) {
				if bo, ok := ef.Cond.(*ssa.BinOp); ok {
					for _, o := range []ssa.Value{bo.X, bo.Y} {
						if lc, ok := o.(*ssa.Call); ok && builtinName(lc.Common()) == "len" {
							guarded = true
						}
					}
				}
			}
			r.decide(guarded, "C01.read-nilness", funcName(f)+":"+p.describe(c), p.pos(c.Pos()), "the nil-based append is made for a non-empty source only",
				"a byte string read from or stored into a resource is rebuilt with append on a nil slice: an empty, non-nil byte string becomes nil, is marshaled as null and does not come back (null-ness not preserved)")
		})
	}
	r.decide(nf >= 4, "C01.read-nilness", "scope", p.pos(roots[0].Pos()), fmt.Sprintf("%d functions on the Get/Set paths examined", nf), "the Get/Set paths of the resource implementations were not found")
}
