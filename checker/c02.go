package main

import (
	"fmt"
	"go/token"
	"go/types"
	"reflect"
	"sort"
	"strings"

	"golang.org/x/tools/go/ssa"
)

func init() { register("C02", checkC02) }

func checkC02(p *Prog, r *Report) {
	r.rule("C02.int-width / C02.build-wrap (imported from C01 / C20): integer attributes come back through a parser at least as wide as their kind; BuildType and Wrap name a struct's fields alike")
	nIW := r.importRules(func(r2 *Report) { checkC01(p, r2) }, "C02.int-width", "R2.int-width")
	r.floor("imported integer width obligations", nIW, 20)
	nBW := r.importRules(func(r2 *Report) { checkBuildWrapAgreement(p, r2) }, "C02.build-wrap", "C20.sibling-agreement")
	r.floor("imported build/wrap obligations", nBW, 1)
	r.rule("C02.type-lookup: Schema.GetType / HasType find a type by one exact equality test between a type's Name and the requested name and call nothing else (the comparison AddType uses to keep names unique)")
	checkTypeLookup(p, r, "C02")
	r.rule("C02.check-complete: SoftResource.check, which Get runs before MarshalResource reads a soft resource's values, cannot return before its loops that zero-fill missing and drop stale fields (shared with C17)")
	checkSoftCheckComplete(p, r, "C02")
	r.rule("C02.plumbing / C02.fresh-linkage (shared with C01/C06): UnmarshalResource, through which every primary and included resource comes back, sets the id as decoded, each attribute from UnmarshalToType's result and each relationship from its decoded linkage, whose decode target is fresh per relationship")
	checkUnmarshalPlumbing(p, r, "C02")
	r.rule("C02.reldata-key (shared with C01/C04): MarshalResource selects the relationships whose linkage is written with relData[<the resource's own type name>]")
	checkRelDataKey(p, r, "C02")
	r.rule("C02.kind-dispatch: every kind of primary data MarshalDocument accepts (the case types of its type switch, and nil) has a branch in UnmarshalDocument that stores a value of that kind into Data; the branch is selected by the first byte that the corresponding marshaler produces ('{' for json.Marshal of a map, '[' for a slice or the literal [], the literal null)")
	r.rule("R5 tag tables: the members MarshalDocument writes that carry document state (data, errors, included, meta) are exactly the json tags of payloadSkeleton; Error.MarshalJSON writes every field of Error under that field's own json tag")
	r.rule("C02.order (counted-loop shape): MarshalCollection, UnmarshalCollection, the included loops of MarshalDocument and UnmarshalDocument each run an index 0,1,2,… up to the length of their source, emit exactly one output element per iteration (append / Add, dominating the back edge), computed from the source element at that very index, and are left early only by returning an error; Resources.Add appends at the end; At/Len of the shipped collections are views of one underlying list")
	r.rule("C02.exclusive: in UnmarshalDocument no path stores both Errors and Data")
	r.rule("C02.flow (must-pass-through): every successful return of UnmarshalDocument has stored Meta from the skeleton's meta, has gone through the data dispatch when data is present, and has either found no included member or exhausted the loop over it; errors are copied as a whole; on the marshal side, the included resources are marshaled under conditions that all follow from data being emitted, and errors are marshaled as a whole from doc.Errors")
	r.rule("C02.field-selection: each resource, primary, collection member or included, is marshaled with the field selection of its own type (shared with C04)")
	r.assume("encoding/json round-trips strings, maps, slices and the Error members (contract); per-resource value plumbing is C01's")
	r.notCovered("equality of values after the round trip (C01), JSON-equality of arbitrary meta, link objects; error drops in the unmarshalers are decided by C05")

	md, ud := p.Fn("MarshalDocument"), p.Fn("UnmarshalDocument")
	mc, uc := p.Fn("MarshalCollection"), p.Fn("UnmarshalCollection")
	mr := p.Fn("MarshalResource")
	if md == nil || ud == nil || mc == nil || uc == nil || mr == nil {
		r.fail("anchor MarshalDocument / UnmarshalDocument / MarshalCollection / UnmarshalCollection / MarshalResource not found")
		return
	}
	for _, f := range []*ssa.Function{md, ud, mc, uc} {
		r.fn(funcName(f))
	}
	checkC02Dispatch(p, r, md, ud, mr, mc)
	checkC02Tags(p, r, md)
	checkC02Order(p, r, md, ud, mc, uc)
	checkC02Flow(p, r, md, ud)
	checkMarshalCallSitesRule(p, r, mr, "C02.field-selection")
}

// ---------------------------------------------------------------------------

// firstByteOf: the first byte of the JSON a marshaler's return value starts with.
func producerFirstBytes(f *ssa.Function) map[string]bool {
	out := map[string]bool{}
	for _, b := range f.Blocks {
		ret, ok := b.Instrs[len(b.Instrs)-1].(*ssa.Return)
		if !ok {
			continue
		}
		for _, o := range origins(ret.Results[0]) {
			switch x := o.(type) {
			case *ssa.Extract:
				c, _ := callOf(x.Tuple)
				if c != nil && calleeIs(c, "encoding/json", "Marshal") {
					switch unbox(c.Common().Args[0]).Type().Underlying().(type) {
					case *types.Map, *types.Struct:
						out["{"] = true
					case *types.Slice:
						out["["] = true
					default:
						out["?"] = true
					}
				} else {
					out["?"] = true
				}
			case *ssa.Convert:
				if s, ok := constString(x.X); ok && s != "" {
					out[s[:1]] = true
				} else {
					out["?"] = true
				}
			default:
				out["?"] = true
			}
		}
	}
	return out
}

func checkC02Dispatch(p *Prog, r *Report, md, ud, mr, mc *ssa.Function) {
	// marshal side: case types
	kinds := map[string]bool{}
	eachInstrOf(append([]*ssa.Function{md}, stringHelpers(md)...), func(ins ssa.Instruction) {
		ta, ok := ins.(*ssa.TypeAssert)
		if !ok || !ta.CommaOk {
			return
		}
		if _, fl, ok := fieldLoad(ta.X); ok && fl == "Data" {
			kinds[strings.TrimPrefix(fmtTypeString(ta.AssertedType), "jsonapi.")] = true
		}
	})
	kinds["nil"] = true
	// unmarshal side: what is stored into Data, and under which first-byte test
	branches := c02DataBranches(p, ud)
	var ks []string
	for k := range kinds {
		ks = append(ks, k)
	}
	sort.Strings(ks)
	for _, k := range ks {
		found := false
		for _, b := range branches {
			if b.kind == k {
				found = true
			}
		}
		if !found && k == "nil" && c02HasNullEdge(ud) {
			found = true // no store needed: the fresh document's Data is nil, and the null literal is recognised
		}
		r.decide(found, "C02.kind-dispatch", "UnmarshalDocument:"+k+":no-unmarshal-branch", p.pos(ud.Pos()), "UnmarshalDocument can store a "+k+" into Data",
			"MarshalDocument accepts "+k+" as primary data but UnmarshalDocument never stores a "+k+" into Data: such a document comes back with another kind of primary data")
	}
	r.floor("primary-data kinds accepted by MarshalDocument", len(ks), 5)
	// selection by first byte
	want := map[string]struct {
		producer *ssa.Function
		bytes    []string
	}{
		"Resource":   {mr, []string{"{"}},
		"Collection": {mc, []string{"["}},
	}
	for _, b := range branches {
		switch b.kind {
		case "Resource", "Collection":
			w := want[b.kind]
			pb := producerFirstBytes(w.producer)
			var got []string
			for k := range pb {
				got = append(got, k)
			}
			sort.Strings(got)
			r.decide(reflect.DeepEqual(got, w.bytes), "C02.kind-dispatch", funcName(w.producer)+":first-byte", p.pos(w.producer.Pos()), "always starts with "+strings.Join(w.bytes, ""),
				fmt.Sprintf("%s can produce JSON starting with %v: UnmarshalDocument would not take the %s branch for it", funcName(w.producer), got, b.kind))
			ch := byte(w.bytes[0][0])
			ok := mustPassEdge(b.fn, b.blk, func(cond ssa.Value, truth bool) bool {
				bo, isB := cond.(*ssa.BinOp)
				if !isB || bo.Op != token.EQL || !truth {
					return false
				}
				k, isC := constInt(bo.Y)
				if !isC || byte(k) != ch {
					return false
				}
				// bo.X = ske.Data[0]
				ld, isL := bo.X.(*ssa.UnOp)
				if !isL {
					return false
				}
				ia, isIA := ld.X.(*ssa.IndexAddr)
				if !isIA {
					return false
				}
				if i0, ok := constInt(ia.Index); !ok || i0 != 0 {
					return false
				}
				return b.isData(ia.X)
			})
			r.decide(ok, "C02.kind-dispatch", "UnmarshalDocument:"+b.kind+":selected-by-first-byte", p.pos(b.pos), "stored only when data starts with "+w.bytes[0], "the "+b.kind+" branch of UnmarshalDocument is not selected by the first byte "+w.bytes[0]+" of data")
			// and the value stored comes from the matching unmarshaler applied to ske.Data
			okSrc := false
			if ci, isCI := b.val.(*ssa.ChangeInterface); isCI {
				if c, _ := callOf(ci.X); c != nil && c.Common().StaticCallee() != nil {
					name := funcName(c.Common().StaticCallee())
					if (b.kind == "Resource" && name == "UnmarshalResource") || (b.kind == "Collection" && name == "UnmarshalCollection") {
						if b.isData(unbox(c.Common().Args[0])) {
							okSrc = true
						}
					}
				}
			}
			r.decide(okSrc, "C02.kind-dispatch", "UnmarshalDocument:"+b.kind+":source", p.pos(b.pos), "the stored value is Unmarshal"+b.kind+"(ske.Data, schema)", "the value stored as "+b.kind+" primary data is not the result of the matching unmarshaler applied to the data member")
		case "nil":
			ok := mustPassEdge(b.fn, b.blk, func(cond ssa.Value, truth bool) bool {
				bo, isB := cond.(*ssa.BinOp)
				if !isB || bo.Op != token.EQL || !truth {
					return false
				}
				s, isC := constString(bo.Y)
				return isC && s == "null"
			})
			r.decide(ok, "C02.kind-dispatch", "UnmarshalDocument:nil:selected-by-null", p.pos(b.pos), "nil stored only for the literal null", "nil primary data is stored for something other than the literal null")
		}
	}
	// marshal side: nil data is the literal null
	okNull := false
	eachInstrOf(append([]*ssa.Function{md}, stringHelpers(md)...), func(ins ssa.Instruction) {
		if cv, ok := ins.(*ssa.Convert); ok {
			if s, ok := constString(cv.X); ok && s == "null" {
				okNull = true
			}
		}
	})
	r.decide(okNull, "C02.kind-dispatch", "MarshalDocument:nil:null-literal", p.pos(md.Pos()), "nil data is emitted as null", "nil primary data is not emitted as the literal null")
}

// ---------------------------------------------------------------------------

func structTags(t types.Type) map[string]string {
	out := map[string]string{} // field -> tag name
	st, ok := t.Underlying().(*types.Struct)
	if !ok {
		return out
	}
	for i := 0; i < st.NumFields(); i++ {
		tag := reflect.StructTag(st.Tag(i)).Get("json")
		name := strings.Split(tag, ",")[0]
		if name == "" {
			name = st.Field(i).Name()
		}
		out[st.Field(i).Name()] = name
	}
	return out
}

func checkC02Tags(p *Prog, r *Report, md *ssa.Function) {
	scope := p.Types.Scope()
	// payloadSkeleton
	ps := scope.Lookup("payloadSkeleton")
	if ps == nil {
		r.fail("anchor payloadSkeleton not found")
		return
	}
	tags := map[string]bool{}
	for _, t := range structTags(ps.Type()) {
		tags[t] = true
	}
	written := map[string]bool{}
	eachInstr(md, func(ins ssa.Instruction) {
		if mu, ok := ins.(*ssa.MapUpdate); ok {
			if k, ok := constString(mu.Key); ok {
				if mt, ok := mu.Map.Type().Underlying().(*types.Map); ok && isEmptyIface(mt.Elem()) {
					written[k] = true
				}
			}
		}
	})
	n := 0
	for _, k := range []string{"data", "errors", "included", "meta"} {
		n++
		r.decide(written[k] && tags[k], "R5.tag-tables", "payloadSkeleton:"+k, p.pos(md.Pos()), "written by MarshalDocument and read through payloadSkeleton's tag",
			fmt.Sprintf("top-level member %q: written by MarshalDocument=%v, json tag on payloadSkeleton=%v", k, written[k], tags[k]))
	}
	for t := range tags {
		if !written[t] {
			r.bad("R5.tag-tables", "payloadSkeleton:unwritten:"+t, p.pos(md.Pos()), "payloadSkeleton reads a member "+t+" that MarshalDocument never writes")
		}
	}
	// Error
	em := p.Fn("(Error).MarshalJSON")
	eo := scope.Lookup("Error")
	if em == nil || eo == nil {
		r.fail("anchor Error / (Error).MarshalJSON not found")
		return
	}
	r.fn(funcName(em))
	etags := structTags(eo.Type())
	seen := map[string]bool{}
	eachInstr(em, func(ins ssa.Instruction) {
		mu, ok := ins.(*ssa.MapUpdate)
		if !ok {
			return
		}
		k, ok := constString(mu.Key)
		if !ok {
			// a table of {name, value} pairs walked by a loop
			if ents := tableEntries(mu); len(ents) > 0 {
				for _, en := range ents {
					n++
					seen[en.field] = true
					r.decide(etags[en.field] == en.name, "R5.tag-tables", "Error:"+en.name, p.pos(mu.Pos()), "Error."+en.field+" written under its own json tag (table entry)", fmt.Sprintf("Error.MarshalJSON writes member %q from field %s whose json tag is %q: it does not come back into that field", en.name, en.field, etags[en.field]))
				}
				return
			}
			r.bad("R5.tag-tables", "Error:computed-key:"+p.describe(mu), p.pos(mu.Pos()), "an error member with a computed name")
			return
		}
		n++
		_, fl, okf := fieldLoad(unbox(mu.Value))
		good := okf && etags[fl] == k
		seen[fl] = true
		// the presence test of a member looks at that member's own field
		if okf {
			for _, ef := range factsAt(mu.Block()) {
				other := ""
				var walk func(v ssa.Value, depth int)
				walk = func(v ssa.Value, depth int) {
					if depth > 6 || v == nil {
						return
					}
					if _, f2, ok := fieldLoad(v); ok {
						if f2 != fl {
							other = f2
						}
						return
					}
					if ins, ok := v.(ssa.Instruction); ok {
						for _, op := range ins.Operands(nil) {
							if *op != nil {
								walk(*op, depth+1)
							}
						}
					}
				}
				walk(ef.Cond, 0)
				r.decide(other == "", "R5.tag-tables", "Error:"+k+":own-guard", p.pos(mu.Pos()), "emitted depending on its own field only", fmt.Sprintf("the error member %q is emitted depending on field %s, not on its own field %s: errors lose that member (or get an empty one) on the round trip", k, other, fl))
			}
		}
		r.decide(good, "R5.tag-tables", "Error:"+k, p.pos(mu.Pos()), "Error."+fl+" written under its own json tag", fmt.Sprintf("Error.MarshalJSON writes member %q from field %s whose json tag is %q: it does not come back into that field", k, fl, etags[fl]))
	})
	for fl := range etags {
		if !seen[fl] {
			r.bad("R5.tag-tables", "Error:unwritten:"+fl, p.pos(em.Pos()), "Error.MarshalJSON never writes field "+fl)
		}
	}
	r.floor("R5 document/error members", n, 12)
}

// ---------------------------------------------------------------------------

type countedLoop struct {
	header *ssa.BasicBlock
	blocks map[*ssa.BasicBlock]bool
	idx    ssa.Value
	src    ssa.Value // the list: a slice value or a Collection
	srcIs  string    // "slice" | "collection"
}

func findCountedLoops(f *ssa.Function) []*countedLoop {
	var out []*countedLoop
	for _, b := range f.Blocks {
		loop := naturalLoop(b)
		if loop == nil {
			continue
		}
		ifi, ok := b.Instrs[len(b.Instrs)-1].(*ssa.If)
		if !ok {
			continue
		}
		bo, ok := ifi.Cond.(*ssa.BinOp)
		if !ok || bo.Op != token.LSS {
			continue
		}
		start, step := inductionOf(bo.X, loop)
		if start != 0 || step != 1 {
			continue
		}
		cl := &countedLoop{header: b, blocks: loop, idx: bo.X}
		c, _ := callOf(bo.Y)
		if c == nil {
			continue
		}
		switch {
		case builtinName(c.Common()) == "len":
			v := c.Common().Args[0]
			if ms, ok := v.(*ssa.MakeSlice); ok {
				if lc, _ := callOf(ms.Len); lc != nil && builtinName(lc.Common()) == "len" {
					v = lc.Common().Args[0]
				}
			}
			cl.src, cl.srcIs = v, "slice"
		case c.Common().IsInvoke() && c.Common().Method.Name() == "Len":
			cl.src, cl.srcIs = c.Common().Value, "collection"
		default:
			continue
		}
		out = append(out, cl)
	}
	return out
}

// elemAt: v is the element of the loop's source at the loop's index.
func (cl *countedLoop) elemAt(v ssa.Value) bool {
	switch x := v.(type) {
	case *ssa.UnOp:
		if x.Op != token.MUL {
			return false
		}
		ia, ok := x.X.(*ssa.IndexAddr)
		return ok && cl.srcIs == "slice" && ia.Index == cl.idx && (ia.X == cl.src || pathOf(ia.X, 0) == pathOf(cl.src, 0))
	case *ssa.Call:
		cc := x.Common()
		return cl.srcIs == "collection" && cc.IsInvoke() && cc.Method.Name() == "At" && cc.Value == cl.src && cc.Args[0] == cl.idx
	}
	return false
}

// derivesFromElem: v is computed from the element at the loop's index and from
// no other element of the source.
func (cl *countedLoop) derivesFromElem(v ssa.Value, depth int, seen map[ssa.Value]bool) (found bool, other bool) {
	if depth > 14 || seen[v] {
		return false, false
	}
	seen[v] = true
	if cl.elemAt(v) {
		return true, false
	}
	var ops []ssa.Value
	switch x := v.(type) {
	case *ssa.IndexAddr:
		if pathOf(x.X, 0) == pathOf(cl.src, 0) && x.Index != cl.idx {
			return false, true
		}
		ops = []ssa.Value{x.X}
	case *ssa.Alloc:
		for _, ref := range referrers(x) {
			if st, ok := ref.(*ssa.Store); ok && st.Addr == ssa.Value(x) {
				ops = append(ops, st.Val)
			}
		}
	case *ssa.Call:
		cc := x.Common()
		if cc.IsInvoke() && cc.Method.Name() == "At" && cc.Value == cl.src && cc.Args[0] != cl.idx {
			return false, true
		}
		ops = append(ops, cc.Args...)
	case ssa.Instruction:
		for _, op := range x.Operands(nil) {
			if *op != nil {
				ops = append(ops, *op)
			}
		}
	}
	for _, o := range ops {
		f, ot := cl.derivesFromElem(o, depth+1, seen)
		found = found || f
		other = other || ot
	}
	return
}

type emitSpec struct {
	fn       *ssa.Function
	what     string
	isSource func(cl *countedLoop) bool
	isEmit   func(ins ssa.Instruction) (ssa.Value, bool) // the emitted element
}

func checkC02Order(p *Prog, r *Report, md, ud, mc, uc *ssa.Function) {
	appendElem := func(c *ssa.Call) ssa.Value {
		// append(acc, x): the single variadic element
		if builtinName(c.Common()) != "append" || len(c.Common().Args) != 2 {
			return nil
		}
		sl, ok := c.Common().Args[1].(*ssa.Slice)
		if !ok {
			return nil
		}
		al, ok := sl.X.(*ssa.Alloc)
		if !ok {
			return nil
		}
		var elem ssa.Value
		n := 0
		for _, ref := range referrers(al) {
			if ia, ok := ref.(*ssa.IndexAddr); ok {
				for _, r2 := range referrers(ia) {
					if st, ok := r2.(*ssa.Store); ok {
						elem = st.Val
						n++
					}
				}
			}
		}
		if n != 1 {
			return nil
		}
		return elem
	}
	fieldIs := func(v ssa.Value, name string) bool {
		_, fl, ok := fieldLoad(v)
		return ok && fl == name
	}
	add := p.Fn("(*Resources).Add")
	specs := []emitSpec{
		{mc, "MarshalCollection", func(cl *countedLoop) bool { return cl.srcIs == "collection" && cl.src == ssa.Value(mc.Params[0]) },
			func(ins ssa.Instruction) (ssa.Value, bool) {
				c, ok := ins.(*ssa.Call)
				if !ok {
					return nil, false
				}
				if e := appendElem(c); e != nil {
					return e, true
				}
				return nil, false
			}},
		{uc, "UnmarshalCollection", func(cl *countedLoop) bool { return cl.srcIs == "slice" },
			func(ins ssa.Instruction) (ssa.Value, bool) {
				c, ok := ins.(*ssa.Call)
				if !ok {
					return nil, false
				}
				if add != nil && c.Common().StaticCallee() == add {
					return c.Common().Args[1], true
				}
				// or a plain append to the list being built
				if e := appendElem(c); e != nil {
					return e, true
				}
				return nil, false
			}},
		{ud, "UnmarshalDocument:included", func(cl *countedLoop) bool { return cl.srcIs == "slice" && fieldIs(cl.src, "Included") },
			func(ins ssa.Instruction) (ssa.Value, bool) {
				c, ok := ins.(*ssa.Call)
				if !ok {
					return nil, false
				}
				e := appendElem(c)
				if e == nil || !fieldIs(c.Common().Args[0], "Included") {
					return nil, false
				}
				// the result is stored back into doc.Included
				for _, ref := range referrers(c) {
					if st, ok := ref.(*ssa.Store); ok {
						if fa, ok := st.Addr.(*ssa.FieldAddr); ok {
							if _, fl := fieldRef(fa.X, fa.Field); fl == "Included" {
								return e, true
							}
						}
					}
				}
				return nil, false
			}},
		{md, "MarshalDocument:included", func(cl *countedLoop) bool { return cl.srcIs == "slice" && fieldIs(cl.src, "Included") },
			func(ins ssa.Instruction) (ssa.Value, bool) {
				c, ok := ins.(*ssa.Call)
				if !ok {
					return nil, false
				}
				if e := appendElem(c); e != nil {
					return e, true
				}
				return nil, false
			}},
	}
	for _, sp := range specs {
		var chosen *countedLoop
		var emits []ssa.Instruction
		var emitted ssa.Value
		var cands []*countedLoop
		for _, g := range append([]*ssa.Function{sp.fn}, stringHelpers(sp.fn)...) {
			cands = append(cands, findCountedLoops(g)...)
		}
		for _, cl := range cands {
			if !sp.isSource(cl) {
				continue
			}
			var es []ssa.Instruction
			var ev ssa.Value
			for b := range cl.blocks {
				for _, ins := range b.Instrs {
					if v, ok := sp.isEmit(ins); ok {
						es = append(es, ins)
						ev = v
					}
				}
			}
			if len(es) == 0 {
				// or the output list is preallocated and slot i is filled in
				// iteration i (dest[i] = f(src[i])): the same order
				for b := range cl.blocks {
					for _, ins := range b.Instrs {
						st, ok := ins.(*ssa.Store)
						if !ok {
							continue
						}
						ia, ok := st.Addr.(*ssa.IndexAddr)
						if !ok || ia.Index != cl.idx {
							continue
						}
						if _, isMk := ia.X.(*ssa.MakeSlice); !isMk {
							if _, isPhi := ia.X.(*ssa.Phi); !isPhi {
								continue
							}
						}
						es = append(es, ins)
						ev = st.Val
					}
				}
			}
			if len(es) > 0 {
				chosen, emits, emitted = cl, es, ev
			}
		}
		key := sp.what
		if chosen == nil {
			r.bad("C02.order", key+":loop", p.pos(sp.fn.Pos()), "no loop that runs an index 0,1,2,… up to the length of the source and emits one element per iteration was found: the order of the output cannot be read off")
			continue
		}
		pos := p.pos(emits[0].Pos())
		good, why := true, ""
		if len(emits) != 1 {
			good, why = false, fmt.Sprintf("%d emissions per iteration", len(emits))
		}
		if good {
			for _, pb := range chosen.header.Preds {
				if chosen.blocks[pb] && !emits[0].Block().Dominates(pb) {
					good, why = false, "an iteration can finish without emitting its element"
				}
			}
		}
		if good {
			found, other := chosen.derivesFromElem(emitted, 0, map[ssa.Value]bool{})
			if !found {
				good, why = false, "the emitted element is not computed from the source element at the loop's index"
			} else if other {
				good, why = false, "the emitted element also depends on a source element at another index"
			}
		}
		if good {
			// exits: exhaustion or error return
			for b := range chosen.blocks {
				for _, s := range b.Succs {
					if chosen.blocks[s] || b == chosen.header {
						continue
					}
					ret, isRet := s.Instrs[len(s.Instrs)-1].(*ssa.Return)
					if !isRet || len(ret.Results) == 0 || !errNonNilAt(ret.Results[len(ret.Results)-1], s) {
						good, why = false, "the loop is left early other than by returning an error: later elements are dropped"
					}
				}
			}
		}
		r.decide(good, "C02.order", key+":one-element-per-index", pos, "index 0..n-1, one element per iteration from the element at that index", sp.what+" does not preserve the sequence: "+why)
		// nothing reorders the output afterwards
		reorder := ""
		eachInstr(sp.fn, func(ins ssa.Instruction) {
			c, ok := ins.(*ssa.Call)
			if !ok || !(calleeIs(c, "sort", "Slice") || calleeIs(c, "sort", "Strings") || calleeIs(c, "sort", "SliceStable") || calleeIs(c, "sort", "Sort")) {
				return
			}
			arg := unbox(c.Common().Args[0])
			if strings.HasPrefix(sp.what, "MarshalDocument") && fieldIs(arg, "Included") {
				if c.Block().Dominates(chosen.header) {
					return // the canonical order of included, applied before emission (C11)
				}
				// the emitting loop lives in a phase helper: the sort precedes its call
				if g := chosen.header.Parent(); g != sp.fn {
					before := false
					eachInstr(sp.fn, func(i2 ssa.Instruction) {
						if hc, ok := i2.(*ssa.Call); ok && hc.Common().StaticCallee() == g && (c.Block().Dominates(hc.Block())) {
							before = true
						}
					})
					if before {
						return
					}
				}
			}
			reorder = p.describe(c) + " at " + p.pos(c.Pos())
		})
		r.decide(reorder == "", "C02.order", key+":no-reordering", pos, "no sort touches the sequence", "the sequence is reordered by "+reorder)
	}
	// Resources.Add appends; At / Len are views of one list
	if add == nil {
		r.fail("anchor (*Resources).Add not found")
	} else {
		r.fn(funcName(add))
		good := false
		eachInstr(add, func(ins ssa.Instruction) {
			st, ok := ins.(*ssa.Store)
			if !ok || st.Addr != ssa.Value(add.Params[0]) {
				return
			}
			if c, _ := callOf(st.Val); c != nil {
				if e := appendElem(c); e == ssa.Value(add.Params[1]) {
					if ld, ok := c.Common().Args[0].(*ssa.UnOp); ok && ld.X == ssa.Value(add.Params[0]) {
						good = true
					}
				}
			}
		})
		r.decide(good, "C02.order", "(*Resources).Add:appends-at-end", p.pos(add.Pos()), "*r = append(*r, res)", "Resources.Add does not append the resource at the end of the list")
	}
	nViews := 0
	for _, recv := range []string{"*Resources", "*SoftCollection", "*WrapperCollection"} {
		at, ln := p.Fn("("+recv+").At"), p.Fn("("+recv+").Len")
		if at == nil || ln == nil {
			r.fail("anchor (%s).At / Len not found", recv)
			continue
		}
		r.fn(funcName(at))
		r.fn(funcName(ln))
		// Len: returns len(L); At: returns L[i] (possibly wrapped) for the same L
		var lenOf string
		for _, b := range ln.Blocks {
			if ret, ok := b.Instrs[len(b.Instrs)-1].(*ssa.Return); ok {
				if c, _ := callOf(ret.Results[0]); c != nil && builtinName(c.Common()) == "len" {
					lenOf = pathOfRecv(c.Common().Args[0])
				}
			}
		}
		good, why := lenOf != "", "Len does not return the length of a list"
		if good {
			okAt := false
			eachInstr(at, func(ins ssa.Instruction) {
				ia, ok := ins.(*ssa.IndexAddr)
				if !ok {
					return
				}
				if pathOfRecv(ia.X) == lenOf && ia.Index == ssa.Value(at.Params[1]) {
					okAt = true
				} else if pathOfRecv(ia.X) == lenOf {
					good, why = false, "At reads the list at an index other than its argument"
				}
			})
			if good && !okAt {
				good, why = false, "At does not read element i of the list whose length Len returns"
			}
		}
		nViews++
		r.decide(good, "C02.order", "("+recv+"):At-Len-view", p.pos(at.Pos()), "At(i) is element i of the list Len measures", recv+": "+why)
	}
	r.floor("collection views", nViews, 3)
}

// pathOfRecv: access path with the receiver parameter normalised (so that the
// paths of two methods of one type can be compared).
func pathOfRecv(v ssa.Value) string {
	s := pathOf(v, 0)
	if f := v.Parent(); f != nil && len(f.Params) > 0 {
		s = strings.ReplaceAll(s, "param:"+f.Name()+"."+f.Params[0].Name(), "recv")
	}
	return s
}

// ---------------------------------------------------------------------------

// condString: canonical text of a branch condition.
func condString(v ssa.Value, depth int) string {
	if depth > 8 {
		return "…"
	}
	switch x := v.(type) {
	case *ssa.BinOp:
		return "(" + condString(x.X, depth+1) + " " + x.Op.String() + " " + condString(x.Y, depth+1) + ")"
	case *ssa.Call:
		if b := builtinName(x.Common()); b != "" {
			var as []string
			for _, a := range x.Common().Args {
				as = append(as, condString(a, depth+1))
			}
			return b + "(" + strings.Join(as, ",") + ")"
		}
	case *ssa.Const:
		return x.String()
	case *ssa.UnOp:
		if x.Op == token.NOT {
			return "!" + condString(x.X, depth+1)
		}
	}
	return pathOf(v, 0)
}

func checkC02Flow(p *Prog, r *Report, md, ud *ssa.Function) {
	// --- unmarshal side
	var okRets []*ssa.Return
	for _, b := range ud.Blocks {
		if ret, ok := b.Instrs[len(b.Instrs)-1].(*ssa.Return); ok && len(ret.Results) == 2 && isNilConst(ret.Results[1]) {
			okRets = append(okRets, ret)
		}
	}
	r.floor("successful returns of UnmarshalDocument", len(okRets), 1)
	isDocField := func(addr ssa.Value, name string) bool {
		fa, ok := addr.(*ssa.FieldAddr)
		if !ok {
			return false
		}
		_, fl := fieldRef(fa.X, fa.Field)
		return fl == name && strings.HasSuffix(typeStr(deref(fa.X.Type())), "Document")
	}
	isSkeField := func(v ssa.Value, name string) bool {
		base, fl, ok := fieldLoad(v)
		return ok && fl == name && strings.HasSuffix(typeStr(deref(base.Type())), "payloadSkeleton")
	}
	// exclusivity
	var dataStores, errStores []*ssa.Store
	eachInstr(ud, func(ins ssa.Instruction) {
		if st, ok := ins.(*ssa.Store); ok {
			if isDocField(st.Addr, "Data") {
				dataStores = append(dataStores, st)
			}
			if isDocField(st.Addr, "Errors") {
				if sl, isSlice := st.Val.(*ssa.Slice); isSlice {
					if al, ok := sl.X.(*ssa.Alloc); ok {
						if at, ok := deref(al.Type()).Underlying().(*types.Array); ok && at.Len() == 0 {
							return // an empty initial value
						}
					}
				}
				errStores = append(errStores, st)
			}
		}
	})
	for _, e := range errStores {
		excl := true
		for _, d := range dataStores {
			if blockReaches(d.Block(), e.Block(), true) || blockReaches(e.Block(), d.Block(), true) {
				excl = false
			}
		}
		r.decide(excl, "C02.exclusive", "UnmarshalDocument:errors-xor-data:"+p.describe(e), p.pos(e.Pos()), "no path stores both", "a path of UnmarshalDocument stores both Errors and Data")
		r.decide(isSkeField(e.Val, "Errors"), "C02.flow", "UnmarshalDocument:errors-whole", p.pos(e.Pos()), "doc.Errors = ske.Errors", "the errors are not taken over as a whole from the decoded errors member")
	}
	r.floor("Errors stores in UnmarshalDocument", len(errStores), 1)
	nData := len(c02DataBranches(p, ud))
	if c02HasNullEdge(ud) {
		nData++ // the null literal handled without a store
	}
	r.floor("Data stores in UnmarshalDocument (or values a dispatch helper returns for one)", nData, 3)
	included := findCountedLoops(ud)
	for _, ret := range okRets {
		key := "UnmarshalDocument:return@" + p.pos(ret.Pos())
		// meta
		okMeta := mustPassInstr(ud, ret, func(ins ssa.Instruction) bool {
			st, ok := ins.(*ssa.Store)
			return ok && isDocField(st.Addr, "Meta") && isSkeField(st.Val, "Meta")
		})
		r.decide(okMeta, "C02.flow", key+":meta", p.pos(ret.Pos()), "doc.Meta = ske.Meta on every path", "a successful return of UnmarshalDocument is reached without the top-level meta having been taken over")
		// data dispatch
		okData := mustPassEdge(ud, ret.Block(), func(cond ssa.Value, truth bool) bool {
			// len(ske.Data) > 0 false
			if bo, ok := cond.(*ssa.BinOp); ok && bo.Op == token.GTR && !truth {
				if c, _ := callOf(bo.X); c != nil && builtinName(c.Common()) == "len" && isSkeField(c.Common().Args[0], "Data") {
					return true
				}
			}
			return false
		}) || func() bool {
			// or every path passes a Data store unless data is absent
			return mustPassInstrOrEdge(ud, ret, func(ins ssa.Instruction) bool {
				st, ok := ins.(*ssa.Store)
				return ok && isDocField(st.Addr, "Data")
			}, func(cond ssa.Value, truth bool) bool {
				if bo, ok := cond.(*ssa.BinOp); ok && bo.Op == token.GTR && !truth {
					if c, _ := callOf(bo.X); c != nil && builtinName(c.Common()) == "len" && isSkeField(c.Common().Args[0], "Data") {
						return true
					}
				}
				if bo, ok := cond.(*ssa.BinOp); ok && bo.Op == token.EQL && truth {
					if z, ok := constInt(bo.Y); ok && z == 0 {
						if c, _ := callOf(bo.X); c != nil && builtinName(c.Common()) == "len" && isSkeField(c.Common().Args[0], "Data") {
							return true
						}
					}
				}
				// the literal null: Data keeps the nil of the fresh document
				return c02IsNullEdge(cond, truth)
			})
		}()
		r.decide(okData, "C02.flow", key+":data", p.pos(ret.Pos()), "data present => one of the Data stores executed", "a successful return is reached with a data member present but no primary data stored")
		// included
		okInc := mustPassEdge(ud, ret.Block(), func(cond ssa.Value, truth bool) bool {
			if truth {
				return false
			}
			bo, ok := cond.(*ssa.BinOp)
			if !ok {
				return false
			}
			// len(ske.Included) > 0 false
			if bo.Op == token.GTR {
				if c, _ := callOf(bo.X); c != nil && builtinName(c.Common()) == "len" && isSkeField(c.Common().Args[0], "Included") {
					return true
				}
			}
			// the exhaustion edge of the emitting loop over ske.Included
			for _, cl := range included {
				if cl.srcIs == "slice" && isSkeField(cl.src, "Included") {
					if ifi := cl.header.Instrs[len(cl.header.Instrs)-1].(*ssa.If); ifi.Cond == cond {
						emits := false
						for b := range cl.blocks {
							for _, ins := range b.Instrs {
								if st, ok := ins.(*ssa.Store); ok && isDocField(st.Addr, "Included") {
									emits = true
								}
							}
						}
						if emits {
							return true
						}
					}
				}
			}
			return false
		})
		r.decide(okInc, "C02.flow", key+":included", p.pos(ret.Pos()), "no included member, or the loop over it exhausted", "a successful return is reached although the included member was not (completely) read")
	}

	// --- marshal side: guards of the inclusion loop follow from data being emitted
	var dataStore *ssa.MapUpdate
	var errStore *ssa.MapUpdate
	eachInstr(md, func(ins ssa.Instruction) {
		if mu, ok := ins.(*ssa.MapUpdate); ok {
			if k, ok := constString(mu.Key); ok && isEmptyIface(mu.Map.Type().Underlying().(*types.Map).Elem()) {
				switch k {
				case "data":
					dataStore = mu
				case "errors":
					errStore = mu
				}
			}
		}
	})
	if dataStore == nil || errStore == nil {
		r.bad("C02.flow", "MarshalDocument:data/errors stores", p.pos(md.Pos()), "the stores of the data / errors members were not found")
		return
	}
	implied := map[string]bool{}
	for _, ef := range expandFacts(factsAt(dataStore.Block())) {
		implied[fmt.Sprintf("%s=%v", condString(ef.Cond, 0), ef.Truth)] = true
	}
	nInc := 0
	type incLoop struct {
		cl    *countedLoop
		facts []edgeFact
	}
	var incLoops []incLoop
	for _, cl := range findCountedLoops(md) {
		incLoops = append(incLoops, incLoop{cl, factsAt(cl.header)})
	}
	// the inclusion loop may live in a phase helper: the conditions are then those
	// inside the helper plus those that dominate its call
	for _, g := range stringHelpers(md) {
		var callFacts []edgeFact
		eachInstr(md, func(ins ssa.Instruction) {
			if c, ok := ins.(*ssa.Call); ok && c.Common().StaticCallee() == g {
				callFacts = factsAt(c.Block())
			}
		})
		for _, cl := range findCountedLoops(g) {
			incLoops = append(incLoops, incLoop{cl, append(append([]edgeFact{}, factsAt(cl.header)...), callFacts...)})
		}
	}
	for _, il := range incLoops {
		cl := il.cl
		if _, fl, ok := fieldLoad(cl.src); !ok || fl != "Included" {
			continue
		}
		nInc++
		good, why := true, ""
		for _, ef := range expandFacts(il.facts) {
			cs := condString(ef.Cond, 0)
			if strings.Contains(cs, "Included") && strings.Contains(cs, "len(") {
				continue // the list is not empty
			}
			if !implied[fmt.Sprintf("%s=%v", cs, ef.Truth)] {
				good, why = false, fmt.Sprintf("%s = %v", cs, ef.Truth)
			}
		}
		r.decide(good, "C02.flow", "MarshalDocument:included-whenever-data", p.pos(loopHeaderPos(cl)), "the included resources are marshaled whenever data is emitted", "the included resources are marshaled only under the condition "+shorten(why)+", which does not follow from data being emitted: documents lose their included resources")
	}
	r.floor("inclusion loops in MarshalDocument", nInc, 1)
	// errors win: data is stored only when there are no errors, and the errors
	// store does not depend on the data
	{
		noErrs := false
		for _, ef := range expandFacts(factsAt(dataStore.Block())) {
			cs := condString(ef.Cond, 0)
			if strings.HasPrefix(cs, "(len(") && strings.HasSuffix(cs, " > 0:int)") && !ef.Truth {
				if bo, ok := ef.Cond.(*ssa.BinOp); ok {
					if c, _ := callOf(bo.X); c != nil && len(c.Common().Args) == 1 {
						for _, o := range origins(c.Common().Args[0]) {
							if ex, ok := o.(*ssa.Extract); ok {
								if mc, _ := callOf(ex.Tuple); mc != nil && calleeIs(mc, "encoding/json", "Marshal") {
									if _, fl, ok := fieldLoad(unbox(mc.Common().Args[0])); ok && fl == "Errors" {
										noErrs = true
									}
								}
							}
						}
					}
				}
			}
		}
		r.decide(noErrs, "C02.flow", "MarshalDocument:errors-win", p.pos(dataStore.Pos()), "data is stored only when no errors were marshaled", "the data member can be stored although the document carries errors: a document with errors does not come back with its errors and without data")
		dataDep := ""
		for _, ef := range expandFacts(factsAt(errStore.Block())) {
			cs := condString(ef.Cond, 0)
			if containsToken(cs, pathOf(unbox(dataStore.Value), 0)) || strings.Contains(cs, ".&Data") {
				dataDep = fmt.Sprintf("%s = %v", cs, ef.Truth)
			}
		}
		r.decide(dataDep == "", "C02.flow", "MarshalDocument:errors-unconditional", p.pos(errStore.Pos()), "errors are stored whenever there are any", "the errors member is stored only under the condition "+shorten(dataDep)+": errors can be dropped")
	}
	// errors as a whole
	{
		good := false
		for _, o := range origins(unbox(errStore.Value)) {
			if ex, ok := o.(*ssa.Extract); ok {
				if c, _ := callOf(ex.Tuple); c != nil && calleeIs(c, "encoding/json", "Marshal") {
					if _, fl, ok := fieldLoad(unbox(c.Common().Args[0])); ok && fl == "Errors" {
						good = true
					}
				}
			}
		}
		r.decide(good, "C02.flow", "MarshalDocument:errors-whole", p.pos(errStore.Pos()), "errors = json.Marshal(doc.Errors)", "the errors member is not the encoding of the whole Errors list")
	}
	// the data member is the marshaled primary data for each kind
	{
		kinds := map[string]bool{}
		for _, o := range originsDeep(unbox(dataStore.Value)) {
			switch x := o.(type) {
			case *ssa.Call:
				if sc := x.Common().StaticCallee(); sc != nil {
					a0 := x.Common().Args[0]
					if ex, ok := a0.(*ssa.Extract); ok {
						if ta, ok := ex.Tuple.(*ssa.TypeAssert); ok {
							if _, fl, ok := fieldLoad(ta.X); ok && fl == "Data" {
								kinds[funcName(sc)] = true
							}
						}
					}
				}
			case *ssa.Extract:
				if c, _ := callOf(x.Tuple); c != nil && calleeIs(c, "encoding/json", "Marshal") {
					arg := unbox(c.Common().Args[0])
					kinds["json.Marshal:"+strings.TrimPrefix(fmtTypeString(arg.Type()), "jsonapi.")] = true
					// a case listing several types keeps the interface value: every
					// asserted type whose success edge reaches the call counts
					if _, fl, ok := fieldLoad(arg); ok && fl == "Data" {
						eachInstr(c.Parent(), func(i2 ssa.Instruction) {
							ta, ok := i2.(*ssa.TypeAssert)
							if !ok || !ta.CommaOk {
								return
							}
							if _, f2, ok := fieldLoad(ta.X); !ok || f2 != "Data" {
								return
							}
							if ifi, ok := ta.Block().Instrs[len(ta.Block().Instrs)-1].(*ssa.If); ok {
								if ex, ok := ifi.Cond.(*ssa.Extract); ok && ex.Tuple == ssa.Value(ta) && blockReaches(ta.Block().Succs[0], c.Block(), true) && !blockReaches(ta.Block().Succs[1], ta.Block().Succs[0], false) || ok && ex.Tuple == ssa.Value(ta) && ta.Block().Succs[0] == c.Block() {
									kinds["json.Marshal:"+strings.TrimPrefix(fmtTypeString(ta.AssertedType), "jsonapi.")] = true
								}
							}
						})
					}
				}
			case *ssa.Convert:
				if s, ok := constString(x.X); ok {
					kinds["literal:"+s] = true
				}
			}
		}
		for _, k := range []string{"MarshalResource", "MarshalCollection", "json.Marshal:Identifier", "json.Marshal:Identifiers", "literal:null"} {
			r.decide(kinds[k], "C02.flow", "MarshalDocument:data-from:"+k, p.pos(dataStore.Pos()), "the data member can come from "+k+" applied to doc.Data", "the data member no longer comes from "+k+" applied to the document's primary data")
		}
	}
}

func loopHeaderPos(cl *countedLoop) token.Pos {
	ld := &loopDesc{blocks: cl.blocks, header: cl.header}
	return loopPos(ld)
}

// mustPassInstrOrEdge: every path from the entry to target executes an
// instruction accepted by pass or takes an edge accepted by okEdge.
func mustPassInstrOrEdge(f *ssa.Function, target ssa.Instruction, pass func(ssa.Instruction) bool, okEdge func(cond ssa.Value, truth bool) bool) bool {
	type node struct{ b, pred *ssa.BasicBlock }
	seen := map[node]bool{}
	work := []node{{f.Blocks[0], nil}}
	for len(work) > 0 {
		n := work[len(work)-1]
		work = work[:len(work)-1]
		if seen[n] {
			continue
		}
		seen[n] = true
		stop := false
		for _, ins := range n.b.Instrs {
			if ins == target {
				return false
			}
			if pass(ins) {
				stop = true
				break
			}
		}
		if stop {
			continue
		}
		ifi, isIf := n.b.Instrs[len(n.b.Instrs)-1].(*ssa.If)
		for i, s := range n.b.Succs {
			if isIf && n.b.Succs[0] != n.b.Succs[1] {
				cond := ifi.Cond
				if phi, ok := cond.(*ssa.Phi); ok && phi.Block() == n.b && n.pred != nil {
					for j, pb := range n.b.Preds {
						if pb == n.pred {
							cond = phi.Edges[j]
						}
					}
				}
				if cb, isC := constBool(cond); isC && cb != (i == 0) {
					continue
				}
				if okEdge(cond, i == 0) {
					continue
				}
			}
			work = append(work, node{s, n.b})
		}
	}
	return true
}

// containsToken: tok occurs in s and is not followed by a digit (register names
// are prefixes of one another).
func containsToken(s, tok string) bool {
	for i := 0; ; {
		j := strings.Index(s[i:], tok)
		if j < 0 {
			return false
		}
		end := i + j + len(tok)
		if end >= len(s) || s[end] < '0' || s[end] > '9' {
			return true
		}
		i = end
	}
}

type tableEntry struct{ name, field string }

// tableEntries: mu stores m[x.K] = x.V where x is the current element of a
// literal table of structs whose K fields are constants and whose V fields are
// loads of fields of one struct value; the (constant, field) pairs.
func tableEntries(mu *ssa.MapUpdate) []tableEntry {
	kb, kf, ok := fieldLoad(mu.Key)
	if !ok {
		return nil
	}
	vb, vf, ok := fieldLoad(unbox(mu.Value))
	if !ok || vb != kb {
		return nil
	}
	// the element: a loop variable holding table[i], or table[i] itself
	elem := kb
	if al, isAl := elem.(*ssa.Alloc); isAl {
		var sv ssa.Value
		for _, ref := range referrers(al) {
			if st, ok := ref.(*ssa.Store); ok && st.Addr == ssa.Value(al) {
				sv = st.Val
			}
		}
		if sv == nil {
			return nil
		}
		elem = sv
	}
	if ld, isLd := elem.(*ssa.UnOp); isLd && ld.Op == token.MUL {
		elem = ld.X
	}
	var arr *ssa.Alloc
	if ix, isIdx := elem.(*ssa.Index); isIdx {
		// ranging over an array value: elem = (*arr)[i]
		if ld, ok := ix.X.(*ssa.UnOp); ok && ld.Op == token.MUL {
			arr, _ = ld.X.(*ssa.Alloc)
		}
	} else {
		ia, isIA := elem.(*ssa.IndexAddr)
		if !isIA {
			return nil
		}
		switch x := ia.X.(type) {
		case *ssa.Slice:
			arr, _ = x.X.(*ssa.Alloc)
		case *ssa.Alloc:
			arr = x
		}
	}
	if arr == nil {
		return nil
	}
	names := map[int64]string{}
	fields := map[int64]string{}
	for _, ref := range referrers(arr) {
		ea, ok := ref.(*ssa.IndexAddr)
		if !ok {
			continue
		}
		idx, ok := constInt(ea.Index)
		if !ok {
			continue
		}
		for _, r2 := range referrers(ea) {
			fa, ok := r2.(*ssa.FieldAddr)
			if !ok {
				continue
			}
			_, fname := fieldRef(fa.X, fa.Field)
			for _, r3 := range referrers(fa) {
				st, ok := r3.(*ssa.Store)
				if !ok {
					continue
				}
				if fname == kf {
					if c, ok := constString(st.Val); ok {
						names[idx] = c
					}
				}
				if fname == vf {
					if _, fl, ok := fieldLoad(st.Val); ok {
						fields[idx] = fl
					}
				}
			}
		}
	}
	var out []tableEntry
	for idx, nm := range names {
		if fl, ok := fields[idx]; ok {
			out = append(out, tableEntry{nm, fl})
		}
	}
	sort.Slice(out, func(i, j int) bool { return out[i].name < out[j].name })
	return out
}

// A dataBranch is one way UnmarshalDocument gives Data a value: a store in
// the function itself, or a value return of the small helper whose first
// result is stored (the helper then does the dispatch on its parameter).
type dataBranch struct {
	kind      string
	val       ssa.Value
	blk       *ssa.BasicBlock
	fn        *ssa.Function
	pos       token.Pos
	dataParam ssa.Value // in a helper: the parameter that receives ske.Data
}

func (b dataBranch) isData(v ssa.Value) bool {
	v = unbox(v)
	if b.dataParam != nil {
		return v == b.dataParam
	}
	_, fl, ok := fieldLoad(v)
	return ok && fl == "Data"
}

func c02DataBranches(p *Prog, ud *ssa.Function) []dataBranch {
	kindOf := func(v ssa.Value) string {
		switch x := v.(type) {
		case *ssa.Const:
			if x.Value == nil {
				return "nil"
			}
		case *ssa.ChangeInterface:
			return strings.TrimPrefix(fmtTypeString(x.X.Type()), "jsonapi.")
		case *ssa.MakeInterface:
			return strings.TrimPrefix(fmtTypeString(x.X.Type()), "jsonapi.")
		}
		return "?"
	}
	var out []dataBranch
	eachInstr(ud, func(ins ssa.Instruction) {
		st, ok := ins.(*ssa.Store)
		if !ok {
			return
		}
		fa, ok := st.Addr.(*ssa.FieldAddr)
		if !ok {
			return
		}
		if _, fl := fieldRef(fa.X, fa.Field); fl != "Data" || !strings.HasSuffix(typeStr(deref(fa.X.Type())), "Document") {
			return
		}
		if ex, isEx := st.Val.(*ssa.Extract); isEx && ex.Index == 0 {
			if hc, isCall := ex.Tuple.(*ssa.Call); isCall {
				if g := hc.Common().StaticCallee(); g != nil && p.inTarget(g) && g.Blocks != nil && smallHelper(g) {
					pi := -1
					for i, a := range hc.Common().Args {
						if _, fl, ok := fieldLoad(unbox(a)); ok && fl == "Data" && i < len(g.Params) {
							pi = i
						}
					}
					if pi >= 0 {
						for _, blk := range g.Blocks {
							ret, ok := blk.Instrs[len(blk.Instrs)-1].(*ssa.Return)
							if !ok || len(ret.Results) != 2 {
								continue
							}
							// error returns give Data no value the caller keeps
							if !isNilConst(ret.Results[1]) {
								if e1, ok := ret.Results[1].(*ssa.Extract); !ok || e1.Index != 1 {
									continue
								}
							}
							out = append(out, dataBranch{kindOf(ret.Results[0]), ret.Results[0], blk, g, ret.Pos(), g.Params[pi]})
						}
						return
					}
				}
			}
		}
		out = append(out, dataBranch{kindOf(st.Val), st.Val, st.Block(), ud, st.Pos(), nil})
	})
	return out
}

// c02IsNullEdge: the branch outcome says that the data member is the literal null.
func c02IsNullEdge(cond ssa.Value, truth bool) bool {
	bo, ok := cond.(*ssa.BinOp)
	if !ok || (bo.Op != token.EQL && bo.Op != token.NEQ) {
		return false
	}
	for _, pr := range [][2]ssa.Value{{bo.X, bo.Y}, {bo.Y, bo.X}} {
		s, isC := constString(pr[1])
		if !isC || s != "null" {
			continue
		}
		cv, isCv := pr[0].(*ssa.Convert)
		if !isCv {
			continue
		}
		if _, fl, ok := fieldLoad(unbox(cv.X)); ok && fl == "Data" {
			return (bo.Op == token.EQL) == truth
		}
	}
	return false
}

func c02HasNullEdge(ud *ssa.Function) bool {
	found := false
	eachInstr(ud, func(ins ssa.Instruction) {
		if ifi, ok := ins.(*ssa.If); ok && (c02IsNullEdge(ifi.Cond, true) || c02IsNullEdge(ifi.Cond, false)) {
			found = true
		}
	})
	return found
}
