package main

// thorough is filled in later (second configuration + calibration).
func thorough(id string, f checkFunc, p *Prog, r *Report, repo, verif string, extra map[string]any, noCal bool) {
}
