package main

import (
	"encoding/json"
	"fmt"
	"io"
	"os"
	"os/exec"
	"path/filepath"
	"sort"
	"strings"
	"sync"
)

// deep is set in the thorough tier: scenario evaluations use larger bounds
// (longer relationship sequences, more loop iterations per path).
var deep bool

// thorough adds to a finished quick analysis:
//  1. a second configuration: the same check on the program type-checked and
//     built for GOARCH=386 (32-bit int/uint, build-tagged files); obligations
//     violated only there are reported with the suffix @386;
//  2. calibration of the checker itself: every seeded variant kept under
//     <verif>/seeded for this property is applied to a scratch copy of the
//     current tree and the quick check must report a violation there. A miss is
//     a checker error (exit 2, no VIOLATION line): the property verdict for the
//     current tree is not affected, but the check is no longer known to be able
//     to see that breakage. Variants whose patch no longer applies are skipped
//     and listed.
func thorough(id string, f checkFunc, p *Prog, r *Report, repo, verif string, extra map[string]any, noCal bool) {
	// --- second configuration
	p2, err := loadProg(repo, "386")
	if err != nil {
		r.fail("GOARCH=386 configuration: %v", err)
	} else {
		r2 := newReport(id, "thorough")
		func() {
			defer func() {
				if e := recover(); e != nil {
					r.fail("GOARCH=386 configuration: checker panic: %v", e)
				}
			}()
			f(p2, r2)
		}()
		violatedHost := map[string]bool{}
		for _, o := range r.obs {
			if o.Status == "violated" {
				violatedHost[o.Key] = true
			}
		}
		n386, bad386 := 0, 0
		for _, o := range r2.obs {
			n386++
			if o.Status == "violated" && !violatedHost[o.Key] {
				bad386++
				o.Key += "@386"
				o.Detail = "under GOARCH=386: " + o.Detail
				r.obs = append(r.obs, o)
			}
		}
		for _, b := range r2.broken {
			r.fail("GOARCH=386 configuration: %s", b)
		}
		extra["second_configuration"] = map[string]any{"goarch": "386", "obligations": n386, "violated_only_there": bad386}
	}

	// --- calibration
	if noCal {
		return
	}
	seedDir := filepath.Join(verif, "seeded")
	entries, _ := os.ReadDir(seedDir)
	type variant struct{ name, patch string }
	var vs []variant
	for _, e := range entries {
		if !e.IsDir() {
			continue
		}
		b, err := os.ReadFile(filepath.Join(seedDir, e.Name(), "meta.json"))
		if err != nil {
			continue
		}
		var m struct {
			Property string `json:"property"`
		}
		if json.Unmarshal(b, &m) != nil || m.Property != id {
			continue
		}
		vs = append(vs, variant{e.Name(), filepath.Join(seedDir, e.Name(), "patch.diff")})
	}
	sort.Slice(vs, func(i, j int) bool { return vs[i].name < vs[j].name })
	exe, err := os.Executable()
	if err != nil {
		r.fail("calibration: cannot locate the checker executable: %v", err)
		return
	}
	type result struct {
		name, outcome string
	}
	results := make([]result, len(vs))
	var wg sync.WaitGroup
	sem := make(chan struct{}, 4)
	for i, v := range vs {
		wg.Add(1)
		go func(i int, v variant) {
			defer wg.Done()
			sem <- struct{}{}
			defer func() { <-sem }()
			results[i] = result{v.name, calibrateOne(exe, id, repo, verif, v.patch)}
		}(i, v)
	}
	wg.Wait()
	cal := map[string]string{}
	detected, skipped := 0, 0
	for _, res := range results {
		cal[res.name] = res.outcome
		switch {
		case res.outcome == "detected":
			detected++
		case strings.HasPrefix(res.outcome, "skipped"):
			skipped++
		default:
			r.fail("calibration: the seeded variant %s is not reported by the check (%s)", res.name, res.outcome)
		}
	}
	extra["calibration"] = map[string]any{"variants": len(vs), "detected": detected, "skipped": skipped, "outcomes": cal}
	r.count("calibration_variants_detected", detected)

	// --- the other direction: behaviour-preserving refactorings must stay silent.
	// Only meaningful when the current tree itself is clean for this property.
	known := map[string]bool{}
	if kf, err := loadKnown(filepath.Join(verif, "known_findings.json")); err == nil {
		for _, k := range kf.Findings {
			if k.Property == id && k.Status == "known" {
				known[k.Key] = true
			}
		}
	}
	for _, o := range r.obs {
		if o.Status == "violated" && !known[o.Key] {
			extra["silence_calibration"] = "skipped: the current tree has violations of its own"
			return
		}
	}
	bpDir := filepath.Join(verif, "tools", "bp_variants")
	bps, _ := filepath.Glob(filepath.Join(bpDir, "*.diff"))
	sort.Strings(bps)
	res2 := make([]string, len(bps))
	var wg2 sync.WaitGroup
	sem2 := make(chan struct{}, 8)
	for i, bp := range bps {
		wg2.Add(1)
		go func(i int, bp string) {
			defer wg2.Done()
			sem2 <- struct{}{}
			defer func() { <-sem2 }()
			out := calibrateOne(exe, id, repo, verif, bp)
			switch {
			case out == "detected":
				res2[i] = "ALARM"
			case strings.HasPrefix(out, "MISSED (exit 0)"):
				res2[i] = "silent"
			case strings.HasPrefix(out, "skipped"):
				res2[i] = out
			default:
				res2[i] = "checker error: " + out
			}
		}(i, bp)
	}
	wg2.Wait()
	silent, alarms, skipped2 := 0, 0, 0
	bad := map[string]string{}
	for i, bp := range bps {
		switch {
		case res2[i] == "silent":
			silent++
		case strings.HasPrefix(res2[i], "skipped"):
			skipped2++
		default:
			alarms++
			bad[filepath.Base(bp)] = res2[i]
			r.fail("calibration: the behaviour-preserving variant %s is not silent (%s)", filepath.Base(bp), res2[i])
		}
	}
	extra["silence_calibration"] = map[string]any{"variants": len(bps), "silent": silent, "skipped": skipped2, "not_silent": bad}
	r.count("calibration_refactorings_silent", silent)
}

func calibrateOne(exe, id, repo, verif, patch string) string {
	dir, err := os.MkdirTemp("", "verifcal-")
	if err != nil {
		return "skipped: " + err.Error()
	}
	defer os.RemoveAll(dir)
	dst := filepath.Join(dir, "repo")
	if err := copyTree(repo, dst); err != nil {
		return "skipped: copy failed: " + err.Error()
	}
	vdir := filepath.Join(dir, "verif")
	_ = os.MkdirAll(vdir, 0o755)
	if b, err := os.ReadFile(filepath.Join(verif, "known_findings.json")); err == nil {
		_ = os.WriteFile(filepath.Join(vdir, "known_findings.json"), b, 0o644)
	}
	cmd := exec.Command("patch", "-p1", "-s", "-f", "-i", patch)
	cmd.Dir = dst
	if out, err := cmd.CombinedOutput(); err != nil {
		return "skipped: the patch does not apply to the current tree (" + strings.TrimSpace(firstLine(string(out))) + ")"
	}
	c2 := exec.Command(exe, "-prop", id, "-tier", "quick", "-repo", dst, "-verif", vdir)
	c2.Env = os.Environ()
	out, err := c2.CombinedOutput()
	code := 0
	if ee, ok := err.(*exec.ExitError); ok {
		code = ee.ExitCode()
	} else if err != nil {
		return "skipped: " + err.Error()
	}
	if code == 1 && strings.Contains(string(out), "VIOLATION property="+id) {
		return "detected"
	}
	if code == 2 && strings.Contains(string(out), "load:") {
		return "skipped: the patched tree does not type-check"
	}
	return fmt.Sprintf("MISSED (exit %d)", code)
}

func firstLine(s string) string {
	if i := strings.IndexByte(s, '\n'); i >= 0 {
		return s[:i]
	}
	return s
}

func copyTree(src, dst string) error {
	return filepath.Walk(src, func(path string, info os.FileInfo, err error) error {
		if err != nil {
			return err
		}
		rel, _ := filepath.Rel(src, path)
		if info.IsDir() {
			if info.Name() == ".git" {
				return filepath.SkipDir
			}
			return os.MkdirAll(filepath.Join(dst, rel), 0o755)
		}
		if !info.Mode().IsRegular() {
			return nil
		}
		in, err := os.Open(path)
		if err != nil {
			return err
		}
		defer in.Close()
		out, err := os.Create(filepath.Join(dst, rel))
		if err != nil {
			return err
		}
		defer out.Close()
		_, err = io.Copy(out, in)
		return err
	})
}
