package main

// Difference-bound prover for index / slice / make bounds (R3).
//
// Integer SSA values are normalised to atom+constant; the length of a slice or
// string value is an atom of its own ("len:<class>"), where two values are in
// the same class when they are the same SSA value, a value-preserving
// conversion of it, or two loads of the same address with no possible write to
// that address in between. Facts are difference constraints x - y <= c taken
// from (a) definitions (s = x[a:b], make, append, Split, concatenation,
// len-getter calls), (b) branch outcomes that hold on every path into the block
// of the site, (c) induction (a loop counter that only grows from its initial
// value), (d) loop-header invariants of the form i < len(s) that are checked
// to be inductive. A goal is proved by a shortest-path query.

import (
	"fmt"
	"go/constant"
	"go/token"
	"go/types"
	"math"
	"os"
	"strings"

	"golang.org/x/tools/go/ssa"
)

type constraint struct {
	a, b string // a - b <= c   (neq: a - b != c)
	c    int64
	neq  bool
	deps []ssa.Value // SSA values whose definitions must dominate the use site
	why  string
}

type boundsFn struct {
	p      *Prog
	fn     *ssa.Function
	fw     *fieldWrites
	parent map[ssa.Value]ssa.Value // union-find over slice/string values
	base   []constraint            // definitional facts
	inv    []constraint            // verified loop invariants
	notes  []string
}

// ---------------------------------------------------------------------------
// which functions may write which struct fields (field-based, for load equality)

type fieldWrites struct {
	p      *Prog
	direct map[*ssa.Function]map[string]bool
	trans  map[*ssa.Function]map[string]bool
	// map types (by type string) a function may update, transitively
	mapTypes map[*ssa.Function]map[string]bool
	// element pointer types (by type string) a function may store through, transitively
	elemTypes map[*ssa.Function]map[string]bool
}

func newFieldWrites(p *Prog) *fieldWrites {
	fw := &fieldWrites{p: p, direct: map[*ssa.Function]map[string]bool{}, trans: map[*ssa.Function]map[string]bool{}, mapTypes: map[*ssa.Function]map[string]bool{}, elemTypes: map[*ssa.Function]map[string]bool{}}
	for _, f := range p.Funcs {
		d := map[string]bool{}
		fw.mapTypes[f] = map[string]bool{}
		fw.elemTypes[f] = map[string]bool{}
		eachInstr(f, func(ins ssa.Instruction) {
			switch x := ins.(type) {
			case *ssa.MapUpdate:
				fw.mapTypes[f][typeStr(x.Map.Type())] = true
			case *ssa.Store:
				for _, k := range storeFieldKeys(x.Addr) {
					d[k] = true
				}
				if ia, ok := x.Addr.(*ssa.IndexAddr); ok {
					fw.elemTypes[f][typeStr(ia.Type())] = true
				}
			case ssa.CallInstruction:
				if b, ok := x.Common().Value.(*ssa.Builtin); ok && (b.Name() == "delete" || b.Name() == "clear") {
					fw.mapTypes[f][typeStr(x.Common().Args[0].Type())] = true
				}
				if b, ok := x.Common().Value.(*ssa.Builtin); ok && (b.Name() == "copy" || b.Name() == "append") {
					if sl, ok := x.Common().Args[0].Type().Underlying().(*types.Slice); ok {
						fw.elemTypes[f][typeStr(types.NewPointer(sl.Elem()))] = true
					}
				}
				for _, g := range p.cg.Externals(x) {
					if _, ok := inPlaceSorters[fullName(g)]; ok && len(x.Common().Args) > 0 {
						a := x.Common().Args[0]
						if mi, ok := a.(*ssa.MakeInterface); ok {
							a = mi.X
						}
						if sl, ok := a.Type().Underlying().(*types.Slice); ok {
							fw.elemTypes[f][typeStr(types.NewPointer(sl.Elem()))] = true
						}
					}
					if n := fullName(g); n == "encoding/json.Unmarshal" || (strings.HasPrefix(n, "reflect.(Value).Set")) {
						fw.elemTypes[f]["*"] = true
					}
				}
				for _, g := range p.cg.Externals(x) {
					n := fullName(g)
					if n == "encoding/json.Unmarshal" && len(x.Common().Args) >= 2 {
						for _, k := range allFieldKeys(x.Common().Args[1]) {
							d[k] = true
						}
					}
				}
			}
		})
		fw.direct[f] = d
	}
	// transitive closure
	for _, f := range p.Funcs {
		fw.trans[f] = map[string]bool{}
		for k := range fw.direct[f] {
			fw.trans[f][k] = true
		}
	}
	for changed := true; changed; {
		changed = false
		for _, f := range p.Funcs {
			for _, g := range p.cg.out[f] {
				for k := range fw.trans[g] {
					if !fw.trans[f][k] {
						fw.trans[f][k] = true
						changed = true
					}
				}
				for k := range fw.mapTypes[g] {
					if !fw.mapTypes[f][k] {
						fw.mapTypes[f][k] = true
						changed = true
					}
				}
				for k := range fw.elemTypes[g] {
					if !fw.elemTypes[f][k] {
						fw.elemTypes[f][k] = true
						changed = true
					}
				}
			}
		}
	}
	return fw
}

func structName(t types.Type) string {
	t = deref(t)
	if nt, ok := t.(*types.Named); ok {
		return nt.Obj().Name()
	}
	return typeStr(t)
}

// storeFieldKeys: which "T.f" keys a store to addr writes. A store of a whole
// struct writes all its fields ("T.*").
func storeFieldKeys(addr ssa.Value) []string {
	switch a := addr.(type) {
	case *ssa.FieldAddr:
		o, f := fieldRef(a.X, a.Field)
		return []string{o + "." + f}
	}
	if pt, ok := addr.Type().Underlying().(*types.Pointer); ok {
		if _, ok := pt.Elem().Underlying().(*types.Struct); ok {
			return []string{structName(pt.Elem()) + ".*"}
		}
	}
	return nil
}

func allFieldKeys(v ssa.Value) []string {
	t := v.Type()
	if mi, ok := v.(*ssa.MakeInterface); ok {
		t = mi.X.Type()
	}
	var out []string
	seen := map[types.Type]bool{}
	var walk func(t types.Type)
	walk = func(t types.Type) {
		if seen[t] {
			return
		}
		seen[t] = true
		switch u := t.Underlying().(type) {
		case *types.Pointer:
			walk(u.Elem())
		case *types.Slice:
			walk(u.Elem())
		case *types.Map:
			walk(u.Elem())
		case *types.Struct:
			out = append(out, structName(t)+".*")
			for i := 0; i < u.NumFields(); i++ {
				walk(u.Field(i).Type())
			}
		}
	}
	walk(t)
	return out
}

func (fw *fieldWrites) callWrites(c ssa.CallInstruction, key string) bool {
	owner := key[:strings.Index(key, ".")]
	for _, g := range fw.p.cg.Callees(c) {
		if fw.trans[g][key] || fw.trans[g][owner+".*"] {
			return true
		}
	}
	for _, g := range fw.p.cg.Externals(c) {
		if fullName(g) == "encoding/json.Unmarshal" && len(c.Common().Args) >= 2 {
			for _, k := range allFieldKeys(c.Common().Args[1]) {
				if k == owner+".*" {
					return true
				}
			}
		}
	}
	if fw.unresolved(c) {
		return true
	}
	return false
}

// unresolved: a call with no known callee that could run target-package code
// (a dynamic call of a func value, or an interface method of a target-package
// interface without implementation). Methods of foreign interfaces
// (reflect.Type, error, io.Reader) cannot store into the library's own structs.
func (fw *fieldWrites) unresolved(c ssa.CallInstruction) bool {
	if len(fw.p.cg.Callees(c)) != 0 || len(fw.p.cg.Externals(c)) != 0 {
		return false
	}
	if _, isBuiltin := c.Common().Value.(*ssa.Builtin); isBuiltin {
		return false
	}
	if c.Common().IsInvoke() {
		if nt, ok := c.Common().Value.Type().(*types.Named); ok && nt.Obj().Pkg() != nil && nt.Obj().Pkg().Path() != targetPkgPath {
			return false
		}
		if _, ok := c.Common().Value.Type().(*types.Named); !ok {
			// unnamed interface (error is a named type in universe with nil Pkg)
			return false
		}
		if nt, ok := c.Common().Value.Type().(*types.Named); ok && nt.Obj().Pkg() == nil {
			return false
		}
	}
	return true
}

// mayWriteAddr: can instruction ins change what a load of addr yields?
func (fw *fieldWrites) mayWriteAddr(ins ssa.Instruction, addr ssa.Value) bool {
	switch a := addr.(type) {
	case *ssa.FieldAddr:
		o, f := fieldRef(a.X, a.Field)
		key := o + "." + f
		switch x := ins.(type) {
		case *ssa.Store:
			for _, k := range storeFieldKeys(x.Addr) {
				if k == key || k == o+".*" {
					return true
				}
			}
			return false
		case ssa.CallInstruction:
			return fw.callWrites(x, key)
		}
		return false
	case *ssa.Alloc:
		switch x := ins.(type) {
		case *ssa.Store:
			return x.Addr == ssa.Value(a)
		case ssa.CallInstruction:
			// the call may write the variable only if it can reach its address
			for _, arg := range x.Common().Args {
				if arg == ssa.Value(a) {
					return true
				}
				if mc, ok := arg.(*ssa.MakeClosure); ok {
					for _, b := range mc.Bindings {
						if b == ssa.Value(a) {
							if closureStoresFreeVar(mc, a) {
								return true
							}
						}
					}
				}
				if mi, ok := arg.(*ssa.MakeInterface); ok && mi.X == ssa.Value(a) {
					return true
				}
			}
			return false
		}
		return false
	case *ssa.IndexAddr:
		switch x := ins.(type) {
		case *ssa.Store:
			if ia, ok := x.Addr.(*ssa.IndexAddr); ok {
				return types.Identical(ia.Type(), a.Type())
			}
			return false
		case ssa.CallInstruction:
			if _, isBuiltin := x.Common().Value.(*ssa.Builtin); isBuiltin {
				n := x.Common().Value.(*ssa.Builtin).Name()
				return n == "copy" || n == "append"
			}
			key := typeStr(a.Type())
			for _, g := range fw.p.cg.Callees(x) {
				if fw.elemTypes[g][key] || fw.elemTypes[g]["*"] {
					return true
				}
			}
			for _, g := range fw.p.cg.Externals(x) {
				n := fullName(g)
				if _, ok := inPlaceSorters[n]; ok {
					return true
				}
				if n == "encoding/json.Unmarshal" || strings.HasPrefix(n, "reflect.(Value).Set") {
					return true
				}
			}
			return fw.unresolved(x)
		}
		return false
	case *ssa.FreeVar, *ssa.Parameter, *ssa.Global:
		switch x := ins.(type) {
		case *ssa.Store:
			return x.Addr == addr
		case ssa.CallInstruction:
			_ = x
			return true
		}
		return false
	}
	// unknown address shape: any store or call may write it
	switch ins.(type) {
	case *ssa.Store, ssa.CallInstruction:
		return true
	}
	return false
}

func closureStoresFreeVar(mc *ssa.MakeClosure, a *ssa.Alloc) bool {
	fn := mc.Fn.(*ssa.Function)
	for k, b := range mc.Bindings {
		if b != ssa.Value(a) {
			continue
		}
		fv := fn.FreeVars[k]
		for _, ref := range referrers(fv) {
			if s, ok := ref.(*ssa.Store); ok && s.Addr == ssa.Value(fv) {
				return true
			}
			if _, ok := ref.(ssa.CallInstruction); ok {
				return true
			}
		}
	}
	return false
}

// sameAddr: two address expressions denote the same location.
func sameAddr(a, b ssa.Value) bool {
	if a == b {
		return true
	}
	switch x := a.(type) {
	case *ssa.FieldAddr:
		y, ok := b.(*ssa.FieldAddr)
		return ok && x.Field == y.Field && sameBase(x.X, y.X)
	case *ssa.IndexAddr:
		y, ok := b.(*ssa.IndexAddr)
		return ok && x.Index == y.Index && x.X == y.X
	}
	return false
}

func sameBase(a, b ssa.Value) bool {
	if a == b {
		return true
	}
	// two loads of a variable that is assigned exactly once (a parameter
	// spilled because a closure captures it)
	if la, ok := a.(*ssa.UnOp); ok && la.Op == token.MUL {
		if lb, ok := b.(*ssa.UnOp); ok && lb.Op == token.MUL && la.X == lb.X {
			if al, ok := la.X.(*ssa.Alloc); ok && singleAssignment(al) {
				return true
			}
			if fv, ok := la.X.(*ssa.FreeVar); ok && freeVarNeverStored(fv) {
				return true
			}
		}
	}
	// two loads of the same pointer-typed location (validity across writes is
	// the caller's business: see chainAddrs)
	if la, ok := a.(*ssa.UnOp); ok && la.Op == token.MUL {
		if lb, ok := b.(*ssa.UnOp); ok && lb.Op == token.MUL {
			if _, isFA := la.X.(*ssa.FieldAddr); isFA && sameAddr(la.X, lb.X) {
				return true
			}
		}
	}
	// field of field
	if fa, ok := a.(*ssa.FieldAddr); ok {
		if fb, ok := b.(*ssa.FieldAddr); ok {
			return fa.Field == fb.Field && sameBase(fa.X, fb.X)
		}
	}
	return false
}

// writeBetween reports whether some instruction that may write addr lies on a
// path from `from` to `to` that does not re-execute `from`.
func (bf *boundsFn) writeBetween(from, to ssa.Instruction, addr ssa.Value) bool {
	found := false
	eachInstr(bf.fn, func(ins ssa.Instruction) {
		if found || ins == from || ins == to {
			return
		}
		if !bf.fw.mayWriteAddr(ins, addr) {
			return
		}
		if reachableAvoiding(from, ins, from) && reachableAvoiding(ins, to, from) {
			found = true
			if os.Getenv("BOUNDSDEBUG") != "" {
				fmt.Fprintf(os.Stderr, "writeBetween %s: %s .. %s killed by %s (%s)\n", funcName(bf.fn), from, to, ins, bf.p.pos(ins.Pos()))
			}
		}
	})
	return found
}

// ---------------------------------------------------------------------------
// classes of slice/string values

func (bf *boundsFn) find(v ssa.Value) ssa.Value {
	for {
		p, ok := bf.parent[v]
		if !ok || p == v {
			return v
		}
		v = p
	}
}

func (bf *boundsFn) union(a, b ssa.Value) {
	ra, rb := bf.find(a), bf.find(b)
	if ra != rb {
		bf.parent[rb] = ra
	}
}

func isSliceOrString(t types.Type) bool {
	switch u := t.Underlying().(type) {
	case *types.Slice:
		return true
	case *types.Basic:
		return u.Info()&types.IsString != 0
	}
	return false
}

// sameAddrC is sameAddr modulo the value classes built so far (two index
// addresses into slices of the same class with the same index value).
func (bf *boundsFn) sameAddrC(a, b ssa.Value) bool {
	if sameAddr(a, b) {
		return true
	}
	if x, ok := a.(*ssa.IndexAddr); ok {
		if y, ok := b.(*ssa.IndexAddr); ok {
			return x.Index == y.Index && bf.find(x.X) == bf.find(y.X)
		}
	}
	return false
}

func before(a, b ssa.Instruction) bool {
	return a.Block().Dominates(b.Block()) && (a.Block() != b.Block() || instrPos(a).i < instrPos(b).i)
}

func (bf *boundsFn) buildClasses() {
	var loads []*ssa.UnOp
	var stores []*ssa.Store
	var lookups []*ssa.Lookup
	eachInstr(bf.fn, func(ins ssa.Instruction) {
		switch x := ins.(type) {
		case *ssa.ChangeType:
			if isSliceOrString(x.Type()) && isSliceOrString(x.X.Type()) {
				bf.union(x.X, x)
			}
		case *ssa.UnOp:
			if x.Op == token.MUL && isSliceOrString(x.Type()) {
				loads = append(loads, x)
			}
		case *ssa.Store:
			if isSliceOrString(x.Val.Type()) {
				stores = append(stores, x)
			}
		case *ssa.Lookup:
			if _, isMap := x.X.Type().Underlying().(*types.Map); isMap && !x.CommaOk && isSliceOrString(x.Type()) {
				lookups = append(lookups, x)
			}
		}
	})
	for round := 0; round < 4; round++ {
		changed := false
		for i := 0; i < len(loads); i++ {
			for j := 0; j < len(loads); j++ {
				if i == j {
					continue
				}
				a, b := loads[i], loads[j]
				if bf.find(a) == bf.find(b) || !bf.sameAddrC(a.X, b.X) {
					continue
				}
				// a executes before b on every path to b, and nothing writes in between
				if !before(a, b) || bf.writeBetween(a, b, a.X) {
					continue
				}
				bf.union(a, b)
				changed = true
			}
		}
		// a load that is dominated by a store to the same location, with no
		// other write in between, yields the stored value
		for _, st := range stores {
			for _, ld := range loads {
				if bf.find(ld) == bf.find(st.Val) || !bf.sameAddrC(st.Addr, ld.X) {
					continue
				}
				if !before(st, ld) || bf.writeBetween(st, ld, ld.X) {
					continue
				}
				bf.union(st.Val, ld)
				changed = true
			}
		}
		// two lookups m[k] of the same map and key with no update of such a map in between
		for i := 0; i < len(lookups); i++ {
			for j := 0; j < len(lookups); j++ {
				a, b := lookups[i], lookups[j]
				if i == j || bf.find(a) == bf.find(b) || a.Index != b.Index {
					continue
				}
				if !(a.X == b.X || bf.sameMapValue(a.X, b.X)) {
					continue
				}
				if !before(a, b) || bf.mapWriteBetween(a, b, a.X.Type()) {
					continue
				}
				bf.union(a, b)
				changed = true
			}
		}
		if !changed {
			break
		}
	}
}

// sameMapValue: two loads of the same map-typed location with no store to it in between.
func (bf *boundsFn) sameMapValue(a, b ssa.Value) bool {
	la, ok1 := a.(*ssa.UnOp)
	lb, ok2 := b.(*ssa.UnOp)
	if !ok1 || !ok2 || la.Op != token.MUL || lb.Op != token.MUL || !sameAddr(la.X, lb.X) {
		return false
	}
	if before(la, lb) {
		return !bf.writeBetween(la, lb, la.X)
	}
	if before(lb, la) {
		return !bf.writeBetween(lb, la, lb.X)
	}
	return false
}

// mapWriteBetween: some MapUpdate/delete on a map of type mt (or a call that
// may perform one) lies between from and to.
func (bf *boundsFn) mapWriteBetween(from, to ssa.Instruction, mt types.Type) bool {
	found := false
	eachInstr(bf.fn, func(ins ssa.Instruction) {
		if found || ins == from || ins == to {
			return
		}
		w := false
		switch x := ins.(type) {
		case *ssa.MapUpdate:
			w = types.Identical(x.Map.Type(), mt)
		case ssa.CallInstruction:
			if b, ok := x.Common().Value.(*ssa.Builtin); ok {
				w = (b.Name() == "delete" || b.Name() == "clear") && types.Identical(x.Common().Args[0].Type(), mt)
			} else {
				for _, g := range bf.p.cg.Callees(x) {
					if bf.fw.mapTypes[g][typeStr(mt)] {
						w = true
					}
				}
				for _, g := range bf.p.cg.Externals(x) {
					if n := fullName(g); n == "encoding/json.Unmarshal" || strings.HasPrefix(n, "reflect.") {
						w = true
					}
				}
			}
		}
		if w && reachableAvoiding(from, ins, from) && reachableAvoiding(ins, to, from) {
			found = true
		}
	})
	return found
}

// ---------------------------------------------------------------------------
// atoms

func (bf *boundsFn) lenAtom(x ssa.Value) (string, int64) {
	if s, ok := constString(x); ok {
		return "0", int64(len(s))
	}
	return "len:" + bf.find(x).Name(), 0
}

// atom normalises an integer value to (atom, offset).
func (bf *boundsFn) atom(v ssa.Value) (string, int64) {
	if c, ok := constInt(v); ok {
		return "0", c
	}
	switch x := v.(type) {
	case *ssa.BinOp:
		switch x.Op {
		case token.ADD:
			if c, ok := constInt(x.Y); ok {
				a, o := bf.atom(x.X)
				return a, o + c
			}
			if c, ok := constInt(x.X); ok {
				a, o := bf.atom(x.Y)
				return a, o + c
			}
		case token.SUB:
			if c, ok := constInt(x.Y); ok {
				a, o := bf.atom(x.X)
				return a, o - c
			}
		}
	case *ssa.Call:
		if b, ok := x.Call.Value.(*ssa.Builtin); ok && b.Name() == "len" && isSliceOrString(x.Call.Args[0].Type()) {
			return bf.lenAtom(x.Call.Args[0])
		}
		if lv := bf.lenGetter(x); lv != nil {
			return bf.lenAtom(lv)
		}
	case *ssa.Convert:
		// int <-> int conversions of the same width keep small values; treat as opaque
	}
	return "v:" + v.Name(), 0
}

// lenGetter: the call returns len(<field of the receiver>) — e.g.
// (sortedResources).Len, (*Resources).Len. It returns a value in the caller
// that denotes the same slice, or nil.
func (bf *boundsFn) lenGetter(c *ssa.Call) ssa.Value {
	g := c.Call.StaticCallee()
	if g == nil || !bf.p.inTarget(g) || len(g.Blocks) != 1 || len(g.Params) != 1 || len(c.Call.Args) != 1 {
		return nil
	}
	var ret *ssa.Return
	for _, ins := range g.Blocks[0].Instrs {
		if r, ok := ins.(*ssa.Return); ok {
			ret = r
		}
	}
	if ret == nil || len(ret.Results) != 1 {
		return nil
	}
	lc, ok := ret.Results[0].(*ssa.Call)
	if !ok {
		return nil
	}
	if b, ok := lc.Call.Value.(*ssa.Builtin); !ok || b.Name() != "len" {
		return nil
	}
	inner := lc.Call.Args[0]
	arg := c.Call.Args[0]
	if field, ok := paramField(inner, g); ok {
		if _, isPtr := g.Params[0].Type().Underlying().(*types.Pointer); isPtr {
			return bf.findFieldLoad(arg, field, c)
		}
		// struct-valued receiver loaded from an address in the caller
		if ld, ok := arg.(*ssa.UnOp); ok && ld.Op == token.MUL {
			return bf.findFieldLoad(ld.X, field, c)
		}
		return nil
	}
	// len(*recv) where recv is *[]T
	if ld, ok := inner.(*ssa.UnOp); ok && ld.Op == token.MUL && ld.X == ssa.Value(g.Params[0]) {
		return bf.findDirectLoad(arg, c)
	}
	return nil
}

// findFieldLoad returns a load of base.field in the caller whose value equals
// the field's value at the time of call c (no write between), preferring one
// that executes after c.
func (bf *boundsFn) findFieldLoad(base ssa.Value, field int, c *ssa.Call) ssa.Value {
	var best ssa.Value
	eachInstr(bf.fn, func(ins ssa.Instruction) {
		ld, ok := ins.(*ssa.UnOp)
		if !ok || ld.Op != token.MUL || best != nil {
			return
		}
		fa, ok := ld.X.(*ssa.FieldAddr)
		if !ok || fa.Field != field || !sameBase(fa.X, base) {
			return
		}
		// c dominates ld, no write between
		if c.Block().Dominates(ld.Block()) && (c.Block() != ld.Block() || instrPos(c).i < instrPos(ld).i) && !bf.writeBetween(c, ld, fa) {
			best = ld
			return
		}
		if ld.Block().Dominates(c.Block()) && (c.Block() != ld.Block() || instrPos(ld).i < instrPos(c).i) && !bf.writeBetween(ld, c, fa) {
			best = ld
		}
	})
	return best
}

func (bf *boundsFn) findDirectLoad(ptr ssa.Value, c *ssa.Call) ssa.Value {
	var best ssa.Value
	eachInstr(bf.fn, func(ins ssa.Instruction) {
		ld, ok := ins.(*ssa.UnOp)
		if !ok || ld.Op != token.MUL || best != nil || ld.X != ptr {
			return
		}
		if c.Block().Dominates(ld.Block()) && !bf.writeBetween(c, ld, ptr) {
			best = ld
		} else if ld.Block().Dominates(c.Block()) && !bf.writeBetween(ld, c, ptr) {
			best = ld
		}
	})
	return best
}

// ---------------------------------------------------------------------------
// facts

func (bf *boundsFn) addBase(a string, ao int64, b string, bo int64, c int64, why string, deps ...ssa.Value) {
	// (a+ao) - (b+bo) <= c
	bf.base = append(bf.base, constraint{a: a, b: b, c: c - ao + bo, deps: deps, why: why})
}

func (bf *boundsFn) addEq(a string, ao int64, b string, bo int64, why string, deps ...ssa.Value) {
	bf.addBase(a, ao, b, bo, 0, why, deps...)
	bf.addBase(b, bo, a, ao, 0, why, deps...)
}

func (bf *boundsFn) buildBase() {
	eachInstr(bf.fn, func(ins ssa.Instruction) {
		switch x := ins.(type) {
		case *ssa.Slice:
			if !isSliceOrString(x.Type()) {
				return
			}
			la, lo := bf.lenAtom(x)
			var loA string = "0"
			var loO int64
			if x.Low != nil {
				loA, loO = bf.atom(x.Low)
			}
			var hiA string
			var hiO int64
			if x.High != nil {
				hiA, hiO = bf.atom(x.High)
			} else if isSliceOrString(x.X.Type()) {
				hiA, hiO = bf.lenAtom(x.X)
			} else if pt, ok := x.X.Type().Underlying().(*types.Pointer); ok {
				if at, ok := pt.Elem().Underlying().(*types.Array); ok {
					hiA, hiO = "0", at.Len()
				}
			}
			if hiA == "" {
				return
			}
			// len(x) = hi - lo, expressible when lo or hi is constant, or both share an atom
			switch {
			case loA == "0":
				bf.addEq(la, lo, hiA, hiO-loO, "len(s[a:b]) = b-a", x)
			case loA == hiA:
				bf.addEq(la, lo, "0", hiO-loO, "len(s[a:b]) = b-a", x)
			default:
				// len <= hi (since lo >= 0)
				bf.addBase(la, lo, hiA, hiO, 0, "len(s[a:b]) <= b", x)
			}
		case *ssa.IndexAddr:
			// an index expression that did not panic: i < len(s) from then on
			if isSliceOrString(x.X.Type()) {
				ia, io := bf.atom(x.Index)
				la, lo := bf.lenAtom(x.X)
				bf.addBase(ia, io+1, la, lo, 0, "s[i] was evaluated: i < len(s)", x)
			}
		case *ssa.Index:
			if isSliceOrString(x.X.Type()) {
				ia, io := bf.atom(x.Index)
				la, lo := bf.lenAtom(x.X)
				bf.addBase(ia, io+1, la, lo, 0, "s[i] was evaluated: i < len(s)", x)
			}
		case *ssa.Lookup:
			if isSliceOrString(x.X.Type()) {
				ia, io := bf.atom(x.Index)
				la, lo := bf.lenAtom(x.X)
				bf.addBase(ia, io+1, la, lo, 0, "s[i] was evaluated: i < len(s)", x)
			}
		case *ssa.MakeSlice:
			la, lo := bf.lenAtom(x)
			a, o := bf.atom(x.Len)
			bf.addEq(la, lo, a, o, "len(make(T, n)) = n", x)
		case *ssa.Call:
			cc := x.Common()
			// the result of a search helper "index of …, or -1": result < len(list)
			// for the list it searched, as long as nothing wrote it since
			if g := cc.StaticCallee(); g != nil && bf.p.inTarget(g) && g != bf.fn {
				if k, fld, ok := bf.indexSummary(g); ok && k < len(cc.Args) && g.Signature.Results().Len() == 1 {
					ra, ro := bf.atom(x)
					eachInstr(bf.fn, func(i2 ssa.Instruction) {
						ld, ok := i2.(*ssa.UnOp)
						if !ok || ld.Op != token.MUL || !isSliceOrString(ld.Type()) {
							return
						}
						fa, ok := ld.X.(*ssa.FieldAddr)
						if !ok || fa.X != cc.Args[k] {
							return
						}
						if _, f2 := fieldRef(fa.X, fa.Field); f2 != fld {
							return
						}
						if !before(x, ld) || bf.writeBetween(x, ld, ld.X) {
							return
						}
						la, lo := bf.lenAtom(ld)
						bf.addBase(ra, ro+1, la, lo, 0, "index returned by "+funcName(g)+" (or -1) is below len of the list it searched", x, ld)
					})
				}
			}
			if b, ok := cc.Value.(*ssa.Builtin); ok && b.Name() == "append" && isSliceOrString(x.Type()) {
				la, lo := bf.lenAtom(x)
				xa, xo := bf.lenAtom(cc.Args[0])
				extra := int64(0)
				exact := false
				if len(cc.Args) > 1 {
					if sl, ok := cc.Args[1].(*ssa.Slice); ok {
						if al, ok := sl.X.(*ssa.Alloc); ok {
							if at, ok := deref(al.Type()).Underlying().(*types.Array); ok && sl.Low == nil && sl.High == nil {
								extra = at.Len()
								exact = true
							}
						}
					}
					// splice: append(x[:a], x[b:]...) => len = len(x) - (b-a)
					if s0, ok := cc.Args[0].(*ssa.Slice); ok && s0.Low == nil && s0.High != nil {
						if s1, ok := cc.Args[1].(*ssa.Slice); ok && s1.High == nil && s1.Low != nil && bf.find(s0.X) == bf.find(s1.X) {
							ha, ho := bf.atom(s0.High)
							wa, wo := bf.atom(s1.Low)
							if ha == wa {
								ba, bo := bf.lenAtom(s0.X)
								bf.addEq(la, lo, ba, bo-(wo-ho), "len(append(x[:a], x[b:]...)) = len(x)-(b-a)", x)
								return
							}
						}
					}
				} else {
					exact = true
				}
				if exact {
					bf.addEq(la, lo, xa, xo+extra, "len(append(x, n elems)) = len(x)+n", x)
				} else {
					bf.addBase(xa, xo, la, lo, 0, "len(append(x, ys...)) >= len(x)", x)
				}
				return
			}
			if sc := cc.StaticCallee(); sc != nil {
				switch fullName(sc) {
				case "strings.Split":
					if sep, ok := constString(cc.Args[1]); ok && sep != "" {
						la, lo := bf.lenAtom(x)
						bf.addBase("0", 1, la, lo, 0, "len(strings.Split(s, non-empty sep)) >= 1", x)
					}
				// documented results of the standard search functions
				case "strings.IndexByte", "strings.LastIndexByte", "strings.IndexRune", "bytes.IndexByte":
					ra, ro := bf.atom(x)
					la, lo := bf.lenAtom(cc.Args[0])
					bf.addBase("0", -1, ra, ro, 0, "index functions return -1 or a valid index: r >= -1", x)
					bf.addBase(ra, ro+1, la, lo, 0, "IndexByte(s, c) < len(s)", x)
				case "strings.Index", "strings.LastIndex":
					ra, ro := bf.atom(x)
					la, lo := bf.lenAtom(cc.Args[0])
					bf.addBase("0", -1, ra, ro, 0, "index functions return -1 or a valid index: r >= -1", x)
					if sub, ok := constString(cc.Args[1]); ok {
						bf.addBase(ra, ro+int64(len(sub)), la, lo, 0, "Index(s, sub) + len(sub) <= len(s)", x)
					} else {
						bf.addBase(ra, ro, la, lo, 0, "Index(s, sub) <= len(s)", x)
					}
				case "reflect.(Value).NumField", "reflect.(Value).Len", "reflect.(Value).NumMethod":
					ra, ro := bf.atom(x)
					bf.addBase("0", 0, ra, ro, 0, "a count reported by reflect is >= 0", x)
				case "strings.Count", "bytes.Count":
					ra, ro := bf.atom(x)
					bf.addBase("0", 0, ra, ro, 0, "Count(...) >= 0", x)
				case "sort.SearchStrings", "sort.SearchInts":
					ra, ro := bf.atom(x)
					la, lo := bf.lenAtom(cc.Args[0])
					bf.addBase("0", 0, ra, ro, 0, "sort.Search* returns an index in [0, len]", x)
					bf.addBase(ra, ro, la, lo, 0, "sort.Search* returns an index in [0, len]", x)
				}
			}
		case *ssa.BinOp:
			if x.Op == token.ADD && isSliceOrString(x.Type()) {
				la, lo := bf.lenAtom(x)
				xa, xo := bf.lenAtom(x.X)
				ya, yo := bf.lenAtom(x.Y)
				switch {
				case xa == "0":
					bf.addEq(la, lo, ya, yo+xo, "len(const+s)", x)
				case ya == "0":
					bf.addEq(la, lo, xa, xo+yo, "len(s+const)", x)
				default:
					bf.addBase(xa, xo, la, lo, 0, "len(a+b) >= len(a)", x)
					bf.addBase(ya, yo, la, lo, 0, "len(a+b) >= len(b)", x)
				}
			}
		case *ssa.Phi:
			bf.inductionFacts(x)
		case *ssa.Convert:
			// unsigned -> signed of a value: non-negative under the no-overflow domain assumption
			if bt, ok := x.X.Type().Underlying().(*types.Basic); ok && bt.Info()&types.IsUnsigned != 0 {
				if rt, ok := x.Type().Underlying().(*types.Basic); ok && rt.Info()&types.IsInteger != 0 && rt.Info()&types.IsUnsigned == 0 {
					a, o := bf.atom(x)
					bf.addBase("0", 0, a, o, 0, "int(unsigned) >= 0 (assuming the value fits, as the property's domain states)", x)
					bf.notes = append(bf.notes, "assumed int("+x.X.Name()+") >= 0 (unsigned value below 2^63)")
				}
			}
		}
	})
}

// inductionFacts: a phi whose self-edges only add a positive (negative)
// constant is bounded below (above) by its initial value.
func (bf *boundsFn) inductionFacts(phi *ssa.Phi) {
	bt, ok := phi.Type().Underlying().(*types.Basic)
	if !ok || bt.Info()&types.IsInteger == 0 {
		return
	}
	pa, _ := bf.atom(phi)
	var inits []ssa.Value
	up, down := true, true
	nself := 0
	for _, e := range phi.Edges {
		a, o := bf.atom(e)
		if a == pa {
			nself++
			if o < 0 {
				up = false
			}
			if o > 0 {
				down = false
			}
			continue
		}
		inits = append(inits, e)
	}
	if nself == 0 || len(inits) == 0 {
		return
	}
	for _, in := range inits {
		ia, io := bf.atom(in)
		_ = ia
		_ = io
	}
	if len(inits) == 1 {
		ia, io := bf.atom(inits[0])
		if up {
			bf.addBase(ia, io, pa, 0, 0, "loop counter only grows from its initial value", phi)
		}
		if down {
			bf.addBase(pa, 0, ia, io, 0, "loop counter only shrinks from its initial value", phi)
		}
	}
}

// edgeConstraints converts the branch outcomes that hold in block b.
func (bf *boundsFn) edgeConstraints(facts []edgeFact) (out []constraint) {
	add := func(a string, ao int64, b string, bo int64, c int64, why string, deps ...ssa.Value) {
		out = append(out, constraint{a: a, b: b, c: c - ao + bo, why: why, deps: deps})
	}
	neq := map[string][]int64{}
	defer func() {
		for atom, vals := range neq {
			lo := int64(0)
			for changed := true; changed; {
				changed = false
				for _, v := range vals {
					if v == lo {
						lo++
						changed = true
					}
				}
			}
			if lo >= 2 {
				out = append(out, constraint{a: "0", b: atom, c: -lo, why: fmt.Sprintf("len differs from 0..%d", lo-1)})
			}
		}
	}()
	for _, f := range expandFacts(facts) {
		switch c := f.Cond.(type) {
		case *ssa.BinOp:
			xt := c.X.Type().Underlying()
			if bt, ok := xt.(*types.Basic); ok && bt.Info()&types.IsInteger != 0 {
				xa, xo := bf.atom(c.X)
				ya, yo := bf.atom(c.Y)
				op := c.Op
				if !f.Truth {
					op = negateCmp(op)
				}
				switch op {
				case token.LSS:
					add(xa, xo, ya, yo, -1, "x<y")
				case token.LEQ:
					add(xa, xo, ya, yo, 0, "x<=y")
				case token.GTR:
					add(ya, yo, xa, xo, -1, "x>y")
				case token.GEQ:
					add(ya, yo, xa, xo, 0, "x>=y")
				case token.EQL:
					add(xa, xo, ya, yo, 0, "x==y")
					add(ya, yo, xa, xo, 0, "x==y")
				case token.NEQ:
					// remembered for tightening: x <= y and x != y give x <= y-1
					out = append(out, constraint{a: xa, b: ya, c: yo - xo, why: "neq", deps: nil, neq: true})
					// x != c where x is a length or unsigned and c == 0: x >= 1
					if ya == "0" && yo == 0 && (strings.HasPrefix(xa, "len:") || bt.Info()&types.IsUnsigned != 0) && xo == 0 {
						add("0", 1, xa, 0, 0, "len != 0")
					}
					if xa == "0" && xo == 0 && strings.HasPrefix(ya, "len:") && yo == 0 {
						add("0", 1, ya, 0, 0, "len != 0")
					}
					// x != c for a length x: remembered; a run 0, 1, …, k-1 of excluded
					// values gives x >= k (an `if len == 0 … if len == 1 …` ladder or the
					// default arm of a switch on the length)
					if ya == "0" && strings.HasPrefix(xa, "len:") {
						neq[xa] = append(neq[xa], yo-xo)
					}
					if xa == "0" && strings.HasPrefix(ya, "len:") {
						neq[ya] = append(neq[ya], xo-yo)
					}
				}
			} else if isSliceOrString(c.X.Type()) && (c.Op == token.EQL || c.Op == token.NEQ) {
				eq := (c.Op == token.EQL) == f.Truth
				for _, pr := range [][2]ssa.Value{{c.X, c.Y}, {c.Y, c.X}} {
					if s, ok := constString(pr[1]); ok {
						la, lo := bf.lenAtom(pr[0])
						if eq {
							add(la, lo, "0", int64(len(s)), 0, "s == const")
							add("0", int64(len(s)), la, lo, 0, "s == const")
						} else if s == "" {
							add("0", 1, la, lo, 0, "s != \"\"")
						}
					}
					if isNilConst(pr[1]) && eq {
						la, lo := bf.lenAtom(pr[0])
						add(la, lo, "0", 0, 0, "slice == nil")
					}
				}
			}
		case *ssa.Extract:
			// found == true for `i, found := g(…)` with g an (index, found) search
			// helper: 0 <= i < len(the list g searched), for loads of that list
			// made after the call with no write in between
			call, ok := c.Tuple.(*ssa.Call)
			if !ok || !f.Truth || c.Index != 1 {
				break
			}
			g := call.Common().StaticCallee()
			if g == nil || !bf.p.inTarget(g) || g == bf.fn || g.Signature.Results().Len() != 2 {
				break
			}
			k, fld, ok := bf.indexSummary(g)
			if !ok || k >= len(call.Common().Args) {
				break
			}
			for _, ref := range *call.Referrers() {
				ex, ok := ref.(*ssa.Extract)
				if !ok || ex.Index != 0 {
					continue
				}
				ra, ro := bf.atom(ex)
				add("0", 0, ra, ro, 0, "index returned with found == true by "+funcName(g)+" is >= 0", ex)
				eachInstr(bf.fn, func(i2 ssa.Instruction) {
					ld, ok := i2.(*ssa.UnOp)
					if !ok || ld.Op != token.MUL || !isSliceOrString(ld.Type()) {
						return
					}
					fa, ok := ld.X.(*ssa.FieldAddr)
					if !ok || fa.X != call.Common().Args[k] {
						return
					}
					if _, f2 := fieldRef(fa.X, fa.Field); f2 != fld {
						return
					}
					if !before(call, ld) || bf.writeBetween(call, ld, ld.X) {
						return
					}
					la, lo := bf.lenAtom(ld)
					add(ra, ro+1, la, lo, 0, "index returned with found == true by "+funcName(g)+" is below len of the list it searched", ex, ld)
				})
			}
		case *ssa.Call:
			if sc := c.Common().StaticCallee(); sc != nil && f.Truth {
				switch fullName(sc) {
				case "strings.HasPrefix", "strings.HasSuffix":
					if s, ok := constString(c.Common().Args[1]); ok {
						la, lo := bf.lenAtom(c.Common().Args[0])
						add("0", int64(len(s)), la, lo, 0, "HasPrefix/HasSuffix(s, const)")
					}
				}
			}
		}
	}
	return out
}

func negateCmp(op token.Token) token.Token {
	switch op {
	case token.LSS:
		return token.GEQ
	case token.LEQ:
		return token.GTR
	case token.GTR:
		return token.LEQ
	case token.GEQ:
		return token.LSS
	case token.EQL:
		return token.NEQ
	case token.NEQ:
		return token.EQL
	}
	return op
}

// ---------------------------------------------------------------------------
// proving

func defDominates(v ssa.Value, at ssa.Instruction) bool {
	ins, ok := v.(ssa.Instruction)
	if !ok {
		return true // params, consts, …
	}
	if ins.Block() == nil || at.Block() == nil {
		return false
	}
	if ins.Block() == at.Block() {
		return instrPos(ins).i < instrPos(at).i
	}
	return ins.Block().Dominates(at.Block())
}

// prove: (a+ao) - (b+bo) <= 0 at instruction `at`, given the facts.
func (bf *boundsFn) prove(a string, ao int64, b string, bo int64, at ssa.Instruction, extra []constraint) bool {
	if bf.prove1(a, ao, b, bo, at, extra) {
		return true
	}
	return bf.proveJoin(a, ao, b, bo, at, 0)
}

// proveJoin: when the left-hand side is a merge phi (not a loop-carried one)
// that dominates the site, the goal holds if it holds for every incoming value
// at the end of its predecessor, under that edge's own branch outcome (SSA
// values are immutable, so what held on the edge still holds at the site).
func (bf *boundsFn) proveJoin(a string, ao int64, b string, bo int64, at ssa.Instruction, depth int) bool {
	if depth > 2 || !strings.HasPrefix(a, "v:") {
		return false
	}
	var phi *ssa.Phi
	for _, blk := range bf.fn.Blocks {
		for _, ins := range blk.Instrs {
			if p2, ok := ins.(*ssa.Phi); ok && "v:"+p2.Name() == a {
				phi = p2
			}
		}
	}
	if phi == nil || !defDominates(phi, at) {
		return false
	}
	// not loop-carried: no incoming value is computed from the phi itself
	for _, e := range phi.Edges {
		if ea, _ := bf.atom(e); ea == a {
			return false
		}
	}
	if l := naturalLoop(phi.Block()); l != nil {
		return false
	}
	// the right-hand side must mean the same on every edge: a value defined
	// before the merge (or a constant)
	for i, e := range phi.Edges {
		pred := phi.Block().Preds[i]
		last := pred.Instrs[len(pred.Instrs)-1]
		var ex []constraint
		if ifi, ok := last.(*ssa.If); ok && pred.Succs[0] != pred.Succs[1] {
			ex = bf.edgeConstraints([]edgeFact{{Cond: ifi.Cond, Truth: pred.Succs[0] == phi.Block(), From: pred}})
		}
		ea, eo := bf.atom(e)
		if !bf.prove1(ea, eo+ao, b, bo, last, ex) && !bf.proveJoin(ea, eo+ao, b, bo, last, depth+1) {
			return false
		}
	}
	return true
}

func (bf *boundsFn) prove1(a string, ao int64, b string, bo int64, at ssa.Instruction, extra []constraint) bool {
	if a == b {
		return ao-bo <= 0
	}
	// collect usable constraints
	var cs []constraint
	use := func(c constraint) {
		for _, d := range c.deps {
			if !defDominates(d, at) {
				return
			}
		}
		cs = append(cs, c)
	}
	for _, c := range bf.base {
		use(c)
	}
	for _, c := range bf.inv {
		use(c)
	}
	cs = append(cs, bf.edgeConstraints(factsAt(at.Block()))...)
	cs = append(cs, extra...)
	// disequalities are kept apart: they only serve to tighten x <= y to x <= y-1
	var neqs []constraint
	{
		kept := cs[:0:0]
		for _, c := range cs {
			if c.neq {
				neqs = append(neqs, c)
			} else {
				kept = append(kept, c)
			}
		}
		cs = kept
	}
	// every length is >= 0
	nodes := map[string]bool{a: true, b: true, "0": true}
	for _, c := range cs {
		nodes[c.a], nodes[c.b] = true, true
	}
	for n := range nodes {
		if strings.HasPrefix(n, "len:") {
			cs = append(cs, constraint{a: "0", b: n, c: 0})
		}
	}
	// Bellman-Ford: dist[x] = tightest bound on x - src
	bellman := func(src string) map[string]int64 {
		dist := map[string]int64{}
		for n := range nodes {
			dist[n] = math.MaxInt64 / 4
		}
		dist[src] = 0
		for i := 0; i < len(nodes)+1; i++ {
			changed := false
			for _, c := range cs {
				// c.a - c.b <= c.c  =>  dist[c.a] <= dist[c.b] + c.c
				if dist[c.b] < math.MaxInt64/8 && dist[c.b]+c.c < dist[c.a] {
					dist[c.a] = dist[c.b] + c.c
					changed = true
				}
			}
			if !changed {
				break
			}
		}
		return dist
	}
	// integer tightening with the disequalities: x - y <= c and x - y != c give
	// x - y <= c-1 (and symmetrically)
	for round := 0; round < 2 && len(neqs) > 0; round++ {
		added := false
		for _, q := range neqs {
			if !nodes[q.a] || !nodes[q.b] {
				nodes[q.a], nodes[q.b] = true, true
			}
			if d := bellman(q.b)[q.a]; d < math.MaxInt64/8 && d == q.c {
				cs = append(cs, constraint{a: q.a, b: q.b, c: q.c - 1, why: "x <= y and x != y"})
				added = true
			}
			if d := bellman(q.a)[q.b]; d < math.MaxInt64/8 && d == -q.c {
				cs = append(cs, constraint{a: q.b, b: q.a, c: -q.c - 1, why: "y <= x and x != y"})
				added = true
			}
		}
		if !added {
			break
		}
	}
	dist := bellman(b)
	// a - b <= dist[a]; need a + ao - b - bo <= 0
	if os.Getenv("DBGPROVE") != "" {
		fmt.Fprintf(os.Stderr, "prove %s%+d <= %s%+d at %s: dist=%d\n", a, ao, b, bo, bf.p.describe(at), dist[a])
		for _, c := range cs {
			fmt.Fprintf(os.Stderr, "   %s - %s <= %d   (%s)\n", c.a, c.b, c.c, c.why)
		}
	}
	return dist[a] < math.MaxInt64/8 && dist[a]+ao-bo <= 0
}

// proveWithPhiSplit: like prove; when the slice operand is a phi, the goal may
// be proved separately for each incoming value under that edge's facts.
func (bf *boundsFn) proveIdx(idxA string, idxO int64, sl ssa.Value, strict bool, at ssa.Instruction) bool {
	la, lo := bf.lenAtom(sl)
	off := int64(0)
	if strict {
		off = 1
	}
	// idx + off <= len
	if bf.prove(idxA, idxO+off, la, lo, at, nil) {
		return true
	}
	return false
}

// ---------------------------------------------------------------------------
// loop invariants i < len(s) for (int phi, slice phi) pairs at one header

func (bf *boundsFn) inferInvariants() {
	for _, b := range bf.fn.Blocks {
		var ints, slices []*ssa.Phi
		for _, ins := range b.Instrs {
			phi, ok := ins.(*ssa.Phi)
			if !ok {
				break
			}
			if bt, ok := phi.Type().Underlying().(*types.Basic); ok && bt.Info()&types.IsInteger != 0 {
				ints = append(ints, phi)
			} else if isSliceOrString(phi.Type()) {
				slices = append(slices, phi)
			}
		}
		for _, ip := range ints {
			for _, sp := range slices {
				for _, k := range []int64{1, 0} { // i + k <= len(s)
					if bf.checkInvariant(b, ip, sp, k) {
						ia, io := bf.atom(ip)
						la, lo := bf.lenAtom(sp)
						bf.inv = append(bf.inv, constraint{a: ia, b: la, c: -k - io + lo, deps: []ssa.Value{ip, sp},
							why: fmt.Sprintf("inductive loop invariant %s+%d <= len(%s)", ip.Name(), k, sp.Name())})
						break
					}
				}
			}
		}
	}
}

// checkInvariant verifies ip + k <= len(sp) on every edge into header b,
// assuming it at the header (induction).
func (bf *boundsFn) checkInvariant(b *ssa.BasicBlock, ip, sp *ssa.Phi, k int64) bool {
	ia, io := bf.atom(ip)
	la, lo := bf.lenAtom(sp)
	hyp := constraint{a: ia, b: la, c: -k - io + lo, deps: []ssa.Value{ip, sp}, why: "induction hypothesis"}
	for idx, pred := range b.Preds {
		iv, sv := ip.Edges[idx], sp.Edges[idx]
		if !bf.proveEdgeGoal(iv, k, sv, pred, b, hyp, 0) {
			return false
		}
	}
	return true
}

// proveEdgeGoal: iv + k <= len(sv) holds at the end of pred (on the edge to succ).
func (bf *boundsFn) proveEdgeGoal(iv ssa.Value, k int64, sv ssa.Value, pred, succ *ssa.BasicBlock, hyp constraint, depth int) bool {
	at := pred.Instrs[len(pred.Instrs)-1]
	extra := []constraint{}
	// the hypothesis is usable only inside the loop (where the header phis are defined and current)
	usable := true
	for _, d := range hyp.deps {
		if !defDominates(d, at) {
			usable = false
		}
	}
	if usable {
		extra = append(extra, hyp)
	}
	// outcome of pred's own branch on this edge
	if ifi, ok := at.(*ssa.If); ok && pred.Succs[0] != pred.Succs[1] {
		extra = append(extra, bf.edgeConstraints([]edgeFact{{Cond: ifi.Cond, Truth: pred.Succs[0] == succ}})...)
	}
	ia, io := bf.atom(iv)
	la, lo := bf.lenAtom(sv)
	if bf.prove(ia, io+k, la, lo, at, extra) {
		return true
	}
	// split on a phi-valued slice (merge of "spliced" and "unchanged")
	if depth < 3 {
		if sphi, ok := sv.(*ssa.Phi); ok && sphi.Block() != succ {
			ok2 := true
			for j, p2 := range sphi.Block().Preds {
				if !bf.proveEdgeGoal(iv, k, sphi.Edges[j], p2, sphi.Block(), hyp, depth+1) {
					ok2 = false
					break
				}
			}
			if ok2 {
				return true
			}
		}
	}
	return false
}

func newBoundsFn(p *Prog, fw *fieldWrites, f *ssa.Function) *boundsFn {
	bf := &boundsFn{p: p, fn: f, fw: fw, parent: map[ssa.Value]ssa.Value{}}
	bf.buildClasses()
	bf.buildBase()
	bf.inferInvariants()
	bf.inferCounterInvariants()
	bf.callerPreconditions()
	return bf
}

// inferCounterInvariants: for a loop counter p (header phi, one initial value,
// every other edge p+1) whose every increment is made where p < L held for
// one and the same length atom L (the loop guard `p < len(x)`, possibly the
// first conjunct of a longer condition), p <= L holds at the header and after
// the loop, provided it holds initially. (L is a canonical length atom: two
// loads of a field share it only when no write lies between them.)
func (bf *boundsFn) inferCounterInvariants() {
	for _, hd := range bf.fn.Blocks {
		loop := naturalLoop(hd)
		if loop == nil {
			continue
		}
		for _, ins := range hd.Instrs {
			phi, ok := ins.(*ssa.Phi)
			if !ok {
				break
			}
			bt, ok := phi.Type().Underlying().(*types.Basic)
			if !ok || bt.Info()&types.IsInteger == 0 {
				continue
			}
			pa, po := bf.atom(phi)
			if po != 0 {
				continue
			}
			var init ssa.Value
			var latches []*ssa.BasicBlock
			good := true
			for k, e := range phi.Edges {
				pred := hd.Preds[k]
				if !loop[pred] {
					if init != nil {
						good = false
					}
					init = e
					continue
				}
				ea, eo := bf.atom(e)
				if ea != pa || eo != 1 {
					good = false
				}
				latches = append(latches, pred)
			}
			if !good || init == nil || len(latches) == 0 {
				continue
			}
			// the length atom of a guard p < len(V) that holds at every latch, V
			// being the same list in every iteration: a value defined outside the
			// loop, or a load of an address that nothing in the loop can write
			invariantList := func(v ssa.Value) bool {
				if ins, ok := v.(ssa.Instruction); ok && ins.Block() != nil && loop[ins.Block()] {
					ld, isLd := v.(*ssa.UnOp)
					if !isLd || ld.Op != token.MUL {
						return false
					}
					if ai, ok := ld.X.(ssa.Instruction); ok && ai.Block() != nil && loop[ai.Block()] {
						// the address itself may be computed in the loop (&s.col): its base must not be
						fa, isFA := ld.X.(*ssa.FieldAddr)
						if !isFA {
							return false
						}
						if bi, ok := fa.X.(ssa.Instruction); ok && bi.Block() != nil && loop[bi.Block()] {
							return false
						}
					}
					for blk := range loop {
						for _, i2 := range blk.Instrs {
							if bf.fw.mayWriteAddr(i2, ld.X) {
								return false
							}
						}
					}
					return true
				}
				return true
			}
			var L string
			found := false
			for li, latch := range latches {
				var cands []string
				for _, ef := range expandFacts(factsAt(latch)) {
					bo, ok := ef.Cond.(*ssa.BinOp)
					if !ok {
						continue
					}
					op := bo.Op
					if !ef.Truth {
						op = negateCmp(op)
					}
					var lenSide, ctrSide ssa.Value
					switch op {
					case token.LSS:
						ctrSide, lenSide = bo.X, bo.Y
					case token.GTR:
						ctrSide, lenSide = bo.Y, bo.X
					default:
						continue
					}
					if ca, co := bf.atom(ctrSide); ca != pa || co != 0 {
						continue
					}
					c, _ := callOf(lenSide)
					if c == nil || builtinName(c.Common()) != "len" || !invariantList(c.Common().Args[0]) {
						continue
					}
					la, lo := bf.lenAtom(c.Common().Args[0])
					if lo == 0 {
						cands = append(cands, la)
					}
				}
				if li == 0 {
					if len(cands) > 0 {
						L, found = cands[0], true
					}
					continue
				}
				ok2 := false
				for _, cd := range cands {
					if cd == L {
						ok2 = true
					}
				}
				if !ok2 {
					found = false
				}
			}
			if !found {
				continue
			}
			// initially: init <= L (at the end of the pre-header)
			ia, io := bf.atom(init)
			holdsInit := false
			if ia == "0" && io <= 0 {
				holdsInit = true // a length is >= 0
			} else {
				for k, pred := range hd.Preds {
					if !loop[pred] && phi.Edges[k] == init {
						holdsInit = bf.prove1(ia, io, L, 0, pred.Instrs[len(pred.Instrs)-1], nil)
					}
				}
			}
			if !holdsInit {
				continue
			}
			bf.inv = append(bf.inv, constraint{a: pa, b: L, c: 0, deps: []ssa.Value{phi},
				why: fmt.Sprintf("loop counter %s is only incremented where %s < %s held: %s <= %s", phi.Name(), phi.Name(), L, phi.Name(), L)})
		}
	}
}

var precondBusy = map[*ssa.Function]bool{}
var precondCache = map[*ssa.Function]*boundsFn{}

// callerPreconditions: a small unexported helper that is only ever called
// directly inherits, for a slice field of one of its pointer parameters that
// it reads before any write, the lower bound on the field's length that EVERY
// call site in the package establishes for that argument (k <= len, k <= 4).
// A phase helper extracted from a function thus keeps the guard its caller
// applies before the call.
func (bf *boundsFn) callerPreconditions() {
	f := bf.fn
	if !smallHelper(f) || bf.p.cg == nil || precondBusy[f] {
		return
	}
	calls := bf.p.cg.callers[f]
	if len(calls) == 0 {
		return
	}
	for _, vf := range bf.p.cg.valueFuncs {
		if vf == f {
			return // used as a value: unknown callers
		}
	}
	precondBusy[f] = true
	defer func() { precondBusy[f] = false }()
	// relation between two list parameters: len(a) <= len(b) when every call
	// site proves it for the two arguments at the call
	for ia, pa := range f.Params {
		for ib, pb := range f.Params {
			if ia == ib || !isSliceOrString(pa.Type()) || !isSliceOrString(pb.Type()) {
				continue
			}
			all := true
			for _, c := range calls {
				caller := c.Parent()
				cc, isCall := c.(*ssa.Call)
				if !isCall || caller == nil || caller == f || precondBusy[caller] || c.Common().IsInvoke() || c.Common().StaticCallee() != f || ia >= len(c.Common().Args) || ib >= len(c.Common().Args) {
					all = false
					break
				}
				cbf, ok := precondCache[caller]
				if !ok {
					cbf = newBoundsFn(bf.p, bf.fw, caller)
					precondCache[caller] = cbf
				}
				la, lo := cbf.lenAtom(c.Common().Args[ia])
				lb, lob := cbf.lenAtom(c.Common().Args[ib])
				if !cbf.prove(la, lo, lb, lob, cc, nil) {
					all = false
					break
				}
			}
			if all {
				la, lo := bf.lenAtom(pa)
				lb, lob := bf.lenAtom(pb)
				bf.addBase(la, lo, lb, lob, 0, fmt.Sprintf("every call of %s passes lists with len(%s) <= len(%s)", funcName(f), pa.Name(), pb.Name()))
			}
		}
	}
	first := f.Blocks[0].Instrs[0]
	eachInstr(f, func(ins ssa.Instruction) {
		ld, ok := ins.(*ssa.UnOp)
		if !ok || ld.Op != token.MUL || !isSliceOrString(ld.Type()) {
			return
		}
		fa, ok := ld.X.(*ssa.FieldAddr)
		if !ok {
			return
		}
		pi := -1
		for i, prm := range f.Params {
			if fa.X == ssa.Value(prm) {
				pi = i
			}
		}
		if pi < 0 {
			return
		}
		if ssa.Instruction(ld) != first && bf.writeBetween(first, ld, ld.X) {
			return
		}
		best := int64(99)
		for _, c := range calls {
			caller := c.Parent()
			if caller == nil || caller == f || pi >= len(c.Common().Args) || precondBusy[caller] || c.Common().IsInvoke() || c.Common().StaticCallee() != f {
				return
			}
			if _, isCall := c.(*ssa.Call); !isCall {
				return // go / defer: runs later
			}
			cbf, ok := precondCache[caller]
			if !ok {
				cbf = newBoundsFn(bf.p, bf.fw, caller)
				precondCache[caller] = cbf
			}
			arg := c.Common().Args[pi]
			k := int64(0)
			eachInstr(caller, func(i2 ssa.Instruction) {
				ld2, ok := i2.(*ssa.UnOp)
				if !ok || ld2.Op != token.MUL || !isSliceOrString(ld2.Type()) {
					return
				}
				fa2, ok := ld2.X.(*ssa.FieldAddr)
				if !ok || fa2.X != arg || fa2.Field != fa.Field {
					return
				}
				ci, isIns := c.(ssa.Instruction)
				if !isIns || !before(ld2, ci) || cbf.writeBetween(ld2, ci, ld2.X) {
					return
				}
				la, lo := cbf.lenAtom(ld2)
				for kk := int64(4); kk >= 1; kk-- {
					if cbf.prove("0", kk, la, lo, ci, nil) {
						if kk > k {
							k = kk
						}
						break
					}
				}
			})
			if k < best {
				best = k
			}
		}
		if best >= 1 && best < 99 {
			la, lo := bf.lenAtom(ld)
			bf.addBase("0", best, la, lo, 0, fmt.Sprintf("every call of %s establishes len >= %d for this field of the argument", funcName(f), best), ld)
		}
	})
}

// spillOf: the local variable a value receiver/parameter was spilled to
// (t0 = local T; *t0 = param), if v is such a variable.
func isParamOrSpill(v ssa.Value, prm *ssa.Parameter) bool {
	if v == ssa.Value(prm) {
		return true
	}
	al, ok := v.(*ssa.Alloc)
	if !ok {
		return false
	}
	n := 0
	good := false
	for _, ref := range referrers(al) {
		if st, ok := ref.(*ssa.Store); ok && st.Addr == ssa.Value(al) {
			n++
			good = st.Val == ssa.Value(prm)
		}
	}
	return n == 1 && good
}

// paramField: v reads field f of the function's first parameter (directly,
// through its address, or through the local it was spilled to).
func paramField(v ssa.Value, g *ssa.Function) (int, bool) {
	if len(g.Params) == 0 {
		return 0, false
	}
	switch x := v.(type) {
	case *ssa.Field:
		if x.X == ssa.Value(g.Params[0]) {
			return x.Field, true
		}
		if ld, ok := x.X.(*ssa.UnOp); ok && ld.Op == token.MUL && isParamOrSpill(ld.X, g.Params[0]) {
			return x.Field, true
		}
	case *ssa.UnOp:
		if x.Op != token.MUL {
			return 0, false
		}
		if fa, ok := x.X.(*ssa.FieldAddr); ok && isParamOrSpill(fa.X, g.Params[0]) {
			return fa.Field, true
		}
	}
	return 0, false
}

func singleAssignment(al *ssa.Alloc) bool {
	n := 0
	for _, ref := range referrers(al) {
		switch x := ref.(type) {
		case *ssa.Store:
			if x.Addr == ssa.Value(al) {
				n++
			}
		case *ssa.MakeClosure:
			fn := x.Fn.(*ssa.Function)
			for k, b := range x.Bindings {
				if b == ssa.Value(al) && !freeVarNeverStored(fn.FreeVars[k]) {
					return false
				}
			}
		case *ssa.UnOp, *ssa.DebugRef:
		default:
			return false
		}
	}
	return n == 1
}

func freeVarNeverStored(fv *ssa.FreeVar) bool {
	for _, ref := range referrers(fv) {
		switch x := ref.(type) {
		case *ssa.Store:
			if x.Addr == ssa.Value(fv) {
				return false
			}
		case *ssa.UnOp, *ssa.DebugRef:
		default:
			return false
		}
	}
	return true
}

// chainAddrs: the addresses that are loaded on the way to addr
// (for &(*(&x.f)).g it returns [&x.f]).
func chainAddrs(addr ssa.Value) []ssa.Value {
	var out []ssa.Value
	v := addr
	for i := 0; i < 8; i++ {
		switch x := v.(type) {
		case *ssa.FieldAddr:
			v = x.X
		case *ssa.IndexAddr:
			v = x.X
		case *ssa.UnOp:
			if x.Op != token.MUL {
				return out
			}
			out = append(out, x.X)
			v = x.X
		default:
			return out
		}
	}
	return out
}

// indexSummary: g returns an int that is either a negative constant or an
// index proved (by g's own facts) to be below the length of the list held in
// field fld of g's parameter k, which g does not write. Cached per function.
var indexSummaries = map[*ssa.Function][3]interface{}{}

func (bf *boundsFn) indexSummary(g *ssa.Function) (int, string, bool) {
	if v, ok := indexSummaries[g]; ok {
		return v[0].(int), v[1].(string), v[2].(bool)
	}
	indexSummaries[g] = [3]interface{}{0, "", false} // recursion guard
	res := func(k int, f string, ok bool) (int, string, bool) {
		indexSummaries[g] = [3]interface{}{k, f, ok}
		return k, f, ok
	}
	nres := 0
	if g.Signature.Results() != nil {
		nres = g.Signature.Results().Len()
	}
	if g.Blocks == nil || nres < 1 || nres > 2 || len(g.Blocks) > 20 {
		return res(0, "", false)
	}
	if bt, ok := g.Signature.Results().At(0).Type().Underlying().(*types.Basic); !ok || bt.Kind() != types.Int {
		return res(0, "", false)
	}
	// the (index, found) shape: returns whose second result is the constant
	// false are the not-found returns; the others must carry a proved index
	// that is also proved non-negative
	tuple := nres == 2
	if tuple {
		if bt, ok := g.Signature.Results().At(1).Type().Underlying().(*types.Basic); !ok || bt.Kind() != types.Bool {
			return res(0, "", false)
		}
	}
	// candidate lists: loads of a slice field of a parameter
	type cand struct {
		k   int
		fld string
		ld  *ssa.UnOp
	}
	var cands []cand
	wrote := map[string]bool{}
	eachInstr(g, func(ins ssa.Instruction) {
		switch x := ins.(type) {
		case *ssa.UnOp:
			if x.Op != token.MUL || !isSliceOrString(x.Type()) {
				return
			}
			if fa, ok := x.X.(*ssa.FieldAddr); ok {
				for k, prm := range g.Params {
					if fa.X == ssa.Value(prm) {
						_, f := fieldRef(fa.X, fa.Field)
						cands = append(cands, cand{k, f, x})
					}
				}
			}
		case *ssa.Store:
			if fa, ok := x.Addr.(*ssa.FieldAddr); ok {
				_, f := fieldRef(fa.X, fa.Field)
				wrote[f] = true
			}
		case *ssa.Call:
			if x.Common().StaticCallee() == nil || bf.p.inTarget(x.Common().StaticCallee()) || x.Common().IsInvoke() {
				// calls into the package or through interfaces could write the list
				if b := builtinName(x.Common()); b == "" {
					if sc := x.Common().StaticCallee(); sc == nil || bf.p.inTarget(sc) {
						wrote["*"] = true
					}
				}
			}
		}
	})
	if len(cands) == 0 {
		return res(0, "", false)
	}
	gbf := newBoundsFn(bf.p, bf.fw, g)
	for _, c := range cands {
		if wrote[c.fld] {
			continue
		}
		okAll, n, nIdx := true, 0, 0
		for _, b := range g.Blocks {
			ret, ok := b.Instrs[len(b.Instrs)-1].(*ssa.Return)
			if !ok {
				continue
			}
			n++
			if tuple {
				if c, ok := ret.Results[1].(*ssa.Const); ok && c.Value != nil && c.Value.Kind() == constant.Bool {
					if !constant.BoolVal(c.Value) {
						continue
					}
				} else {
					okAll = false
					continue
				}
			} else if cv, ok := constInt(ret.Results[0]); ok {
				if cv >= 0 {
					okAll = false
				}
				continue
			}
			nIdx++
			ia, io := gbf.atom(ret.Results[0])
			if tuple && !gbf.prove("0", 0, ia, io, ret, nil) {
				okAll = false
			}
			// every load of that field in g that is current at the return
			proved := false
			for _, c2 := range cands {
				if c2.k == c.k && c2.fld == c.fld {
					la, lo := gbf.lenAtom(c2.ld)
					if gbf.prove(ia, io+1, la, lo, ret, nil) {
						proved = true
					}
				}
			}
			if !proved {
				okAll = false
			}
		}
		if okAll && n > 0 && nIdx > 0 {
			return res(c.k, c.fld, true)
		}
	}
	return res(0, "", false)
}
