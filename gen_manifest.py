#!/usr/bin/env python3
"""Regenerates MANIFEST.json from manifest_src.json (claims) and properties.jsonl.
Every property that has no entry in manifest_src.json["claims"] is listed under
not_applicable with the reason given in manifest_src.json["not_applicable"]
(or "check not built yet")."""
import json, sys
props=[json.loads(l) for l in open('/verif/properties.jsonl')]
src=json.load(open('/verif/manifest_src.json'))
ENV="GOFLAGS=-mod=mod GOPROXY=off GOSUMDB=off GOTOOLCHAIN=local GOWORK=off"
m={
 "version":1,
 "setup_cmd": f"cd /verif/checker && {ENV} go build -o /verif/bin/verifchk .",
 "hooks":{
  "guard":"verif",
  "enable":"none needed: the checks are static analyses of /repo's working tree; no instrumentation is compiled in",
  "baseline_off_cmd":"cd /repo && GOFLAGS=-mod=mod GOPROXY=off GOSUMDB=off go test -vet=off -count=1 -timeout 25m ./...",
  "source_commits":[],
  "add_only":True
 },
 "engines":[{"name":"verifchk","path":"/verif/checker","serves_properties":sorted(src["claims"].keys()),
   "kind_free_text":"custom static analyser (go/packages + go/types + go/ssa, package-local call graph, dominator/edge-fact engine, difference-bound bounds prover, effect summaries); one process per property"}],
 "checks":[],
 "not_applicable":[],
 "notes":src.get("notes","")
}
for p in props:
    pid=p["id"]
    c=src["claims"].get(pid)
    if c is None:
        m["not_applicable"].append({"property_id":pid,"reason":src.get("not_applicable",{}).get(pid,"check not built yet (work in progress; see DESIGN.md section 3 for the planned structural clauses)")})
        continue
    m["checks"].append({
      "property_id":pid,
      "quick_cmd":f"/verif/bin/verifchk -prop {pid} -tier quick",
      "thorough_cmd":f"/verif/bin/verifchk -prop {pid} -tier thorough",
      "evidence_file":f"/verif/evidence/{pid}.json",
      "replay_cmd_template":"/verif/bin/verifchk -replay {path}",
      "engine":"verifchk",
      "level_claimed":{"category":"other","text":c["text"],"design_ref":c.get("design_ref","DESIGN.md section 3, "+pid)},
      "level_note":c["note"],
      "technique":c["technique"],
    })
json.dump(m,open('/verif/MANIFEST.json','w'),indent=1)
print("checks:",len(m["checks"]),"not_applicable:",len(m["not_applicable"]))
